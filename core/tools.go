//go:build tools

package core

import (
	_ "github.com/anishathalye/porcupine"
	_ "pgregory.net/rapid"
)
