package schema

import (
	"regexp"
	"fmt"
	"strings"

	"pgregory.net/rapid"
)

// ManifestOpts steer the random manifest grammar of C12.
type ManifestOpts struct {
	// IdentifierStress adds the class of legal-but-awkward Pegasus identifiers (leading underscore / dollar,
	// Go keywords, names of generated methods). Failures there are attributable to that class.
	IdentifierStress bool
	MaxTypes         int
}

var plainFieldNames = []string{"a", "b", "id", "name", "value", "count", "items", "byKey", "kind", "flag", "data", "ref", "opt", "x1", "camelCase", "snake_case", "UPPER", "t"}
var stressFieldNames = []string{"type", "func", "map", "range", "interface", "_lead", "a_b", "x1", "string", "error", "nil", "len", "select", "go", "package", "receiver", "reader", "writer", "err"}
// (names of generated methods - equals, computeHash, marshalRestLi ... - as field names are the open known finding
// KF-C12-field-method-clash and are kept out of the grammar; the witness test covers them)
var plainTypeNames = []string{"Alpha", "Beta", "Gamma", "Delta", "Node", "Item", "Config", "Status", "Same", "Same", "Key", "Value", "Thing"}
// (names ending in a GOOS / GOARCH / test word: a generator deriving file names from them must not trip file-name build constraints)
var stressTypeNames = []string{"ClientAndroid", "ClientWindows", "FooLinux", "BarAmd64", "BazTest", "ThingIos", "Type", "Client", "Resource", "Elements", "Reader", "String", "Error", "PartialUpdate", "RequiredFields"}
// ("k.one" / "k.one.deep" share their last segments with "g.one" / "g.one.deep": prefixes chosen for clashing names must not depend on iteration order)
var namespaces = []string{"g.one", "g.two", "g.one.deep", "g.internal.x", "h", "k.one", "k.one.deep"}

// RandomManifest draws a well-formed schema set: records (fields of every type constructor, optional / default,
// includes), enums, fixed, typerefs, unions (incl. nullable and single-member), complex keys, resources with any
// mix of methods, several namespaces with cross references (cycles between namespaces and clashing type names
// included).
func RandomManifest(t *rapid.T, root string, o ManifestOpts) *Schema {
	s := &Schema{PackageRoot: root}
	max := o.MaxTypes
	if max == 0 {
		max = 10
	}
	n := rapid.IntRange(1, max).Draw(t, "ntypes")
	used := map[Ident]bool{}
	newIdent := func() Ident {
		for i := 0; ; i++ {
			names := plainTypeNames
			if o.IdentifierStress && rapid.IntRange(0, 3).Draw(t, "stressname") == 0 {
				names = stressTypeNames
			}
			id := Ident{Name: rapid.SampledFrom(names).Draw(t, "tname"), Namespace: rapid.SampledFrom(namespaces).Draw(t, "ns")}
			if i > 5 {
				id.Name = fmt.Sprintf("%s%d", id.Name, i)
			}
			if !used[id] {
				used[id] = true
				return id
			}
		}
	}
	// first decide identities and kinds so that references can point forwards (cycles)
	type planned struct {
		id   Ident
		kind string
		size int    // fixed
		prim string // typeref
		// custom: the typeref is a custom typeref (v2): the manifest marks it isCustom and a hand-written <Name>.go beside the
		// generated code provides the type and its Marshal / Unmarshal / Equals / ComputeHash functions (CustomTyperefSource)
		custom bool
	}
	var plan []planned
	for i := 0; i < n; i++ {
		kind := rapid.SampledFrom([]string{"record", "record", "record", "record", "enum", "fixed", "typeref", "union"}).Draw(t, "kind")
		pl := planned{id: newIdent(), kind: kind}
		switch kind {
		case "fixed":
			pl.size = rapid.IntRange(1, 16).Draw(t, "size")
		case "typeref":
			pl.prim = rapid.SampledFrom(Prims).Draw(t, "trprim")
			pl.custom = rapid.IntRange(0, 2).Draw(t, "trcustom") == 0
		}
		plan = append(plan, pl)
	}
	var recordIDs, anyIDs, leafIDs []Ident
	for _, p := range plan {
		anyIDs = append(anyIDs, p.id)
		if p.kind == "record" {
			recordIDs = append(recordIDs, p.id)
		}
		if p.kind == "enum" || p.kind == "fixed" || p.kind == "typeref" {
			leafIDs = append(leafIDs, p.id)
		}
	}
	kindOf := map[Ident]string{}
	planOf := map[Ident]planned{}
	for _, p := range plan {
		kindOf[p.id] = p.kind
		planOf[p.id] = p
	}
	var typ func(depth int, self Ident, allowDirectRecord bool) Type
	typ = func(depth int, self Ident, allowDirectRecord bool) Type {
		switch k := rapid.IntRange(0, 9).Draw(t, "tk"); {
		case k <= 3:
			return P(rapid.SampledFrom(Prims).Draw(t, "prim"))
		case k == 4 && depth < 2:
			return A(typ(depth+1, self, true))
		case k == 5 && depth < 2:
			return M(typ(depth+1, self, true))
		case k <= 7 && len(leafIDs) > 0:
			return RI(rapid.SampledFrom(leafIDs).Draw(t, "leafref"))
		default:
			if len(anyIDs) == 0 {
				return P("string")
			}
			id := rapid.SampledFrom(anyIDs).Draw(t, "ref")
			if (kindOf[id] == "record" || kindOf[id] == "union") && !allowDirectRecord {
				// a required direct record / union field may close an infinite value cycle: reach it through a container
				return A(RI(id))
			}
			return RI(id)
		}
	}
	// default literals: every primitive incl. extremes and escapes, enums, fixed (one character per byte, code points
	// up to U+00FF when the field is of the fixed / bytes type itself), typerefs, arrays and maps of those (nested,
	// empty and non-empty); records and unions get no default (the field becomes optional instead)
	var lit func(ty Type, depth int) (string, bool)
	lit = func(ty Type, depth int) (string, bool) {
		switch {
		case ty.Prim == "int32":
			return rapid.SampledFrom([]string{"0", "7", "-9", "2147483647", "-2147483648"}).Draw(t, "di"), true
		case ty.Prim == "int64":
			return rapid.SampledFrom([]string{"0", "7", "-9", "9223372036854775807", "-9223372036854775808", "4294967296"}).Draw(t, "dl"), true
		case ty.Prim == "float32":
			return rapid.SampledFrom([]string{"1.5", "0", "-2", "1e10"}).Draw(t, "df"), true
		case ty.Prim == "float64":
			return rapid.SampledFrom([]string{"1.5", "0", "-2.25", "1e21", "1e-7"}).Draw(t, "dd"), true
		case ty.Prim == "bool":
			return rapid.SampledFrom([]string{"true", "false"}).Draw(t, "db"), true
		case ty.Prim == "string":
			return rapid.SampledFrom([]string{`"d"`, `""`, `"a\"b"`, `"é"`, `"a\\b\n"`, `"(x:'y')"`}).Draw(t, "ds"), true
		case ty.Prim == "bytes":
			if depth == 0 {
				return rapid.SampledFrom([]string{`"xy"`, `""`, `"\u0000\u00ff"`, `"a\"b"`}).Draw(t, "dby"), true
			}
			return rapid.SampledFrom([]string{`"xy"`, `""`}).Draw(t, "dby"), true
		case ty.Array != nil:
			n := rapid.IntRange(0, 2).Draw(t, "dan")
			items := []string{}
			for i := 0; i < n; i++ {
				x, ok := lit(*ty.Array, depth+1)
				if !ok {
					return "[]", true
				}
				items = append(items, x)
			}
			return "[" + strings.Join(items, ",") + "]", true
		case ty.Map != nil:
			n := rapid.IntRange(0, 2).Draw(t, "dmn")
			items := []string{}
			for i := 0; i < n; i++ {
				x, ok := lit(*ty.Map, depth+1)
				if !ok {
					return "{}", true
				}
				items = append(items, fmt.Sprintf("%q:%s", []string{"k", "a b"}[i], x))
			}
			return "{" + strings.Join(items, ",") + "}", true
		}
		if ty.Ref != nil {
			pl := planOf[*ty.Ref]
			switch pl.kind {
			case "enum":
				return `"S0"`, true
			case "fixed":
				b := strings.Repeat("a", pl.size)
				if depth == 0 && rapid.Bool().Draw(t, "dfxhi") {
					b = `\u00ff` + b[1:]
				}
				return `"` + b + `"`, true
			case "typeref":
				return lit(P(pl.prim), depth)
			}
		}
		return "", false
	}
	defaultFor := func(ty Type) *string {
		if x, ok := lit(ty, 0); ok {
			return &x
		}
		return nil
	}
	for _, p := range plan {
		nm := &Named{Ident: p.id, Kind: p.kind}
		switch p.kind {
		case "record":
			nf := rapid.IntRange(0, 5).Draw(t, "nf")
			seen := map[string]bool{}
			// includes: earlier records only (acyclic), at most 2, no field clashes (fields get a per-record suffix when included)
			embedded := map[string]bool{} // names of (transitively) embedded structs
			var embeddedNames func(id Ident, into map[string]bool)
			embeddedNames = func(id Ident, into map[string]bool) {
				into[id.Name] = true
				for _, i := range s.Lookup(id).Includes {
					embeddedNames(i, into)
				}
			}
			for _, o := range s.Types {
				if o.Kind == "record" && len(nm.Includes) < 2 && rapid.IntRange(0, 5).Draw(t, "inc") == 0 {
					clash := false
					for _, f := range s.AllFields(o) {
						if seen[f.Name] {
							clash = true
						}
					}
					// embedded struct names must be distinct from each other and from every exported field name: known
					// finding KF-C12-include-field-clash (witnesses in the C12 harness), kept out of the grammar
					mine := map[string]bool{}
					embeddedNames(o.Ident, mine)
					for n := range mine {
						if embedded[n] || seen[n] {
							clash = true
						}
					}
					for _, f := range s.AllFields(o) {
						if embedded[Exported(f.Name)] || mine[Exported(f.Name)] {
							clash = true
						}
					}
					if !clash {
						nm.Includes = append(nm.Includes, o.Ident)
						for n := range mine {
							embedded[n] = true
						}
						for _, f := range s.AllFields(o) {
							seen[f.Name] = true
							seen[Exported(f.Name)] = true
						}
					}
				}
			}
			for j := 0; j < nf; j++ {
				names := plainFieldNames
				if o.IdentifierStress && rapid.IntRange(0, 2).Draw(t, "stressfield") == 0 {
					names = stressFieldNames
				}
				name := rapid.SampledFrom(names).Draw(t, "fname")
				if seen[name] || seen[Exported(name)] {
					name = fmt.Sprintf("%s%d", name, j)
					if seen[name] {
						continue
					}
				}
				// a field whose exported name equals the name of an included record collides with the embedded struct field:
				// known finding KF-C12-include-field-clash (witness in the C12 harness), kept out of the grammar
				if embedded[Exported(name)] {
					continue
				}
				seen[name] = true
				seen[Exported(name)] = true
				f := Field{Name: name}
				switch rapid.IntRange(0, 3).Draw(t, "fmode") {
				case 0:
					f.Type = typ(0, p.id, false)
				case 1:
					f.Type = typ(0, p.id, true)
					f.Optional = true
				case 2:
					f.Type = typ(0, p.id, true)
					if d := defaultFor(f.Type); d != nil {
						f.Default = d
					} else {
						f.Optional = true
					}
				default:
					f.Type = typ(0, p.id, false)
				}
				nm.Fields = append(nm.Fields, f)
			}
		case "enum":
			ns := rapid.IntRange(1, 4).Draw(t, "nsym")
			for j := 0; j < ns; j++ {
				nm.Symbols = append(nm.Symbols, fmt.Sprintf("S%d", j))
			}
			if o.IdentifierStress && rapid.Bool().Draw(t, "stresssym") {
				nm.Symbols = append(nm.Symbols, rapid.SampledFrom([]string{"lower", "_X", "$Y", "type", "unknown"}).Draw(t, "sym"))
			}
		case "fixed":
			nm.Size = p.size
		case "typeref":
			nm.Prim = p.prim
			nm.Custom = p.custom
		case "union":
			nmem := rapid.IntRange(1, 4).Draw(t, "nmem")
			nm.HasNull = rapid.Bool().Draw(t, "hasnull")
			seen := map[string]bool{}
			for j := 0; j < nmem; j++ {
				mt := typ(1, p.id, true)
				alias := ""
				switch {
				case rapid.IntRange(0, 2).Draw(t, "aliased") == 0:
					alias = fmt.Sprintf("m%d", j)
				case mt.Prim != "":
					alias = map[string]string{"int32": "int", "int64": "long", "float32": "float", "float64": "double", "bool": "boolean", "string": "string", "bytes": "bytes"}[mt.Prim]
				case mt.Array != nil:
					alias = "array"
				case mt.Map != nil:
					alias = "map"
				default:
					alias = mt.Ref.Full()
				}
				if seen[MemberField(alias)] {
					continue
				}
				seen[MemberField(alias)] = true
				nm.Members = append(nm.Members, Member{Type: mt, Alias: alias})
			}
			if len(nm.Members) == 0 {
				nm.Members = []Member{{P("string"), "string"}}
			}
		}
		s.Add(nm)
	}
	// resources
	nres := rapid.IntRange(0, 3).Draw(t, "nres")
	for i := 0; i < nres && len(recordIDs) > 0; i++ {
		name := fmt.Sprintf("res%d", i)
		rns := "r." + name
		ent := RI(rapid.SampledFrom(recordIDs).Draw(t, "ent"))
		var r *Resource
		switch rapid.IntRange(0, 4).Draw(t, "rkind") {
		case 0:
			r = simple(rns, nil, name, tp(ent))
			for _, m := range restMethodsSimple {
				if rapid.Bool().Draw(t, "has") {
					r.Methods = append(r.Methods, Method{Kind: "REST_METHOD", Name: m})
				}
			}
		case 1:
			r = simple(rns, nil, name, nil)
		case 2:
			// complex key
			ck := &Named{Ident: Ident{Exported(name) + "_ComplexKey", rns}, Kind: "complexkey"}
			k := rapid.SampledFrom(recordIDs).Draw(t, "ckkey")
			pr := rapid.SampledFrom(recordIDs).Draw(t, "ckparams")
			ck.Key, ck.Params = &k, &pr
			s.Add(ck)
			r = collection(rns, nil, name, "key", RI(ck.Ident), ent)
		default:
			keys := []Type{P("string"), P("int32"), P("int64"), P("bool"), P("float64")}
			for _, l := range leafIDs {
				if kindOf[l] == "enum" || (kindOf[l] == "typeref" && s.Lookup(l).Prim != "bytes") {
					keys = append(keys, RI(l))
				}
			}
			r = collection(rns, nil, name, "key", rapid.SampledFrom(keys).Draw(t, "key"), ent)
		}
		if r.Last().Key != nil {
			for _, m := range restMethodsCollection {
				if rapid.IntRange(0, 2).Draw(t, "has") > 0 {
					mm := Method{Kind: "REST_METHOD", Name: m, OnEntity: onEntity(m), ReturnEntity: (m == "create" || m == "batch_create" || m == "partial_update") && rapid.Bool().Draw(t, "re")}
					if rapid.IntRange(0, 3).Draw(t, "hp") == 0 {
						mm.Params = []Field{{Name: "p", Type: typ(1, Ident{}, true), Optional: rapid.Bool().Draw(t, "po")}}
					}
					mm.Paging = m == "get_all" && rapid.Bool().Draw(t, "paging")
					r.Methods = append(r.Methods, mm)
				}
			}
			if rapid.Bool().Draw(t, "finder") {
				f := Method{Kind: "FINDER", Name: "search", Return: tp(ent), Paging: rapid.Bool().Draw(t, "fp")}
				if rapid.Bool().Draw(t, "fparams") {
					f.Params = []Field{{Name: "q1", Type: typ(1, Ident{}, true)}, {Name: "q2", Type: P("string"), Optional: true}}
				}
				if rapid.IntRange(0, 2).Draw(t, "meta") == 0 {
					f.Metadata = tp(RI(rapid.SampledFrom(recordIDs).Draw(t, "metarec")))
				}
				r.Methods = append(r.Methods, f)
			}
		}
		na := rapid.IntRange(0, 2).Draw(t, "nact")
		if len(r.Methods) == 0 && na == 0 {
			na = 1
		}
		for j := 0; j < na; j++ {
			a := Method{Kind: "ACTION", Name: fmt.Sprintf("act%d", j), OnEntity: r.Last().Key != nil && rapid.Bool().Draw(t, "ae")}
			if rapid.Bool().Draw(t, "ap") {
				a.Params = []Field{{Name: "arg", Type: typ(1, Ident{}, true), Optional: rapid.Bool().Draw(t, "ao")}}
			}
			if rapid.Bool().Draw(t, "ar") {
				a.Return = tp(typ(1, Ident{}, true))
			}
			r.Methods = append(r.Methods, a)
		}
		// read-only / create-only annotations over the entity's fields (any mix, also one kind without the other)
		if r.Schema != nil && r.Schema.Ref != nil && rapid.Bool().Draw(t, "annotated") {
			var names []string
			for _, f := range s.AllFields(s.Lookup(*r.Schema.Ref)) {
				names = append(names, f.Name)
			}
			for _, nm := range names {
				switch rapid.IntRange(0, 4).Draw(t, "ann") {
				case 0:
					r.ReadOnly = append(r.ReadOnly, nm)
				case 1:
					r.CreateOnly = append(r.CreateOnly, nm)
				}
			}
		}
		s.Resources = append(s.Resources, r)
	}
	return s
}

// CustomTyperefSource is the hand-written implementation of a custom typeref, in the shape of upstream's example
// (internal/tests/testdata/generated_extras/extras/Temperature.go): a named type over the primitive and the four functions
// the generated code refers to, plus Pointer().
var nsEscape = regexp.MustCompile("([/.])_?internal([/.]?)")

// NamespaceDir is the directory (relative to the output directory) in which the v2 generator puts - and looks for - the files
// of a namespace: dots become slashes, a segment `internal` that is not the first one is written `_internal`
// (codegen/utils FqcpToPackagePath).
func NamespaceDir(ns string) string {
	return strings.ReplaceAll(nsEscape.ReplaceAllString(ns, "${1}_internal${2}"), ".", "/")
}

// CaseInsensitiveTyperef is the name of the custom typeref of the resource corpus whose values are equal up to case.
const CaseInsensitiveTyperef = "CaseId"

func CustomTyperefSource(root string, n *Named, fnv1aImport string) string {
	gt := map[string]string{"int32": "int32", "int64": "int64", "float32": "float32", "float64": "float64", "bool": "bool", "string": "string", "bytes": "[]byte"}[n.Prim]
	hn := map[string]string{"int32": "Int32", "int64": "Int64", "float32": "Float32", "float64": "Float64", "bool": "Bool", "string": "String", "bytes": "Bytes"}[n.Prim]
	var b strings.Builder
	fmt.Fprintf(&b, "package %s\n\n// hand-written custom typeref (verif)\n\nimport (\n", PackageName(PackagePath(root, n.Namespace)))
	eq := "a == b"
	hashArg := fmt.Sprintf("%s(v)", gt)
	if n.Prim == "bytes" {
		b.WriteString("\t\"bytes\"\n\n")
		eq = "bytes.Equal(a, b)"
	}
	if n.Name == CaseInsensitiveTyperef && n.Prim == "string" {
		// an identifier type that compares without regard to case: equality and hash are coarser than ==
		b.WriteString("\t\"strings\"\n\n")
		eq = "strings.EqualFold(string(a), string(b))"
		hashArg = "strings.ToLower(string(v))"
	}
	fmt.Fprintf(&b, "\t%q\n)\n\n", fnv1aImport)
	N := n.Name
	fmt.Fprintf(&b, "type %s %s\n\n", N, gt)
	fmt.Fprintf(&b, "func Marshal%s(v %s) (%s, error) { return %s(v), nil }\n\n", N, N, gt, gt)
	fmt.Fprintf(&b, "func Unmarshal%s(p %s) (%s, error) { return %s(p), nil }\n\n", N, gt, N, N)
	fmt.Fprintf(&b, "func Equals%s(a, b %s) bool { return %s }\n\n", N, N, eq)
	fmt.Fprintf(&b, "func ComputeHash%s(v %s) fnv1a.Hash { return fnv1a.Hash%s(%s) }\n\n", N, N, hn, hashArg)
	fmt.Fprintf(&b, "func (v %s) Pointer() *%s { return &v }\n", N, N)
	return b.String()
}
