package schema

import (
	"encoding/json"
	"fmt"

	"pgregory.net/rapid"
)

func sp(s string) *string { return &s }

// isASCII reports whether a JSON string literal denotes only code points below U+0080 (non-string literals: true).
func isASCII(lit string) bool {
	var s string
	if json.Unmarshal([]byte(lit), &s) != nil {
		return true
	}
	for _, r := range s {
		if r >= 0x80 {
			return false
		}
	}
	return true
}

// Base adds the shared leaf types every corpus builds on (namespace ns): enum, fixed, one typeref
// per primitive, a leaf record, a record with defaults, unions.
func Base(s *Schema, ns string) {
	s.Add(&Named{Ident: Ident{"Color", ns}, Kind: "enum", Symbols: []string{"RED", "GREEN", "BLUE", "blue_2"}})
	s.Add(&Named{Ident: Ident{"Fix4", ns}, Kind: "fixed", Size: 4})
	s.Add(&Named{Ident: Ident{"Fix1", ns}, Kind: "fixed", Size: 1})
	for _, p := range Prims {
		s.Add(&Named{Ident: Ident{"T" + Exported(p), ns}, Kind: "typeref", Prim: p})
	}
	s.Add(&Named{Ident: Ident{"Leaf", ns}, Kind: "record", Fields: []Field{
		{Name: "s", Type: P("string")},
		{Name: "i", Type: P("int32"), Optional: true},
	}})
	s.Add(&Named{Ident: Ident{"Inner", ns}, Kind: "record", Fields: []Field{
		{Name: "leaf", Type: R(ns, "Leaf")},
		{Name: "leaves", Type: A(R(ns, "Leaf")), Optional: true},
		{Name: "byName", Type: M(R(ns, "Leaf")), Optional: true},
		{Name: "n", Type: P("int64")},
	}})
	s.Add(&Named{Ident: Ident{"WithDefaults", ns}, Kind: "record", Fields: []Field{
		{Name: "req", Type: P("string")},
		{Name: "di", Type: P("int32"), Default: sp("42")},
		{Name: "ds", Type: P("string"), Default: sp(`"a\"b\\c d"`)},
		{Name: "darr", Type: A(P("string")), Default: sp(`["x","y"]`)},
	}})
	s.Add(&Named{Ident: Ident{"U", ns}, Kind: "union", Members: []Member{
		{P("int32"), "int"}, {P("string"), "string"}, {P("bytes"), "bytes"}, {P("float64"), "double"}, {P("bool"), "boolean"},
		{R(ns, "Leaf"), ns + ".Leaf"}, {R(ns, "Color"), ns + ".Color"}, {R(ns, "Fix4"), ns + ".Fix4"},
		{A(P("string")), "array"}, {M(P("int64")), "map"},
	}})
	s.Add(&Named{Ident: Ident{"UNull", ns}, Kind: "union", HasNull: true, Members: []Member{
		{P("int64"), "long"}, {R(ns, "Inner"), "inner"}, {P("float32"), "float"},
	}})
	s.Add(&Named{Ident: Ident{"UAliased", ns}, Kind: "union", Members: []Member{
		{P("string"), "first"}, {P("string"), "second"}, {A(R(ns, "Leaf")), "leaves"}, {R(ns, "TInt64"), "ref"},
	}})
	s.Add(&Named{Ident: Ident{"U1", ns}, Kind: "union", Members: []Member{{P("string"), "string"}}})
}

type defLit struct {
	t   Type
	lit string
}

// SystematicTypes lists the field type expressions of the systematic part (constructor depth <= 2)
// together with default literals for them (several per type; "" = no default literal available).
func SystematicTypes(ns string) []struct {
	T    Type
	Lits []string
} {
	type e = struct {
		T    Type
		Lits []string
	}
	leaves := []e{
		{P("int32"), []string{"0", "-2147483648", "2147483647"}},
		{P("int64"), []string{"9223372036854775807", "-9223372036854775808"}},
		{P("float32"), []string{"1.5", "3.4028235E38", "1.0E-7"}},
		{P("float64"), []string{"0.1", "1.0E21", "1.7976931348623157E308", "4.9E-324"}},
		{P("bool"), []string{"true", "false"}},
		{P("string"), []string{`""`, `"''"`, `"a(b),c:d'e%f"`, `"é\u0000\n\"\\"`, `"List()"`}},
		{P("bytes"), []string{`"abc"`, `""`, `"\u0000\u0001ÿ"`}},
		{R(ns, "Color"), []string{`"GREEN"`, `"blue_2"`}},
		{R(ns, "Fix4"), []string{`"abcd"`, `"\u0000ÿ(%"`}},
		{R(ns, "TInt32"), []string{"7"}},
		{R(ns, "TInt64"), []string{"-7"}},
		{R(ns, "TFloat32"), []string{"0.25"}},
		{R(ns, "TFloat64"), []string{"-2.5E-10"}},
		{R(ns, "TBool"), []string{"true"}},
		{R(ns, "TString"), []string{`"t s"`}},
		{R(ns, "TBytes"), []string{`"tb"`, `"\u0080"`}},
		{R(ns, "Leaf"), []string{`{"s":"x"}`, `{"s":"","i":3}`}},
		{R(ns, "Inner"), []string{`{"leaf":{"s":"l"},"n":1,"leaves":[]}`}},
		{R(ns, "WithDefaults"), []string{`{"req":"r"}`, `{"req":"r","di":1}`}},
		{R(ns, "U"), []string{`{"int":1}`, `{"` + ns + `.Leaf":{"s":"u"}}`, `{"array":["a"]}`, `{"map":{}}`}},
		{R(ns, "UNull"), []string{`{"long":5}`}},
		{R(ns, "UAliased"), []string{`{"second":"2"}`}},
	}
	out := append([]e(nil), leaves...)
	// depth 1 containers over every leaf
	for _, l := range leaves {
		var alits, mlits []string
		alits = append(alits, "[]")
		mlits = append(mlits, "{}")
		if len(l.Lits) > 0 {
			// bytes-like defaults nested in containers stay ASCII: the generator decodes nested defaults through the JSON
			// reader (bytes as UTF-8 text) but direct ones per code point, so a nested literal holding a code point >= U+0080
			// panics in the generated package's init (recorded as a C13 finding with its own witness, kept out of the
			// shared corpus so the other checks can run)
			last := l.Lits[len(l.Lits)-1]
			if !isASCII(last) {
				last = l.Lits[0]
			}
			alits = append(alits, "["+l.Lits[0]+"]", "["+last+","+l.Lits[0]+"]")
			mlits = append(mlits, `{"k":`+l.Lits[0]+`}`, `{"a b":`+last+`,"":`+l.Lits[0]+`}`)
		}
		out = append(out, e{A(l.T), alits}, e{M(l.T), mlits})
	}
	// depth 2 containers over a few leaves
	for _, l := range []e{leaves[0], leaves[5], leaves[6], leaves[7], leaves[16], leaves[19]} {
		out = append(out,
			e{A(A(l.T)), []string{"[]", "[[]]", "[[],[" + l.Lits[0] + "]]"}},
			e{M(M(l.T)), []string{"{}", `{"k":{}}`, `{"k":{"j":` + l.Lits[0] + `}}`}},
			e{A(M(l.T)), []string{"[]", "[{}]", `[{"k":` + l.Lits[0] + `}]`}},
			e{M(A(l.T)), []string{"{}", `{"k":[]}`, `{"k":[` + l.Lits[0] + `]}`}},
		)
	}
	return out
}

// CodecCorpus is the corpus of the value-level properties (C01, C03, C06, C07, C09, C10, C11, C13):
// systematic records (every type expression as required / optional / defaulted field), records with
// includes, nested records, complex keys, a second namespace, plus nRandom seeded random records.
func CodecCorpus(packageRoot string, seed int64, nRandom int) *Schema {
	const ns = "vt"
	s := &Schema{PackageRoot: packageRoot}
	Base(s, ns)
	sys := SystematicTypes(ns)
	for i, e := range sys {
		fields := []Field{
			{Name: "req", Type: e.T},
			{Name: "opt", Type: e.T, Optional: true},
		}
		for j, lit := range e.Lits {
			fields = append(fields, Field{Name: fmt.Sprintf("def%d", j), Type: e.T, Default: sp(lit)})
		}
		fields = append(fields, Field{Name: "tail", Type: P("int32")})
		s.Add(&Named{Ident: Ident{fmt.Sprintf("Sys%02d", i), ns}, Kind: "record", Fields: fields})
	}
	// includes: single, chained, with defaults declared only in the included record
	s.Add(&Named{Ident: Ident{"IncA", ns}, Kind: "record", Includes: []Ident{{"Leaf", ns}}, Fields: []Field{
		{Name: "a", Type: P("float64")},
	}})
	s.Add(&Named{Ident: Ident{"IncB", ns}, Kind: "record", Includes: []Ident{{"IncA", ns}, {"WithDefaults", ns}}, Fields: []Field{
		{Name: "b", Type: M(R(ns, "U")), Optional: true},
	}})
	s.Add(&Named{Ident: Ident{"IncOnlyDefaults", ns}, Kind: "record", Includes: []Ident{{"WithDefaults", ns}}, Fields: []Field{
		{Name: "own", Type: P("bool")},
	}})
	s.Add(&Named{Ident: Ident{"IncNoOwnFields", ns}, Kind: "record", Includes: []Ident{{"Inner", ns}}})
	// defaults reached through an included record that has no default of its own: the including record's constructor
	// and decoder must still populate the nested record's defaults
	s.Add(&Named{Ident: Ident{"NestedDef", ns}, Kind: "record", Fields: []Field{
		{Name: "level", Type: P("int32"), Default: sp("7")}, {Name: "tag", Type: P("string"), Default: sp(`"t"`)},
	}})
	s.Add(&Named{Ident: Ident{"PlainHolder", ns}, Kind: "record", Fields: []Field{
		{Name: "hid", Type: P("int64"), Optional: true}, {Name: "inner", Type: R(ns, "NestedDef")}, {Name: "inners", Type: A(R(ns, "NestedDef")), Optional: true},
	}})
	s.Add(&Named{Ident: Ident{"ViaPlain", ns}, Kind: "record", Includes: []Ident{{"PlainHolder", ns}}, Fields: []Field{
		{Name: "count", Type: P("int32"), Default: sp("3")},
	}})
	s.Add(&Named{Ident: Ident{"ViaPlainNoDefaults", ns}, Kind: "record", Includes: []Ident{{"PlainHolder", ns}}, Fields: []Field{
		{Name: "plain", Type: P("string")},
	}})
	s.Add(&Named{Ident: Ident{"ViaViaPlain", ns}, Kind: "record", Includes: []Ident{{"ViaPlain", ns}}})
	// include lattices: a root with r required fields, an intermediate record adding m, and several siblings
	// including the intermediate one (and one including two intermediates), each with own required fields:
	// the required-field sets / default tables of siblings must not influence each other
	req := func(prefix string, n int) []Field {
		var fs []Field
		for i := 0; i < n; i++ {
			fs = append(fs, Field{Name: fmt.Sprintf("%s%d", prefix, i), Type: P([]string{"int32", "string", "bool"}[i%3])})
		}
		fs = append(fs, Field{Name: prefix + "Opt", Type: P("string"), Optional: true})
		return fs
	}
	for li, shape := range [][2]int{{2, 1}, {3, 1}, {3, 2}, {1, 1}, {4, 1}} {
		root, mid := fmt.Sprintf("Lat%dRoot", li), fmt.Sprintf("Lat%dMid", li)
		s.Add(&Named{Ident: Ident{root, ns}, Kind: "record", Fields: req(fmt.Sprintf("r%d", li), shape[0])})
		s.Add(&Named{Ident: Ident{mid, ns}, Kind: "record", Includes: []Ident{{root, ns}}, Fields: req(fmt.Sprintf("m%d", li), shape[1])})
		for sib := 0; sib < 3; sib++ {
			s.Add(&Named{Ident: Ident{fmt.Sprintf("Lat%dSib%d", li, sib), ns}, Kind: "record", Includes: []Ident{{mid, ns}},
				Fields: req(fmt.Sprintf("s%d%c", li, 'a'+sib), 1+sib)})
		}
	}
	s.Add(&Named{Ident: Ident{"LatJoin", ns}, Kind: "record", Includes: []Ident{{"Lat0Mid", ns}, {"Lat1Mid", ns}}, Fields: req("j", 2)})
	s.Add(&Named{Ident: Ident{"LatJoin2", ns}, Kind: "record", Includes: []Ident{{"Lat1Mid", ns}, {"Lat2Mid", ns}}, Fields: req("jj", 1)})
	// recursion through optional / containers
	s.Add(&Named{Ident: Ident{"Tree", ns}, Kind: "record", Fields: []Field{
		{Name: "v", Type: P("string")},
		{Name: "kids", Type: A(R(ns, "Tree")), Optional: true},
		{Name: "named", Type: M(R(ns, "Tree")), Default: sp("{}")},
		{Name: "next", Type: R(ns, "Tree"), Optional: true},
	}})
	// deep required nesting (required fields at every depth, inside arrays, maps, unions, includes)
	s.Add(&Named{Ident: Ident{"UDeep", ns}, Kind: "union", Members: []Member{{R(ns, "Inner"), "inner"}, {R(ns, "IncA"), "inc"}, {A(R(ns, "Inner")), "inners"}}})
	s.Add(&Named{Ident: Ident{"Deep", ns}, Kind: "record", Fields: []Field{
		{Name: "one", Type: R(ns, "Inner")},
		{Name: "list", Type: A(R(ns, "Inner"))},
		{Name: "m", Type: M(R(ns, "Inner"))},
		{Name: "u", Type: R(ns, "UDeep")},
		{Name: "ou", Type: R(ns, "UDeep"), Optional: true},
		{Name: "inc", Type: R(ns, "IncB"), Optional: true},
		{Name: "ll", Type: A(A(R(ns, "Leaf"))), Optional: true},
		{Name: "mm", Type: M(M(R(ns, "IncA"))), Optional: true},
	}})
	// complex keys
	s.Add(&Named{Ident: Ident{"KeyParams", ns}, Kind: "record", Fields: []Field{
		{Name: "p", Type: P("string"), Optional: true}, {Name: "n", Type: P("int32"), Default: sp("3")},
	}})
	s.Add(&Named{Ident: Ident{"Things_ComplexKey", ns}, Kind: "complexkey", Key: &Ident{"Leaf", ns}, Params: &Ident{"KeyParams", ns}})
	s.Add(&Named{Ident: Ident{"Deeps_ComplexKey", ns}, Kind: "complexkey", Key: &Ident{"Inner", ns}, Params: &Ident{"Leaf", ns}})
	// second namespace referencing the first
	const ns2 = "vt.sub"
	s.Add(&Named{Ident: Ident{"Other", ns2}, Kind: "record", Fields: []Field{
		{Name: "leaf", Type: R(ns, "Leaf")}, {Name: "color", Type: R(ns, "Color"), Default: sp(`"RED"`)},
		{Name: "wd", Type: R(ns, "WithDefaults"), Optional: true},
	}})
	s.Add(&Named{Ident: Ident{"Color", ns2}, Kind: "enum", Symbols: []string{"CYAN", "RED"}})
	s.Add(&Named{Ident: Ident{"Mixed", ns2}, Kind: "record", Includes: []Ident{{"Other", ns2}}, Fields: []Field{
		{Name: "c2", Type: R(ns2, "Color")}, {Name: "cs", Type: A(R(ns, "Color")), Optional: true},
	}})
	// fields declared optional AND carrying a default (legal in Pegasus): the default still applies when the field is absent
	s.Add(&Named{Ident: Ident{"OptDef", ns}, Kind: "record", Fields: []Field{
		{Name: "n", Type: P("int32"), Optional: true, Default: sp("11")},
		{Name: "s", Type: P("string"), Optional: true, Default: sp(`"dflt"`)},
		{Name: "c", Type: R(ns, "Color"), Optional: true, Default: sp(`"GREEN"`)},
		{Name: "l", Type: A(P("int64")), Optional: true, Default: sp("[1,2]")},
		{Name: "r", Type: R(ns, "Leaf"), Optional: true, Default: sp(`{"s":"x"}`)},
		{Name: "plain", Type: P("bool"), Optional: true},
		{Name: "req", Type: P("string")},
	}})
	s.Add(&Named{Ident: Ident{"IncOptDef", ns}, Kind: "record", Includes: []Ident{{"OptDef", ns}}, Fields: []Field{{Name: "own", Type: P("int32"), Optional: true, Default: sp("1")}}})
	// required fields whose names are string prefixes of one another (at one level and across array items)
	s.Add(&Named{Ident: Ident{"PrefixNames", ns}, Kind: "record", Fields: []Field{
		{Name: "id", Type: P("int32")}, {Name: "idType", Type: P("string")}, {Name: "start", Type: P("int64")}, {Name: "startTime", Type: P("int64")},
		{Name: "window", Type: R(ns, "Leaf")}, {Name: "windows", Type: A(R(ns, "Leaf"))}, {Name: "s", Type: P("string")}, {Name: "s2", Type: R(ns, "Leaf")},
	}})
	// includes across namespaces: the included record (with defaults, required fields) lives in another generated package
	s.Add(&Named{Ident: Ident{"IncCross", ns2}, Kind: "record", Includes: []Ident{{"WithDefaults", ns}}, Fields: []Field{
		{Name: "own", Type: P("int32"), Default: sp("5")}, {Name: "o", Type: R(ns2, "Other"), Optional: true},
	}})
	s.Add(&Named{Ident: Ident{"IncCross2", ns2}, Kind: "record", Includes: []Ident{{"NestedDef", ns}, {"Leaf", ns}}})
	s.Add(&Named{Ident: Ident{"IncCrossChain", ns2}, Kind: "record", Includes: []Ident{{"IncCross", ns2}}, Fields: []Field{
		{Name: "tailc", Type: P("bool"), Default: sp("true")},
	}})
	s.Add(&Named{Ident: Ident{"CrossKeys_ComplexKey", ns2}, Kind: "complexkey", Key: &Ident{"WithDefaults", ns}, Params: &Ident{"NestedDef", ns}})
	// record-typed fields whose default literal is the empty object or a partial object, on record types with defaults
	s.Add(&Named{Ident: Ident{"DefHolder", ns}, Kind: "record", Fields: []Field{
		{Name: "limits", Type: R(ns, "NestedDef"), Default: sp("{}")},
		{Name: "limits2", Type: R(ns, "NestedDef"), Default: sp(`{"level":9}`)},
		{Name: "wd", Type: R(ns, "WithDefaults"), Default: sp(`{"req":"r"}`)},
		{Name: "list", Type: A(R(ns, "NestedDef")), Default: sp(`[{},{"tag":"x"}]`)},
		{Name: "byKey", Type: M(R(ns, "NestedDef")), Default: sp(`{"k":{}}`)},
	}})
	RandomRecords(s, "vt.rnd", ns, seed, nRandom)
	return s
}

// RandomRecords adds n seeded random records (namespace rns) that may reference the base types of
// namespace ns and each other (earlier ones, so reference graphs are acyclic), depth <= 4.
func RandomRecords(s *Schema, rns, ns string, seed int64, n int) {
	if n <= 0 {
		return
	}
	g := rapid.Custom(func(t *rapid.T) []*Named {
		var made []*Named
		leaf := []Type{P("int32"), P("int64"), P("float32"), P("float64"), P("bool"), P("string"), P("bytes"),
			R(ns, "Color"), R(ns, "Fix4"), R(ns, "Fix1"), R(ns, "TString"), R(ns, "TBytes"), R(ns, "TFloat32"), R(ns, "Leaf"), R(ns, "Inner"),
			R(ns, "U"), R(ns, "UNull"), R(ns, "UAliased"), R(ns, "WithDefaults"), R(ns, "IncB")}
		var typ func(depth int) Type
		typ = func(depth int) Type {
			k := rapid.IntRange(0, 9).Draw(t, "tk")
			switch {
			case depth < 3 && k == 0:
				return A(typ(depth + 1))
			case depth < 3 && k == 1:
				return M(typ(depth + 1))
			case k == 2 && len(made) > 0:
				return RI(made[rapid.IntRange(0, len(made)-1).Draw(t, "mref")].Ident)
			}
			return leaf[rapid.IntRange(0, len(leaf)-1).Draw(t, "leaf")]
		}
		for i := 0; i < n; i++ {
			kind := rapid.IntRange(0, 5).Draw(t, "kind")
			id := Ident{fmt.Sprintf("Rnd%02d", i), rns}
			if kind == 0 && len(made) > 0 {
				// a union over earlier types
				nm := rapid.IntRange(1, 4).Draw(t, "nmem")
				u := &Named{Ident: id, Kind: "union", HasNull: rapid.Bool().Draw(t, "null")}
				for j := 0; j < nm; j++ {
					u.Members = append(u.Members, Member{typ(1), fmt.Sprintf("m%d", j)})
				}
				made = append(made, u)
				continue
			}
			r := &Named{Ident: id, Kind: "record"}
			if len(made) > 0 && rapid.IntRange(0, 3).Draw(t, "inc") == 0 {
				// include an earlier random record (field names are prefixed per record, so no clashes)
				for tries := 0; tries < 3; tries++ {
					c := made[rapid.IntRange(0, len(made)-1).Draw(t, "incref")]
					if c.Kind == "record" {
						r.Includes = append(r.Includes, c.Ident)
						break
					}
				}
			}
			nf := rapid.IntRange(1, 5).Draw(t, "nf")
			for j := 0; j < nf; j++ {
				f := Field{Name: fmt.Sprintf("r%02df%d", i, j), Type: typ(0)}
				switch rapid.IntRange(0, 2).Draw(t, "optk") {
				case 1:
					f.Optional = true
				case 2:
					if f.Type.IsContainer() {
						if f.Type.Array != nil {
							f.Default = sp("[]")
						} else {
							f.Default = sp("{}")
						}
					} else if f.Type.Prim == "int32" || f.Type.Prim == "int64" {
						f.Default = sp(fmt.Sprint(rapid.IntRange(-5, 5).Draw(t, "dv")))
					} else if f.Type.Prim == "string" {
						f.Default = sp(`"dflt"`)
					} else {
						f.Optional = true
					}
				}
				r.Fields = append(r.Fields, f)
			}
			made = append(made, r)
		}
		return made
	})
	for _, nn := range g.Example(int(seed % 1000000007)) {
		s.Add(nn)
	}
}
