package schema

import (
	"fmt"
	"sort"
)

// ForV1Manifest restricts a random manifest (in place) to what the root-module generation handles; it is applied by
// the C12 harness for generation "v1" only, after the manifest has been drawn (both generations see the same draws,
// what v2 gets is not touched). It returns one note per change.
//
// One rule is left, for the one open root-module finding (KF-C12-v1-conflict-resolution-name-clash, witness in
// harness/genprops/gen_v1_test.go): the root generator moves every type that is on a dependency cycle between packages,
// and every type reachable from such a type, to the single package conflictResolution and writes it to
// conflictResolution/<Name>.gr.go without renaming, so two moved types with the same short name from different namespaces
// end up in one file and the one written later replaces the other (v2 renames such types). The filter gives the later
// declared of two such types a fresh short name (<Name>Cr<k>) and rewrites every reference to it; nothing else of the
// manifest changes (same graph, same cycles, same kinds).
//
// Which types count as "may be moved" is an over-approximation that does not depend on the generator's traversal order:
// all types of a namespace that lies on a cycle of the namespace reference graph (edges: field, include, union member,
// complex key -> key / params), closed under reachability. Every type the generator flags is in that set: a type-level
// cycle (codegen/utils/type_registry.go FindCycle: a reference path that leaves a namespace and comes back) runs through
// namespaces of one such cycle, the package-level pass flags types of packages on an import cycle, and FlagCyclic adds
// what those types reach.
//
// The classes repaired in the tree are back in the v1 grammar (partial_update with returnEntity, import cycles between
// packages incl. through includes, complex keys over a key record that is empty or has defaults); their witnesses stay
// in gen_v1_test.go as regression cases.
func (s *Schema) ForV1Manifest() []string {
	// the root generator has no notion of custom typerefs (it generates every typeref): the mark is dropped
	for _, n := range s.Types {
		n.Custom = false
	}
	notes := s.distinctMovedNamesV1()
	s.Reindex()
	return notes
}

// refsV1 lists the named types a type references directly (as the root spec sees them).
func (s *Schema) refsV1(n *Named) []Ident {
	var out []Ident
	var walk func(t Type)
	walk = func(t Type) {
		switch {
		case t.Ref != nil:
			out = append(out, *t.Ref)
		case t.Array != nil:
			walk(*t.Array)
		case t.Map != nil:
			walk(*t.Map)
		}
	}
	switch n.Kind {
	case "record":
		out = append(out, n.Includes...)
		for _, f := range n.Fields {
			walk(f.Type)
		}
	case "union":
		for _, m := range n.Members {
			walk(m.Type)
		}
	case "complexkey":
		out = append(out, *n.Key, *n.Params)
	}
	return out
}

// mayBeMoved over-approximates the types a generator moves to conflictResolution (see ForV1Manifest): all types of a
// namespace on a cycle of the namespace reference graph, closed under reachability.
func (s *Schema) mayBeMoved() map[Ident]bool {
	s.Reindex()
	// namespace reference graph and its reachability relation
	nsEdges := map[string]map[string]bool{}
	for _, n := range s.Types {
		for _, r := range s.refsV1(n) {
			if r.Namespace != n.Namespace {
				if nsEdges[n.Namespace] == nil {
					nsEdges[n.Namespace] = map[string]bool{}
				}
				nsEdges[n.Namespace][r.Namespace] = true
			}
		}
	}
	var nsReach func(from string, seen map[string]bool)
	nsReach = func(from string, seen map[string]bool) {
		for to := range nsEdges[from] {
			if !seen[to] {
				seen[to] = true
				nsReach(to, seen)
			}
		}
	}
	onCycle := map[string]bool{}
	for ns := range nsEdges {
		seen := map[string]bool{}
		nsReach(ns, seen)
		if seen[ns] {
			onCycle[ns] = true
		}
	}
	if len(onCycle) == 0 {
		return nil
	}
	// types that may be moved: those of namespaces on a cycle, closed under reachability
	moved := map[Ident]bool{}
	var mark func(id Ident)
	mark = func(id Ident) {
		if moved[id] {
			return
		}
		moved[id] = true
		for _, r := range s.refsV1(s.Lookup(id)) {
			mark(r)
		}
	}
	for _, n := range s.Types {
		if onCycle[n.Namespace] {
			mark(n.Ident)
		}
	}
	return moved
}

// KeepCustomTyperefsInPlace clears the custom mark of every typeref that may be moved to conflictResolution (v2 grammar,
// applied after the draw). A custom typeref is implemented by a hand-written file in its own package; the generator
// nevertheless moves it like any other type a cyclic type reaches and the bindings then refer to a type that does not
// exist in conflictResolution: the open finding KF-C12-custom-typeref-moved (witness in gen_v2_test.go).
func (s *Schema) KeepCustomTyperefsInPlace() (cleared int) {
	moved := s.mayBeMoved()
	for _, n := range s.Types {
		if n.Kind == "typeref" && n.Custom && moved[n.Ident] {
			n.Custom = false
			cleared++
		}
	}
	return cleared
}

func (s *Schema) distinctMovedNamesV1() []string {
	moved := s.mayBeMoved()
	if len(moved) == 0 {
		return nil
	}
	// the later declared of two such types with the same short name gets a fresh one
	shortTaken := map[string]bool{}
	for _, n := range s.Types {
		shortTaken[n.Name] = true
	}
	seen := map[string]bool{}
	rename := map[Ident]Ident{}
	var notes []string
	for _, n := range s.Types {
		if !moved[n.Ident] {
			continue
		}
		if !seen[n.Name] {
			seen[n.Name] = true
			continue
		}
		for k := 1; ; k++ {
			fresh := fmt.Sprintf("%sCr%d", n.Name, k)
			if !shortTaken[fresh] {
				shortTaken[fresh] = true
				seen[fresh] = true
				rename[n.Ident] = Ident{Name: fresh, Namespace: n.Namespace}
				notes = append(notes, n.Full()+" renamed to "+fresh+" (another type named "+n.Name+" may be moved to conflictResolution too)")
				break
			}
		}
	}
	if len(rename) == 0 {
		return nil
	}
	s.renameTypes(rename)
	sort.Strings(notes)
	return notes
}

// renameTypes rewrites the identity of the given types and every reference to them (field, parameter, return, metadata,
// key and entity types, includes, union members with their type-derived member keys, complex keys).
func (s *Schema) renameTypes(rename map[Ident]Ident) {
	id := func(i Ident) Ident {
		if to, ok := rename[i]; ok {
			return to
		}
		return i
	}
	var typ func(t Type) Type
	typ = func(t Type) Type {
		switch {
		case t.Ref != nil:
			return RI(id(*t.Ref))
		case t.Array != nil:
			return A(typ(*t.Array))
		case t.Map != nil:
			return M(typ(*t.Map))
		}
		return t
	}
	ptr := func(t *Type) *Type {
		if t == nil {
			return nil
		}
		x := typ(*t)
		return &x
	}
	fields := func(fs []Field) {
		for i := range fs {
			fs[i].Type = typ(fs[i].Type)
		}
	}
	for _, n := range s.Types {
		n.Ident = id(n.Ident)
		for i := range n.Includes {
			n.Includes[i] = id(n.Includes[i])
		}
		fields(n.Fields)
		for i := range n.Members {
			m := &n.Members[i]
			if m.Type.Ref != nil && m.Alias == m.Type.Ref.Full() {
				m.Alias = id(*m.Type.Ref).Full() // an unaliased member is keyed by the full name of its type
			}
			m.Type = typ(m.Type)
		}
		if n.Key != nil {
			k := id(*n.Key)
			n.Key = &k
		}
		if n.Params != nil {
			p := id(*n.Params)
			n.Params = &p
		}
	}
	for _, r := range s.Resources {
		r.Schema = ptr(r.Schema)
		for i := range r.Segments {
			r.Segments[i].Key = ptr(r.Segments[i].Key)
		}
		for i := range r.Methods {
			m := &r.Methods[i]
			fields(m.Params)
			m.Return, m.Metadata = ptr(m.Return), ptr(m.Metadata)
		}
	}
	s.Reindex()
}
