package schema

import "sort"

// ForV1Manifest restricts a random manifest (in place) to what the root-module generation handles; it is applied by
// the C12 harness for generation "v1" only, after the manifest has been drawn (both generations see the same draws,
// what v2 gets is not touched). Every rule removes one construct on which the root generator fails on the unchanged
// tree; each has a witness schema in harness/genprops/gen_v1_test.go (the construct stays well-formed Pegasus, so the
// witness is what keeps the failure visible). It returns one note per change.
//
//  1. partial_update with returnEntity (rule of ForV1): the generator emits calls to restli.PartialUpdateWithReturnEntity /
//     RegisterPartialUpdateWithReturnEntity, which the root module's restli package does not have.
//  2. import cycles between generated packages. codegen/utils/type_registry.go FlagCyclicDependencies (a) walks two Go maps, so
//     which types move to the conflictResolution package differs from run to run, (b) only sees cycles closed by one
//     chain of type references, not a.X -> b.Y next to b.Z -> a.W, nor cycles through an include (Record.InnerTypes omits
//     the included records the struct embeds), and (c) two moved types with the same short name are written to the same
//     file of conflictResolution. (v2: repaired by 2969157 and 47b39ee; v2 renames clashing types.) The filter keeps
//     the package import graph acyclic: types are visited in declaration order and a reference from namespace A into
//     namespace B is kept only while B does not already reach A; a dropped field type becomes string, a dropped union
//     member or include is removed. Cycles inside one namespace (recursive types) stay.
//  3. complex keys whose key record has no fields at all (the struct embeds the key record only through its fields, so
//     the generated ComplexKeyEquals refers to a member that does not exist) or has a field with a default, own or
//     inherited (UnmarshalRestLi of the key calls populateLocalDefaultValues, which is never generated for the key
//     struct and is unexported in the embedded record's package): the collection is keyed by string instead.
func (s *Schema) ForV1Manifest() []string {
	notes := s.ForV1()
	notes = append(notes, s.acyclicPackagesV1()...)
	notes = append(notes, s.complexKeysV1()...)
	s.Reindex()
	return notes
}

func (s *Schema) acyclicPackagesV1() []string {
	var notes []string
	edges := map[string]map[string]bool{}
	var reaches func(from, to string, seen map[string]bool) bool
	reaches = func(from, to string, seen map[string]bool) bool {
		if from == to {
			return true
		}
		if seen[from] {
			return false
		}
		seen[from] = true
		var next []string
		for n := range edges[from] {
			next = append(next, n)
		}
		sort.Strings(next)
		for _, n := range next {
			if reaches(n, to, seen) {
				return true
			}
		}
		return false
	}
	// allow reports whether namespace `from` may import namespace `to`, recording the edge when it may
	allow := func(from, to string) bool {
		if from == to {
			return true
		}
		if reaches(to, from, map[string]bool{}) {
			return false
		}
		if edges[from] == nil {
			edges[from] = map[string]bool{}
		}
		edges[from][to] = true
		return true
	}
	var fix func(from *Named, t Type) (Type, bool)
	fix = func(from *Named, t Type) (Type, bool) {
		switch {
		case t.Ref != nil:
			if !allow(from.Namespace, t.Ref.Namespace) {
				return P("string"), true
			}
		case t.Array != nil:
			if e, ch := fix(from, *t.Array); ch {
				return A(e), true
			}
		case t.Map != nil:
			if e, ch := fix(from, *t.Map); ch {
				return M(e), true
			}
		}
		return t, false
	}
	for _, n := range s.Types {
		switch n.Kind {
		case "record":
			var incs []Ident
			for _, inc := range n.Includes {
				ok := true
				// the flattened spec makes the including record reference every type its included fields reference
				for _, f := range s.AllFields(s.Lookup(inc)) {
					if _, ch := fix(n, f.Type); ch {
						ok = false
					}
				}
				if ok && allow(n.Namespace, inc.Namespace) {
					incs = append(incs, inc)
				} else {
					notes = append(notes, n.Full()+": include of "+inc.Full()+" dropped (package cycle)")
				}
			}
			n.Includes = incs
			for i := range n.Fields {
				if t, ch := fix(n, n.Fields[i].Type); ch {
					notes = append(notes, n.Full()+"."+n.Fields[i].Name+": "+n.Fields[i].Type.String()+" -> "+t.String()+" (package cycle)")
					n.Fields[i].Type = t
					if n.Fields[i].Default != nil {
						n.Fields[i].Default = nil
						n.Fields[i].Optional = true
					}
				}
			}
		case "union":
			var ms []Member
			for _, m := range n.Members {
				if _, ch := fix(n, m.Type); ch {
					notes = append(notes, n.Full()+": member "+m.Alias+" dropped (package cycle)")
					continue
				}
				ms = append(ms, m)
			}
			if len(ms) == 0 {
				ms = []Member{{P("string"), "string"}}
			}
			n.Members = ms
		}
	}
	// annotations of a resource name fields of its entity: drop those that went away with an include
	for _, r := range s.Resources {
		if r.Schema == nil || r.Schema.Ref == nil {
			continue
		}
		have := map[string]bool{}
		for _, f := range s.AllFields(s.Lookup(*r.Schema.Ref)) {
			have[f.Name] = true
		}
		keep := func(in []string) (out []string) {
			for _, x := range in {
				if have[x] {
					out = append(out, x)
				}
			}
			return out
		}
		r.ReadOnly, r.CreateOnly = keep(r.ReadOnly), keep(r.CreateOnly)
	}
	return notes
}

func (s *Schema) complexKeysV1() []string {
	var notes []string
	drop := map[Ident]bool{}
	for _, r := range s.Resources {
		sg := &r.Segments[len(r.Segments)-1]
		if sg.Key == nil || sg.Key.Ref == nil {
			continue
		}
		ck := s.Lookup(*sg.Key.Ref)
		if ck.Kind != "complexkey" {
			continue
		}
		fields := s.AllFields(s.Lookup(*ck.Key))
		why := ""
		if len(fields) == 0 {
			why = "key record without fields"
		}
		for _, f := range fields {
			if f.Default != nil {
				why = "key record with a default"
			}
		}
		if why != "" {
			drop[ck.Ident] = true
			k := P("string")
			sg.Key = &k
			notes = append(notes, r.Namespace+": complex key replaced by a string key ("+why+")")
		}
	}
	if len(drop) > 0 {
		var keep []*Named
		for _, n := range s.Types {
			if !drop[n.Ident] {
				keep = append(keep, n)
			}
		}
		s.Types = keep
	}
	return notes
}
