// Package schema is the harness's own model of Pegasus schemas and Rest.li resource specifications.
// It renders to the JSON the go-restli generators consume (what the Java spec parser would emit) and
// is what the abstract-value generators, the reference codec and the reflection bridge walk.
package schema

import (
	"encoding/json"
	"fmt"
	"sort"
	"strings"
)

type Ident struct {
	Name      string `json:"name"`
	Namespace string `json:"namespace"`
}

func (i Ident) Full() string { return i.Namespace + "." + i.Name }

// Type mirrors the generator's RestliType: exactly one of the four is set.
type Type struct {
	Prim  string `json:"prim,omitempty"` // int32 int64 float32 float64 bool string bytes
	Ref   *Ident `json:"ref,omitempty"`
	Array *Type  `json:"array,omitempty"`
	Map   *Type  `json:"map,omitempty"`
}

func P(p string) Type              { return Type{Prim: p} }
func R(ns, name string) Type       { return Type{Ref: &Ident{Name: name, Namespace: ns}} }
func RI(i Ident) Type              { return Type{Ref: &i} }
func A(t Type) Type                { return Type{Array: &t} }
func M(t Type) Type                { return Type{Map: &t} }
func (t Type) IsPrim() bool        { return t.Prim != "" }
func (t Type) IsContainer() bool   { return t.Array != nil || t.Map != nil }
func (t Type) Elem() Type {
	if t.Array != nil {
		return *t.Array
	}
	return *t.Map
}

func (t Type) String() string {
	switch {
	case t.Prim != "":
		return t.Prim
	case t.Ref != nil:
		return t.Ref.Full()
	case t.Array != nil:
		return "array<" + t.Array.String() + ">"
	case t.Map != nil:
		return "map<" + t.Map.String() + ">"
	}
	return "?"
}

var Prims = []string{"int32", "int64", "float32", "float64", "bool", "string", "bytes"}

type Field struct {
	Name     string  `json:"name"`
	Type     Type    `json:"type"`
	Optional bool    `json:"optional,omitempty"`
	Default  *string `json:"default,omitempty"` // compact JSON literal
}

func (f Field) Required() bool { return !f.Optional && f.Default == nil }

type Member struct {
	Type  Type   `json:"type"`
	Alias string `json:"alias"`
}

// Named is one named data type; exactly one of the kind-specific parts is used, selected by Kind.
type Named struct {
	Ident
	Kind string `json:"kind"` // record enum fixed typeref union complexkey

	// record
	Includes []Ident `json:"includes,omitempty"`
	Fields   []Field `json:"fields,omitempty"`
	// enum
	Symbols []string `json:"symbols,omitempty"`
	// fixed
	Size int `json:"size,omitempty"`
	// typeref
	Prim   string `json:"prim,omitempty"`
	Custom bool   `json:"custom,omitempty"`
	// union
	HasNull bool     `json:"has_null,omitempty"`
	Members []Member `json:"members,omitempty"`
	// complex key
	Key    *Ident `json:"key,omitempty"`
	Params *Ident `json:"params,omitempty"`
}

type PathSeg struct {
	Name    string `json:"name"`
	KeyName string `json:"key_name,omitempty"`
	Key     *Type  `json:"key,omitempty"` // nil: simple resource / action set
}

type Method struct {
	Kind         string  `json:"kind"` // REST_METHOD ACTION FINDER
	Name         string  `json:"name"`
	OnEntity     bool    `json:"on_entity"`
	Params       []Field `json:"params,omitempty"`
	Paging       bool    `json:"paging,omitempty"`
	Return       *Type   `json:"return,omitempty"`
	Metadata     *Type   `json:"metadata,omitempty"`
	ReturnEntity bool    `json:"return_entity,omitempty"`
}

type Resource struct {
	Namespace  string    `json:"namespace"`
	Segments   []PathSeg `json:"segments"`
	Schema     *Type     `json:"schema,omitempty"`
	Methods    []Method  `json:"methods"`
	ReadOnly   []string  `json:"read_only,omitempty"`
	CreateOnly []string  `json:"create_only,omitempty"`
}

func (r *Resource) Last() PathSeg { return r.Segments[len(r.Segments)-1] }

type Schema struct {
	PackageRoot string      `json:"package_root"`
	Types       []*Named    `json:"types"`
	Resources   []*Resource `json:"resources,omitempty"`
	index       map[Ident]*Named
}

func (s *Schema) Add(n *Named) *Named {
	if s.index == nil {
		s.index = map[Ident]*Named{}
	}
	if _, dup := s.index[n.Ident]; dup {
		panic("duplicate type " + n.Full())
	}
	s.Types = append(s.Types, n)
	s.index[n.Ident] = n
	return n
}

func (s *Schema) Reindex() {
	s.index = map[Ident]*Named{}
	for _, n := range s.Types {
		s.index[n.Ident] = n
	}
}

func (s *Schema) Lookup(i Ident) *Named {
	if s.index == nil {
		s.Reindex()
	}
	n := s.index[i]
	if n == nil {
		panic("unknown type " + i.Full())
	}
	return n
}

func (s *Schema) Has(i Ident) bool {
	if s.index == nil {
		s.Reindex()
	}
	return s.index[i] != nil
}

func (s *Schema) Resolve(t Type) *Named {
	if t.Ref == nil {
		return nil
	}
	return s.Lookup(*t.Ref)
}

// AllFields returns the fields of a record including those of its (transitively) included records,
// included records first, in the order the generated code visits them.
func (s *Schema) AllFields(n *Named) []Field {
	var out []Field
	for _, inc := range n.Includes {
		out = append(out, s.AllFields(s.Lookup(inc))...)
	}
	if n.Kind == "complexkey" {
		out = append(out, s.AllFields(s.Lookup(*n.Key))...)
		return append(out, Field{Name: "$params", Type: RI(*n.Params), Optional: true})
	}
	return append(out, n.Fields...)
}

func (s *Schema) ByKind(kind string) []*Named {
	var out []*Named
	for _, n := range s.Types {
		if n.Kind == kind {
			out = append(out, n)
		}
	}
	return out
}

// ---------------------------------------------------------------------------------------------
// rendering to the v2 manifest

func typeJSON(t Type) map[string]any {
	switch {
	case t.Prim != "":
		return map[string]any{"primitive": t.Prim}
	case t.Ref != nil:
		return map[string]any{"reference": map[string]any{"name": t.Ref.Name, "namespace": t.Ref.Namespace}}
	case t.Array != nil:
		return map[string]any{"array": typeJSON(*t.Array)}
	case t.Map != nil:
		return map[string]any{"map": typeJSON(*t.Map)}
	}
	panic("empty type")
}

func fieldJSON(f Field) map[string]any {
	m := map[string]any{"name": f.Name, "doc": "", "type": typeJSON(f.Type), "isOptional": f.Optional}
	if f.Default != nil {
		m["defaultValue"] = *f.Default
	}
	return m
}

func identJSON(i Ident) map[string]any { return map[string]any{"name": i.Name, "namespace": i.Namespace} }

func namedJSON(n *Named) map[string]any {
	base := map[string]any{"name": n.Name, "namespace": n.Namespace, "sourceFile": "verif://" + n.Full(), "doc": ""}
	switch n.Kind {
	case "record":
		incs := []any{}
		for _, i := range n.Includes {
			incs = append(incs, identJSON(i))
		}
		fs := []any{}
		for _, f := range n.Fields {
			fs = append(fs, fieldJSON(f))
		}
		base["includes"], base["fields"] = incs, fs
		return map[string]any{"record": base}
	case "enum":
		base["Symbols"] = n.Symbols
		docs := map[string]string{}
		for _, s := range n.Symbols {
			docs[s] = ""
		}
		base["SymbolToDoc"] = docs
		return map[string]any{"enum": base}
	case "fixed":
		base["Size"] = n.Size
		return map[string]any{"fixed": base}
	case "typeref":
		base["type"] = n.Prim
		base["isCustom"] = n.Custom
		return map[string]any{"typeref": base}
	case "union":
		ms := []any{}
		for _, m := range n.Members {
			ms = append(ms, map[string]any{"Type": typeJSON(m.Type), "Alias": m.Alias})
		}
		base["Union"] = map[string]any{"HasNull": n.HasNull, "Members": ms}
		return map[string]any{"standaloneUnion": base}
	case "complexkey":
		base["Key"] = identJSON(*n.Key)
		base["Params"] = identJSON(*n.Params)
		return map[string]any{"complexKey": base}
	}
	panic("bad kind " + n.Kind)
}

func resourceJSON(r *Resource) map[string]any {
	segs := []any{}
	for _, sg := range r.Segments {
		m := map[string]any{"resourceName": sg.Name, "pathKey": nil}
		if sg.Key != nil {
			m["pathKey"] = map[string]any{"name": sg.KeyName, "type": typeJSON(*sg.Key)}
		}
		segs = append(segs, m)
	}
	ms := []any{}
	for _, m := range r.Methods {
		ps := []any{}
		for _, p := range m.Params {
			ps = append(ps, fieldJSON(p))
		}
		mm := map[string]any{"methodType": m.Kind, "name": m.Name, "doc": "", "onEntity": m.OnEntity, "params": ps,
			"isPagingSupported": m.Paging, "returnEntity": m.ReturnEntity, "return": nil, "metadata": nil}
		if m.Return != nil {
			mm["return"] = typeJSON(*m.Return)
		}
		if m.Metadata != nil {
			mm["metadata"] = typeJSON(*m.Metadata)
		}
		ms = append(ms, mm)
	}
	out := map[string]any{"namespace": r.Namespace, "doc": "", "sourceFile": "verif://" + r.Namespace, "resourcePathSegments": segs,
		"resourceSchema": nil, "methods": ms, "readOnlyFields": nonNil(r.ReadOnly), "createOnlyFields": nonNil(r.CreateOnly)}
	if r.Schema != nil {
		out["resourceSchema"] = typeJSON(*r.Schema)
	}
	return out
}

func nonNil(s []string) []string {
	if s == nil {
		return []string{}
	}
	return s
}

// ManifestV2 renders the manifest consumed by v2/cmd.ReadManifest.
func (s *Schema) ManifestV2() []byte {
	types := []any{}
	for _, n := range s.Types {
		types = append(types, namedJSON(n))
	}
	rs := []any{}
	for _, r := range s.Resources {
		rs = append(rs, resourceJSON(r))
	}
	b, err := json.MarshalIndent(map[string]any{"packageRoot": s.PackageRoot, "inputDataTypes": types, "dependencyDataTypes": []any{}, "resources": rs}, "", " ")
	if err != nil {
		panic(err)
	}
	return b
}

// ManifestV2Split renders a manifest that owns the types for which own() is true and lists every other type of the
// schema as a dependency type (the way a manifest of a library built on other generated libraries looks).
func (s *Schema) ManifestV2Split(packageRoot string, own func(*Named) bool, deps func(*Named) bool) []byte {
	in, dep := []any{}, []any{}
	for _, n := range s.Types {
		switch {
		case own(n):
			in = append(in, namedJSON(n))
		case deps(n):
			dep = append(dep, namedJSON(n))
		}
	}
	b, err := json.MarshalIndent(map[string]any{"packageRoot": packageRoot, "inputDataTypes": in, "dependencyDataTypes": dep, "resources": []any{}}, "", " ")
	if err != nil {
		panic(err)
	}
	return b
}

// flattenedFieldsV1: the root module's spec lists the fields of included records inline, each marked with the
// directly included record it comes through.
func (s *Schema) flattenedFieldsV1(n *Named) []any {
	fs := []any{}
	for _, inc := range n.Includes {
		for _, f := range s.AllFields(s.Lookup(inc)) {
			m := fieldJSON(f)
			m["includedFrom"] = identJSON(inc)
			fs = append(fs, m)
		}
	}
	for _, f := range n.Fields {
		fs = append(fs, fieldJSON(f))
	}
	return fs
}

// SpecV1 renders the parser output consumed by the root module's generator ({"dataTypes":[...],"resources":[...]}).
func (s *Schema) SpecV1() []byte {
	types := []any{}
	for _, n := range s.Types {
		j := namedJSON(n)
		if n.Kind == "record" {
			rec := j["record"].(map[string]any)
			delete(rec, "includes")
			rec["fields"] = s.flattenedFieldsV1(n)
		}
		types = append(types, j)
	}
	rs := []any{}
	for _, r := range s.Resources {
		rs = append(rs, resourceJSONV1(r))
	}
	b, err := json.MarshalIndent(map[string]any{"dataTypes": types, "resources": rs}, "", " ")
	if err != nil {
		panic(err)
	}
	return b
}

// pagingContextV1: the root module's spec parser (spec-parser/.../MethodParser.java, toFieldList) has no
// isPagingSupported flag; it prepends the two paging parameters to the method's parameter list, marked as included
// from the hand-written restlidata.PagingContext record.
var pagingContextV1 = map[string]any{"name": "PagingContext", "namespace": "github.com/PapaCharlie/go-restli/restlidata"}

// resourceJSONV1 renders a resource the way the root module's spec parser emits it: the same shape as the v2
// manifest (resourcePathSegments / pathKey, resourceSchema, methods with methodType / onEntity / params / return /
// metadata / returnEntity, readOnlyFields, createOnlyFields) except for paging (see pagingContextV1).
func resourceJSONV1(r *Resource) map[string]any {
	out := resourceJSON(r)
	ms := out["methods"].([]any)
	for i, m := range r.Methods {
		mm := ms[i].(map[string]any)
		delete(mm, "isPagingSupported")
		if m.Paging && m.Kind != "ACTION" {
			ps := []any{}
			for _, p := range [][2]string{{"start", "The starting offset"}, {"count", "The number of elements to return"}} {
				ps = append(ps, map[string]any{"name": p[0], "doc": p[1], "type": typeJSON(P("int32")), "isOptional": true, "includedFrom": pagingContextV1})
			}
			mm["params"] = append(ps, mm["params"].([]any)...)
		}
	}
	return out
}

// ForV1 restricts a schema (in place) to what the root-module generation supports; what v2 gets is not touched (the
// caller applies it only when rendering for generation "v1"). It returns a note per change for the corpus log.
//
//   - partial_update with returnEntity: the root module's restli package has neither PartialUpdateWithReturnEntity nor
//     RegisterPartialUpdateWithReturnEntity, yet its generator emits calls to both for such a method (the bindings do
//     not compile; that is C12's subject). The method is kept as a plain partial_update.
//
// Everything else of ResourceCorpus is expressible for and accepted by the root generator.
func (s *Schema) ForV1() []string {
	var notes []string
	for _, n := range s.Types {
		if n.Kind == "typeref" && n.Custom {
			n.Custom = false
			notes = append(notes, n.Full()+": generated as an ordinary typeref (the root generator has no custom typerefs)")
		}
	}
	for _, r := range s.Resources {
		for i := range r.Methods {
			m := &r.Methods[i]
			if m.Kind == "REST_METHOD" && m.Name == "partial_update" && m.ReturnEntity {
				m.ReturnEntity = false
				notes = append(notes, r.Namespace+": partial_update loses returnEntity (no PartialUpdateWithReturnEntity in the root module)")
			}
		}
	}
	return notes
}

// Describe is the JSON the harness loads back (the schema itself).
func (s *Schema) Describe() []byte {
	b, err := json.MarshalIndent(s, "", " ")
	if err != nil {
		panic(err)
	}
	return b
}

func Load(b []byte) (*Schema, error) {
	s := new(Schema)
	if err := json.Unmarshal(b, s); err != nil {
		return nil, err
	}
	s.Reindex()
	return s, nil
}

// ---------------------------------------------------------------------------------------------
// naming rules of the generators (needed by the reflection bridge and the registry emitter)

// Exported mirrors utils.ExportedIdentifier.
func Exported(id string) string {
	var b strings.Builder
	for i, c := range id {
		switch {
		case c == '_':
			if i == 0 {
				b.WriteString("Exported")
			}
			b.WriteRune(c)
		case c == '$':
			if i != 0 {
				b.WriteRune('_')
			}
			b.WriteString("DOLLAR_")
		case c >= '0' && c <= '9':
			if i == 0 {
				b.WriteString("Exported_")
			}
			b.WriteRune(c)
		default:
			if i == 0 {
				b.WriteString(strings.ToUpper(string(c)))
			} else {
				b.WriteRune(c)
			}
		}
	}
	return b.String()
}

// MemberField is the Go field name of a union member.
func MemberField(alias string) string {
	return Exported(alias[strings.LastIndex(alias, ".")+1:])
}

// PackagePath of a namespace below the package root (no cyclic / internal handling: the corpora
// used for value-level checks avoid both; C12 exercises them and does not need this).
func PackagePath(root, ns string) string {
	return root + "/" + strings.ReplaceAll(ns, ".", "/")
}

func PackageName(pkgPath string) string {
	base := pkgPath[strings.LastIndex(pkgPath, "/")+1:]
	base = strings.ToLower(base)
	var b strings.Builder
	for _, c := range base {
		if (c >= 'a' && c <= 'z') || (c >= '0' && c <= '9') {
			b.WriteRune(c)
		}
	}
	return b.String()
}

// Namespaces lists the namespaces that hold data types, sorted.
func (s *Schema) Namespaces() []string {
	set := map[string]bool{}
	for _, n := range s.Types {
		set[n.Namespace] = true
	}
	var out []string
	for k := range set {
		out = append(out, k)
	}
	sort.Strings(out)
	return out
}

func (s *Schema) String() string {
	return fmt.Sprintf("schema(%d types, %d resources)", len(s.Types), len(s.Resources))
}
