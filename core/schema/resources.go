package schema

import (
	"fmt"

	"pgregory.net/rapid"
)

func tp(t Type) *Type { return &t }

var restMethodsCollection = []string{"get", "create", "update", "partial_update", "delete", "get_all", "batch_get", "batch_create", "batch_update", "batch_partial_update", "batch_delete"}
var restMethodsSimple = []string{"get", "update", "partial_update", "delete"}

func onEntity(method string) bool {
	switch method {
	case "get", "update", "partial_update", "delete":
		return true
	}
	return false
}

func restMethods(names []string, collection bool, returnEntity bool, params map[string][]Field, paging bool) []Method {
	var ms []Method
	for _, n := range names {
		m := Method{Kind: "REST_METHOD", Name: n, OnEntity: collection && onEntity(n), Params: params[n]}
		if returnEntity && (n == "create" || n == "batch_create" || n == "partial_update") {
			m.ReturnEntity = true
		}
		if paging && n == "get_all" {
			m.Paging = true
		}
		ms = append(ms, m)
	}
	return ms
}

// collection builds a collection resource "name" in namespace ns keyed by key, under the given parent segments.
func collection(ns string, parents []PathSeg, name, keyName string, key Type, entity Type) *Resource {
	segs := append(append([]PathSeg(nil), parents...), PathSeg{Name: name, KeyName: keyName, Key: tp(key)})
	return &Resource{Namespace: ns, Segments: segs, Schema: tp(entity)}
}

func simple(ns string, parents []PathSeg, name string, entity *Type) *Resource {
	segs := append(append([]PathSeg(nil), parents...), PathSeg{Name: name})
	return &Resource{Namespace: ns, Segments: segs, Schema: entity}
}

// keyTypes the resource grammar draws entity keys from (ns = data namespace).
func keyTypes(ns string) []Type {
	// bytes (and typerefs to bytes) are left out: a collection keyed by bytes does not compile (map[[]byte]V and the
	// `comparable` constraints of the batch helpers) - recorded as known finding KF-C12-bytes-key
	return []Type{P("string"), P("int32"), P("int64"), P("bool"), P("float64"), P("float32"), R(ns, "TString"), R(ns, "TInt64"), R(ns, "Color")}
}

// paramTypes for query parameters / action parameters and action results.
func paramTypes(ns string) []Type {
	return []Type{P("string"), P("int32"), P("int64"), P("float64"), P("bool"), P("bytes"), R(ns, "Color"), R(ns, "TString"), R(ns, "Fix4"), R(ns, "Leaf"),
		R(ns, "Inner"), R(ns, "U"), A(P("string")), A(R(ns, "Leaf")), M(P("int64")), A(P("int64")), M(R(ns, "Leaf")), R(ns, "WithDefaults"), A(R(ns, "Color"))}
}

// ResourceCorpus: the resource-level corpus. variant 0 is the systematic family (every resource kind, key type,
// method kind, parent chain); other variants add nRandom seeded random resources on top of a smaller core.
func ResourceCorpus(packageRoot string, seed int64, variant, nRandom int) *Schema {
	const ns = "vt"
	s := &Schema{PackageRoot: packageRoot}
	Base(s, ns)
	s.Add(&Named{Ident: Ident{"IncA", ns}, Kind: "record", Includes: []Ident{{"Leaf", ns}}, Fields: []Field{{Name: "a", Type: P("float64")}}})
	s.Add(&Named{Ident: Ident{"Meta", ns}, Kind: "record", Fields: []Field{{Name: "total", Type: P("int64")}, {Name: "note", Type: P("string"), Optional: true}}})
	s.Add(&Named{Ident: Ident{"KeyParams", ns}, Kind: "record", Fields: []Field{
		{Name: "p", Type: P("string"), Optional: true}, {Name: "n", Type: P("int32"), Optional: true},
	}})
	s.Add(&Named{Ident: Ident{"Annotated", ns}, Kind: "record", Fields: []Field{
		{Name: "id", Type: P("int64"), Optional: true},      // read-only
		{Name: "owner", Type: P("string"), Optional: true}, // create-only
		{Name: "title", Type: P("string")},
		{Name: "audit", Type: R(ns, "Leaf"), Optional: true}, // audit/s read-only
		{Name: "tags", Type: A(R(ns, "Leaf")), Optional: true}, // tags/*/i read-only
		{Name: "attrs", Type: M(R(ns, "Leaf")), Optional: true}, // attrs/*/s create-only
		{Name: "count", Type: P("int32"), Default: sp("1")},
	}})

	// the alphabetically last fields (generated marshalers write fields in that order) are annotated leaves
	s.Add(&Named{Ident: Ident{"AnnotatedLast", ns}, Kind: "record", Fields: []Field{
		{Name: "body", Type: P("string")},
		{Name: "mid", Type: R(ns, "Leaf"), Optional: true},
		{Name: "zstamp", Type: P("int64"), Optional: true}, // read-only
		{Name: "ztype", Type: P("string"), Optional: true}, // create-only
	}})

	// annotated names of which one is a string prefix (not a path prefix) of another
	s.Add(&Named{Ident: Ident{"AnnotatedPrefix", ns}, Kind: "record", Fields: []Field{
		{Name: "id", Type: P("int64"), Optional: true}, // read-only
		{Name: "identifier", Type: P("string")},       // create-only
		{Name: "f1", Type: R(ns, "Leaf"), Optional: true},  // f1/s read-only
		{Name: "f10", Type: R(ns, "Leaf"), Optional: true}, // f10/s create-only
		{Name: "meta", Type: R(ns, "Leaf"), Optional: true}, // read-only as a whole (a record-typed field)
		{Name: "name", Type: P("string")},
	}})

	// an entity with arrays / maps of enums and unions (a value of it can be made unserialisable inside a container)
	s.Add(&Named{Ident: Ident{"Tagged", ns}, Kind: "record", Fields: []Field{
		{Name: "name", Type: P("string")},
		{Name: "tags", Type: A(R(ns, "Color")), Optional: true},
		{Name: "choices", Type: M(R(ns, "U")), Optional: true},
	}})

	pt := paramTypes(ns)
	allParams := func(prefix string, n int, off int) []Field {
		var fs []Field
		for i := 0; i < n; i++ {
			t := pt[(off+i)%len(pt)]
			f := Field{Name: fmt.Sprintf("%s%d", prefix, i), Type: t}
			switch i % 3 {
			case 1:
				f.Optional = true
			case 2:
				if t.Prim == "string" {
					f.Default = sp(`"dflt"`)
				} else if t.Prim == "int32" || t.Prim == "int64" {
					f.Default = sp("5")
				} else {
					f.Optional = true
				}
			}
			fs = append(fs, f)
		}
		return fs
	}

	// 1. things: string key, every REST method, finders, actions
	things := collection("vr.things", nil, "things", "thingId", P("string"), R(ns, "Inner"))
	things.Methods = restMethods(restMethodsCollection, true, false, map[string][]Field{
		"get":       allParams("g", 2, 0),
		"batch_get": allParams("bg", 2, 3),
		"create":    allParams("c", 1, 5),
		"get_all":   allParams("ga", 1, 0),
	}, true)
	things.Methods = append(things.Methods,
		Method{Kind: "FINDER", Name: "byName", Params: []Field{{Name: "name", Type: P("string")}, {Name: "limit", Type: P("int32"), Optional: true}}, Paging: true, Return: tp(R(ns, "Inner"))},
		Method{Kind: "FINDER", Name: "all", Return: tp(R(ns, "Inner"))},
		Method{Kind: "FINDER", Name: "withMeta", Params: allParams("f", 4, 6), Return: tp(R(ns, "Inner")), Metadata: tp(R(ns, "Meta")), Paging: true},
		Method{Kind: "ACTION", Name: "count", Return: tp(P("int64"))},
		Method{Kind: "ACTION", Name: "rename", OnEntity: true, Params: []Field{{Name: "to", Type: P("string")}, {Name: "force", Type: P("bool"), Optional: true}}, Return: tp(R(ns, "Inner"))},
		Method{Kind: "ACTION", Name: "purge", Params: allParams("a", 5, 9)},
		Method{Kind: "ACTION", Name: "touch", OnEntity: true},
	)
	s.Resources = append(s.Resources, things)

	// 2. sub-collection and sub-simple under things
	thingSeg := things.Segments
	subs := collection("vr.things.subs", thingSeg, "subs", "subId", P("int64"), R(ns, "Leaf"))
	subs.Methods = restMethods([]string{"get", "create", "batch_get", "delete", "batch_delete", "get_all"}, true, false, nil, false)
	subs.Methods = append(subs.Methods, Method{Kind: "FINDER", Name: "recent", Params: []Field{{Name: "since", Type: P("int64")}}, Return: tp(R(ns, "Leaf"))},
		Method{Kind: "ACTION", Name: "echo", OnEntity: true, Params: []Field{{Name: "what", Type: A(P("string"))}}, Return: tp(A(P("string")))})
	s.Resources = append(s.Resources, subs)
	detail := simple("vr.things.detail", thingSeg, "detail", tp(R(ns, "WithDefaults")))
	detail.Methods = restMethods(restMethodsSimple, false, false, nil, false)
	detail.Methods = append(detail.Methods, Method{Kind: "ACTION", Name: "reset", Return: tp(R(ns, "WithDefaults"))})
	s.Resources = append(s.Resources, detail)
	// third level
	deep := collection("vr.things.subs.items", subs.Segments, "items", "itemId", R(ns, "Color"), R(ns, "Leaf"))
	deep.Methods = restMethods([]string{"get", "update", "batch_update", "batch_get"}, true, false, nil, false)
	s.Resources = append(s.Resources, deep)

	// 3. one collection per key type with return-entity methods
	for i, kt := range keyTypes(ns) {
		name := fmt.Sprintf("k%d", i)
		r := collection("vr."+name, nil, name, "key", kt, R(ns, "Leaf"))
		r.Methods = restMethods(restMethodsCollection, true, i%2 == 0, map[string][]Field{"batch_delete": allParams("bd", 1, i), "update": allParams("u", 1, i+2)}, false)
		r.Methods = append(r.Methods, Method{Kind: "ACTION", Name: "act", OnEntity: true, Params: []Field{{Name: "k", Type: kt}}, Return: tp(kt)})
		s.Resources = append(s.Resources, r)
	}

	// 4. complex keys (with params, and one whose key record nests)
	s.Add(&Named{Ident: Ident{"Cks_ComplexKey", "vr.cks"}, Kind: "complexkey", Key: &Ident{"Leaf", ns}, Params: &Ident{"KeyParams", ns}})
	cks := collection("vr.cks", nil, "cks", "key", R("vr.cks", "Cks_ComplexKey"), R(ns, "Inner"))
	cks.Methods = restMethods(restMethodsCollection, true, false, nil, false)
	cks.Methods = append(cks.Methods, Method{Kind: "FINDER", Name: "q", Params: []Field{{Name: "leaf", Type: R(ns, "Leaf")}}, Return: tp(R(ns, "Inner"))})
	s.Resources = append(s.Resources, cks)
	s.Add(&Named{Ident: Ident{"Ck2_ComplexKey", "vr.ck2"}, Kind: "complexkey", Key: &Ident{"Inner", ns}, Params: &Ident{"Leaf", ns}})
	ck2 := collection("vr.ck2", nil, "ck2", "key", R("vr.ck2", "Ck2_ComplexKey"), R(ns, "Leaf"))
	ck2.Methods = restMethods([]string{"get", "create", "batch_get", "batch_delete", "batch_update", "update"}, true, true, nil, false)
	s.Resources = append(s.Resources, ck2)
	cksub := collection("vr.cks.under", cks.Segments, "under", "uid", P("string"), R(ns, "Leaf"))
	cksub.Methods = restMethods([]string{"get", "batch_get", "create"}, true, false, nil, false)
	s.Resources = append(s.Resources, cksub)

	// 5. simple resource and action set at the root
	single := simple("vr.single", nil, "single", tp(R(ns, "Inner")))
	single.Methods = restMethods(restMethodsSimple, false, true, map[string][]Field{"get": allParams("sg", 2, 1)}, false)
	single.Methods = append(single.Methods, Method{Kind: "ACTION", Name: "ping", Params: []Field{{Name: "msg", Type: P("string")}}, Return: tp(P("string"))})
	s.Resources = append(s.Resources, single)
	acts := simple("vr.acts", nil, "acts", nil)
	for i, t := range pt {
		m := Method{Kind: "ACTION", Name: fmt.Sprintf("a%d", i), Params: []Field{{Name: "x", Type: t}, {Name: "y", Type: pt[(i+7)%len(pt)], Optional: true}}, Return: tp(t)}
		acts.Methods = append(acts.Methods, m)
	}
	acts.Methods = append(acts.Methods, Method{Kind: "ACTION", Name: "noargs"}, Method{Kind: "ACTION", Name: "noargsResult", Return: tp(M(R(ns, "Leaf")))})
	s.Resources = append(s.Resources, acts)
	underSingle := collection("vr.single.kids", single.Segments, "kids", "kidId", P("int32"), R(ns, "Leaf"))
	underSingle.Methods = restMethods([]string{"get", "get_all", "batch_get"}, true, false, nil, true)
	s.Resources = append(s.Resources, underSingle)

	// 6. read-only / create-only annotations
	ann := collection("vr.ann", nil, "ann", "annId", P("int64"), R(ns, "Annotated"))
	ann.Methods = restMethods(restMethodsCollection, true, false, nil, false)
	ann.ReadOnly = []string{"id", "audit/s", "tags/*/i"}
	ann.CreateOnly = []string{"owner", "attrs/*/s"}
	s.Resources = append(s.Resources, ann)
	ann2 := collection("vr.annre", nil, "annre", "annId", P("string"), R(ns, "Annotated"))
	ann2.Methods = restMethods([]string{"create", "batch_create", "partial_update", "update", "get"}, true, true, nil, false)
	ann2.ReadOnly = []string{"id"}
	s.Resources = append(s.Resources, ann2)
	ann3 := collection("vr.annlast", nil, "annlast", "annId", P("int32"), R(ns, "AnnotatedLast"))
	ann3.Methods = restMethods(restMethodsCollection, true, false, nil, false)
	ann3.ReadOnly = []string{"zstamp"}
	ann3.CreateOnly = []string{"ztype"}
	s.Resources = append(s.Resources, ann3)
	// create-only annotations without any read-only one
	ann5 := collection("vr.anncreate", nil, "anncreate", "annId", P("string"), R(ns, "AnnotatedLast"))
	ann5.Methods = restMethods(restMethodsCollection, true, false, nil, false)
	ann5.CreateOnly = []string{"ztype", "mid/i"}
	s.Resources = append(s.Resources, ann5)
	// every method that returns an entity, on an entity that can be made unserialisable (C08)
	tagged := collection("vr.tagged", nil, "tagged", "tagId", P("int64"), R(ns, "Tagged"))
	tagged.Methods = restMethods(restMethodsCollection, true, true, nil, false)
	tagged.Methods = append(tagged.Methods, Method{Kind: "FINDER", Name: "byTag", Params: []Field{{Name: "tag", Type: R(ns, "Color")}}, Return: tp(R(ns, "Tagged"))})
	s.Resources = append(s.Resources, tagged)
	ann4 := collection("vr.annpfx", nil, "annpfx", "annId", P("int64"), R(ns, "AnnotatedPrefix"))
	ann4.Methods = restMethods(restMethodsCollection, true, false, nil, false)
	ann4.ReadOnly = []string{"id", "f1/s", "meta"}
	ann4.CreateOnly = []string{"identifier", "f10/s"}
	s.Resources = append(s.Resources, ann4)
	// an entity without any required field (optional and defaulted fields only): the empty object is a valid body, so a
	// server or client that quietly replaces an unreadable body by {} is visible only here
	// a collection keyed by a custom typeref whose registered equality is coarser than == (ids compare case-insensitively):
	// key equality of the library must be the registered one (v2; the root generator has no custom typerefs and treats the
	// type as an ordinary typeref over string - ForV1)
	s.Add(&Named{Ident: Ident{"CaseId", ns}, Kind: "typeref", Prim: "string", Custom: true})
	cased := collection("vr.cased", nil, "cased", "caseId", R(ns, "CaseId"), R(ns, "Leaf"))
	cased.Methods = restMethods(restMethodsCollection, true, false, nil, false)
	s.Resources = append(s.Resources, cased)
	allopt := collection("vr.allopt", nil, "allopt", "optId", P("int64"), R(ns, "KeyParams"))
	allopt.Methods = restMethods(restMethodsCollection, true, false, nil, false)
	s.Resources = append(s.Resources, allopt)

	if nRandom > 0 {
		randomResources(s, ns, seed, nRandom)
	}
	return s
}

func randomResources(s *Schema, ns string, seed int64, n int) {
	kts := keyTypes(ns)
	pts := paramTypes(ns)
	ents := []Type{R(ns, "Leaf"), R(ns, "Inner"), R(ns, "WithDefaults"), R(ns, "IncA")}
	g := rapid.Custom(func(t *rapid.T) []*Resource {
		var out []*Resource
		for i := 0; i < n; i++ {
			name := fmt.Sprintf("rr%d", i)
			var parents []PathSeg
			nsr := "vr." + name
			if len(out) > 0 && rapid.IntRange(0, 2).Draw(t, "nest") == 0 {
				p := out[rapid.IntRange(0, len(out)-1).Draw(t, "parent")]
				if len(p.Segments) < 3 {
					parents = p.Segments
					nsr = p.Namespace + "." + name
				}
			}
			var r *Resource
			kind := rapid.IntRange(0, 5).Draw(t, "kind")
			ent := ents[rapid.IntRange(0, len(ents)-1).Draw(t, "ent")]
			var pool []string
			switch {
			case kind == 0:
				r = simple(nsr, parents, name, tp(ent))
				pool = restMethodsSimple
			case kind == 1:
				r = simple(nsr, parents, name, nil)
			default:
				kt := kts[rapid.IntRange(0, len(kts)-1).Draw(t, "kt")]
				r = collection(nsr, parents, name, name+"Id", kt, ent)
				pool = restMethodsCollection
			}
			params := map[string][]Field{}
			var chosen []string
			for _, m := range pool {
				if rapid.IntRange(0, 2).Draw(t, "has") > 0 {
					chosen = append(chosen, m)
					if rapid.IntRange(0, 3).Draw(t, "hp") == 0 {
						np := rapid.IntRange(1, 3).Draw(t, "np")
						for j := 0; j < np; j++ {
							f := Field{Name: fmt.Sprintf("p%d", j), Type: pts[rapid.IntRange(0, len(pts)-1).Draw(t, "pt")]}
							f.Optional = rapid.Bool().Draw(t, "popt")
							params[m] = append(params[m], f)
						}
					}
				}
			}
			r.Methods = restMethods(chosen, kind >= 2, rapid.Bool().Draw(t, "re"), params, rapid.Bool().Draw(t, "paging"))
			if r.Schema != nil && kind >= 2 {
				nf := rapid.IntRange(0, 2).Draw(t, "nfind")
				for j := 0; j < nf; j++ {
					m := Method{Kind: "FINDER", Name: fmt.Sprintf("f%d", j), Return: r.Schema, Paging: rapid.Bool().Draw(t, "fp")}
					np := rapid.IntRange(0, 2).Draw(t, "fnp")
					for k := 0; k < np; k++ {
						m.Params = append(m.Params, Field{Name: fmt.Sprintf("q%d", k), Type: pts[rapid.IntRange(0, len(pts)-1).Draw(t, "fpt")], Optional: rapid.Bool().Draw(t, "fo")})
					}
					if rapid.IntRange(0, 3).Draw(t, "meta") == 0 {
						m.Metadata = tp(R(ns, "Meta"))
					}
					r.Methods = append(r.Methods, m)
				}
			}
			na := rapid.IntRange(0, 2).Draw(t, "nact")
			if kind == 1 && na == 0 {
				na = 1
			}
			for j := 0; j < na; j++ {
				m := Method{Kind: "ACTION", Name: fmt.Sprintf("x%d", j), OnEntity: kind >= 2 && rapid.Bool().Draw(t, "ae")}
				np := rapid.IntRange(0, 2).Draw(t, "anp")
				for k := 0; k < np; k++ {
					m.Params = append(m.Params, Field{Name: fmt.Sprintf("v%d", k), Type: pts[rapid.IntRange(0, len(pts)-1).Draw(t, "apt")], Optional: rapid.Bool().Draw(t, "ao")})
				}
				if rapid.Bool().Draw(t, "aret") {
					m.Return = tp(pts[rapid.IntRange(0, len(pts)-1).Draw(t, "art")])
				}
				r.Methods = append(r.Methods, m)
			}
			if len(r.Methods) == 0 {
				r.Methods = append(r.Methods, Method{Kind: "ACTION", Name: "only"})
			}
			out = append(out, r)
		}
		return out
	})
	s.Resources = append(s.Resources, g.Example(int(seed%1000000007))...)
}
