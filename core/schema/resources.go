package schema

// ResourceCorpus is filled in by the resource-level checks (C02 and friends).
func ResourceCorpus(packageRoot string, seed int64, variant, nRandom int) *Schema {
	s := &Schema{PackageRoot: packageRoot}
	Base(s, "vt")
	return s
}
