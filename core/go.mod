module verif/core

go 1.23

toolchain go1.23.5

require (
	github.com/anishathalye/porcupine v1.3.0
	pgregory.net/rapid v1.3.0
)
