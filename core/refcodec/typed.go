package refcodec

import (
	"fmt"
	"math"
	"strconv"
	"strings"
	"unicode/utf8"

	"verif/core/aval"
	"verif/core/schema"
)

// BytesMode selects how bytes / fixed leaves are represented as text.
type BytesMode int

const (
	// Protocol: one code point U+0000..U+00FF per byte (Rest.li / Avro "bytes as string").
	Protocol BytesMode = iota
	// RawUTF8: the byte string reinterpreted as UTF-8 text (what go-restli implements).
	RawUTF8
)

type Opts struct {
	Bytes BytesMode
	// ROR2: the tree is a ROR2 tree (all leaves textual).
	ROR2 bool
	// AltNumbers: alternative but legal spellings of float literals (JSON only).
	AltNumbers bool
	// LenientFixed: do not check the size of fixed leaves (used by known-finding signatures only).
	LenientFixed bool
	// Strict: the tree must be exactly what an encoder may emit for the type: every member of a record object is a field
	// of the schema (once), none is null, an enum leaf is a declared symbol (emit direction of C03).
	Strict bool
}

func bytesToText(b []byte, m BytesMode) string {
	if m == RawUTF8 {
		return string(b)
	}
	rs := make([]rune, len(b))
	for i, c := range b {
		rs[i] = rune(c)
	}
	return string(rs)
}

func textToBytes(s string, m BytesMode) ([]byte, error) {
	if m == RawUTF8 {
		return []byte(s), nil
	}
	if !utf8.ValidString(s) {
		return nil, fmt.Errorf("bytes text is not valid UTF-8: %q", s)
	}
	out := make([]byte, 0, len(s))
	for _, r := range s {
		if r > 0xff {
			return nil, fmt.Errorf("bytes text holds code point U+%04X > U+00FF", r)
		}
		out = append(out, byte(r))
	}
	return out, nil
}

func floatLit(v *aval.V, o Opts) *Tree {
	switch v.F {
	case "NaN":
		return Str("NaN")
	case "+Inf":
		return Str("Infinity")
	case "-Inf":
		return Str("-Infinity")
	}
	f := v.Float()
	// float32 values are written through float64 (exact), shortest round-trip decimal of the float64
	lit := strconv.FormatFloat(f, 'g', -1, 64)
	if o.AltNumbers && !o.ROR2 {
		lit = strconv.FormatFloat(f, 'E', -1, 64)
		if f == math.Trunc(f) && math.Abs(f) < 1e15 {
			lit = strconv.FormatFloat(f, 'f', 1, 64)
		}
	}
	lit = strings.Replace(lit, "e+", "e", 1)
	lit = strings.Replace(lit, "E+", "E", 1)
	return Num(lit)
}

// TreeOf is the reference encoder's first half: the wire tree denoting v (type t).
func TreeOf(s *schema.Schema, t schema.Type, v *aval.V, o Opts) *Tree {
	switch {
	case t.Prim != "":
		return primTree(t.Prim, v, o)
	case t.Array != nil:
		a := Arr()
		for _, x := range v.Arr {
			a.Arr = append(a.Arr, TreeOf(s, *t.Array, x, o))
		}
		return a
	case t.Map != nil:
		m := Obj()
		for _, k := range v.Keys() {
			m.Obj = append(m.Obj, KV{k, TreeOf(s, *t.Map, v.Get(k), o)})
		}
		return m
	}
	n := s.Lookup(*t.Ref)
	switch n.Kind {
	case "record", "complexkey":
		r := Obj()
		for _, f := range s.AllFields(n) {
			if x, ok := v.Flds[f.Name]; ok {
				r.Obj = append(r.Obj, KV{f.Name, TreeOf(s, f.Type, x, o)})
			}
		}
		return r
	case "enum":
		return Str(v.S)
	case "fixed":
		return Str(bytesToText(v.Bytes(), o.Bytes))
	case "typeref":
		return primTree(n.Prim, v, o)
	case "union":
		if v.Mem == "" {
			return Obj()
		}
		for _, m := range n.Members {
			if m.Alias == v.Mem {
				return Obj(KV{m.Alias, TreeOf(s, m.Type, v.Val, o)})
			}
		}
		panic("union member " + v.Mem + " not in " + n.Full())
	}
	panic("tree of " + t.String())
}

func primTree(p string, v *aval.V, o Opts) *Tree {
	switch p {
	case "int32", "int64":
		return Num(strconv.FormatInt(v.I, 10))
	case "float32", "float64":
		return floatLit(v, o)
	case "bool":
		return Bool(v.B)
	case "string":
		return Str(v.Str())
	case "bytes":
		return Str(bytesToText(v.Bytes(), o.Bytes))
	}
	panic("prim " + p)
}

// FromTree is the reference decoder's second half: the abstract value of type t a wire tree denotes.
// Unknown object members are ignored, null members are absent, absent required fields are left absent
// (the caller compares against what it expects).
func FromTree(s *schema.Schema, t schema.Type, tr *Tree, o Opts) (*aval.V, error) {
	switch {
	case t.Prim != "":
		return primFromTree(t.Prim, tr, o)
	case t.Array != nil:
		if tr.Kind != "arr" {
			return nil, fmt.Errorf("expected array, got %s", tr.Kind)
		}
		a := aval.Array()
		for i, x := range tr.Arr {
			v, err := FromTree(s, *t.Array, x, o)
			if err != nil {
				return nil, fmt.Errorf("[%d]: %w", i, err)
			}
			a.Arr = append(a.Arr, v)
		}
		return a, nil
	case t.Map != nil:
		if tr.Kind != "obj" {
			return nil, fmt.Errorf("expected map, got %s", tr.Kind)
		}
		m := aval.Map()
		for _, kv := range tr.Obj {
			v, err := FromTree(s, *t.Map, kv.V, o)
			if err != nil {
				return nil, fmt.Errorf("[%q]: %w", kv.K, err)
			}
			m.Put(kv.K, v)
		}
		return m, nil
	}
	n := s.Lookup(*t.Ref)
	switch n.Kind {
	case "record", "complexkey":
		if tr.Kind != "obj" {
			return nil, fmt.Errorf("expected record %s, got %s", n.Name, tr.Kind)
		}
		r := aval.Record()
		if o.Strict {
			declared := map[string]bool{}
			for _, f := range s.AllFields(n) {
				declared[f.Name] = true
			}
			seen := map[string]bool{}
			for _, kv := range tr.Obj {
				switch {
				case !declared[kv.K]:
					return nil, fmt.Errorf("member %q is not a field of %s", kv.K, n.Name)
				case seen[kv.K]:
					return nil, fmt.Errorf("member %q of %s occurs twice", kv.K, n.Name)
				case kv.V != nil && kv.V.Kind == "null":
					return nil, fmt.Errorf("member %q of %s is null", kv.K, n.Name)
				}
				seen[kv.K] = true
			}
		}
		for _, f := range s.AllFields(n) {
			x := tr.Get(f.Name)
			if x == nil || x.Kind == "null" {
				continue
			}
			v, err := FromTree(s, f.Type, x, o)
			if err != nil {
				return nil, fmt.Errorf(".%s: %w", f.Name, err)
			}
			r.Flds[f.Name] = v
		}
		return r, nil
	case "enum":
		if tr.Kind != "str" {
			return nil, fmt.Errorf("expected enum symbol, got %s", tr.Kind)
		}
		for _, sym := range n.Symbols {
			if sym == tr.Str {
				return aval.Enum(sym), nil
			}
		}
		if o.Strict {
			return nil, fmt.Errorf("%q is not a symbol of enum %s", tr.Str, n.Name)
		}
		return aval.Enum(""), nil
	case "fixed":
		if tr.Kind != "str" {
			return nil, fmt.Errorf("expected fixed, got %s", tr.Kind)
		}
		b, err := textToBytes(tr.Str, o.Bytes)
		if err != nil {
			return nil, err
		}
		if len(b) != n.Size && !o.LenientFixed {
			return nil, fmt.Errorf("fixed %s has %d bytes, want %d", n.Name, len(b), n.Size)
		}
		return aval.Fixed(b), nil
	case "typeref":
		return primFromTree(n.Prim, tr, o)
	case "union":
		if tr.Kind == "null" {
			return aval.Union("", nil), nil
		}
		if tr.Kind != "obj" {
			return nil, fmt.Errorf("expected union, got %s", tr.Kind)
		}
		if len(tr.Obj) == 0 {
			return aval.Union("", nil), nil
		}
		if len(tr.Obj) != 1 {
			return nil, fmt.Errorf("union %s with %d members", n.Name, len(tr.Obj))
		}
		for _, m := range n.Members {
			if m.Alias == tr.Obj[0].K {
				v, err := FromTree(s, m.Type, tr.Obj[0].V, o)
				if err != nil {
					return nil, fmt.Errorf("<%s>: %w", m.Alias, err)
				}
				return aval.Union(m.Alias, v), nil
			}
		}
		return nil, fmt.Errorf("union %s has no member %q", n.Name, tr.Obj[0].K)
	}
	panic("from tree " + t.String())
}

func primFromTree(p string, tr *Tree, o Opts) (*aval.V, error) {
	if o.ROR2 && (tr.Kind == "num" || tr.Kind == "bool") {
		// a tree built by TreeOf rather than parsed from a ROR2 document: its leaves render as this text
		c := *tr
		c.Kind = "str"
		if tr.Kind == "bool" {
			c.Str = strconv.FormatBool(tr.Bool)
		}
		tr = &c
	}
	text := func() (string, error) {
		if o.ROR2 {
			if tr.Kind != "str" {
				return "", fmt.Errorf("expected %s text, got %s", p, tr.Kind)
			}
			return tr.Str, nil
		}
		return "", nil
	}
	switch p {
	case "int32", "int64":
		lit := tr.Str
		if o.ROR2 {
			if _, err := text(); err != nil {
				return nil, err
			}
		} else if tr.Kind != "num" {
			return nil, fmt.Errorf("expected %s number, got %s", p, tr.Kind)
		}
		bits := 64
		if p == "int32" {
			bits = 32
		}
		i, err := strconv.ParseInt(lit, 10, bits)
		if err != nil {
			return nil, fmt.Errorf("bad %s literal %q", p, lit)
		}
		if p == "int32" {
			return aval.Int32(int32(i)), nil
		}
		return aval.Int64(i), nil
	case "float32", "float64":
		var f float64
		isText := tr.Kind == "str"
		if isText {
			switch tr.Str {
			case "NaN":
				f = math.NaN()
			case "Infinity":
				f = math.Inf(1)
			case "-Infinity":
				f = math.Inf(-1)
			default:
				if !o.ROR2 {
					return nil, fmt.Errorf("string %q where a %s is expected", tr.Str, p)
				}
				var err error
				f, err = strconv.ParseFloat(tr.Str, 64)
				if err != nil {
					return nil, fmt.Errorf("bad %s text %q", p, tr.Str)
				}
			}
		} else if tr.Kind == "num" {
			var err error
			f, err = strconv.ParseFloat(tr.Str, 64)
			if err != nil && !(math.IsInf(f, 0)) {
				return nil, fmt.Errorf("bad %s literal %q", p, tr.Str)
			}
		} else {
			return nil, fmt.Errorf("expected %s, got %s", p, tr.Kind)
		}
		if p == "float32" {
			return aval.Float32(float32(f)), nil
		}
		return aval.Float64(f), nil
	case "bool":
		if o.ROR2 {
			switch tr.Str {
			case "true":
				return aval.Bool(true), nil
			case "false":
				return aval.Bool(false), nil
			}
			return nil, fmt.Errorf("bad bool text %q (%s)", tr.Str, tr.Kind)
		}
		if tr.Kind != "bool" {
			return nil, fmt.Errorf("expected bool, got %s", tr.Kind)
		}
		return aval.Bool(tr.Bool), nil
	case "string":
		if tr.Kind != "str" {
			return nil, fmt.Errorf("expected string, got %s", tr.Kind)
		}
		return aval.Str(tr.Str), nil
	case "bytes":
		if tr.Kind != "str" {
			return nil, fmt.Errorf("expected bytes string, got %s", tr.Kind)
		}
		b, err := textToBytes(tr.Str, o.Bytes)
		if err != nil {
			return nil, err
		}
		return aval.Bytes(b), nil
	}
	panic("prim " + p)
}

// ParseLiteral parses a schema default literal (compact JSON) into the abstract value it denotes.
// Bytes / fixed defaults follow the Pegasus rule: one code point per byte.
func ParseLiteral(s *schema.Schema, t schema.Type, lit string) *aval.V {
	tr, err := ParseJSON([]byte(lit))
	if err != nil {
		panic(fmt.Sprintf("default literal %q of %s is not JSON: %v", lit, t, err))
	}
	v, err := FromTree(s, t, tr, Opts{Bytes: Protocol})
	if err != nil {
		panic(fmt.Sprintf("default literal %q does not denote a %s: %v", lit, t, err))
	}
	return v
}

// Defaults returns the parse function aval.FillDefaults needs.
func Defaults(s *schema.Schema) func(t schema.Type, lit string) *aval.V {
	return func(t schema.Type, lit string) *aval.V { return ParseLiteral(s, t, lit) }
}
