// Package refcodec is the independent reference for the Rest.li 2.0 wire formats (DESIGN.md
// Appendix A). It shares no code with go-restli or easyjson: JSON is parsed with encoding/json's
// tokenizer under extra strictness checks (valid UTF-8, no duplicate keys, no trailing data) and ROR2
// with a hand-written recursive-descent parser.
package refcodec

import (
	"fmt"
	"sort"
	"strconv"
	"strings"
	"unicode/utf8"
)

// Tree is an untyped wire document. Kind: obj arr str num bool null.
// For ROR2 documents only obj, arr and str occur (every primitive is text).
type Tree struct {
	Kind string
	Obj  []KV   // ordered as written / parsed
	Arr  []*Tree
	Str  string // str: the denoted text (bytes); num: the literal as written
	Bool bool
}

type KV struct {
	K string
	V *Tree
}

func Obj(kvs ...KV) *Tree     { return &Tree{Kind: "obj", Obj: kvs} }
func Arr(items ...*Tree) *Tree { return &Tree{Kind: "arr", Arr: items} }
func Str(s string) *Tree      { return &Tree{Kind: "str", Str: s} }
func Num(lit string) *Tree    { return &Tree{Kind: "num", Str: lit} }
func Bool(b bool) *Tree       { return &Tree{Kind: "bool", Bool: b} }
func Null() *Tree             { return &Tree{Kind: "null"} }

func (t *Tree) Get(k string) *Tree {
	for _, kv := range t.Obj {
		if kv.K == k {
			return kv.V
		}
	}
	return nil
}

func (t *Tree) Set(k string, v *Tree) {
	for i, kv := range t.Obj {
		if kv.K == k {
			t.Obj[i].V = v
			return
		}
	}
	t.Obj = append(t.Obj, KV{k, v})
}

func (t *Tree) Del(k string) bool {
	for i, kv := range t.Obj {
		if kv.K == k {
			t.Obj = append(t.Obj[:i:i], t.Obj[i+1:]...)
			return true
		}
	}
	return false
}

func (t *Tree) Clone() *Tree {
	if t == nil {
		return nil
	}
	c := *t
	if t.Obj != nil {
		c.Obj = make([]KV, len(t.Obj))
		for i, kv := range t.Obj {
			c.Obj[i] = KV{kv.K, kv.V.Clone()}
		}
	}
	if t.Arr != nil {
		c.Arr = make([]*Tree, len(t.Arr))
		for i, x := range t.Arr {
			c.Arr[i] = x.Clone()
		}
	}
	return &c
}

func (t *Tree) SortKeys() {
	if t == nil {
		return
	}
	sort.SliceStable(t.Obj, func(i, j int) bool { return t.Obj[i].K < t.Obj[j].K })
	for _, kv := range t.Obj {
		kv.V.SortKeys()
	}
	for _, x := range t.Arr {
		x.SortKeys()
	}
}

// String is a debugging form.
func (t *Tree) String() string {
	if t == nil {
		return "<nil>"
	}
	return RenderJSON(t, JSONOpts{})
}

// ---------------------------------------------------------------------------------------------
// JSON rendering (reference encoder)

type JSONOpts struct {
	Pretty      bool // insignificant whitespace everywhere it is legal
	EscapeAll   bool // every character of strings and keys as a \uXXXX escape (surrogate pairs above the BMP)
	EscapeSlash bool // "/" as "\/"
}

func RenderJSON(t *Tree, o JSONOpts) string {
	var b strings.Builder
	renderJSON(&b, t, o, 0)
	return b.String()
}

func jsonString(b *strings.Builder, s string, o JSONOpts) {
	b.WriteByte('"')
	for _, r := range s { // invalid UTF-8 yields U+FFFD: callers only pass valid text (checked by ValidForJSON)
		switch {
		case o.EscapeAll:
			if r > 0xffff {
				r -= 0x10000
				fmt.Fprintf(b, "\\u%04x\\u%04X", 0xd800+(r>>10), 0xdc00+(r&0x3ff))
			} else {
				fmt.Fprintf(b, "\\u%04x", r)
			}
		case r == '"':
			b.WriteString(`\"`)
		case r == '\\':
			b.WriteString(`\\`)
		case r == '/' && o.EscapeSlash:
			b.WriteString(`\/`)
		case r == '\n':
			b.WriteString(`\n`)
		case r == '\r':
			b.WriteString(`\r`)
		case r == '\t':
			b.WriteString(`\t`)
		case r < 0x20:
			fmt.Fprintf(b, "\\u%04x", r)
		default:
			b.WriteRune(r)
		}
	}
	b.WriteByte('"')
}

func renderJSON(b *strings.Builder, t *Tree, o JSONOpts, ind int) {
	ws := func(extra int) {
		if o.Pretty {
			b.WriteString("\n")
			b.WriteString(strings.Repeat(" \t", ind+extra))
		}
	}
	switch t.Kind {
	case "obj":
		b.WriteByte('{')
		for i, kv := range t.Obj {
			if i > 0 {
				b.WriteByte(',')
			}
			ws(1)
			jsonString(b, kv.K, o)
			if o.Pretty {
				b.WriteString(" :  ")
			} else {
				b.WriteByte(':')
			}
			renderJSON(b, kv.V, o, ind+1)
		}
		if len(t.Obj) > 0 {
			ws(0)
		} else if o.Pretty {
			b.WriteString(" ")
		}
		b.WriteByte('}')
	case "arr":
		b.WriteByte('[')
		for i, x := range t.Arr {
			if i > 0 {
				b.WriteByte(',')
			}
			ws(1)
			renderJSON(b, x, o, ind+1)
		}
		if len(t.Arr) > 0 {
			ws(0)
		} else if o.Pretty {
			b.WriteString("\r\n")
		}
		b.WriteByte(']')
	case "str":
		jsonString(b, t.Str, o)
	case "num":
		b.WriteString(t.Str)
	case "bool":
		b.WriteString(strconv.FormatBool(t.Bool))
	case "null":
		b.WriteString("null")
	default:
		panic("render: bad tree kind " + t.Kind)
	}
}

// ValidForJSON reports whether every string and key in t is valid UTF-8 (otherwise JSON cannot denote it).
func ValidForJSON(t *Tree) bool {
	ok := true
	var walk func(*Tree)
	walk = func(x *Tree) {
		if x.Kind == "str" && !utf8.ValidString(x.Str) {
			ok = false
		}
		for _, kv := range x.Obj {
			if !utf8.ValidString(kv.K) {
				ok = false
			}
			walk(kv.V)
		}
		for _, y := range x.Arr {
			walk(y)
		}
	}
	walk(t)
	return ok
}

// ---------------------------------------------------------------------------------------------
// ROR2 rendering (reference encoder)

type Flavour int

const (
	Header Flavour = iota // X-RestLi-Id, batch keys inside JSON bodies
	Path                  // URL path segment
	Query                 // query parameter value
)

func (f Flavour) String() string { return [...]string{"header", "path", "query"}[f] }

type ROR2Opts struct {
	Flavour   Flavour
	EscapeAll bool // %XX for every byte (legal alternative encoding); hex digit case alternates
}

const ror2Reserved = "(),:'%"

func ror2Escape(s string, o ROR2Opts) string {
	var b strings.Builder
	up := true
	hexb := func(c byte) {
		if o.EscapeAll {
			up = !up
		} else {
			up = true
		}
		if up {
			fmt.Fprintf(&b, "%%%02X", c)
		} else {
			fmt.Fprintf(&b, "%%%02x", c)
		}
	}
	for i := 0; i < len(s); i++ {
		c := s[i]
		safe := false
		switch {
		case o.EscapeAll:
		case c >= 'a' && c <= 'z', c >= 'A' && c <= 'Z', c >= '0' && c <= '9', c == '-', c == '_', c == '.', c == '~':
			safe = true
		case o.Flavour == Header && c >= 0x20 && c < 0x7f && !strings.ContainsRune(ror2Reserved, rune(c)):
			safe = true // the reduced header encoding only escapes the reserved characters
		}
		if safe {
			b.WriteByte(c)
		} else {
			hexb(c)
		}
	}
	return b.String()
}

// RenderROR2 encodes a tree (obj / arr / str only; num and bool are rendered as their text).
func RenderROR2(t *Tree, o ROR2Opts) string {
	var b strings.Builder
	renderROR2(&b, t, o)
	return b.String()
}

func renderROR2(b *strings.Builder, t *Tree, o ROR2Opts) {
	switch t.Kind {
	case "obj":
		b.WriteByte('(')
		for i, kv := range t.Obj {
			if i > 0 {
				b.WriteByte(',')
			}
			if kv.K == "" {
				b.WriteString("''")
			} else {
				b.WriteString(ror2Escape(kv.K, o))
			}
			b.WriteByte(':')
			renderROR2(b, kv.V, o)
		}
		b.WriteByte(')')
	case "arr":
		b.WriteString("List(")
		for i, x := range t.Arr {
			if i > 0 {
				b.WriteByte(',')
			}
			renderROR2(b, x, o)
		}
		b.WriteByte(')')
	case "str":
		if t.Str == "" {
			b.WriteString("''")
		} else {
			b.WriteString(ror2Escape(t.Str, o))
		}
	case "num":
		b.WriteString(ror2Escape(t.Str, o))
	case "bool":
		b.WriteString(strconv.FormatBool(t.Bool))
	default:
		panic("ror2 render: bad tree kind " + t.Kind)
	}
}

// ToAny converts a tree to the untyped Go value the library's interface reader consumes
// (map[string]any, []any, string, float64 / int64 per literal, bool).
func ToAny(t *Tree, numbersAsStrings bool) any {
	switch t.Kind {
	case "obj":
		m := map[string]any{}
		for _, kv := range t.Obj {
			if kv.V.Kind == "null" {
				continue
			}
			m[kv.K] = ToAny(kv.V, numbersAsStrings)
		}
		return m
	case "arr":
		a := make([]any, 0, len(t.Arr))
		for _, x := range t.Arr {
			a = append(a, ToAny(x, numbersAsStrings))
		}
		return a
	case "str":
		return t.Str
	case "num":
		if numbersAsStrings {
			return t.Str
		}
		if i, err := strconv.ParseInt(t.Str, 10, 64); err == nil && t.Str != "-0" {
			return i
		}
		f, err := strconv.ParseFloat(t.Str, 64)
		if err != nil {
			panic("bad numeric literal " + t.Str)
		}
		return f
	case "bool":
		return t.Bool
	}
	return nil
}
