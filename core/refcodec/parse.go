package refcodec

import (
	"bytes"
	"encoding/json"
	"fmt"
	"io"
	"strings"
	"unicode/utf8"
)

// ParseJSON is the strict reference JSON parser: exactly one value, valid UTF-8, no duplicate object
// keys, no trailing data. Number literals are kept as written.
func ParseJSON(data []byte) (*Tree, error) {
	if !utf8.Valid(data) {
		return nil, fmt.Errorf("document is not valid UTF-8")
	}
	dec := json.NewDecoder(bytes.NewReader(data))
	dec.UseNumber()
	t, err := parseJSONValue(dec)
	if err != nil {
		return nil, err
	}
	if _, err := dec.Token(); err != io.EOF {
		return nil, fmt.Errorf("trailing data after the top-level value (%v)", err)
	}
	return t, nil
}

func parseJSONValue(dec *json.Decoder) (*Tree, error) {
	tok, err := dec.Token()
	if err != nil {
		return nil, err
	}
	return parseJSONFrom(dec, tok)
}

func parseJSONFrom(dec *json.Decoder, tok json.Token) (*Tree, error) {
	switch v := tok.(type) {
	case json.Delim:
		switch v {
		case '{':
			t := Obj()
			seen := map[string]bool{}
			for dec.More() {
				kt, err := dec.Token()
				if err != nil {
					return nil, err
				}
				k, ok := kt.(string)
				if !ok {
					return nil, fmt.Errorf("object key is not a string: %v", kt)
				}
				if seen[k] {
					return nil, fmt.Errorf("duplicate object key %q", k)
				}
				seen[k] = true
				val, err := parseJSONValue(dec)
				if err != nil {
					return nil, err
				}
				t.Obj = append(t.Obj, KV{k, val})
			}
			if _, err := dec.Token(); err != nil {
				return nil, err
			}
			return t, nil
		case '[':
			t := Arr()
			for dec.More() {
				val, err := parseJSONValue(dec)
				if err != nil {
					return nil, err
				}
				t.Arr = append(t.Arr, val)
			}
			if _, err := dec.Token(); err != nil {
				return nil, err
			}
			return t, nil
		}
		return nil, fmt.Errorf("unexpected delimiter %v", v)
	case string:
		return Str(v), nil
	case json.Number:
		return Num(string(v)), nil
	case bool:
		return Bool(v), nil
	case nil:
		return Null(), nil
	}
	return nil, fmt.Errorf("unexpected token %v", tok)
}

// ---------------------------------------------------------------------------------------------
// ROR2

// ParseROR2 is the reference parser of the protocol 2.0 object / list representation:
//
//	value := obj | list | text
//	obj   := "(" [ key ":" value { "," key ":" value } ] ")"
//	list  := "List(" [ value { "," value } ] ")"
//	text  := "''" | 1*( unreserved / pct-encoded )   ; "(" ")" "," ":" "'" never raw
//
// Text and keys are percent-decoded. The flavour only selects the context-safety check applied to
// the raw document (CheckROR2Context), the grammar is the same.
func ParseROR2(s string) (*Tree, error) {
	p := &ror2Parser{s: s}
	t, err := p.value()
	if err != nil {
		return nil, err
	}
	if p.i != len(s) {
		return nil, fmt.Errorf("trailing data at %d in %q", p.i, s)
	}
	return t, nil
}

type ror2Parser struct {
	s string
	i int
}

func (p *ror2Parser) value() (*Tree, error) {
	switch {
	case strings.HasPrefix(p.s[p.i:], "List("):
		p.i += 5
		t := Arr()
		if p.peek() == ')' {
			p.i++
			return t, nil
		}
		for {
			v, err := p.value()
			if err != nil {
				return nil, err
			}
			t.Arr = append(t.Arr, v)
			switch p.peek() {
			case ',':
				p.i++
			case ')':
				p.i++
				return t, nil
			default:
				return nil, fmt.Errorf("expected ',' or ')' at %d in %q", p.i, p.s)
			}
		}
	case p.peek() == '(':
		p.i++
		t := Obj()
		if p.peek() == ')' {
			p.i++
			return t, nil
		}
		seen := map[string]bool{}
		for {
			k, err := p.text(true)
			if err != nil {
				return nil, err
			}
			if p.peek() != ':' {
				return nil, fmt.Errorf("expected ':' after key at %d in %q", p.i, p.s)
			}
			p.i++
			if seen[k] {
				return nil, fmt.Errorf("duplicate key %q", k)
			}
			seen[k] = true
			v, err := p.value()
			if err != nil {
				return nil, err
			}
			t.Obj = append(t.Obj, KV{k, v})
			switch p.peek() {
			case ',':
				p.i++
			case ')':
				p.i++
				return t, nil
			default:
				return nil, fmt.Errorf("expected ',' or ')' at %d in %q", p.i, p.s)
			}
		}
	}
	txt, err := p.text(false)
	if err != nil {
		return nil, err
	}
	return Str(txt), nil
}

func (p *ror2Parser) peek() byte {
	if p.i < len(p.s) {
		return p.s[p.i]
	}
	return 0
}

func (p *ror2Parser) text(isKey bool) (string, error) {
	start := p.i
	if strings.HasPrefix(p.s[p.i:], "''") {
		p.i += 2
		return "", nil
	}
	var b strings.Builder
	for p.i < len(p.s) {
		c := p.s[p.i]
		if c == '(' || c == ')' || c == ',' || c == ':' {
			break
		}
		if c == '\'' {
			return "", fmt.Errorf("raw ' at %d in %q", p.i, p.s)
		}
		if c == '%' {
			if p.i+2 >= len(p.s) {
				return "", fmt.Errorf("truncated percent escape at %d in %q", p.i, p.s)
			}
			h, ok1 := unhex(p.s[p.i+1])
			l, ok2 := unhex(p.s[p.i+2])
			if !ok1 || !ok2 {
				return "", fmt.Errorf("bad percent escape at %d in %q", p.i, p.s)
			}
			b.WriteByte(h<<4 | l)
			p.i += 3
			continue
		}
		b.WriteByte(c)
		p.i++
	}
	if p.i == start {
		return "", fmt.Errorf("empty text at %d in %q (the empty string is written '')", p.i, p.s)
	}
	return b.String(), nil
}

func unhex(c byte) (byte, bool) {
	switch {
	case c >= '0' && c <= '9':
		return c - '0', true
	case c >= 'a' && c <= 'f':
		return c - 'a' + 10, true
	case c >= 'A' && c <= 'F':
		return c - 'A' + 10, true
	}
	return 0, false
}

// CheckROR2Context verifies that a raw ROR2 document is safe in the context it is emitted for:
// path: no raw "/ ? #", space, control or non-ASCII byte; query: additionally no raw "& = +".
// (The header flavour has no further constraint beyond the grammar.) Escaping more than necessary is
// never an error.
func CheckROR2Context(doc string, f Flavour) error {
	if f == Header {
		return nil
	}
	for i := 0; i < len(doc); i++ {
		c := doc[i]
		bad := c <= 0x20 || c >= 0x7f || c == '/' || c == '?' || c == '#' || c == '"' || c == '<' || c == '>' || c == '\\' || c == '^' || c == '`' || c == '{' || c == '|' || c == '}' || c == '[' || c == ']'
		if f == Query && (c == '&' || c == '=' || c == '+') {
			bad = true
		}
		if f == Query && (c == '/' || c == '?') {
			bad = false // legal raw in a query component (RFC 3986 section 3.4)
		}
		if bad {
			return fmt.Errorf("raw byte %q at %d is not safe in a URL %s component: %q", c, i, f, doc)
		}
	}
	return nil
}
