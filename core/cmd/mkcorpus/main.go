// mkcorpus renders a schema corpus for the harness: the generator's input (v2 manifest or root spec),
// the schema description the tests load back, and the registry source that registers the generated
// types with the reflection bridge.
package main

import (
	"flag"
	"fmt"
	"os"
	"path/filepath"
	"regexp"
	"strings"

	"verif/core/schema"
)

func main() {
	kind := flag.String("kind", "codec", "corpus kind: codec | resources")
	seed := flag.Int64("seed", 1, "seed of the random part")
	nrandom := flag.Int("nrandom", 12, "number of random types")
	variant := flag.Int("variant", 0, "corpus variant (resources: which systematic slice)")
	root := flag.String("root", "", "Go package root of the generated code")
	out := flag.String("out", "", "directory for schema.json / manifest.json / spec.json")
	regPkg := flag.String("regpkg", "", "package name of the registry file")
	regFile := flag.String("regfile", "", "path of the registry file")
	dynImport := flag.String("dyn", "", "import path of the dyn bridge")
	genDir := flag.String("gendir", "", "directory the generator wrote to (registry: optional identifiers are looked up there)")
	customDir := flag.String("customdir", "", "directory the generator will write to: custom typeref implementations are placed there")
	fnv1aImport := flag.String("fnv1a", "github.com/PapaCharlie/go-restli/v2/fnv1a", "import path of the hash package custom typerefs refer to")
	gen := flag.String("gen", "v2", "module generation the registry is for (v2 | v1)")
	flag.Parse()
	var s *schema.Schema
	switch *kind {
	case "codec":
		s = schema.CodecCorpus(*root, *seed, *nrandom)
	case "resources":
		s = schema.ResourceCorpus(*root, *seed, *variant, *nrandom)
	default:
		fmt.Fprintln(os.Stderr, "unknown corpus kind", *kind)
		os.Exit(2)
	}
	if *gen == "v1" {
		// shapes the root-module generation does not support are left out for v1 only (documented at Schema.ForV1)
		for _, n := range s.ForV1() {
			fmt.Println("v1:", n)
		}
	}
	must(os.MkdirAll(*out, 0o755))
	must(os.WriteFile(filepath.Join(*out, "schema.json"), s.Describe(), 0o644))
	must(os.WriteFile(filepath.Join(*out, "manifest.json"), s.ManifestV2(), 0o644))
	must(os.WriteFile(filepath.Join(*out, "spec.json"), s.SpecV1(), 0o644))
	if *customDir != "" {
		// hand-written implementations of the corpus' custom typerefs, placed where the generator looks for them
		for _, n := range s.Types {
			if n.Kind == "typeref" && n.Custom {
				dir := filepath.Join(*customDir, filepath.FromSlash(schema.NamespaceDir(n.Namespace)))
				must(os.MkdirAll(dir, 0o755))
				must(os.WriteFile(filepath.Join(dir, n.Name+".go"), []byte(schema.CustomTyperefSource(s.PackageRoot, n, *fnv1aImport)), 0o644))
			}
		}
	}
	if *regFile != "" {
		var exists func(ns, ident string) bool
		if *genDir != "" {
			exists = func(ns, ident string) bool {
				dir := filepath.Join(*genDir, filepath.FromSlash(strings.ReplaceAll(ns, ".", "/")))
				files, _ := filepath.Glob(filepath.Join(dir, "*.go"))
				re := regexp.MustCompile(`(?m)^(func|var|type)\s+` + regexp.QuoteMeta(ident) + `\b`)
				for _, f := range files {
					if b, err := os.ReadFile(f); err == nil && re.Match(b) {
						return true
					}
				}
				return false
			}
		}
		must(os.WriteFile(*regFile, []byte(s.RegistrySource(*regPkg, *dynImport, *gen, exists)), 0o644))
	}
	fmt.Printf("corpus %s: %d types, %d resources\n", *kind, len(s.Types), len(s.Resources))
}

func must(err error) {
	if err != nil {
		fmt.Fprintln(os.Stderr, err)
		os.Exit(2)
	}
}
