package aval

import (
	"math"
	"unicode/utf8"

	"pgregory.net/rapid"

	"verif/core/schema"
)

// Gen draws valid values of schema types with adversarial leaves.
type Gen struct {
	S *schema.Schema
	// MaxDepth bounds container/record nesting of the generated value (not of the schema).
	MaxDepth int
	// InvalidUTF8 allows strings and map keys that are not valid UTF-8 (bytes/fixed always may be).
	InvalidUTF8 bool
	// PlainKeys restricts map keys to [A-Za-z0-9_] (used where the property is about something else).
	PlainKeys bool
	// ExtraKeys: one key in six is drawn from this list instead (C07, with PlainKeys: keys that are plain for every wire
	// format and for the slash-separated exclusion syntax but look like something else, e.g. "[0]"; C09: keys whose byte
	// order differs from their UTF-16 order)
	ExtraKeys []string
	// Plain restricts all leaves to benign values.
	Plain bool
	// NoPatchOperatorKeys avoids the map keys "$set" and "$delete" (the exclusion matcher cannot tell them from the
	// partial-update operators: known finding KF-C07-patch-operator-map-keys)
	NoPatchOperatorKeys bool
	// TextBytes restricts bytes / fixed leaves to valid UTF-8 text (the JSON formats cannot carry anything else:
	// known finding KF-C01-json-non-utf8); used by checks whose subject is something other than the codec.
	TextBytes bool
	// SlashSiblings: one map in three gains an entry whose key spells the path of another entry's child (m["a/b"] next
	// to m["a"].b): two different values whose slash-joined paths coincide (C07)
	SlashSiblings bool
}

var HostileStrings = []string{
	"", "''", "'", "List(", "List()", "List(a)", "$set", "$delete", "$params", "null", "true", "NaN", "Infinity", "-Infinity",
	"(", ")", "()", ",", ":", "%", "&", "=", "+", ";", "/", "?", "#", "\"", "\\", " ", "  ", "a:b,c", "(a:b)", "k:v", "%2F", "%25", "%", "%zz", "%2",
	"a b", "a+b", "a&b=c", "a/b", "a?b#c", "é", "ÿ", "Ā", " ", "\U0001F600", "\x00", "\x01", "\x1f", "\x7f", "\t", "\n", "\r\n",
	"<>&", "{}", "[]", "{\"a\":1}", "\\u0041", "\\", "\\\"", "0", "-1", "1e5", "é(à):ü", "日本語", ".", "..", "*", "!", "~", "$", "@",
}

var invalidUTF8 = []string{"\xff", "\xfe\xff", "\xc0\x80", "\xc3", "a\x80b", "\xed\xa0\x80", "\xf5\x80\x80\x80", "\xc1\xbf", "\xe9"}

func (g *Gen) String(t *rapid.T, label string) string {
	if g.Plain {
		return rapid.StringMatching(`[a-z0-9]{0,6}`).Draw(t, label)
	}
	switch rapid.IntRange(0, 9).Draw(t, label+"_kind") {
	case 0, 1, 2:
		return rapid.SampledFrom(HostileStrings).Draw(t, label+"_h")
	case 3, 4:
		// concatenation of hostile fragments
		n := rapid.IntRange(2, 4).Draw(t, label+"_n")
		s := ""
		for i := 0; i < n; i++ {
			s += rapid.SampledFrom(HostileStrings).Draw(t, label+"_hf")
		}
		if len(s) > 32 {
			s = s[:32]
			for !utf8.ValidString(s) {
				s = s[:len(s)-1]
			}
		}
		return s
	case 5, 6:
		// arbitrary code points (valid UTF-8), all planes, control characters included
		rs := rapid.SliceOfN(rapid.OneOf(rapid.Rune(), rapid.Map(rapid.Int32Range(0, 0x2ff), func(a int32) rune { return rune(a) })), 0, 12).Draw(t, label+"_r")
		out := make([]rune, 0, len(rs))
		for _, r := range rs {
			if utf8.ValidRune(r) {
				out = append(out, r)
			}
		}
		return string(out)
	case 7:
		if g.InvalidUTF8 {
			if rapid.Bool().Draw(t, label+"_inv") {
				return rapid.SampledFrom(invalidUTF8).Draw(t, label+"_iv")
			}
			return string(rapid.SliceOfN(rapid.Byte(), 0, 16).Draw(t, label+"_b"))
		}
		return rapid.StringMatching(`[ -~]{0,16}`).Draw(t, label+"_p")
	default:
		return rapid.StringMatching(`[a-zA-Z0-9_]{1,8}`).Draw(t, label+"_a")
	}
}

func (g *Gen) Key(t *rapid.T, label string) string {
	if len(g.ExtraKeys) > 0 && rapid.IntRange(0, 5).Draw(t, label+"_extra") == 0 {
		return rapid.SampledFrom(g.ExtraKeys).Draw(t, label+"_xk")
	}
	if g.PlainKeys || g.Plain {
		return rapid.StringMatching(`[a-zA-Z0-9_]{1,6}`).Draw(t, label)
	}
	k := g.String(t, label)
	if g.NoPatchOperatorKeys && (k == "$set" || k == "$delete") {
		k += "_"
	}
	return k
}

func (g *Gen) RawBytes(t *rapid.T, label string, n int) []byte {
	if g.TextBytes && !g.Plain {
		if n >= 0 {
			b := make([]byte, n)
			for i := range b {
				b[i] = rapid.SampledFrom([]byte("ab(),:'%&=+ /?#\"\\\x00\x7f01")).Draw(t, label+"_tb")
			}
			return b
		}
		return []byte(g.String(t, label+"_ts"))
	}
	if g.Plain {
		b := make([]byte, 0)
		if n >= 0 {
			b = make([]byte, n)
			for i := range b {
				b[i] = 'a' + byte(i%26)
			}
			return b
		}
		return []byte(rapid.StringMatching(`[a-z]{0,6}`).Draw(t, label))
	}
	if n >= 0 {
		switch rapid.IntRange(0, 3).Draw(t, label+"_fk") {
		case 0:
			b := make([]byte, n)
			c := rapid.SampledFrom([]byte{0, 0xff, 0x80, '(', '%', '"', '\\', 0xc3}).Draw(t, label+"_fill")
			for i := range b {
				b[i] = c
			}
			return b
		default:
			return rapid.SliceOfN(rapid.Byte(), n, n).Draw(t, label+"_fb")
		}
	}
	switch rapid.IntRange(0, 4).Draw(t, label+"_bk") {
	case 0:
		return []byte(rapid.SampledFrom(HostileStrings).Draw(t, label+"_bh"))
	case 1:
		return []byte(rapid.SampledFrom(invalidUTF8).Draw(t, label+"_bi"))
	case 2:
		// all 256 byte values show up here over time
		return rapid.SliceOfN(rapid.Byte(), 0, 24).Draw(t, label+"_bb")
	case 3:
		return rapid.SliceOfN(rapid.ByteRange(0x7e, 0xff), 1, 8).Draw(t, label+"_bhi")
	default:
		return []byte(rapid.StringMatching(`[a-z0-9]{0,8}`).Draw(t, label+"_ba"))
	}
}

var int32s = []int32{0, 1, -1, math.MaxInt32, math.MinInt32, math.MaxInt32 - 1, math.MinInt32 + 1, 10, -10, 1000000, 65536, -65536}
var int64s = []int64{0, 1, -1, math.MaxInt64, math.MinInt64, math.MaxInt64 - 1, math.MinInt64 + 1, 1 << 53, 1<<53 + 1, -(1 << 53) - 1, math.MaxInt32 + 1, math.MinInt32 - 1, 1e15, 1e18}
var float64s = []float64{0, math.Copysign(0, -1), math.NaN(), math.Inf(1), math.Inf(-1), math.MaxFloat64, -math.MaxFloat64, math.SmallestNonzeroFloat64,
	-math.SmallestNonzeroFloat64, 2.2250738585072014e-308, 1e21, 1e21 - 131072, 9.999999999999999e20, 1e20, 1.2345678901234568e20, 1e22, 1e-6, 1e-7, 9.999999999999999e-7, 1.0000000000000002e-6, 0.000001,
	1.5e-7, 1, -1, 0.1, 0.3, 1.0 / 3, 123456789.125, 1e100, 1e-100, 4.9e-324, 1.7976931348623157e308, 9007199254740993, 0.5, 100, 1e6, 1e7, math.Pi}
var float32s = []float32{0, float32(math.Copysign(0, -1)), float32(math.NaN()), float32(math.Inf(1)), float32(math.Inf(-1)), math.MaxFloat32, -math.MaxFloat32,
	math.SmallestNonzeroFloat32, 1.1754944e-38, 0.1, 0.3, 1.0 / 3, 16777216, 16777217, 1e21, 1e20, 9.999999e20, 1e-6, 1e-7, 9.999999e-7, 1, -1, 3.4028235e38, 1e10, 1e-10, 0.5, 123456.79}

func (g *Gen) Prim(t *rapid.T, p string, label string) *V {
	switch p {
	case "int32":
		if g.Plain {
			return Int32(rapid.Int32Range(-100, 100).Draw(t, label))
		}
		if rapid.Bool().Draw(t, label+"_e") {
			return Int32(rapid.SampledFrom(int32s).Draw(t, label+"_s"))
		}
		return Int32(rapid.Int32().Draw(t, label))
	case "int64":
		if g.Plain {
			return Int64(rapid.Int64Range(-100, 100).Draw(t, label))
		}
		if rapid.Bool().Draw(t, label+"_e") {
			return Int64(rapid.SampledFrom(int64s).Draw(t, label+"_s"))
		}
		return Int64(rapid.Int64().Draw(t, label))
	case "float32":
		if g.Plain {
			return Float32(float32(rapid.IntRange(-100, 100).Draw(t, label)) / 4)
		}
		switch rapid.IntRange(0, 3).Draw(t, label+"_e") {
		case 0, 1:
			return Float32(rapid.SampledFrom(float32s).Draw(t, label+"_s"))
		case 2:
			return Float32(math.Float32frombits(rapid.Uint32().Draw(t, label+"_bits")))
		default:
			return Float32(rapid.Float32().Draw(t, label))
		}
	case "float64":
		if g.Plain {
			return Float64(float64(rapid.IntRange(-100, 100).Draw(t, label)) / 4)
		}
		switch rapid.IntRange(0, 3).Draw(t, label+"_e") {
		case 0, 1:
			return Float64(rapid.SampledFrom(float64s).Draw(t, label+"_s"))
		case 2:
			return Float64(math.Float64frombits(rapid.Uint64().Draw(t, label+"_bits")))
		default:
			return Float64(rapid.Float64().Draw(t, label))
		}
	case "bool":
		return Bool(rapid.Bool().Draw(t, label))
	case "string":
		return Str(g.String(t, label))
	case "bytes":
		return Bytes(g.RawBytes(t, label, -1))
	}
	panic("prim " + p)
}

// Value draws a valid value of type typ.
func (g *Gen) Value(t *rapid.T, typ schema.Type, depth int) *V {
	max := g.MaxDepth
	if max == 0 {
		max = 4
	}
	switch {
	case typ.Prim != "":
		return g.Prim(t, typ.Prim, "p")
	case typ.Array != nil:
		n := 0
		if depth < max {
			n = rapid.IntRange(0, 3-min(depth, 2)).Draw(t, "alen")
		}
		a := Array()
		for i := 0; i < n; i++ {
			a.Arr = append(a.Arr, g.Value(t, *typ.Array, depth+1))
		}
		return a
	case typ.Map != nil:
		n := 0
		if depth < max {
			n = rapid.IntRange(0, 3-min(depth, 2)).Draw(t, "mlen")
		}
		m := Map()
		for i := 0; i < n; i++ {
			k := g.Key(t, "mkey")
			if m.Get(k) != nil {
				continue
			}
			m.Put(k, g.Value(t, *typ.Map, depth+1))
		}
		if g.SlashSiblings && len(m.Keys()) > 0 && rapid.IntRange(0, 2).Draw(t, "slash_sibling") == 0 {
			// an entry whose key spells the path of another entry's child: m["a/b"] next to m["a"].b
			for _, k := range m.Keys() {
				if kids := m.Get(k).Keys(); len(kids) > 0 {
					if nk := k + "/" + kids[0]; m.Get(nk) == nil {
						m.Put(nk, g.Value(t, *typ.Map, depth+1))
					}
					break
				}
			}
		}
		return m
	}
	n := g.S.Lookup(*typ.Ref)
	switch n.Kind {
	case "record", "complexkey":
		r := Record()
		for _, f := range g.S.AllFields(n) {
			present := true
			switch {
			case f.Optional:
				present = depth < max && rapid.IntRange(0, 9).Draw(t, "opt") < 6
			case f.Default != nil:
				present = depth < max && rapid.Bool().Draw(t, "def")
			}
			if present {
				r.Flds[f.Name] = g.Value(t, f.Type, depth+1)
			}
		}
		return r
	case "enum":
		return Enum(rapid.SampledFrom(n.Symbols).Draw(t, "sym"))
	case "fixed":
		return Fixed(g.RawBytes(t, "fx", n.Size))
	case "typeref":
		return g.Prim(t, n.Prim, "tr")
	case "union":
		if n.HasNull && (depth >= max || rapid.IntRange(0, 4).Draw(t, "unull") == 0) {
			return Union("", nil)
		}
		ms := n.Members
		if depth >= max {
			// prefer members that do not recurse
			var flat []schema.Member
			for _, m := range ms {
				if m.Type.Prim != "" || (m.Type.Ref != nil && leafKind(g.S.Lookup(*m.Type.Ref).Kind)) {
					flat = append(flat, m)
				}
			}
			if len(flat) > 0 {
				ms = flat
			}
		}
		m := ms[rapid.IntRange(0, len(ms)-1).Draw(t, "umem")]
		return Union(m.Alias, g.Value(t, m.Type, depth+1))
	}
	panic("value of " + typ.String())
}

func leafKind(k string) bool { return k == "enum" || k == "fixed" || k == "typeref" }

func min(a, b int) int {
	if a < b {
		return a
	}
	return b
}

// Classify returns the classes of interesting leaves / shapes present in v (used as labels and for
// the non-triviality rules).
func Classify(v *V) []string {
	set := map[string]bool{}
	v.Walk(func(x *V) {
		switch x.Kind {
		case "string":
			classifyText(x.Str(), "str", set)
		case "bytes", "fixed":
			b := x.Bytes()
			if len(b) == 0 {
				set["bytes_empty"] = true
			}
			if !utf8.Valid(b) {
				set["bytes_invalid_utf8"] = true
			}
			for _, c := range b {
				if c >= 0x80 {
					set["bytes_high"] = true
				}
				if c < 0x20 {
					set["bytes_ctl"] = true
				}
			}
			classifyText(string(b), "bytes", set)
		case "float32", "float64":
			switch x.F {
			case "NaN":
				set["float_nan"] = true
			case "+Inf", "-Inf":
				set["float_inf"] = true
			case "-0":
				set["float_negzero"] = true
			default:
				f := math.Abs(x.Float())
				if f != 0 && (f >= 1e21 || f < 1e-6) {
					set["float_exp_format"] = true
				}
				if f != 0 && f < 2.3e-308 {
					set["float_denormal"] = true
				}
			}
		case "int32":
			if x.I == math.MaxInt32 || x.I == math.MinInt32 {
				set["int_extreme"] = true
			}
		case "int64":
			if x.I == math.MaxInt64 || x.I == math.MinInt64 {
				set["int_extreme"] = true
			}
			if x.I > 1<<53 || x.I < -(1<<53) {
				set["int64_beyond_2^53"] = true
			}
		case "array":
			if len(x.Arr) == 0 {
				set["empty_array"] = true
			}
		case "map":
			if len(x.Ent) == 0 {
				set["empty_map"] = true
			}
			for _, k := range x.Keys() {
				classifyText(k, "key", set)
			}
		case "union":
			if x.Mem == "" {
				set["union_null"] = true
			}
		}
	})
	if d := v.Depth(); d >= 3 {
		set["depth>=3"] = true
	} else if d >= 2 {
		set["depth>=2"] = true
	}
	out := make([]string, 0, len(set))
	for k := range set {
		out = append(out, k)
	}
	sortStrings(out)
	return out
}

const Metachars = "(),:'%&=+;/?#\"\\ "

func classifyText(s, pfx string, set map[string]bool) {
	if s == "" {
		set[pfx+"_empty"] = true
		return
	}
	if !utf8.ValidString(s) {
		set[pfx+"_invalid_utf8"] = true
	}
	for i := 0; i < len(s); i++ {
		c := s[i]
		switch {
		case c < 0x20 || c == 0x7f:
			set[pfx+"_ctl"] = true
		case c >= 0x80:
			set[pfx+"_nonascii"] = true
		}
	}
	for _, m := range Metachars {
		for i := 0; i < len(s); i++ {
			if rune(s[i]) == m {
				set[pfx+"_metachar"] = true
			}
		}
	}
	switch s {
	case "''", "List(", "List()", "$set", "$delete", "null", "NaN", "Infinity", "-Infinity", "$params":
		set[pfx+"_reserved_word"] = true
	}
}

func sortStrings(a []string) {
	for i := 1; i < len(a); i++ {
		for j := i; j > 0 && a[j] < a[j-1]; j-- {
			a[j], a[j-1] = a[j-1], a[j]
		}
	}
}
