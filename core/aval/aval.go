// Package aval is the abstract value model shared by every value-level check: values of a schema
// type independent of any Go binding, with the equality the properties prescribe (NaN matches NaN,
// nil and empty collections / byte strings are the same value, zeros keep their sign), default
// filling, and a canonical string form used for distinct counting and replay files.
package aval

import (
	"encoding/hex"
	"fmt"
	"math"
	"sort"
	"strconv"
	"strings"

	"verif/core/schema"
)

// V is an abstract value. Kind is one of: int32 int64 float32 float64 bool string bytes enum fixed
// record union array map. Typerefs are transparent (the value of the underlying primitive).
type V struct {
	Kind string `json:"k"`
	I    int64  `json:"i,omitempty"`  // int32 int64
	F    string `json:"f,omitempty"`  // float32 float64: strconv 'g' -1 of the value, or NaN / +Inf / -Inf / -0
	B    bool   `json:"b,omitempty"`  // bool
	S    string `json:"s,omitempty"`  // string: hex of bytes (so replay files are ASCII); enum: symbol ("" = unknown)
	X    string `json:"x,omitempty"`  // bytes / fixed: hex
	Flds map[string]*V `json:"flds,omitempty"` // record: present fields only
	Mem  string        `json:"mem,omitempty"`  // union: alias of the set member ("" = unset / null)
	Val  *V            `json:"val,omitempty"`  // union: member value
	Arr  []*V          `json:"arr,omitempty"`
	Ent  map[string]*V `json:"ent,omitempty"` // map entries keyed by hex(key)
	// EnumOrd: out-of-range ordinal for an invalid enum constant (only used by C11); 0 otherwise
	EnumOrd int `json:"enum_ord,omitempty"`
}

func Int32(v int32) *V     { return &V{Kind: "int32", I: int64(v)} }
func Int64(v int64) *V     { return &V{Kind: "int64", I: v} }
func Bool(v bool) *V       { return &V{Kind: "bool", B: v} }
func Str(s string) *V      { return &V{Kind: "string", S: hex.EncodeToString([]byte(s))} }
func Bytes(b []byte) *V    { return &V{Kind: "bytes", X: hex.EncodeToString(b)} }
func Fixed(b []byte) *V    { return &V{Kind: "fixed", X: hex.EncodeToString(b)} }
func Enum(sym string) *V   { return &V{Kind: "enum", S: sym} }
func Float64(f float64) *V { return &V{Kind: "float64", F: fmtFloat(f, 64)} }
func Float32(f float32) *V { return &V{Kind: "float32", F: fmtFloat(float64(f), 32)} }
func Record() *V           { return &V{Kind: "record", Flds: map[string]*V{}} }
func Union(alias string, v *V) *V { return &V{Kind: "union", Mem: alias, Val: v} }
func Array(items ...*V) *V { return &V{Kind: "array", Arr: items} }
func Map() *V              { return &V{Kind: "map", Ent: map[string]*V{}} }

func (v *V) Set(field string, x *V) *V { v.Flds[field] = x; return v }
func (v *V) Put(key string, x *V) *V   { v.Ent[hex.EncodeToString([]byte(key))] = x; return v }

func fmtFloat(f float64, bits int) string {
	switch {
	case math.IsNaN(f):
		return "NaN"
	case math.IsInf(f, 1):
		return "+Inf"
	case math.IsInf(f, -1):
		return "-Inf"
	case f == 0 && math.Signbit(f):
		return "-0"
	}
	return strconv.FormatFloat(f, 'g', -1, bits)
}

// Float returns the float value of a float32/float64 node (float32 values are exactly representable).
func (v *V) Float() float64 {
	switch v.F {
	case "NaN":
		return math.NaN()
	case "+Inf":
		return math.Inf(1)
	case "-Inf":
		return math.Inf(-1)
	case "-0":
		return math.Copysign(0, -1)
	case "":
		return 0
	}
	bits := 64
	if v.Kind == "float32" {
		bits = 32
	}
	f, err := strconv.ParseFloat(v.F, bits)
	if err != nil {
		panic("bad float in abstract value: " + v.F)
	}
	return f
}

func (v *V) Str() string {
	b, err := hex.DecodeString(v.S)
	if err != nil {
		panic("bad hex string in abstract value")
	}
	return string(b)
}

func (v *V) Bytes() []byte {
	b, err := hex.DecodeString(v.X)
	if err != nil {
		panic("bad hex bytes in abstract value")
	}
	return b
}

// Keys returns the decoded map keys in ascending byte order.
func (v *V) Keys() []string {
	out := make([]string, 0, len(v.Ent))
	for hk := range v.Ent {
		b, _ := hex.DecodeString(hk)
		out = append(out, string(b))
	}
	sort.Strings(out)
	return out
}

func (v *V) Get(key string) *V { return v.Ent[hex.EncodeToString([]byte(key))] }

func (v *V) FieldNames() []string {
	out := make([]string, 0, len(v.Flds))
	for k := range v.Flds {
		out = append(out, k)
	}
	sort.Strings(out)
	return out
}

// HasNaN reports whether any float leaf is NaN (the type's own Equals is only asserted on NaN-free values).
func (v *V) HasNaN() bool {
	found := false
	v.Walk(func(x *V) {
		if (x.Kind == "float32" || x.Kind == "float64") && x.F == "NaN" {
			found = true
		}
	})
	return found
}

func (v *V) Walk(f func(*V)) {
	if v == nil {
		return
	}
	f(v)
	for _, k := range v.FieldNames() {
		v.Flds[k].Walk(f)
	}
	if v.Val != nil {
		v.Val.Walk(f)
	}
	for _, x := range v.Arr {
		x.Walk(f)
	}
	for _, k := range v.Keys() {
		v.Get(k).Walk(f)
	}
}

func (v *V) Depth() int {
	if v == nil {
		return 0
	}
	d := 0
	for _, x := range v.Flds {
		if y := x.Depth(); y > d {
			d = y
		}
	}
	if v.Val != nil {
		if y := v.Val.Depth(); y > d {
			d = y
		}
	}
	for _, x := range v.Arr {
		if y := x.Depth(); y > d {
			d = y
		}
	}
	for _, x := range v.Ent {
		if y := x.Depth(); y > d {
			d = y
		}
	}
	switch v.Kind {
	case "record", "union", "array", "map":
		return d + 1
	}
	return d
}

func (v *V) Nodes() int {
	n := 0
	v.Walk(func(*V) { n++ })
	return n
}

// Clone deep-copies a value.
func (v *V) Clone() *V {
	if v == nil {
		return nil
	}
	c := *v
	if v.Flds != nil {
		c.Flds = make(map[string]*V, len(v.Flds))
		for k, x := range v.Flds {
			c.Flds[k] = x.Clone()
		}
	}
	c.Val = v.Val.Clone()
	if v.Arr != nil {
		c.Arr = make([]*V, len(v.Arr))
		for i, x := range v.Arr {
			c.Arr[i] = x.Clone()
		}
	}
	if v.Ent != nil {
		c.Ent = make(map[string]*V, len(v.Ent))
		for k, x := range v.Ent {
			c.Ent[k] = x.Clone()
		}
	}
	return &c
}

// Canon is the canonical string of a value: equal abstract values have equal Canon.
func (v *V) Canon() string {
	var b strings.Builder
	v.canon(&b)
	return b.String()
}

func (v *V) canon(b *strings.Builder) {
	if v == nil {
		b.WriteString("<nil>")
		return
	}
	switch v.Kind {
	case "int32", "int64":
		fmt.Fprintf(b, "%s:%d", v.Kind, v.I)
	case "float32", "float64":
		f := v.F
		if f == "" {
			f = "0"
		}
		fmt.Fprintf(b, "%s:%s", v.Kind, f)
	case "bool":
		fmt.Fprintf(b, "bool:%v", v.B)
	case "string":
		fmt.Fprintf(b, "s:%s", v.S)
	case "bytes", "fixed":
		fmt.Fprintf(b, "x:%s", v.X)
	case "enum":
		if v.EnumOrd != 0 {
			fmt.Fprintf(b, "e#%d", v.EnumOrd)
		} else {
			fmt.Fprintf(b, "e:%s", v.S)
		}
	case "record":
		b.WriteString("{")
		for _, k := range v.FieldNames() {
			b.WriteString(k)
			b.WriteString("=")
			v.Flds[k].canon(b)
			b.WriteString(";")
		}
		b.WriteString("}")
	case "union":
		b.WriteString("u<" + v.Mem + ":")
		if v.Val != nil {
			v.Val.canon(b)
		}
		b.WriteString(">")
	case "array":
		b.WriteString("[")
		for _, x := range v.Arr {
			x.canon(b)
			b.WriteString(",")
		}
		b.WriteString("]")
	case "map":
		b.WriteString("m{")
		for _, k := range v.Keys() {
			b.WriteString(hex.EncodeToString([]byte(k)))
			b.WriteString("=")
			v.Get(k).canon(b)
			b.WriteString(";")
		}
		b.WriteString("}")
	default:
		b.WriteString("?" + v.Kind)
	}
}

// Equal is the deep structural equality the properties prescribe.
func Equal(a, b *V) bool { return Diff(a, b, "") == "" }

// Diff returns "" when a and b are the same abstract value, else the path and nature of the first difference.
func Diff(a, b *V, path string) string {
	if a == nil || b == nil {
		if a == nil && b == nil {
			return ""
		}
		return fmt.Sprintf("%s: one side is absent (left=%s right=%s)", orRoot(path), short(a), short(b))
	}
	if a.Kind != b.Kind {
		return fmt.Sprintf("%s: kind %s vs %s", orRoot(path), a.Kind, b.Kind)
	}
	switch a.Kind {
	case "int32", "int64":
		if a.I != b.I {
			return fmt.Sprintf("%s: %d vs %d", orRoot(path), a.I, b.I)
		}
	case "float32", "float64":
		fa, fb := a.F, b.F
		if fa == "" {
			fa = "0"
		}
		if fb == "" {
			fb = "0"
		}
		if fa != fb {
			return fmt.Sprintf("%s: %s vs %s", orRoot(path), fa, fb)
		}
	case "bool":
		if a.B != b.B {
			return fmt.Sprintf("%s: %v vs %v", orRoot(path), a.B, b.B)
		}
	case "string":
		if a.S != b.S {
			return fmt.Sprintf("%s: string %q vs %q", orRoot(path), a.Str(), b.Str())
		}
	case "bytes", "fixed":
		if a.X != b.X {
			return fmt.Sprintf("%s: bytes %s vs %s", orRoot(path), a.X, b.X)
		}
	case "enum":
		if a.S != b.S || a.EnumOrd != b.EnumOrd {
			return fmt.Sprintf("%s: enum %q vs %q", orRoot(path), a.S, b.S)
		}
	case "record":
		seen := map[string]bool{}
		for _, k := range a.FieldNames() {
			seen[k] = true
			if d := Diff(a.Flds[k], b.Flds[k], path+"."+k); d != "" {
				return d
			}
		}
		for _, k := range b.FieldNames() {
			if !seen[k] {
				return fmt.Sprintf("%s.%s: absent on the left, %s on the right", path, k, short(b.Flds[k]))
			}
		}
	case "union":
		if a.Mem != b.Mem {
			return fmt.Sprintf("%s: union member %q vs %q", orRoot(path), a.Mem, b.Mem)
		}
		if a.Mem != "" {
			return Diff(a.Val, b.Val, path+"<"+a.Mem+">")
		}
	case "array":
		if len(a.Arr) != len(b.Arr) {
			return fmt.Sprintf("%s: array length %d vs %d", orRoot(path), len(a.Arr), len(b.Arr))
		}
		for i := range a.Arr {
			if d := Diff(a.Arr[i], b.Arr[i], fmt.Sprintf("%s[%d]", path, i)); d != "" {
				return d
			}
		}
	case "map":
		ka, kb := a.Keys(), b.Keys()
		if len(ka) != len(kb) {
			return fmt.Sprintf("%s: map size %d vs %d (keys %q vs %q)", orRoot(path), len(ka), len(kb), ka, kb)
		}
		for i, k := range ka {
			if kb[i] != k {
				return fmt.Sprintf("%s: map keys %q vs %q", orRoot(path), ka, kb)
			}
			if d := Diff(a.Get(k), b.Get(k), fmt.Sprintf("%s[%q]", path, k)); d != "" {
				return d
			}
		}
	}
	return ""
}

func orRoot(p string) string {
	if p == "" {
		return "(root)"
	}
	return p
}

func short(v *V) string {
	if v == nil {
		return "<absent>"
	}
	s := v.Canon()
	if len(s) > 80 {
		s = s[:80] + "..."
	}
	return s
}

// ---------------------------------------------------------------------------------------------
// schema-aware helpers

// Zero returns the value a decoder leaves in a required field that was absent from the input.
func Zero(s *schema.Schema, t schema.Type) *V {
	switch {
	case t.Prim != "":
		return zeroPrim(t.Prim)
	case t.Array != nil:
		return Array()
	case t.Map != nil:
		return Map()
	}
	n := s.Lookup(*t.Ref)
	switch n.Kind {
	case "record", "complexkey":
		r := Record()
		for _, f := range s.AllFields(n) {
			if f.Required() {
				r.Flds[f.Name] = Zero(s, f.Type)
			}
		}
		return r
	case "enum":
		return Enum("")
	case "fixed":
		return Fixed(make([]byte, n.Size))
	case "typeref":
		return zeroPrim(n.Prim)
	case "union":
		return Union("", nil)
	}
	panic("zero of " + t.String())
}

// Valid is the smallest valid value of the type: like Zero, but an enum carries its first symbol and a
// union its first member (Zero holds the invalid "unknown" constant / unset union there).
func Valid(s *schema.Schema, t schema.Type) *V {
	switch {
	case t.Prim != "":
		return zeroPrim(t.Prim)
	case t.Array != nil:
		return Array()
	case t.Map != nil:
		return Map()
	}
	n := s.Lookup(*t.Ref)
	switch n.Kind {
	case "record", "complexkey":
		r := Record()
		for _, f := range s.AllFields(n) {
			if f.Required() {
				r.Flds[f.Name] = Valid(s, f.Type)
			}
		}
		return r
	case "enum":
		return Enum(n.Symbols[0])
	case "union":
		if len(n.Members) == 0 {
			return Union("", nil) // null-only union
		}
		m := n.Members[0]
		return Union(m.Alias, Valid(s, m.Type))
	}
	return Zero(s, t)
}

func zeroPrim(p string) *V {
	switch p {
	case "int32":
		return Int32(0)
	case "int64":
		return Int64(0)
	case "float32":
		return Float32(0)
	case "float64":
		return Float64(0)
	case "bool":
		return Bool(false)
	case "string":
		return Str("")
	case "bytes":
		return Bytes(nil)
	}
	panic("prim " + p)
}

// FillDefaults returns a copy of v in which every defaulted field that is unset carries the schema
// default (parsed by parse, normally refcodec's JSON literal parser). Recurses into present values.
func FillDefaults(s *schema.Schema, t schema.Type, v *V, parse func(t schema.Type, lit string) *V) *V {
	if v == nil {
		return nil
	}
	out := v.Clone()
	fill(s, t, out, parse)
	return out
}

func fill(s *schema.Schema, t schema.Type, v *V, parse func(t schema.Type, lit string) *V) {
	switch {
	case t.Prim != "":
		return
	case t.Array != nil:
		for _, x := range v.Arr {
			fill(s, *t.Array, x, parse)
		}
		return
	case t.Map != nil:
		for _, x := range v.Ent {
			fill(s, *t.Map, x, parse)
		}
		return
	}
	n := s.Lookup(*t.Ref)
	switch n.Kind {
	case "record", "complexkey":
		for _, f := range s.AllFields(n) {
			if x, ok := v.Flds[f.Name]; ok {
				fill(s, f.Type, x, parse)
			} else if f.Default != nil {
				d := parse(f.Type, *f.Default)
				fill(s, f.Type, d, parse)
				v.Flds[f.Name] = d
			}
		}
	case "union":
		if v.Mem != "" {
			for _, m := range n.Members {
				if m.Alias == v.Mem {
					fill(s, m.Type, v.Val, parse)
				}
			}
		}
	}
}

// FillZeros puts the zero value into every required record field that is absent (what a Go struct holds after a
// decode that did not see the field).
func FillZeros(s *schema.Schema, t schema.Type, v *V) {
	if v == nil {
		return
	}
	switch {
	case t.Prim != "":
		return
	case t.Array != nil:
		for _, x := range v.Arr {
			FillZeros(s, *t.Array, x)
		}
		return
	case t.Map != nil:
		for _, x := range v.Ent {
			FillZeros(s, *t.Map, x)
		}
		return
	}
	n := s.Lookup(*t.Ref)
	switch n.Kind {
	case "record", "complexkey":
		for _, f := range s.AllFields(n) {
			if x, ok := v.Flds[f.Name]; ok {
				FillZeros(s, f.Type, x)
			} else if f.Required() {
				v.Flds[f.Name] = Zero(s, f.Type)
			}
		}
	case "union":
		if v.Mem != "" {
			for _, m := range n.Members {
				if m.Alias == v.Mem {
					FillZeros(s, m.Type, v.Val)
				}
			}
		}
	}
}

// IsValid reports whether v is a valid value of type t: enum symbols are symbols of the enum, unions have exactly
// one member of the union set, fixed values have the declared size, required fields are present ("" = valid,
// otherwise the first reason). Values produced by a lenient decoder (unknown enum symbol -> the "unknown"
// constant) are not valid and cannot be encoded.
func IsValid(s *schema.Schema, t schema.Type, v *V) string {
	if v == nil {
		return "nil value"
	}
	switch {
	case t.Prim != "":
		return ""
	case t.Array != nil:
		for i, x := range v.Arr {
			if r := IsValid(s, *t.Array, x); r != "" {
				return fmt.Sprintf("[%d]: %s", i, r)
			}
		}
		return ""
	case t.Map != nil:
		for k, x := range v.Ent {
			if r := IsValid(s, *t.Map, x); r != "" {
				return fmt.Sprintf("[%s]: %s", k, r)
			}
		}
		return ""
	}
	n := s.Lookup(*t.Ref)
	switch n.Kind {
	case "record", "complexkey":
		for _, f := range s.AllFields(n) {
			x, ok := v.Flds[f.Name]
			if !ok {
				if f.Required() && f.Default == nil {
					return "required field " + f.Name + " is missing"
				}
				continue
			}
			if r := IsValid(s, f.Type, x); r != "" {
				return "." + f.Name + ": " + r
			}
		}
	case "enum":
		for _, sym := range n.Symbols {
			if sym == v.S {
				return ""
			}
		}
		return "unknown enum symbol " + strconv.Quote(v.S)
	case "fixed":
		if len(v.Bytes()) != n.Size {
			return "fixed of wrong size"
		}
	case "union":
		if v.Val == nil {
			if n.HasNull && v.Mem == "" {
				return ""
			}
			return "union without member"
		}
		for _, m := range n.Members {
			if m.Alias == v.Mem {
				return IsValid(s, m.Type, v.Val)
			}
		}
		return "unknown union member " + v.Mem
	}
	return ""
}
