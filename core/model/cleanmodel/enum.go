package cleanmodel

import "fmt"

// Systematic enumeration of directory trees over the property's alphabet
// {generated file, manifest, user .go file, other file, empty dir, nested dir}, up to entry order
// (a directory's content is a multiset of entry kinds; names are assigned afterwards, so two trees that
// differ only in the order of entries are the same tree). At most one manifest per directory (its name
// is fixed). A nested directory is non-empty (the empty one is the "empty dir" letter).

type Kind int

const (
	KGenerated Kind = iota
	KManifest
	KUserGo
	KOther
	KEmptyDir
	KNested
)

// Shape is the content of one directory: entries in non-decreasing kind order.
type Shape struct {
	Entries []ShapeEntry
}

type ShapeEntry struct {
	Kind Kind
	Sub  *Shape // for KNested
}

// Shapes returns every directory content with at most maxEntries entries per directory and at most
// depth levels below the directory (depth 1: files and empty directories only). The empty content
// comes first.
func Shapes(depth, maxEntries int) []*Shape {
	type letter struct {
		kind Kind
		sub  *Shape
	}
	letters := []letter{{KGenerated, nil}, {KManifest, nil}, {KUserGo, nil}, {KOther, nil}, {KEmptyDir, nil}}
	if depth > 1 {
		for _, s := range Shapes(depth-1, maxEntries) {
			if len(s.Entries) > 0 {
				letters = append(letters, letter{KNested, s})
			}
		}
	}
	var out []*Shape
	var cur []ShapeEntry
	var rec func(from, left int)
	rec = func(from, left int) {
		out = append(out, &Shape{Entries: append([]ShapeEntry(nil), cur...)})
		if left == 0 {
			return
		}
		for i := from; i < len(letters); i++ {
			next := i
			if letters[i].kind == KManifest {
				next = i + 1 // at most one manifest per directory
			}
			cur = append(cur, ShapeEntry{letters[i].kind, letters[i].sub})
			rec(next, left-1)
			cur = cur[:len(cur)-1]
		}
	}
	rec(0, maxEntries)
	return out
}

var (
	EnumGeneratedNames = []string{"a.gr.go", "b.gr.go", "c.gr.go"}
	EnumUserGoNames    = []string{"MyTyperef.go", "custom_typeref.go", "z.go"}
	EnumOtherNames     = []string{"README", "data.json", "x.gr.go.bak", "gr.go", "a.gr.gox"}
)

// Materialise turns a shape into a tree. rot rotates the pool of "other file" names so that, over an
// enumeration, every name of the pool is used in every position.
func Materialise(s *Shape, r Rules, rot int) *Node {
	counter := 0
	var build func(s *Shape) []*Node
	build = func(s *Shape) []*Node {
		var ns []*Node
		var g, u, o, e, d int
		for _, en := range s.Entries {
			counter++
			switch en.Kind {
			case KGenerated:
				ns = append(ns, &Node{Name: EnumGeneratedNames[g], Content: []byte(fmt.Sprintf("// generated %d\npackage x\n", counter)), Mode: 0o444})
				g++
			case KManifest:
				ns = append(ns, &Node{Name: r.Manifest, Content: []byte(fmt.Sprintf("{\"n\":%d}\n", counter)), Mode: 0o444})
			case KUserGo:
				ns = append(ns, &Node{Name: EnumUserGoNames[u], Content: []byte(fmt.Sprintf("package x\n\n// hand written %d\ntype T%d int64\n", counter, counter)), Mode: 0o644})
				u++
			case KOther:
				ns = append(ns, &Node{Name: EnumOtherNames[(o+rot)%len(EnumOtherNames)], Content: []byte(fmt.Sprintf("other %d\x00\xff", counter)), Mode: 0o644})
				o++
			case KEmptyDir:
				ns = append(ns, &Node{Name: fmt.Sprintf("empty%d", e), Dir: true, Mode: 0o755})
				e++
			case KNested:
				ns = append(ns, &Node{Name: fmt.Sprintf("sub%d", d), Dir: true, Mode: 0o755, Children: build(en.Sub)})
				d++
			}
		}
		return ns
	}
	return &Node{Name: "", Dir: true, Mode: 0o755, Children: build(s)}
}
