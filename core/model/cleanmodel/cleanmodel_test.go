package cleanmodel

import (
	"strings"
	"testing"
)

// Two idealised cleaners, both legal readings of the property, must satisfy Check for every enumerated
// tree: "eager" also removes directories that were already empty, "strict" keeps them.
func idealClean(root *Node, r Rules, eager, dot bool) Snapshot {
	s := Snapshot{Exists: true, Entries: map[string]Entry{}}
	var walk func(prefix string, n *Node, touched *bool) (left int)
	walk = func(prefix string, n *Node, touched *bool) int {
		left := 0
		for _, c := range n.Children {
			p := prefix + c.Name
			if c.Dir {
				t := false
				sub := walk(p+"/", c, &t)
				if t {
					*touched = true
				}
				if sub == 0 && (eager || t) {
					// removed; drop anything recorded below (nothing is, sub == 0)
					*touched = *touched || t
					continue
				}
				s.Entries[p] = Entry{Dir: true, Mode: c.FileMode()}
				left++
			} else if r.OwnedName(c.Name) {
				*touched = true
			} else {
				s.Entries[p] = Entry{Content: c.Content, Mode: c.FileMode()}
				left++
			}
		}
		return left
	}
	t := false
	left := walk("", root, &t)
	if left == 0 && (eager || t) && !dot {
		s.Exists = false
	}
	return s
}

func TestShapesCountsAndIdealCleaners(t *testing.T) {
	if n := len(Shapes(1, 3)); n != 50 {
		t.Fatalf("Shapes(1,3) = %d", n)
	}
	if n := len(Shapes(2, 3)); n != 29205 {
		t.Fatalf("Shapes(2,3) = %d", n)
	}
	if n := len(Shapes(3, 2)); n != 54284 {
		t.Fatalf("Shapes(3,2) = %d", n)
	}
	r := RulesFor("v2")
	seen := map[string]bool{}
	for i, sh := range Shapes(2, 3) {
		tree := Materialise(sh, r, i)
		if err := tree.Valid(); err != nil {
			t.Fatal(err)
		}
		seen[tree.Canonical()] = true
		for _, dot := range []bool{false, true} {
			e := Expect(tree, r, dot)
			for _, eager := range []bool{false, true} {
				if v := e.Check(idealClean(tree, r, eager, dot)); len(v) > 0 {
					t.Fatalf("tree %d eager=%v dot=%v: %s\n%s", i, eager, dot, strings.Join(v, "\n"), tree.Canonical())
				}
			}
			// the untouched tree violates G2 whenever something is owned
			if len(e.Gone) > 0 && len(e.Check(Flatten(tree))) == 0 {
				t.Fatalf("tree %d: untouched tree accepted", i)
			}
		}
	}
	if len(seen) != 29205 {
		t.Fatalf("only %d distinct trees", len(seen))
	}
}
