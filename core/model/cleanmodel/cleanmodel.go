// Package cleanmodel is the reference model of property C20 ("regeneration never touches files the
// generator does not own"). It is written from the property text and imports nothing from go-restli.
//
// A directory tree is a Node; Expect derives, for one tree, what the property guarantees about the
// state after cleaning; Check compares that with a Snapshot taken from the real file system.
//
// Guarantees asserted (numbering used in messages):
//
//	G1 every non-owned regular file survives at the same path with identical bytes and mode
//	G2 no owned file survives
//	G3 no directory that (transitively) contains a surviving file is removed
//	G4 every directory whose subtree held at least one owned file, holds no surviving file and holds no
//	   file-free directory is removed (except the target when it is the current directory ".")
//	G7 nothing is created: every path present afterwards was present before, with the same kind
//
// G5 (idempotence) and G6 (no error) are judged by the harness from two consecutive runs.
//
// Deliberately NOT asserted: whether a directory that held no file at all before cleaning (a
// pre-existing empty directory, or a directory of such directories) is removed or kept. The property
// speaks of "directories left empty by that removal" and of "non-empty directories"; a directory that
// was already empty is neither. As a consequence G4 is not asserted for a directory that has such a
// file-free directory below it (it can only be removed if the file-free directory is removed first).
//
// Owned = regular file whose name ends with the generated-code suffix, or whose name is exactly the
// manifest name - at any depth (every directory is the output directory of some nested run). A
// manifest-named file below the top level is labelled separately.
//
// Outside the property's alphabet (class "unspecified", only G1-existence/bytes is asserted): a
// DIRECTORY whose name ends with the suffix or equals the manifest name.
package cleanmodel

import (
	"bytes"
	"encoding/json"
	"fmt"
	"sort"
	"strings"
)

type Rules struct {
	Suffix   string `json:"suffix"`
	Manifest string `json:"manifest"`
}

// RulesFor returns the file-ownership constants of a module generation ("v2" or "v1"), as documented:
// generated code ends in ".gr.go"; the v2 generator's manifest is "go-restli-manifest.gr.json", the
// root module's is "parsed-specs.gr.json".
func RulesFor(gen string) Rules {
	if gen == "v1" {
		return Rules{Suffix: ".gr.go", Manifest: "parsed-specs.gr.json"}
	}
	return Rules{Suffix: ".gr.go", Manifest: "go-restli-manifest.gr.json"}
}

// OwnedName reports whether a regular file of this name belongs to the generator.
func (r Rules) OwnedName(name string) bool {
	return strings.HasSuffix(name, r.Suffix) || name == r.Manifest
}

// Node is a file or a directory. The root Node of a tree is the target directory (its Name is ignored).
type Node struct {
	Name     string  `json:"name"`
	Dir      bool    `json:"dir,omitempty"`
	Content  []byte  `json:"content,omitempty"`
	Mode     uint32  `json:"mode,omitempty"` // permission bits; 0 = 0644 for files, 0755 for directories
	Children []*Node `json:"children,omitempty"`
}

func (n *Node) FileMode() uint32 {
	if n.Mode != 0 {
		return n.Mode
	}
	if n.Dir {
		return 0o755
	}
	return 0o644
}

// Valid: names distinct within a directory, no separators, no "." / "..", files have no children.
func (n *Node) Valid() error {
	if !n.Dir {
		if len(n.Children) > 0 {
			return fmt.Errorf("file %q has children", n.Name)
		}
		return nil
	}
	seen := map[string]bool{}
	for _, c := range n.Children {
		if c == nil || c.Name == "" || c.Name == "." || c.Name == ".." || strings.ContainsAny(c.Name, "/\x00") {
			return fmt.Errorf("bad entry name in %q", n.Name)
		}
		if seen[c.Name] {
			return fmt.Errorf("duplicate name %q in %q", c.Name, n.Name)
		}
		seen[c.Name] = true
		if err := c.Valid(); err != nil {
			return err
		}
	}
	return nil
}

// Canonical is an order-independent serialisation of the tree (children sorted by name).
func (n *Node) Canonical() string {
	var b strings.Builder
	var walk func(n *Node)
	walk = func(n *Node) {
		if !n.Dir {
			fmt.Fprintf(&b, "f%q:%o:%x;", n.Name, n.FileMode(), n.Content)
			return
		}
		fmt.Fprintf(&b, "d%q:%o{", n.Name, n.FileMode())
		cs := append([]*Node(nil), n.Children...)
		sort.Slice(cs, func(i, j int) bool { return cs[i].Name < cs[j].Name })
		for _, c := range cs {
			walk(c)
		}
		b.WriteString("}")
	}
	root := *n
	root.Name = ""
	walk(&root)
	return b.String()
}

// Depth: 0 for an empty target, 1 when the target only holds files / empty directories, ...
func (n *Node) Depth() int {
	d := 0
	for _, c := range n.Children {
		cd := 1
		if c.Dir {
			cd = 1 + c.Depth()
		}
		if cd > d {
			d = cd
		}
	}
	return d
}

// Entry is one path of a snapshot.
type Entry struct {
	Dir     bool   `json:"dir,omitempty"`
	Content []byte `json:"content,omitempty"`
	Mode    uint32 `json:"mode"`
}

// Snapshot is the observed state of a target: Exists tells whether the target directory is still
// there; Entries maps slash-separated paths relative to the target to what is there.
type Snapshot struct {
	Exists  bool             `json:"exists"`
	Entries map[string]Entry `json:"entries"`
}

func (s Snapshot) Paths() []string {
	ps := make([]string, 0, len(s.Entries))
	for p := range s.Entries {
		ps = append(ps, p)
	}
	sort.Strings(ps)
	return ps
}

// Flatten gives the snapshot a faithful materialisation of the tree would produce.
func Flatten(root *Node) Snapshot {
	s := Snapshot{Exists: true, Entries: map[string]Entry{}}
	var walk func(prefix string, n *Node)
	walk = func(prefix string, n *Node) {
		for _, c := range n.Children {
			p := prefix + c.Name
			if c.Dir {
				s.Entries[p] = Entry{Dir: true, Mode: c.FileMode()}
				walk(p+"/", c)
			} else {
				s.Entries[p] = Entry{Content: append([]byte(nil), c.Content...), Mode: c.FileMode()}
			}
		}
	}
	walk("", root)
	return s
}

// Diff describes the first differences between two snapshots ("" when equal).
func Diff(a, b Snapshot) string {
	var out []string
	if a.Exists != b.Exists {
		out = append(out, fmt.Sprintf("target exists: %v vs %v", a.Exists, b.Exists))
	}
	for _, p := range a.Paths() {
		ea := a.Entries[p]
		eb, ok := b.Entries[p]
		switch {
		case !ok:
			out = append(out, fmt.Sprintf("%q only in first", p))
		case ea.Dir != eb.Dir:
			out = append(out, fmt.Sprintf("%q kind differs", p))
		case ea.Mode != eb.Mode:
			out = append(out, fmt.Sprintf("%q mode %o vs %o", p, ea.Mode, eb.Mode))
		case !ea.Dir && !bytes.Equal(ea.Content, eb.Content):
			out = append(out, fmt.Sprintf("%q content differs", p))
		}
	}
	for _, p := range b.Paths() {
		if _, ok := a.Entries[p]; !ok {
			out = append(out, fmt.Sprintf("%q only in second", p))
		}
	}
	if len(out) > 8 {
		out = append(out[:8], "...")
	}
	return strings.Join(out, "; ")
}

// Expectation is what the property guarantees for one tree.
type Expectation struct {
	Rules       Rules
	TargetIsDot bool
	Original    Snapshot
	Survive     map[string]Entry // G1: non-owned regular files
	Gone        []string         // G2: owned files
	KeepDirs    []string         // G3 ("" = the target itself)
	RemoveDirs  []string         // G4 ("" = the target itself)
	FreeDirs    []string         // nothing asserted about their own survival
	Unspecified []string         // reasons why the tree is outside the property's alphabet (then only G1 existence/bytes)
	Labels      []string
	NonTrivial  bool // at least one owned and at least one non-owned regular file: cleaning has to discriminate
}

type dirInfo struct {
	survivors, owned int
	fileFree         bool
	fileFreeBelow    bool
}

// Expect derives the guarantees for the tree rooted at root (the target directory).
func Expect(root *Node, r Rules, targetIsDot bool) *Expectation {
	e := &Expectation{Rules: r, TargetIsDot: targetIsDot, Original: Flatten(root), Survive: map[string]Entry{}}
	labels := map[string]bool{}
	var walk func(path string, depth int, n *Node) dirInfo
	walk = func(path string, depth int, n *Node) dirInfo {
		var di dirInfo
		for _, c := range n.Children {
			p := c.Name
			if path != "" {
				p = path + "/" + c.Name
			}
			if c.Dir {
				if r.OwnedName(c.Name) {
					e.Unspecified = append(e.Unspecified, fmt.Sprintf("directory %q carries a generator-owned name", p))
				}
				ci := walk(p, depth+1, c)
				di.survivors += ci.survivors
				di.owned += ci.owned
				if ci.fileFree || ci.fileFreeBelow {
					di.fileFreeBelow = true
				}
				continue
			}
			if r.OwnedName(c.Name) {
				di.owned++
				e.Gone = append(e.Gone, p)
				if c.Name == r.Manifest {
					if depth == 0 {
						labels["manifest_top"] = true
					} else {
						labels["manifest_nested"] = true
					}
				} else {
					labels["generated_file"] = true
				}
			} else {
				di.survivors++
				e.Survive[p] = Entry{Content: append([]byte(nil), c.Content...), Mode: c.FileMode()}
				if strings.HasSuffix(c.Name, ".go") {
					labels["user_go_file"] = true
				} else {
					labels["other_file"] = true
				}
				if strings.Contains(strings.ToLower(c.Name), strings.ToLower(r.Suffix)) || strings.Contains(strings.ToLower(c.Name), strings.ToLower(r.Manifest)) {
					labels["lookalike_name_not_owned"] = true
				}
			}
		}
		di.fileFree = di.survivors == 0 && di.owned == 0
		switch {
		case di.survivors > 0:
			e.KeepDirs = append(e.KeepDirs, path)
			if di.owned > 0 {
				labels["dir_mixed_owned_and_foreign"] = true
			}
		case di.owned > 0 && !di.fileFreeBelow:
			if path == "" && targetIsDot {
				e.FreeDirs = append(e.FreeDirs, path) // "." is never removed; nothing else to say about it
			} else {
				e.RemoveDirs = append(e.RemoveDirs, path)
				labels["dir_left_empty_by_removal"] = true
				if path == "" {
					labels["target_left_empty_by_removal"] = true
				}
			}
		default:
			e.FreeDirs = append(e.FreeDirs, path)
			if di.fileFree {
				labels["preexisting_empty_dir"] = true
				if path == "" {
					labels["target_preexisting_empty"] = true
				}
			} else {
				labels["g4_unasserted_file_free_dir_below"] = true
			}
		}
		return di
	}
	ri := walk("", 0, root)
	e.NonTrivial = ri.owned > 0 && ri.survivors > 0
	if len(e.Unspecified) > 0 {
		labels["unspecified_dir_with_owned_name"] = true
	}
	labels[fmt.Sprintf("depth=%d", root.Depth())] = true
	for l := range labels {
		e.Labels = append(e.Labels, l)
	}
	sort.Strings(e.Labels)
	sort.Strings(e.Gone)
	sort.Strings(e.KeepDirs)
	sort.Strings(e.RemoveDirs)
	sort.Strings(e.FreeDirs)
	return e
}

// Check compares an observed snapshot (after cleaning) with the guarantees. It returns one message
// per violated guarantee (at most a handful), or nil.
func (e *Expectation) Check(s Snapshot) []string {
	var out []string
	add := func(format string, a ...any) {
		if len(out) < 8 {
			out = append(out, fmt.Sprintf(format, a...))
		}
	}
	paths := make([]string, 0, len(e.Survive))
	for p := range e.Survive {
		paths = append(paths, p)
	}
	sort.Strings(paths)
	for _, p := range paths {
		want := e.Survive[p]
		got, ok := s.Entries[p]
		switch {
		case !ok:
			add("G1: non-owned file %q was removed", p)
		case got.Dir:
			add("G1: non-owned file %q became a directory", p)
		case !bytes.Equal(got.Content, want.Content):
			add("G1: non-owned file %q changed content (%d -> %d bytes)", p, len(want.Content), len(got.Content))
		case len(e.Unspecified) == 0 && got.Mode != want.Mode:
			add("G1: non-owned file %q changed mode %o -> %o", p, want.Mode, got.Mode)
		}
	}
	if len(e.Unspecified) > 0 {
		return out
	}
	for _, p := range e.Gone {
		if _, ok := s.Entries[p]; ok {
			add("G2: generator-owned file %q survived cleaning", p)
		}
	}
	exists := func(dir string) bool {
		if dir == "" {
			return s.Exists
		}
		en, ok := s.Entries[dir]
		return ok && en.Dir
	}
	for _, d := range e.KeepDirs {
		if !exists(d) {
			add("G3: directory %q still holds foreign files by the model but was removed", d)
		} else if d != "" && s.Entries[d].Mode != e.Original.Entries[d].Mode {
			add("G3: directory %q changed mode %o -> %o", d, e.Original.Entries[d].Mode, s.Entries[d].Mode)
		}
	}
	for _, d := range e.RemoveDirs {
		if exists(d) {
			add("G4: directory %q was left empty by the removal of generated files but still exists", d)
		}
	}
	for _, p := range s.Paths() {
		o, ok := e.Original.Entries[p]
		if !ok {
			add("G7: %q did not exist before cleaning", p)
		} else if o.Dir != s.Entries[p].Dir {
			add("G7: %q changed kind", p)
		}
	}
	if !s.Exists && len(s.Entries) > 0 {
		add("snapshot inconsistent: target gone but entries present") // harness bug guard
	}
	return out
}

// Describe renders the expectation for violation messages.
func (e *Expectation) Describe() string {
	b, _ := json.Marshal(map[string]any{"gone": e.Gone, "keep_dirs": e.KeepDirs, "remove_dirs": e.RemoveDirs, "free_dirs": e.FreeDirs, "unspecified": e.Unspecified})
	return string(b)
}
