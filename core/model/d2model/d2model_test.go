package d2model

import (
	"encoding/json"
	"net/url"
	"testing"
)

// reference shape of an announcement, used only to validate the payload alphabet of the model itself
type refAnnouncement struct {
	Weights       map[string]float64                `json:"weights"`
	ClusterName   string                            `json:"clusterName"`
	Properties    map[string]map[string]interface{} `json:"uriSpecificProperties"`
	PartitionDesc map[string]map[int]struct {
		Weight float64 `json:"weight"`
	} `json:"partitionDesc"`
}

func decode(t *testing.T, e Event) (a refAnnouncement, err error) {
	b, ok := Payload(e)
	if !ok {
		t.Fatalf("no payload for %+v", e)
	}
	err = json.Unmarshal(b, &a)
	return
}

func allURLsParse(a refAnnouncement) bool {
	for h := range a.Weights {
		if _, err := url.Parse(h); err != nil {
			return false
		}
	}
	for h := range a.Properties {
		if _, err := url.Parse(h); err != nil {
			return false
		}
	}
	for h := range a.PartitionDesc {
		if _, err := url.Parse(h); err != nil {
			return false
		}
	}
	return true
}

func TestPayloadAlphabet(t *testing.T) {
	hosts := []HW{{"http://h1:80/c", 1}, {"https://h2:443/c", 0}}
	for v := 0; v < NVariants(Malformed); v++ {
		if _, err := decode(t, Event{Node: "/n", Kind: Malformed, Variant: v}); err == nil {
			t.Errorf("malformed variant %d decodes", v)
		}
	}
	for v := 0; v < NVariants(Weightless); v++ {
		a, err := decode(t, Event{Node: "/n", Kind: Weightless, Variant: v})
		if err != nil || len(a.Weights) != 0 || !allURLsParse(a) {
			t.Errorf("weightless variant %d: err=%v weights=%v", v, err, a.Weights)
		}
	}
	for v := 0; v < NVariants(BadHost); v++ {
		for _, hs := range [][]HW{nil, hosts} {
			a, err := decode(t, Event{Node: "/n", Kind: BadHost, Variant: v, Hosts: hs})
			if err != nil {
				t.Errorf("bad-host variant %d is not JSON of the announcement shape: %v", v, err)
			} else if allURLsParse(a) {
				t.Errorf("bad-host variant %d: every URL parses", v)
			}
		}
	}
	for _, extras := range []bool{false, true} {
		a, err := decode(t, Event{Node: "/n", Kind: Write, Hosts: hosts, Extras: extras})
		if err != nil || len(a.Weights) != 2 || a.Weights["http://h1:80/c"] != 1 || !allURLsParse(a) {
			t.Errorf("write extras=%v: %v %v", extras, err, a)
		}
	}
	if _, ok := Payload(Event{Node: "/n", Kind: Delete}); ok {
		t.Error("delete has data")
	}
}

func TestFoldAndEligible(t *testing.T) {
	A := []HW{{"http://h1:80/c", 1}, {"https://h1:443/c", 0}}
	B := []HW{{"https://h2:443/c", 2.5}}
	h := []Event{
		{Node: "/n0", Kind: Write, Hosts: A},
		{Node: "/n1", Kind: Write, Hosts: B},
		{Node: "/n0", Kind: Malformed},
		{Node: "/n0", Kind: Weightless},
		{Node: "/n0", Kind: BadHost, Hosts: B},
		{Node: "", Kind: Write, Hosts: B},
		{Node: "", Kind: Delete},
		{Node: "/n2", Kind: Delete},
	}
	s := Fold(h)
	if got := s.String(); got != "{/n0: http://h1:80/c=1, https://h1:443/c=0; /n1: https://h2:443/c=2.5}" {
		t.Fatal(got)
	}
	if el := Eligible(s, nil); len(el.Hosts) != 3 || el.Total != 3.5 || !el.Positive {
		t.Fatal(el)
	}
	if el := Eligible(s, []string{"ftp", "https", "http"}); el.Scheme != "https" || len(el.Hosts) != 2 || el.Total != 2.5 {
		t.Fatal(el)
	}
	if el := Eligible(s, []string{"ftp"}); !el.Empty() {
		t.Fatal(el)
	}
	s = Apply(s, Event{Node: "/n1", Kind: Delete})
	// the only https host has weight 0: it is still the eligible set of ["https","http"]
	if el := Eligible(s, []string{"https", "http"}); el.Scheme != "https" || len(el.Hosts) != 1 || el.Positive {
		t.Fatal(el)
	}
	s = Apply(s, Event{Node: "/n0", Kind: Write, Hosts: B})
	if got := s.String(); got != "{/n0: https://h2:443/c=2.5}" {
		t.Fatal(got)
	}
}
