// Package d2model is the reference model of property C19 (D2 announcement tracking and host selection).
// It is written from the property text only and imports nothing from go-restli:
//
//   - an Event is one ZooKeeper tree event below (or on) a cluster's uris node; Payload renders the bytes the
//     announcer would have written (nil = node deleted);
//   - Fold is the meaning of a history: last well-formed write per node wins, deletions remove, malformed payloads,
//     payloads holding an unparsable host URL, weight-less (partition-only) payloads and events on the cluster node
//     itself are ignored;
//   - Eligible is the set of hosts selection may return for a list of prioritized schemes: the hosts of the
//     highest-priority scheme for which any host is announced (every host when no priorities are configured).
package d2model

import (
	"encoding/json"
	"sort"
	"strconv"
	"strings"
)

type Kind string

const (
	// Write is a well-formed announcement carrying at least one weight ("node added" when the node is not
	// announced at that point of the history, "node changed" otherwise - Classify tells which).
	Write Kind = "write"
	// Delete is the deletion of the node (event without data).
	Delete Kind = "delete"
	// Malformed is a payload that is not a JSON document of the announcement shape.
	Malformed Kind = "malformed"
	// BadHost is well-formed JSON of the announcement shape in which a host URL does not parse.
	BadHost Kind = "bad_host"
	// Weightless is a well-formed announcement without weights (partition-only announcement).
	Weightless Kind = "weightless"
)

// HW is one host of an announcement. Host is an absolute URL "scheme://host:port/context".
type HW struct {
	Host   string  `json:"host"`
	Weight float64 `json:"weight"`
}

// Event is one tree event. Node is the path suffix below the cluster's uris node ("/n0"); the empty Node is an
// event on the cluster node itself.
type Event struct {
	Node    string `json:"node"`
	Kind    Kind   `json:"kind"`
	Hosts   []HW   `json:"hosts,omitempty"`   // Write: the weights; BadHost: well-formed hosts next to the bad one
	Variant int    `json:"variant,omitempty"` // which malformed / bad-host / weight-less payload
	Extras  bool   `json:"extras,omitempty"`  // Write: also clusterName, uriSpecificProperties, partitionDesc
}

// State is the set of announced URIs: node -> host URL -> weight.
type State map[string]map[string]float64

func (s State) clone() State {
	out := make(State, len(s))
	for k, v := range s {
		out[k] = v // announcements are immutable values in the model
	}
	return out
}

// Apply returns the state after e; s is not modified.
func Apply(s State, e Event) State {
	if e.Node == "" {
		return s
	}
	switch e.Kind {
	case Write:
		if len(e.Hosts) == 0 {
			return s // a write without weights is weight-less by definition
		}
		out := s.clone()
		m := make(map[string]float64, len(e.Hosts))
		for _, h := range e.Hosts {
			m[h.Host] = h.Weight // JSON object: last duplicate key wins
		}
		out[e.Node] = m
		return out
	case Delete:
		if _, ok := s[e.Node]; !ok {
			return s
		}
		out := s.clone()
		delete(out, e.Node)
		return out
	default: // Malformed, BadHost, Weightless: ignored
		return s
	}
}

// Fold is the meaning of a whole history.
func Fold(history []Event) State {
	s := State{}
	for _, e := range history {
		s = Apply(s, e)
	}
	return s
}

// Classify names what e is at state s (used for evidence labels only).
func Classify(s State, e Event) string {
	if e.Node == "" {
		return "cluster_node_event"
	}
	_, present := s[e.Node]
	switch e.Kind {
	case Write:
		if len(e.Hosts) == 0 {
			return "weightless"
		}
		if present {
			return "update"
		}
		return "add"
	case Delete:
		if present {
			return "delete"
		}
		return "delete_absent"
	}
	if present {
		return string(e.Kind) + "_on_announced"
	}
	return string(e.Kind)
}

// Equal compares two states exactly (node set, host sets, weights).
func Equal(a, b State) bool {
	if len(a) != len(b) {
		return false
	}
	for n, am := range a {
		bm, ok := b[n]
		if !ok || len(am) != len(bm) {
			return false
		}
		for h, w := range am {
			if bw, ok := bm[h]; !ok || bw != w {
				return false
			}
		}
	}
	return true
}

// String renders a state canonically (sorted), for messages and fingerprints.
func (s State) String() string {
	nodes := make([]string, 0, len(s))
	for n := range s {
		nodes = append(nodes, n)
	}
	sort.Strings(nodes)
	var b strings.Builder
	b.WriteByte('{')
	for i, n := range nodes {
		if i > 0 {
			b.WriteString("; ")
		}
		b.WriteString(n)
		b.WriteString(": ")
		hosts := make([]string, 0, len(s[n]))
		for h := range s[n] {
			hosts = append(hosts, h)
		}
		sort.Strings(hosts)
		for j, h := range hosts {
			if j > 0 {
				b.WriteString(", ")
			}
			b.WriteString(h)
			b.WriteByte('=')
			b.WriteString(strconv.FormatFloat(s[n][h], 'g', -1, 64))
		}
	}
	b.WriteByte('}')
	return b.String()
}

// ----------------------------------------------------------------------------------------------
// payload rendering

// MalformedPayloads are documents that are not an announcement: broken JSON, wrong top-level type, wrong member types.
var MalformedPayloads = []string{
	`{`,
	``,
	`not json`,
	`{"weights":{"http://h1:80/c":1}`,
	`{"weights":{"http://h1:80/c":1}} trailing`,
	`[1]`,
	`"weights"`,
	`{"weights":"x"}`,
	`{"weights":{"http://h1:80/c":"1"}}`,
	`{"weights":[1]}`,
	`{"weights":{"http://h1:80/c":1},"partitionDesc":7}`,
}

// BadHostURLs do not parse as URLs (missing closing bracket, bad escape, bad port, missing scheme, control character).
var BadHostURLs = []string{"http://[::1", "%zz", "http://h:port/c", ":foo", "http://h\u007f/"}

// BadHostPlaces says where the unparsable URL sits. Only the weights member is used: whether an announcement whose
// weights are fine but whose uriSpecificProperties / partitionDesc hold an unparsable URL counts as malformed is not
// stated by the property (Payload can still render those places for callers that only look for panics).
var BadHostPlaces = []string{"weights"}

// AllBadHostPlaces lists every member that can carry a host URL.
var AllBadHostPlaces = []string{"weights", "uriSpecificProperties", "partitionDesc"}

// WeightlessPayloads are well-formed announcements without any weight.
var WeightlessPayloads = []string{
	`{"clusterName":"c","partitionDesc":{"http://h1:80/c":{"0":{"weight":1.0}}}}`,
	`{"weights":{},"clusterName":"c","partitionDesc":{"http://h1:80/c":{"0":{"weight":1.0},"1":{"weight":2.0}}}}`,
	`{}`,
	`{"weights":null,"uriSpecificProperties":{}}`,
	`null`,
}

// NVariants is the number of payload variants of a kind.
func NVariants(k Kind) int {
	switch k {
	case Malformed:
		return len(MalformedPayloads)
	case BadHost:
		return len(BadHostURLs) * len(BadHostPlaces)
	case Weightless:
		return len(WeightlessPayloads)
	}
	return 1
}

// quote renders a JSON string literal.
func quote(s string) string {
	b, err := json.Marshal(s)
	if err != nil {
		panic(err)
	}
	return string(b)
}

func num(f float64) string { return strconv.FormatFloat(f, 'g', -1, 64) }

func weightsObject(hosts []HW, extra string, extraWeight float64) string {
	var b strings.Builder
	b.WriteByte('{')
	n := 0
	for _, h := range hosts {
		if n > 0 {
			b.WriteByte(',')
		}
		b.WriteString(quote(h.Host) + ":" + num(h.Weight))
		n++
	}
	if extra != "" {
		if n > 0 {
			b.WriteByte(',')
		}
		b.WriteString(quote(extra) + ":" + num(extraWeight))
	}
	b.WriteByte('}')
	return b.String()
}

func propsObject(hosts []string) string {
	var b strings.Builder
	b.WriteByte('{')
	for i, h := range hosts {
		if i > 0 {
			b.WriteByte(',')
		}
		b.WriteString(quote(h) + `:{"com.linkedin.app.name":"app","com.linkedin.app.version":"1.2.3"}`)
	}
	b.WriteByte('}')
	return b.String()
}

func partitionObject(hosts []HW, extra string) string {
	var b strings.Builder
	b.WriteByte('{')
	n := 0
	for _, h := range hosts {
		if n > 0 {
			b.WriteByte(',')
		}
		b.WriteString(quote(h.Host) + `:{"0":{"weight":` + num(h.Weight) + `}}`)
		n++
	}
	if extra != "" {
		if n > 0 {
			b.WriteByte(',')
		}
		b.WriteString(quote(extra) + `:{"0":{"weight":1}}`)
	}
	b.WriteByte('}')
	return b.String()
}

func hostNames(hosts []HW) []string {
	out := make([]string, len(hosts))
	for i, h := range hosts {
		out[i] = h.Host
	}
	return out
}

// Payload renders the znode content of e; ok=false means "no data" (the node was deleted).
func Payload(e Event) (data []byte, ok bool) {
	switch e.Kind {
	case Delete:
		return nil, false
	case Write:
		if !e.Extras {
			return []byte(`{"weights":` + weightsObject(e.Hosts, "", 0) + `}`), true
		}
		return []byte(`{"weights":` + weightsObject(e.Hosts, "", 0) + `,"clusterName":"c","uriSpecificProperties":` +
			propsObject(hostNames(e.Hosts)) + `,"partitionDesc":` + partitionObject(e.Hosts, "") + `}`), true
	case Malformed:
		return []byte(MalformedPayloads[mod(e.Variant, len(MalformedPayloads))]), true
	case Weightless:
		return []byte(WeightlessPayloads[mod(e.Variant, len(WeightlessPayloads))]), true
	case BadHost:
		// variants below NVariants(BadHost) put the bad URL into the weights; higher ones into the other members
		v := mod(e.Variant, len(BadHostURLs)*len(AllBadHostPlaces))
		bad := BadHostURLs[v%len(BadHostURLs)]
		switch AllBadHostPlaces[v/len(BadHostURLs)] {
		case "weights":
			return []byte(`{"weights":` + weightsObject(e.Hosts, bad, 1) + `,"clusterName":"c"}`), true
		case "uriSpecificProperties":
			return []byte(`{"weights":` + weightsObject(e.Hosts, "", 0) + `,"uriSpecificProperties":` +
				propsObject(append(hostNames(e.Hosts), bad)) + `}`), true
		default:
			return []byte(`{"weights":` + weightsObject(e.Hosts, "", 0) + `,"partitionDesc":` + partitionObject(e.Hosts, bad) + `}`), true
		}
	}
	panic("d2model: unknown event kind " + string(e.Kind))
}

func mod(a, n int) int {
	a %= n
	if a < 0 {
		a += n
	}
	return a
}

// ----------------------------------------------------------------------------------------------
// host selection

// SchemeOf returns the scheme of an absolute URL in the form the generator writes it.
func SchemeOf(host string) string {
	i := strings.Index(host, "://")
	if i < 0 {
		return ""
	}
	return strings.ToLower(host[:i])
}

// Eligibility is the set of hosts that selection may return.
type Eligibility struct {
	// Scheme is the highest-priority scheme for which any host is announced ("" when no priorities are configured or
	// when no prioritized scheme has a host).
	Scheme string
	// Hosts maps each eligible host to its weight (summed over the nodes announcing it).
	Hosts map[string]float64
	// Total is the sum of the eligible weights, Positive whether any eligible host has a positive weight.
	Total    float64
	Positive bool
	// Dup: an eligible host is announced by more than one node (how its weights combine is not stated by the property).
	Dup bool
}

func (e Eligibility) Empty() bool { return len(e.Hosts) == 0 }

// Eligible computes the eligible set of a state for a list of prioritized schemes.
func Eligible(s State, prioritized []string) Eligibility {
	collect := func(match func(scheme string) bool) Eligibility {
		el := Eligibility{Hosts: map[string]float64{}}
		nodes := make([]string, 0, len(s))
		for n := range s {
			nodes = append(nodes, n)
		}
		sort.Strings(nodes)
		for _, n := range nodes {
			for h, w := range s[n] {
				if !match(SchemeOf(h)) {
					continue
				}
				if _, seen := el.Hosts[h]; seen {
					el.Dup = true
				}
				el.Hosts[h] += w
			}
		}
		hosts := make([]string, 0, len(el.Hosts))
		for h := range el.Hosts {
			hosts = append(hosts, h)
		}
		sort.Strings(hosts)
		for _, h := range hosts { // fixed summation order
			el.Total += el.Hosts[h]
			if el.Hosts[h] > 0 {
				el.Positive = true
			}
		}
		return el
	}
	if len(prioritized) == 0 {
		return collect(func(string) bool { return true })
	}
	for _, scheme := range prioritized {
		el := collect(func(sc string) bool { return sc == scheme })
		if !el.Empty() {
			el.Scheme = scheme
			return el
		}
	}
	return Eligibility{Hosts: map[string]float64{}}
}

// SortedHosts lists the eligible hosts in a fixed order.
func (e Eligibility) SortedHosts() []string {
	hosts := make([]string, 0, len(e.Hosts))
	for h := range e.Hosts {
		hosts = append(hosts, h)
	}
	sort.Strings(hosts)
	return hosts
}
