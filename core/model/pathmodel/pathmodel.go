// Package pathmodel is the reference matcher for field-exclusion specifications: a set of
// slash-separated paths in which "*" stands for array items and map keys. A value is excluded iff
// some spec path matches a prefix of the value's path (the excluded value takes its subtree with it).
package pathmodel

import "strings"

type Spec [][]string

func Parse(directives []string) Spec {
	var s Spec
	for _, d := range directives {
		d = strings.TrimPrefix(d, "/")
		s = append(s, strings.Split(d, "/"))
	}
	return s
}

// Excluded reports whether the value at path (array items are the segment "*") is excluded.
func (s Spec) Excluded(path []string) bool {
	for _, q := range s {
		if len(q) > len(path) {
			continue
		}
		ok := true
		for i := range q {
			if q[i] != "*" && q[i] != path[i] {
				ok = false
				break
			}
		}
		if ok {
			return true
		}
	}
	return false
}
