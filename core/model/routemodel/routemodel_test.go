package routemodel

import "testing"

func tree() []*Node {
	return []*Node{
		{Name: "coll", Collection: true, Methods: PlainMethods, Finders: []string{"f1"}, Actions: []string{"a1"},
			Children: []*Node{{Name: "sub", Collection: false, Methods: []string{"get", "update", "delete", "partial_update"}, Actions: []string{"a1"}}}},
		{Name: "simple", Methods: []string{"get"}},
	}
}

func TestTable(t *testing.T) {
	type row struct {
		verb, path, hdr, query string
		kind                   Kind
		method, reason         string
	}
	rows := []row{
		{"GET", "/coll", "", "", Routed, "get_all", ""},
		{"GET", "/coll/k", "", "q=f1&ids=List(a)", Routed, "get", ""},
		{"GET", "/coll", "", "q=f1&ids=List(a)", Routed, "finder", ""},
		{"GET", "/coll", "", "ids=List(a)", Routed, "batch_get", ""},
		{"GET", "/coll", "", "q=nope", BadRequest400, "", "finder-not-registered"},
		{"POST", "/coll", "", "", BadRequest400, "", "post-without-header"},
		{"POST", "/coll", "create", "", Routed, "create", ""},
		{"POST", "/coll/k", "create", "", BadRequest400, "", "unexpected-entity-key"},
		{"POST", "/coll/k", "action", "action=a1", Routed, "action", ""},
		{"GET", "/coll", "create", "", Unspecified, "", "header-contradicts-verb"},
		{"DELETE", "/coll/k", "", "ids=List(a)", Unspecified, "", "key-and-ids"},
		{"DELETE", "/coll", "", "", BadRequest400, "", "missing-entity-key"},
		{"PATCH", "/coll", "", "", BadRequest400, "", "nonstandard-verb-without-header"},
		{"GET", "/nope", "", "", NotFound404, "", "unknown-root"},
		{"GET", "/coll/k/nope", "", "", NotFound404, "", "unknown-sub-resource"},
		{"GET", "/coll/k/sub", "", "", Routed, "get", ""},
		{"GET", "/coll/k/sub", "delete", "", Routed, "get", ""},
		{"POST", "/coll/k/sub", "", "action=a1", Routed, "action", ""},
		{"POST", "/coll/k/sub", "", "", Routed, "partial_update", ""},
		{"PATCH", "/coll/k/sub", "get", "", Unspecified, "", "simple-nonstandard-verb-hdr"},
		{"GET", "/coll/sub", "", "", Routed, "get", ""}, // "sub" is the key of coll
		{"GET", "/simple", "", "", Routed, "get", ""},
		{"PUT", "/simple", "", "", BadRequest400, "", "method-not-registered"},
		{"GET", "", "", "", NotFound404, "", "empty-path"},
		{"GET", "/", "", "", NotFound404, "", "unknown-root"},
		{"GET", "/coll/", "", "", Unspecified, "", "trailing-slash"},
		{"GET", "/coll", "bogus", "", Unspecified, "", "unknown-header"},
	}
	for _, r := range rows {
		o := Route(tree(), Request{Verb: r.verb, Path: r.path, HasHeader: r.hdr != "", Header: r.hdr, Query: r.query, Body: BodyFor(r.method)})
		if o.Kind != r.kind || (r.kind == Routed && o.Method != r.method) || (r.reason != "" && o.Reason != r.reason) {
			t.Errorf("%+v: got %+v", r, o)
		}
	}
	if k, d := DecodeStringKey("a%2Fb"); k != "a/b" || d != DecodeOK {
		t.Error(k, d)
	}
	if _, d := DecodeStringKey("(a:1)"); d != DecodeFails {
		t.Error(d)
	}
}
