// Package routemodel is the reference model ("decision table") of Rest.li request routing used as the
// oracle of property C05. It is written from the property text and DESIGN.md Appendix B and imports
// nothing from go-restli.
//
// Input: the registered resource tree and one (already de-tunnelled) request. Output: exactly one of
//
//	NotFound404   - the path does not name a registered resource / sub-resource
//	BadRequest400 - the path names a resource but the request is not routed
//	Routed        - (node path, method, finder/action name, entity keys) plus a verdict on whether keys,
//	                parameters and body decode (the "otherwise the answer is a 400" clause)
//	Unspecified   - the property text does not decide the outcome; optionally a list of acceptable
//	                alternatives
//
// Combinations kept Unspecified (label in Outcome.Reason), each because the property text does not
// decide them:
//
//	header-contradicts-verb     collection-like resource, X-RestLi-Method names a method whose HTTP verb is
//	                            not the request's verb (named as left open by the property)
//	simple-nonstandard-verb-hdr verb outside GET/POST/PUT/DELETE carrying a method header on a simple
//	                            resource (named as left open by the property)
//	key-and-ids                 DELETE / PUT without header carrying both an entity key and ids
//	unknown-header              header present but not one of the 13 names: acceptable outcomes are "as
//	                            if absent" or any 4xx
//	trailing-slash              the path ends in an empty segment: acceptable outcomes are the literal
//	                            reading (empty key / unknown sub-resource "") or the reading without it
//	empty-inner-segment         an empty segment that is not the last one ("//")
//	duplicate-reserved-param    q, ids or action given more than once
//	empty-reserved-param        q=, ids= or action= with an empty value
//	odd-name                    a finder / action name that is not a plain identifier (decoding of the
//	                            name is a codec question, not a routing one)
//
// Status granularity "asserted only as 4xx" (Outcome.Only4xx): a key segment with excess ')', and an
// unknown last segment directly after a simple resource (Appendix B says 404 in step 1 and 400 in step 2).
package routemodel

import (
	"strings"
)

// Node is one registered resource.
type Node struct {
	Name       string   `json:"name"`
	Collection bool     `json:"collection"` // false: simple resource or action set (no entity key)
	Methods    []string `json:"methods,omitempty"`
	Finders    []string `json:"finders,omitempty"`
	Actions    []string `json:"actions,omitempty"`
	// AnyParams: the registered methods accept and ignore arbitrary query parameters. When false the
	// methods declare no parameters of their own (only the protocol's q / action / ids).
	AnyParams bool    `json:"any_params,omitempty"`
	Children  []*Node `json:"children,omitempty"`
}

// The 13 Rest.li method names.
var MethodNames = []string{"get", "create", "delete", "update", "partial_update", "batch_get", "batch_create",
	"batch_delete", "batch_update", "batch_partial_update", "get_all", "action", "finder"}

// PlainMethods are the methods registered by method name (finder and action are registered by name).
var PlainMethods = MethodNames[:11]

var verbOf = map[string]string{
	"get": "GET", "batch_get": "GET", "get_all": "GET", "finder": "GET",
	"create": "POST", "batch_create": "POST", "partial_update": "POST", "batch_partial_update": "POST", "action": "POST",
	"update": "PUT", "batch_update": "PUT",
	"delete": "DELETE", "batch_delete": "DELETE",
}

// VerbOf returns the HTTP verb the protocol assigns to a Rest.li method ("" if unknown).
func VerbOf(method string) string { return verbOf[method] }

func IsBatch(m string) bool { return strings.HasPrefix(m, "batch_") }

// TakesBody reports whether the method's request carries an entity / patch / parameter document.
func TakesBody(m string) bool {
	switch m {
	case "create", "update", "partial_update", "batch_create", "batch_update", "batch_partial_update", "action":
		return true
	}
	return false
}

// Body describes the request document sent with the request.
type Body string

const (
	BodyNone      Body = ""          // no body
	BodyMinimal   Body = "minimal"   // {}
	BodyElements  Body = "elements"  // {"elements":[]}
	BodyEntities  Body = "entities"  // {"entities":{}}
	BodyUniversal Body = "universal" // {"elements":[],"entities":{}}
	BodyMalformed Body = "malformed" // not a JSON document
)

// BodyFor is the minimal valid document of a method.
func BodyFor(m string) Body {
	switch m {
	case "create", "update", "partial_update", "action":
		return BodyMinimal
	case "batch_create":
		return BodyElements
	case "batch_update", "batch_partial_update":
		return BodyEntities
	}
	return BodyNone
}

type Request struct {
	Verb      string `json:"verb"`
	Path      string `json:"path"` // escaped path after the mount prefix, as on the wire ("/res/k"); may be ""
	HasHeader bool   `json:"has_header"`
	Header    string `json:"header"`
	Query     string `json:"query"` // raw query string
	Body      Body   `json:"body"`
}

type Kind int

const (
	NotFound404 Kind = iota
	BadRequest400
	Routed
	Unspecified
)

func (k Kind) String() string {
	return [...]string{"404", "400", "routed", "unspecified"}[k]
}

type Decode int

const (
	DecodeOK     Decode = iota // keys, parameters and body decode: the method is invoked
	DecodeFails                // they do not: 400, nothing invoked
	DecodeUnsure               // the property text does not decide whether they decode: either of the two
)

func (d Decode) String() string { return [...]string{"ok", "fails", "unsure"}[d] }

type Seg struct {
	Name       string `json:"name"`
	Collection bool   `json:"collection"`
}

type Outcome struct {
	Kind    Kind   `json:"kind"`
	Reason  string `json:"reason"`
	Only4xx bool   `json:"only_4xx,omitempty"` // 404 / 400 asserted only as 4xx

	// Routed only
	NodePath     []Seg    `json:"node_path,omitempty"`
	Method       string   `json:"method,omitempty"`
	Name         string   `json:"name,omitempty"` // finder or action name
	RawKeys      []string `json:"raw_keys,omitempty"`
	Keys         []string `json:"keys,omitempty"` // decoded keys (meaningful when KeysDecode == DecodeOK)
	KeysDecode   Decode   `json:"keys_decode,omitempty"`
	Decode       Decode   `json:"decode,omitempty"` // overall: keys, parameters, body
	DecodeReason string   `json:"decode_reason,omitempty"`

	// Unspecified only: when non-empty the observed behaviour must match one of them; Or4xx additionally
	// accepts any 4xx that invokes nothing. When both are empty only the unconditional parts are asserted
	// (at most one invocation, no 5xx, no panic).
	Alternatives []Outcome `json:"alternatives,omitempty"`
	Or4xx        bool      `json:"or_4xx,omitempty"`

	// PathResolved: the path named a registered resource (used for the non-triviality rule).
	PathResolved bool `json:"path_resolved,omitempty"`
}

func (o Outcome) NodeString() string {
	var b strings.Builder
	for _, s := range o.NodePath {
		b.WriteByte('/')
		b.WriteString(s.Name)
	}
	return b.String()
}

type param struct{ name, value string }

func parseQuery(raw string) []param {
	var out []param
	for _, kv := range strings.Split(raw, "&") {
		if kv == "" {
			continue
		}
		k, v, _ := strings.Cut(kv, "=")
		out = append(out, param{k, v})
	}
	return out
}

// QueryWellFormed: every value has balanced ROR2 parentheses. ok=false: certainly malformed (excess ')');
// sure=false: an unclosed '(' (whether that "decodes" depends on who reads the value).
func QueryWellFormed(raw string) (ok, sure bool) {
	ok, sure = true, true
	for _, p := range parseQuery(raw) {
		depth := 0
		for _, c := range p.value {
			switch c {
			case '(':
				depth++
			case ')':
				depth--
				if depth < 0 {
					return false, true
				}
			}
		}
		if depth != 0 {
			sure = false
		}
	}
	return ok, sure
}

func isIdent(s string) bool {
	if s == "" {
		return false
	}
	for _, c := range s {
		if !(c >= 'a' && c <= 'z' || c >= 'A' && c <= 'Z' || c >= '0' && c <= '9' || c == '_') {
			return false
		}
	}
	return true
}

func hexv(c byte) int {
	switch {
	case c >= '0' && c <= '9':
		return int(c - '0')
	case c >= 'a' && c <= 'f':
		return int(c-'a') + 10
	case c >= 'A' && c <= 'F':
		return int(c-'A') + 10
	}
	return -1
}

// DecodeStringKey decides whether a raw path segment is the ROR2 path encoding of a string key.
func DecodeStringKey(raw string) (string, Decode) {
	if raw == "" {
		return "", DecodeUnsure // the empty string is written '' in ROR2; an empty segment is not an encoding
	}
	if raw == "''" {
		return "", DecodeOK
	}
	verdict := DecodeOK
	var b strings.Builder
	for i := 0; i < len(raw); i++ {
		c := raw[i]
		switch c {
		case '(', ')', ',':
			return "", DecodeFails // structural delimiters must be escaped inside a string
		case ':', '\'':
			verdict = DecodeUnsure // reserved, but lenient readers accept them
			b.WriteByte(c)
		case '%':
			if i+2 >= len(raw) {
				return "", DecodeUnsure
			}
			h, l := hexv(raw[i+1]), hexv(raw[i+2])
			if h < 0 || l < 0 {
				return "", DecodeUnsure
			}
			b.WriteByte(byte(h<<4 | l))
			i += 2
		default:
			b.WriteByte(c)
		}
	}
	return b.String(), verdict
}

func idsVerdict(v string) Decode {
	if !strings.HasPrefix(v, "List(") || !strings.HasSuffix(v, ")") {
		return DecodeUnsure
	}
	inner := v[len("List(") : len(v)-1]
	if inner == "" {
		return DecodeOK
	}
	for _, it := range strings.Split(inner, ",") {
		if _, d := DecodeStringKey(it); d != DecodeOK {
			return DecodeUnsure
		}
	}
	return DecodeOK
}

// Registered: a resource exists on a server only through the methods, finders and actions registered on it
// or on one of its descendants (bindings of a resource without any method register nothing).
func (n *Node) Registered() bool {
	if len(n.Methods)+len(n.Finders)+len(n.Actions) > 0 {
		return true
	}
	for _, c := range n.Children {
		if c.Registered() {
			return true
		}
	}
	return false
}

func find(nodes []*Node, name string) *Node {
	for _, n := range nodes {
		if n.Name == name && n.Registered() {
			return n
		}
	}
	return nil
}

func union(a, b []string) []string {
	out := append([]string(nil), a...)
	for _, x := range b {
		if !has(out, x) {
			out = append(out, x)
		}
	}
	return out
}

// Merge returns the tree that results from registering b's resources, methods, finders and actions on a
// server that already holds a (same-named nodes are united; kind and AnyParams of a win).
func Merge(a, b []*Node) []*Node {
	var out []*Node
	for _, n := range a {
		cp := *n
		cp.Children = Merge(n.Children, nil)
		out = append(out, &cp)
	}
	for _, n := range b {
		var ex *Node
		for _, o := range out {
			if o.Name == n.Name {
				ex = o
			}
		}
		if ex == nil {
			cp := *n
			cp.Children = Merge(n.Children, nil)
			out = append(out, &cp)
			continue
		}
		ex.Methods = union(ex.Methods, n.Methods)
		ex.Finders = union(ex.Finders, n.Finders)
		ex.Actions = union(ex.Actions, n.Actions)
		ex.Children = Merge(ex.Children, n.Children)
	}
	return out
}

func has(list []string, s string) bool {
	for _, x := range list {
		if x == s {
			return true
		}
	}
	return false
}

// Route is the decision table.
func Route(roots []*Node, r Request) Outcome {
	if !strings.HasPrefix(r.Path, "/") {
		return Outcome{Kind: NotFound404, Reason: "empty-path"}
	}
	segs := strings.Split(r.Path[1:], "/")
	for i, s := range segs[:len(segs)-1] {
		if s == "" {
			// an empty segment that is not the last one. A leading one ("//res") cannot name a root
			// resource, so that one is decided: 404.
			if i == 0 {
				return Outcome{Kind: NotFound404, Reason: "unknown-root"}
			}
			return Outcome{Kind: Unspecified, Reason: "empty-inner-segment"}
		}
	}
	if n := len(segs); n >= 2 && segs[n-1] == "" {
		lit := routeSegs(roots, r, segs)
		stripped := routeSegs(roots, r, segs[:n-1])
		if equalOutcome(lit, stripped) {
			return lit
		}
		return Outcome{Kind: Unspecified, Reason: "trailing-slash", Alternatives: flatten(lit, stripped),
			Or4xx: lit.Or4xx || stripped.Or4xx, PathResolved: lit.PathResolved || stripped.PathResolved}
	}
	return routeSegs(roots, r, segs)
}

func flatten(os ...Outcome) []Outcome {
	var out []Outcome
	for _, o := range os {
		if o.Kind == Unspecified && len(o.Alternatives) > 0 {
			out = append(out, o.Alternatives...)
		} else {
			out = append(out, o)
		}
	}
	return out
}

func equalOutcome(a, b Outcome) bool {
	if a.Kind != b.Kind || a.Only4xx != b.Only4xx {
		return false
	}
	switch a.Kind {
	case Routed:
		return a.NodeString() == b.NodeString() && a.Method == b.Method && a.Name == b.Name &&
			strings.Join(a.RawKeys, "\x00") == strings.Join(b.RawKeys, "\x00") && len(a.RawKeys) == len(b.RawKeys) && a.Decode == b.Decode
	case Unspecified:
		return false
	}
	return true
}

func routeSegs(roots []*Node, r Request, segs []string) Outcome {
	// 1. walk
	node := find(roots, segs[0])
	if node == nil {
		return Outcome{Kind: NotFound404, Reason: "unknown-root"}
	}
	path := []Seg{{node.Name, node.Collection}}
	var rawKeys []string
	hasKey := false
	i := 1
	for {
		hasKey = false
		if node.Collection && i < len(segs) {
			key := segs[i]
			i++
			depth := 0
			for _, c := range key {
				if c == '(' {
					depth++
				} else if c == ')' {
					depth--
					if depth < 0 {
						return Outcome{Kind: NotFound404, Only4xx: true, Reason: "key-excess-paren", PathResolved: true}
					}
				}
			}
			rawKeys = append(rawKeys, key)
			hasKey = true
		}
		if i >= len(segs) {
			break
		}
		child := find(node.Children, segs[i])
		if child == nil {
			if !node.Collection && i == len(segs)-1 {
				return Outcome{Kind: NotFound404, Only4xx: true, Reason: "segment-after-simple"}
			}
			return Outcome{Kind: NotFound404, Reason: "unknown-sub-resource"}
		}
		node = child
		path = append(path, Seg{node.Name, node.Collection})
		i++
	}
	bad := func(reason string) Outcome { return Outcome{Kind: BadRequest400, Reason: reason, PathResolved: true} }
	unspec := func(reason string) Outcome { return Outcome{Kind: Unspecified, Reason: reason, PathResolved: true} }

	// reserved query parameters
	params := parseQuery(r.Query)
	count := map[string]int{}
	val := map[string]string{}
	for _, p := range params {
		count[p.name]++
		val[p.name] = p.value
	}
	for _, name := range []string{"q", "ids", "action"} {
		if count[name] > 1 {
			return unspec("duplicate-reserved-param")
		}
		if count[name] == 1 && val[name] == "" {
			return unspec("empty-reserved-param")
		}
	}
	_, hasQ := val["q"]
	_, hasIds := val["ids"]
	_, hasAction := val["action"]

	// 2. method
	var method string
	standard := r.Verb == "GET" || r.Verb == "POST" || r.Verb == "PUT" || r.Verb == "DELETE"
	if node.Collection {
		known := r.HasHeader && verbOf[r.Header] != ""
		switch {
		case known:
			if verbOf[r.Header] != r.Verb {
				return unspec("header-contradicts-verb")
			}
			method = r.Header
		case r.HasHeader: // present but unknown: as if absent, or any 4xx
			r2 := r
			r2.HasHeader, r2.Header = false, ""
			alt := routeSegs(roots, r2, segs)
			return Outcome{Kind: Unspecified, Reason: "unknown-header", Alternatives: flatten(alt), Or4xx: true, PathResolved: true}
		default:
			switch r.Verb {
			case "GET":
				switch {
				case hasKey:
					method = "get"
				case hasQ:
					method = "finder"
				case hasIds:
					method = "batch_get"
				default:
					method = "get_all"
				}
			case "PUT", "DELETE":
				single, batch := "update", "batch_update"
				if r.Verb == "DELETE" {
					single, batch = "delete", "batch_delete"
				}
				switch {
				case hasKey && hasIds:
					return unspec("key-and-ids")
				case hasIds:
					method = batch
				default:
					method = single
				}
			case "POST":
				return bad("post-without-header")
			default:
				return bad("nonstandard-verb-without-header")
			}
		}
		// 3. entity presence
		switch method {
		case "get", "delete", "update", "partial_update":
			if !hasKey {
				return bad("missing-entity-key")
			}
		case "action":
		default:
			if hasKey {
				return bad("unexpected-entity-key")
			}
		}
	} else {
		if !standard {
			if r.HasHeader {
				return unspec("simple-nonstandard-verb-hdr")
			}
			return bad("nonstandard-verb-on-simple")
		}
		switch r.Verb {
		case "GET":
			method = "get"
		case "PUT":
			method = "update"
		case "DELETE":
			method = "delete"
		case "POST":
			if hasAction {
				method = "action"
			} else {
				method = "partial_update"
			}
		}
	}

	// 4. lookup
	name := ""
	switch method {
	case "finder":
		if !hasQ {
			return bad("finder-without-q")
		}
		name = val["q"]
		if !isIdent(name) {
			return unspec("odd-name")
		}
		if !has(node.Finders, name) {
			return bad("finder-not-registered")
		}
	case "action":
		if !hasAction {
			return bad("action-without-name")
		}
		name = val["action"]
		if !isIdent(name) {
			return unspec("odd-name")
		}
		if !has(node.Actions, name) {
			return bad("action-not-registered")
		}
	default:
		if !has(node.Methods, method) {
			return bad("method-not-registered")
		}
	}

	// 5. routed; do keys, parameters and body decode?
	o := Outcome{Kind: Routed, Reason: "routed", NodePath: path, Method: method, Name: name, RawKeys: rawKeys, PathResolved: true}
	worst := func(d Decode, why string) {
		// Fails dominates Unsure dominates OK
		if d == DecodeFails && o.Decode != DecodeFails || d == DecodeUnsure && o.Decode == DecodeOK {
			o.Decode, o.DecodeReason = d, why
		}
	}
	for _, k := range rawKeys {
		dk, d := DecodeStringKey(k)
		o.Keys = append(o.Keys, dk)
		if d == DecodeFails && o.KeysDecode != DecodeFails || d == DecodeUnsure && o.KeysDecode == DecodeOK {
			o.KeysDecode = d
		}
		worst(d, "key")
	}
	if ok, sure := QueryWellFormed(r.Query); !ok {
		worst(DecodeFails, "malformed-query")
	} else if !sure {
		worst(DecodeUnsure, "unclosed-paren-in-query")
	}
	if IsBatch(method) && method != "batch_create" {
		if !hasIds {
			worst(DecodeFails, "batch-without-ids")
		} else {
			worst(idsVerdict(val["ids"]), "ids-shape")
		}
		if !node.AnyParams {
			for _, p := range params {
				if p.name != "ids" {
					worst(DecodeUnsure, "undeclared-param-on-batch")
				}
			}
		}
	}
	if method == "action" && !node.AnyParams {
		// an action that declares no parameters has nothing to decode from the document
		if r.Body == BodyMalformed {
			worst(DecodeUnsure, "malformed-body-on-parameterless-action")
		}
	} else if TakesBody(method) {
		switch r.Body {
		case BodyMalformed:
			worst(DecodeFails, "malformed-body")
		case BodyNone:
			worst(DecodeUnsure, "missing-body")
		default:
			// the single-entity documents are decoded by a record that ignores unknown fields, so any JSON object
			// will do; the batch envelopes need their own shape, and whether extra fields are tolerated there is
			// not a routing question
			if want := BodyFor(method); r.Body != want && want != BodyMinimal {
				worst(DecodeUnsure, "body-of-other-shape")
			}
		}
	} else if r.Body != BodyNone {
		worst(DecodeUnsure, "body-on-bodyless-method")
	}
	return o
}
