// Package lazymodel is the sequential reference model of C18: a plain map offering
// compute-if-absent, and the linearizability check of a concurrent history against it (porcupine,
// partitioned per key). It imports nothing from go-restli.
//
// Sequential specification (state per key: absent | present(v)):
//
//	LoadOrCompute(k, f): present(v) -> returns v, f is not invoked, state unchanged
//	                     absent     -> f is invoked exactly once, returns f's value w, state present(w)
//	Load(k):             present(v) -> (v, true);  absent -> (nil, false)
//	Store(k, v):         state present(v)
//
// Whether f was invoked is part of the operation's output, so "f ran although the key was present"
// and "f's value was returned although f did not run" are both non-linearizable. Nothing removes a
// key, hence at most one LoadOrCompute per key can ever have Invoked set.
package lazymodel

import (
	"fmt"
	"sort"
	"strings"

	"github.com/anishathalye/porcupine"
)

type Kind int

const (
	LoadOrCompute Kind = iota
	Load
	Store
)

func (k Kind) String() string { return [...]string{"LoadOrCompute", "Load", "Store"}[k] }

// In is an operation's input. Val is the value passed to Store, or the value the compute function
// of this LoadOrCompute returns if it is invoked (the harness makes it unique per operation).
type In struct {
	Kind Kind `json:"kind"`
	Key  int  `json:"key"`
	Val  int  `json:"val"`
}

// Out is an operation's observable result. Foreign is non-empty when the implementation returned
// something that is not one of the values handed to it (e.g. an in-flight placeholder); such an
// output matches no model step.
type Out struct {
	Val     int    `json:"val"`
	Ok      bool   `json:"ok"`      // Load only
	Invoked int    `json:"invoked"` // LoadOrCompute only: how many times the compute function ran
	Foreign string `json:"foreign,omitempty"`
}

// Op is one completed operation of a history. Call and Ret are logical timestamps, unique within
// the history; A precedes B in real time iff A.Ret < B.Call.
type Op struct {
	Client int   `json:"client"`
	In     In    `json:"in"`
	Out    Out   `json:"out"`
	Call   int64 `json:"call"`
	Ret    int64 `json:"ret"`
}

func (o Op) String() string {
	var s string
	switch o.In.Kind {
	case LoadOrCompute:
		s = fmt.Sprintf("LoadOrCompute(k%d, f->%d) = %s [f ran %dx]", o.In.Key, o.In.Val, outVal(o.Out), o.Out.Invoked)
	case Load:
		if o.Out.Ok || o.Out.Foreign != "" {
			s = fmt.Sprintf("Load(k%d) = (%s, true)", o.In.Key, outVal(o.Out))
		} else {
			s = fmt.Sprintf("Load(k%d) = (nil, false)", o.In.Key)
		}
	case Store:
		s = fmt.Sprintf("Store(k%d, %d)", o.In.Key, o.In.Val)
	}
	return fmt.Sprintf("client %d [%d,%d] %s", o.Client, o.Call, o.Ret, s)
}

func outVal(o Out) string {
	if o.Foreign != "" {
		return "<" + o.Foreign + ">"
	}
	return fmt.Sprint(o.Val)
}

type state struct {
	present bool
	val     int
}

func step(st state, in In, out Out) (bool, state) {
	if out.Foreign != "" {
		return false, st
	}
	switch in.Kind {
	case LoadOrCompute:
		if st.present {
			return out.Invoked == 0 && out.Val == st.val, st
		}
		return out.Invoked == 1 && out.Val == in.Val, state{true, in.Val}
	case Load:
		if st.present {
			return out.Ok && out.Val == st.val, st
		}
		return !out.Ok, st
	case Store:
		return true, state{true, in.Val}
	}
	return false, st
}

// Model is the porcupine model, partitioned by key.
var Model = porcupine.Model{
	Partition: func(h []porcupine.Operation) [][]porcupine.Operation {
		by := map[int][]porcupine.Operation{}
		for _, o := range h {
			k := o.Input.(In).Key
			by[k] = append(by[k], o)
		}
		keys := make([]int, 0, len(by))
		for k := range by {
			keys = append(keys, k)
		}
		sort.Ints(keys)
		out := make([][]porcupine.Operation, 0, len(keys))
		for _, k := range keys {
			out = append(out, by[k])
		}
		return out
	},
	Init: func() interface{} { return state{} },
	Step: func(st, in, out interface{}) (bool, interface{}) {
		ok, ns := step(st.(state), in.(In), out.(Out))
		return ok, ns
	},
	Equal: func(a, b interface{}) bool { return a.(state) == b.(state) },
	DescribeOperation: func(in, out interface{}) string {
		return Op{In: in.(In), Out: out.(Out)}.String()
	},
}

// Linearizable reports whether the history is linearizable with respect to the model.
func Linearizable(h []Op) bool {
	ops := make([]porcupine.Operation, len(h))
	for i, o := range h {
		ops[i] = porcupine.Operation{ClientId: o.Client, Input: o.In, Call: o.Call, Output: o.Out, Return: o.Ret}
	}
	return porcupine.CheckOperations(Model, ops)
}

// Signature is a canonical form of a history: two histories with the same signature have the same
// verdict (same operations, same outputs, same order of all call/return events).
func Signature(h []Op) string {
	var b strings.Builder
	for _, o := range h {
		fmt.Fprintf(&b, "%d:%d.%d.%d>%d.%t.%d.%s@%d-%d;", o.Client, o.In.Kind, o.In.Key, o.In.Val, o.Out.Val, o.Out.Ok, o.Out.Invoked, o.Out.Foreign, o.Call, o.Ret)
	}
	return b.String()
}

// Format renders a history sorted by call time, one operation per line.
func Format(h []Op) string {
	s := append([]Op(nil), h...)
	sort.Slice(s, func(i, j int) bool { return s[i].Call < s[j].Call })
	var b strings.Builder
	for _, o := range s {
		b.WriteString("  " + o.String() + "\n")
	}
	return b.String()
}

// SequentialOutcome runs ops one after the other on the model and returns their outputs; used by
// the harness's self-test (a sequential execution of the implementation must produce exactly these).
func SequentialOutcome(ins []In) []Out {
	st := map[int]state{}
	outs := make([]Out, len(ins))
	for i, in := range ins {
		s := st[in.Key]
		switch in.Kind {
		case LoadOrCompute:
			if s.present {
				outs[i] = Out{Val: s.val}
			} else {
				outs[i] = Out{Val: in.Val, Invoked: 1}
				st[in.Key] = state{true, in.Val}
			}
		case Load:
			if s.present {
				outs[i] = Out{Val: s.val, Ok: true}
			}
		case Store:
			st[in.Key] = state{true, in.Val}
		}
	}
	return outs
}
