package lazymodel

import "testing"

func op(c int, k Kind, key, val int, call, ret int64, out Out) Op {
	return Op{Client: c, In: In{Kind: k, Key: key, Val: val}, Out: out, Call: call, Ret: ret}
}

func TestModelAcceptsAndRejects(t *testing.T) {
	for _, tc := range []struct {
		name string
		h    []Op
		want bool
	}{
		{"store overlapping an in-flight compute wins", []Op{
			op(0, LoadOrCompute, 0, 11, 1, 4, Out{Val: 11, Invoked: 1}), op(1, Store, 0, 22, 2, 5, Out{}), op(2, Load, 0, 0, 6, 7, Out{Val: 22, Ok: true})}, true},
		{"lost store", []Op{
			op(0, LoadOrCompute, 0, 11, 1, 4, Out{Val: 11, Invoked: 1}), op(1, Store, 0, 22, 2, 3, Out{}), op(2, Load, 0, 0, 6, 7, Out{Val: 11, Ok: true})}, false},
		{"two computes for one key", []Op{
			op(0, LoadOrCompute, 0, 11, 1, 4, Out{Val: 11, Invoked: 1}), op(1, LoadOrCompute, 0, 21, 2, 5, Out{Val: 11, Invoked: 1})}, false},
		{"racing callers, one compute, same value", []Op{
			op(0, LoadOrCompute, 0, 11, 1, 4, Out{Val: 11, Invoked: 1}), op(1, LoadOrCompute, 0, 21, 2, 5, Out{Val: 11})}, true},
		{"racing callers return different values", []Op{
			op(0, LoadOrCompute, 0, 11, 1, 4, Out{Val: 11, Invoked: 1}), op(1, LoadOrCompute, 0, 21, 2, 5, Out{Val: 21})}, false},
		{"value returned although f did not run", []Op{op(0, LoadOrCompute, 0, 11, 1, 2, Out{Val: 11})}, false},
		{"load misses a completed store", []Op{op(0, Store, 0, 12, 1, 2, Out{}), op(1, Load, 0, 0, 3, 4, Out{})}, false},
		{"load concurrent with a store may miss it", []Op{op(0, Store, 0, 12, 1, 3, Out{}), op(1, Load, 0, 0, 2, 4, Out{})}, true},
		{"placeholder", []Op{op(0, Store, 0, 12, 1, 2, Out{}), op(1, Load, 0, 0, 3, 4, Out{Ok: true, Foreign: "*x"})}, false},
		{"keys are independent", []Op{op(0, Store, 0, 12, 1, 2, Out{}), op(1, Load, 1, 0, 3, 4, Out{})}, true},
	} {
		if got := Linearizable(tc.h); got != tc.want {
			t.Errorf("%s: linearizable=%v want %v\n%s", tc.name, got, tc.want, Format(tc.h))
		}
	}
	outs := SequentialOutcome([]In{{LoadOrCompute, 0, 11}, {LoadOrCompute, 0, 21}, {Store, 0, 32}, {Load, 0, 0}, {Load, 1, 0}})
	want := []Out{{Val: 11, Invoked: 1}, {Val: 11}, {}, {Val: 32, Ok: true}, {}}
	for i := range want {
		if outs[i] != want[i] {
			t.Errorf("sequential step %d: %+v want %+v", i, outs[i], want[i])
		}
	}
}
