// Package tunnel is the reference model of Rest.li query tunnelling used by check C14. It imports nothing from
// go-restli. It holds
//   - the decision rule (when is a request tunnelled),
//   - the capture of a request as routing / resource code sees it and the expected capture of a logical request,
//   - an independent writer of tunnelling envelopes (form body and multipart/mixed) that can also produce the malformed
//     shapes the property enumerates,
//   - rapid generators for queries and bodies.
package tunnel

import (
	"bytes"
	"fmt"
	"sort"
	"strings"

	"pgregory.net/rapid"
)

const (
	OverrideHeader = "X-Http-Method-Override" // canonical MIME form of X-HTTP-Method-Override
	ContentType    = "Content-Type"
	JSON           = "application/json"
	Form           = "application/x-www-form-urlencoded"
	Mixed          = "multipart/mixed"
)

// ShouldTunnel is the rule of the property: a request is tunnelled iff tunnelling is enabled (threshold > 0) and the
// raw query is longer than the threshold; everything else is sent untouched.
func ShouldTunnel(threshold, rawQueryLen int) bool { return threshold > 0 && rawQueryLen > threshold }

// MinTunnelledQueryLen is the shortest query a client can ever tunnel (threshold >= 1 and len > threshold).
const MinTunnelledQueryLen = 2

// Capture is a request as seen by routing and resource code.
type Capture struct {
	Method      string              `json:"method"`
	Path        string              `json:"path"` // escaped path
	RawQuery    string              `json:"raw_query"`
	RequestURI  string              `json:"request_uri"`
	Body        []byte              `json:"body"`
	NilBody     bool                `json:"nil_body,omitempty"`
	ContentType []string            `json:"content_type"`
	Override    []string            `json:"override"`
	RestLi      map[string][]string `json:"restli"` // X-Restli-* headers
	Other       map[string][]string `json:"other"`  // every other non-hop header
}

var hopHeaders = map[string]bool{"Content-Length": true, "Accept-Encoding": true, "User-Agent": true, "Host": true,
	"Transfer-Encoding": true, "Connection": true}

// SplitHeaders classifies canonical header keys the way Capture stores them.
func (c *Capture) SplitHeaders(h map[string][]string) {
	c.RestLi = map[string][]string{}
	c.Other = map[string][]string{}
	for k, v := range h {
		switch {
		case k == ContentType:
			c.ContentType = append([]string(nil), v...)
		case k == OverrideHeader:
			c.Override = append([]string(nil), v...)
		case hopHeaders[k]:
		case strings.HasPrefix(k, "X-Restli-"):
			c.RestLi[k] = append([]string(nil), v...)
		default:
			c.Other[k] = append([]string(nil), v...)
		}
	}
}

func hdrString(m map[string][]string) string {
	keys := make([]string, 0, len(m))
	for k := range m {
		keys = append(keys, k)
	}
	sort.Strings(keys)
	var b strings.Builder
	for _, k := range keys {
		fmt.Fprintf(&b, "%s=%q;", k, m[k])
	}
	return b.String()
}

// Diff lists the fields in which two captures differ; the field names are the ones the property enumerates ("verb",
// "path", "query", "body", "content-type", "restli-headers") plus "override" (the override header must be gone),
// "request-uri" and "other-headers" (reported under their own names so that a caller can decide what it asserts).
func Diff(want, got Capture) (fields []string, detail string) {
	var d []string
	add := func(f, w, g string) {
		fields = append(fields, f)
		d = append(d, fmt.Sprintf("%s: want %s got %s", f, w, g))
	}
	if want.Method != got.Method {
		add("verb", want.Method, got.Method)
	}
	if want.Path != got.Path {
		add("path", q(want.Path), q(got.Path))
	}
	if want.RawQuery != got.RawQuery {
		add("query", q(clip(want.RawQuery)), q(clip(got.RawQuery)))
	}
	if !bytes.Equal(want.Body, got.Body) || want.NilBody != got.NilBody {
		add("body", fmt.Sprintf("%s(nil=%v)", q(clip(string(want.Body))), want.NilBody), fmt.Sprintf("%s(nil=%v)", q(clip(string(got.Body))), got.NilBody))
	}
	if fmt.Sprintf("%q", want.ContentType) != fmt.Sprintf("%q", got.ContentType) {
		add("content-type", fmt.Sprintf("%q", want.ContentType), fmt.Sprintf("%q", got.ContentType))
	}
	if len(want.Override) != len(got.Override) || fmt.Sprintf("%q", want.Override) != fmt.Sprintf("%q", got.Override) {
		add("override", fmt.Sprintf("%q", want.Override), fmt.Sprintf("%q", got.Override))
	}
	if a, b := hdrString(want.RestLi), hdrString(got.RestLi); a != b {
		add("restli-headers", a, b)
	}
	if want.RequestURI != got.RequestURI {
		add("request-uri", q(clip(want.RequestURI)), q(clip(got.RequestURI)))
	}
	if a, b := hdrString(want.Other), hdrString(got.Other); a != b {
		add("other-headers", a, b)
	}
	return fields, strings.Join(d, "\n ")
}

func q(s string) string { return fmt.Sprintf("%+q", s) }

func clip(s string) string {
	if len(s) > 160 {
		return s[:70] + fmt.Sprintf("...[%d bytes]...", len(s)-140) + s[len(s)-70:]
	}
	return s
}

// RequestURI of a (path, query) pair as it goes on the request line.
func RequestURI(path, query string) string {
	if query == "" {
		return path
	}
	return path + "?" + query
}

// ---------------------------------------------------------------------------------------------------------------
// envelopes

// Part of a multipart/mixed envelope. Headers are written verbatim in order.
type Part struct {
	Headers [][2]string `json:"headers"`
	Content []byte      `json:"content"`
}

func QueryPart(query string) Part {
	return Part{Headers: [][2]string{{ContentType, Form}}, Content: []byte(query)}
}
func BodyPart(body []byte) Part {
	return Part{Headers: [][2]string{{ContentType, JSON}}, Content: body}
}

// Multipart writes an RFC 2046 multipart body: each part is "--" boundary CRLF headers CRLF CRLF content CRLF, closed by
// "--" boundary "--" CRLF.
func Multipart(boundary string, parts []Part) []byte {
	var b bytes.Buffer
	for _, p := range parts {
		b.WriteString("--" + boundary + "\r\n")
		for _, h := range p.Headers {
			b.WriteString(h[0] + ": " + h[1] + "\r\n")
		}
		b.WriteString("\r\n")
		b.Write(p.Content)
		b.WriteString("\r\n")
	}
	b.WriteString("--" + boundary + "--\r\n")
	return b.Bytes()
}

func MixedContentType(boundary string) string { return Mixed + "; boundary=" + boundary }

// Boundary derives a boundary of 60 hex digits (the shape mime/multipart picks) from a number and makes sure it does not
// occur in any of the given contents.
func Boundary(n uint64, contents ...[]byte) string {
	for {
		s := fmt.Sprintf("%016x", n)
		bd := strings.Repeat(s, 4)[:60]
		clash := false
		for _, c := range contents {
			if bytes.Contains(c, []byte(bd)) {
				clash = true
			}
		}
		if !clash {
			return bd
		}
		n = n*6364136223846793005 + 1442695040888963407
	}
}

// ---------------------------------------------------------------------------------------------------------------
// generators

const Unreserved = "abcdefghijklmnopqrstuvwxyzABCDEFGHIJKLMNOPQRSTUVWXYZ0123456789-_.~"

// WireTokens: what the ROR2 query encoder can emit besides unreserved characters: %XX triplets, ROR2 delimiters and
// the sub-delimiters it leaves raw, parameter separators.
var WireTokens = []string{"(", ")", ":", ",", "'", "''", "List(", "!", "*", "$", ";", "/", "?", "@", "~", "&", "=", "&&", "==",
	"%25", "%26", "%3D", "%2B", "%20", "%23", "%2F", "%0D%0A", "%0A", "%0D", "%C3%A9", "%00", "%FF", "%2D%2D", "--",
	"q=", "ids=", "action=", "&a=", "&b=", "fields=", "start=0", "count=10"}

// HexLine is what a multipart boundary chosen by mime/multipart looks like (60 hex digits).
func HexLine(t *rapid.T, label string) string {
	const hex = "0123456789abcdef"
	var b strings.Builder
	for i := 0; i < 60; i++ {
		b.WriteByte(hex[rapid.IntRange(0, 15).Draw(t, label)])
	}
	return b.String()
}

// GenWireQuery draws a query over the alphabet the query encoder emits. minLen forces a minimum length (padding with
// unreserved characters); long selects the multi-kilobyte class.
func GenWireQuery(t *rapid.T, label string) string {
	kind := rapid.IntRange(0, 9).Draw(t, label+"_kind")
	var b strings.Builder
	switch kind {
	case 0: // empty
		return ""
	case 1: // one or two bytes: the shortest queries around threshold 1
		n := rapid.IntRange(1, 2).Draw(t, label+"_n")
		for i := 0; i < n; i++ {
			b.WriteByte(rapid.SampledFrom([]byte("a=&1(~")).Draw(t, label+"_c"))
		}
		return b.String()
	case 2: // long
		n := rapid.IntRange(200, 1500).Draw(t, label+"_n")
		b.WriteString("q=search&s=")
		for i := 0; i < n; i++ {
			if rapid.IntRange(0, 7).Draw(t, label+"_k") == 0 {
				b.WriteString(rapid.SampledFrom(WireTokens).Draw(t, label+"_t"))
			} else {
				b.WriteByte(Unreserved[rapid.IntRange(0, len(Unreserved)-1).Draw(t, label+"_c")])
			}
		}
		return b.String()
	case 3: // boundary-like text (legal in a query: "-" and hex digits are unreserved)
		b.WriteString("s=--" + HexLine(t, label+"_h"))
		if rapid.Bool().Draw(t, label+"_close") {
			b.WriteString("--")
		}
		return b.String()
	default:
		n := rapid.IntRange(1, 12).Draw(t, label+"_n")
		for i := 0; i < n; i++ {
			if rapid.IntRange(0, 2).Draw(t, label+"_k") == 0 {
				b.WriteByte(Unreserved[rapid.IntRange(0, len(Unreserved)-1).Draw(t, label+"_c")])
			} else {
				b.WriteString(rapid.SampledFrom(WireTokens).Draw(t, label+"_t"))
			}
		}
		return b.String()
	}
}

// ByteTokens: fragments for the arbitrary-bytes domain (function level only).
var ByteTokens = []string{"\r", "\n", "\r\n", "\r\n\r\n", "--", "\r\n--", "\n--", "--\r\n", "&", "=", "%", "+", ";", " ", "\t", "#", "?",
	"\x00", "\x7f", "\x80", "\xff", "\xc3\xa9", "\xc3", "\xe2\x82\xac", "Content-Type: application/json\r\n\r\n",
	"Content-Type: application/x-www-form-urlencoded\r\n\r\n", "%0", "%zz", "a", "b=", "q=x"}

// GenByteQuery draws arbitrary bytes with CR, LF, boundary-like lines, separators, invalid UTF-8.
func GenByteQuery(t *rapid.T, label string) []byte {
	kind := rapid.IntRange(0, 9).Draw(t, label+"_kind")
	var b bytes.Buffer
	switch kind {
	case 0:
		return []byte{}
	case 1:
		n := rapid.IntRange(1, 2).Draw(t, label+"_n")
		for i := 0; i < n; i++ {
			b.WriteByte(rapid.Byte().Draw(t, label+"_c"))
		}
	case 2: // long
		n := rapid.IntRange(300, 2500).Draw(t, label+"_n")
		for b.Len() < n {
			if rapid.IntRange(0, 9).Draw(t, label+"_k") == 0 {
				b.WriteString(rapid.SampledFrom(ByteTokens).Draw(t, label+"_t"))
			} else {
				b.WriteByte(rapid.Byte().Draw(t, label+"_c"))
			}
		}
	case 3: // boundary-like lines
		lead := rapid.SampledFrom([]string{"", "a", "\r\n", "\n", "x\r\n"}).Draw(t, label+"_lead")
		tail := rapid.SampledFrom([]string{"", "--", "\r\n", "--\r\n", "\r\nContent-Type: application/json\r\n\r\n{}"}).Draw(t, label+"_tail")
		b.WriteString(lead + "--" + HexLine(t, label+"_h") + tail)
	default:
		n := rapid.IntRange(1, 10).Draw(t, label+"_n")
		for i := 0; i < n; i++ {
			if rapid.IntRange(0, 2).Draw(t, label+"_k") == 0 {
				b.WriteByte(rapid.Byte().Draw(t, label+"_c"))
			} else {
				b.WriteString(rapid.SampledFrom(ByteTokens).Draw(t, label+"_t"))
			}
		}
	}
	return b.Bytes()
}

// BodyKind classifies generated bodies.
const (
	BodyAbsent = "absent"
	BodyEmpty  = "empty"
	BodyJSON   = "json"
	BodyLines  = "boundary_like_lines"
	BodyBytes  = "arbitrary_bytes"
)

var jsonFragments = []string{`{}`, `{"a":1}`, `{"s":"x"}`, `[]`, `[1,2]`, `"str"`, `{"s":"\r\n--abc\r\n"}`, `{"patch":{"$set":{"f":1}}}`,
	"{\n \"a\": 1\n}", "{\r\n\"a\":1\r\n}", `{"s":"é"}`, `{"elements":[{"a":1},{"a":2}]}`, ` `, "\n", `0`, `null`}

// GenBody draws (present, bytes, kind). withAbsent/withEmpty control whether those classes are produced.
func GenBody(t *rapid.T, label string, withAbsent, withEmpty bool) (present bool, body []byte, kind string) {
	k := rapid.IntRange(0, 9).Draw(t, label+"_kind")
	switch {
	case k == 0 && withAbsent:
		return false, nil, BodyAbsent
	case k == 1 && withEmpty:
		return true, []byte{}, BodyEmpty
	case k <= 4:
		return true, []byte(rapid.SampledFrom(jsonFragments).Draw(t, label+"_json")), BodyJSON
	case k <= 7:
		// JSON-ish text with lines that look like multipart delimiters
		var b bytes.Buffer
		n := rapid.IntRange(1, 4).Draw(t, label+"_n")
		for i := 0; i < n; i++ {
			switch rapid.IntRange(0, 5).Draw(t, label+"_lk") {
			case 0:
				b.WriteString("\r\n--" + HexLine(t, label+"_h") + "\r\n")
			case 1:
				b.WriteString("\r\n--" + HexLine(t, label+"_h") + "--\r\n")
			case 2:
				b.WriteString("\r\n--xyz\r\nContent-Type: application/x-www-form-urlencoded\r\n\r\nq=evil\r\n--xyz--\r\n")
			case 3:
				b.WriteString("--" + HexLine(t, label+"_h"))
			case 4:
				b.WriteString("\n--" + HexLine(t, label+"_h") + "\n")
			default:
				b.WriteString(rapid.SampledFrom(jsonFragments).Draw(t, label+"_json"))
			}
		}
		return true, b.Bytes(), BodyLines
	default:
		n := rapid.IntRange(1, 40).Draw(t, label+"_n")
		var b bytes.Buffer
		for i := 0; i < n; i++ {
			if rapid.IntRange(0, 3).Draw(t, label+"_k") == 0 {
				b.WriteString(rapid.SampledFrom(ByteTokens).Draw(t, label+"_t"))
			} else {
				b.WriteByte(rapid.Byte().Draw(t, label+"_c"))
			}
		}
		return true, b.Bytes(), BodyBytes
	}
}

// QueryLabels classifies a query for the label histogram.
func QueryLabels(qs string) []string {
	var l []string
	switch {
	case len(qs) == 0:
		l = append(l, "query_empty")
	case len(qs) == 1:
		l = append(l, "query_len1")
	case len(qs) == 2:
		l = append(l, "query_len2")
	case len(qs) >= 1024:
		l = append(l, "query_len>=1KiB")
	case len(qs) >= 200:
		l = append(l, "query_len>=200")
	}
	if strings.ContainsAny(qs, "\r\n") {
		l = append(l, "query_has_CR_or_LF")
	}
	if strings.ContainsAny(qs, "&=%+;") {
		l = append(l, "query_has_&=%+;")
	}
	if strings.Contains(qs, "--") {
		l = append(l, "query_has_boundary_like_text")
	}
	for i := 0; i < len(qs); i++ {
		if qs[i] >= 0x80 || qs[i] == 0 {
			l = append(l, "query_has_non_ascii_or_NUL")
			break
		}
	}
	return l
}

// ThresholdLabel classifies a threshold relative to the query length.
func ThresholdLabel(threshold, n int) string {
	switch {
	case threshold < 0:
		return "threshold<0"
	case threshold == 0:
		return "threshold=0"
	case threshold == n-1:
		return "threshold=len-1"
	case threshold == n:
		return "threshold=len"
	case threshold == n+1:
		return "threshold=len+1"
	case threshold < n:
		return "threshold<len-1"
	default:
		return "threshold>len+1"
	}
}

// Thresholds is the set the property quantifies over, relative to a query length, plus a negative and a large one.
func Thresholds(n int) []int {
	return []int{0, 1, n - 1, n, n + 1, -1, 2, 1 << 20}
}
