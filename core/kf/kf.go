// Package kf reads /verif/known_findings.json (read-only at run time). A harness consults Open(id)
// before it classifies a failing case as a known finding: only entries whose status is "open"
// suppress anything, and only for cases matching the signature predicate compiled into the harness.
package kf

import (
	"encoding/json"
	"os"
	"sync"
)

type Finding struct {
	ID       string `json:"id"`
	Property string `json:"property"`
	Status   string `json:"status"` // open | fixed
	What     string `json:"what"`
	Commit   string `json:"commit,omitempty"`
}

type file struct {
	Findings []Finding `json:"findings"`
}

var (
	once sync.Once
	all  map[string]Finding
)

func load() {
	all = map[string]Finding{}
	p := os.Getenv("VERIF_KF")
	if p == "" {
		p = "/verif/known_findings.json"
	}
	b, err := os.ReadFile(p)
	if err != nil {
		return
	}
	var f file
	if json.Unmarshal(b, &f) != nil {
		return
	}
	for _, x := range f.Findings {
		all[x.ID] = x
	}
}

// Open reports whether the finding is listed with status "open".
func Open(id string) bool {
	once.Do(load)
	f, ok := all[id]
	return ok && f.Status == "open"
}

func What(id string) string {
	once.Do(load)
	return all[id].What
}
