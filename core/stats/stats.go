// Package stats is the evidence side of every check: case counting, classification labels,
// distinct-nontrivial counting, a deterministic sample reservoir, known-finding hits, violations
// and replay files. A test binary creates one Recorder per property and flushes it from TestMain;
// the ./check driver merges the per-shard files into evidence/<id>.json.
package stats

import (
	"encoding/binary"
	"encoding/json"
	"fmt"
	"hash/fnv"
	"os"
	"path/filepath"
	"sort"
	"strconv"
	"strings"
	"sync"
)

type Violation struct {
	Message string `json:"message"`
	Replay  string `json:"replay"`
}

type KnownHit struct {
	ID    string `json:"id"`
	What  string `json:"what"`
	Count int    `json:"count"`
	First any    `json:"first,omitempty"`
}

type Out struct {
	Property    string           `json:"property"`
	Shard       int              `json:"shard"`
	Seed        int64            `json:"seed"`
	Evaluations int64            `json:"evaluations"`
	NonTrivial  int64            `json:"nontrivial_evaluations"`
	Distinct    int              `json:"distinct_nontrivial"`
	Labels      map[string]int64 `json:"labels"`
	Samples     []any            `json:"samples"`
	Exhaustive  map[string]int64 `json:"exhaustive,omitempty"`
	Known       []*KnownHit      `json:"known"`
	Violations  []Violation      `json:"violations"`
	Notes       []string         `json:"notes,omitempty"`
}

type Recorder struct {
	mu        sync.Mutex
	prop      string
	out       Out
	hashes    map[uint64]struct{}
	known     map[string]*KnownHit
	sampleCap int
	perLabel  map[string]int
	nviol     int
}

var (
	regMu sync.Mutex
	reg   = map[string]*Recorder{}
)

// For returns the process-wide recorder of a property.
func For(prop string) *Recorder {
	regMu.Lock()
	defer regMu.Unlock()
	if r, ok := reg[prop]; ok {
		return r
	}
	r := &Recorder{prop: prop, hashes: map[uint64]struct{}{}, known: map[string]*KnownHit{}, sampleCap: 24, perLabel: map[string]int{}}
	r.out.Property = prop
	r.out.Labels = map[string]int64{}
	r.out.Exhaustive = map[string]int64{}
	r.out.Seed = Seed()
	r.out.Shard, _ = strconv.Atoi(os.Getenv("VERIF_SHARD"))
	for _, a := range os.Args {
		if strings.HasPrefix(a, "-test.fuzzworker") {
			// native fuzzing runs the fuzz function in worker processes: one stats / replay file per worker
			r.out.Shard = r.out.Shard*1000000 + os.Getpid()%1000000
		}
	}
	reg[prop] = r
	return r
}

// Seed is the seed this process was given (never 0).
func Seed() int64 {
	s, _ := strconv.ParseInt(os.Getenv("VERIF_SEED_EFFECTIVE"), 10, 64)
	if s == 0 {
		s = 1
	}
	return s
}

func Tier() string {
	if t := os.Getenv("VERIF_TIER"); t != "" {
		return t
	}
	return "quick"
}

func Thorough() bool { return Tier() == "thorough" }

// Scale returns q in the quick tier and th in the thorough tier, multiplied by VERIF_SCALE (float) if set.
func Scale(q, th int) int {
	n := q
	if Thorough() {
		n = th
	}
	if s := os.Getenv("VERIF_SCALE"); s != "" {
		if f, err := strconv.ParseFloat(s, 64); err == nil && f > 0 {
			n = int(float64(n) * f)
			if n < 1 {
				n = 1
			}
		}
	}
	return n
}

// Case counts one evaluated case and its classification labels.
func (r *Recorder) Case(labels ...string) {
	r.mu.Lock()
	r.out.Evaluations++
	for _, l := range labels {
		r.out.Labels[l]++
	}
	r.mu.Unlock()
}

func (r *Recorder) Label(l string, n int64) {
	r.mu.Lock()
	r.out.Labels[l] += n
	r.mu.Unlock()
}

// NonTrivial records that the current case is non-trivial by the property's rule. key is the
// canonical form used for distinct counting; sample (may be nil) is a candidate for the reservoir,
// kept for the first few occurrences of each class.
func (r *Recorder) NonTrivial(class, key string, sample func() any) {
	h := fnv.New64a()
	h.Write([]byte(key))
	k := h.Sum64()
	r.mu.Lock()
	r.out.NonTrivial++
	_, seen := r.hashes[k]
	if !seen {
		r.hashes[k] = struct{}{}
		if sample != nil && r.perLabel[class] < 2 && len(r.out.Samples) < r.sampleCap {
			r.perLabel[class]++
			r.mu.Unlock()
			s := sample()
			r.mu.Lock()
			r.out.Samples = append(r.out.Samples, map[string]any{"class": class, "case": s})
		}
	}
	r.mu.Unlock()
}

func (r *Recorder) Exhaustive(space string, n int64) {
	r.mu.Lock()
	r.out.Exhaustive[space] += n
	r.mu.Unlock()
}

func (r *Recorder) Note(format string, a ...any) {
	r.mu.Lock()
	r.out.Notes = append(r.out.Notes, fmt.Sprintf(format, a...))
	r.mu.Unlock()
}

// Known records a hit of an open known finding.
func (r *Recorder) Known(id, what string, first any) {
	r.mu.Lock()
	defer r.mu.Unlock()
	k, ok := r.known[id]
	if !ok {
		k = &KnownHit{ID: id, What: what, First: first}
		r.known[id] = k
	}
	k.Count++
}

// Violation writes a replay file and records the violation. Returns the replay path. The file name
// is stable per (property, name) so that shrinking overwrites earlier, larger reproductions.
func (r *Recorder) Violation(name, msg string, replay any) string {
	dir := os.Getenv("VERIF_REPLAY_DIR")
	if dir == "" {
		dir = "replays"
	}
	_ = os.MkdirAll(dir, 0o755)
	p := filepath.Join(dir, fmt.Sprintf("%s-%s-seed%d-shard%d.json", r.prop, name, r.out.Seed, r.out.Shard))
	doc := map[string]any{"property": r.prop, "check": name, "job": os.Getenv("VERIF_JOB"), "gen": os.Getenv("VERIF_GEN"), "message": msg, "seed": r.out.Seed, "case": replay}
	b, err := json.MarshalIndent(doc, "", " ")
	if err != nil {
		b, _ = json.Marshal(map[string]any{"property": r.prop, "check": name, "message": msg, "marshal_error": err.Error(), "case": fmt.Sprintf("%+v", replay)})
	}
	_ = os.WriteFile(p, b, 0o644)
	r.mu.Lock()
	defer r.mu.Unlock()
	// crash-safe side channel: the driver also reads this file, so a violation survives a process
	// that dies before FlushAll
	if sd := os.Getenv("VERIF_STATS_DIR"); sd != "" {
		_ = os.MkdirAll(sd, 0o755)
		if f, err := os.OpenFile(filepath.Join(sd, fmt.Sprintf("%s.%d.viol", r.prop, r.out.Shard)), os.O_CREATE|os.O_APPEND|os.O_WRONLY, 0o644); err == nil {
			line, _ := json.Marshal(Violation{Message: msg, Replay: p})
			_, _ = f.Write(append(line, '\n'))
			_ = f.Close()
		}
	}
	for i := range r.out.Violations {
		if r.out.Violations[i].Replay == p {
			r.out.Violations[i].Message = msg
			return p
		}
	}
	if len(r.out.Violations) < 50 {
		r.out.Violations = append(r.out.Violations, Violation{Message: msg, Replay: p})
	}
	r.nviol++
	return p
}

func (r *Recorder) Violations() int {
	r.mu.Lock()
	defer r.mu.Unlock()
	return len(r.out.Violations)
}

// FlushAll writes every recorder to $VERIF_STATS_DIR/<prop>.<shard>.json plus a .hashes side file.
func FlushAll() {
	dir := os.Getenv("VERIF_STATS_DIR")
	if dir == "" {
		return
	}
	_ = os.MkdirAll(dir, 0o755)
	regMu.Lock()
	defer regMu.Unlock()
	for _, r := range reg {
		r.mu.Lock()
		r.out.Distinct = len(r.hashes)
		r.out.Known = r.out.Known[:0]
		ids := make([]string, 0, len(r.known))
		for id := range r.known {
			ids = append(ids, id)
		}
		sort.Strings(ids)
		for _, id := range ids {
			r.out.Known = append(r.out.Known, r.known[id])
		}
		base := filepath.Join(dir, fmt.Sprintf("%s.%d", r.prop, r.out.Shard))
		b, err := json.Marshal(&r.out)
		if err != nil {
			r.out.Samples = []any{fmt.Sprintf("%+v", r.out.Samples)}
			b, _ = json.Marshal(&r.out)
		}
		_ = os.WriteFile(base+".json", b, 0o644)
		hb := make([]byte, 0, 8*len(r.hashes))
		for h := range r.hashes {
			hb = binary.LittleEndian.AppendUint64(hb, h)
		}
		_ = os.WriteFile(base+".hashes", hb, 0o644)
		r.mu.Unlock()
	}
}
