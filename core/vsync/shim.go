package vsync

import "sync"

// The shim types mirror the API of package sync (go1.23). Every method first passes a scheduling
// point and then executes atomically (the calling thread holds the controller's token). Panic
// messages of misuse that package sync itself detects are reproduced with the "sync: " prefix, so
// they count as failures of the code under test, not of the harness.

// A Locker represents an object that can be locked and unlocked.
type Locker interface {
	Lock()
	Unlock()
}

// ---------------------------------------------------------------------------------------------- Map

// Map is the scheduling-point version of sync.Map. The zero value is empty and ready for use.
// Iteration order (Range) is insertion order, so runs are deterministic.
type Map struct {
	mu   sync.Mutex // only guards uncontrolled use; never contended inside a controlled run
	m    map[any]*entry
	keys []any // insertion order, may contain deleted keys
}

type entry struct {
	v       any
	present bool
}

func (m *Map) get(key any) (*entry, bool) {
	e, ok := m.m[key]
	if !ok || !e.present {
		return nil, false
	}
	return e, true
}

func (m *Map) put(key, value any) {
	if m.m == nil {
		m.m = map[any]*entry{}
	}
	if e, ok := m.m[key]; ok {
		if !e.present {
			m.keys = append(m.keys, key)
		}
		e.v, e.present = value, true
		return
	}
	m.m[key] = &entry{value, true}
	m.keys = append(m.keys, key)
}

func (m *Map) del(key any) {
	if e, ok := m.m[key]; ok && e.present {
		e.present, e.v = false, nil
		for i, k := range m.keys {
			if k == key {
				m.keys = append(m.keys[:i:i], m.keys[i+1:]...)
				break
			}
		}
	}
}

func (m *Map) Load(key any) (value any, ok bool) {
	point("Map.Load", nil)
	m.mu.Lock()
	defer m.mu.Unlock()
	if e, ok := m.get(key); ok {
		return e.v, true
	}
	return nil, false
}

func (m *Map) Store(key, value any) {
	point("Map.Store", nil)
	m.mu.Lock()
	defer m.mu.Unlock()
	m.put(key, value)
}

func (m *Map) LoadOrStore(key, value any) (actual any, loaded bool) {
	point("Map.LoadOrStore", nil)
	m.mu.Lock()
	defer m.mu.Unlock()
	if e, ok := m.get(key); ok {
		return e.v, true
	}
	m.put(key, value)
	return value, false
}

func (m *Map) LoadAndDelete(key any) (value any, loaded bool) {
	point("Map.LoadAndDelete", nil)
	m.mu.Lock()
	defer m.mu.Unlock()
	if e, ok := m.get(key); ok {
		v := e.v
		m.del(key)
		return v, true
	}
	return nil, false
}

func (m *Map) Delete(key any) {
	point("Map.Delete", nil)
	m.mu.Lock()
	defer m.mu.Unlock()
	m.del(key)
}

func (m *Map) Swap(key, value any) (previous any, loaded bool) {
	point("Map.Swap", nil)
	m.mu.Lock()
	defer m.mu.Unlock()
	if e, ok := m.get(key); ok {
		previous, loaded = e.v, true
	}
	m.put(key, value)
	return
}

func (m *Map) CompareAndSwap(key, old, new any) (swapped bool) {
	point("Map.CompareAndSwap", nil)
	m.mu.Lock()
	defer m.mu.Unlock()
	if e, ok := m.get(key); ok && e.v == old {
		e.v = new
		return true
	}
	return false
}

func (m *Map) CompareAndDelete(key, old any) (deleted bool) {
	point("Map.CompareAndDelete", nil)
	m.mu.Lock()
	defer m.mu.Unlock()
	if e, ok := m.get(key); ok && e.v == old {
		m.del(key)
		return true
	}
	return false
}

// Range calls f for each key present at the time it is reached, in insertion order. Like sync.Map's
// it is not a snapshot: every callback is preceded by a scheduling point.
func (m *Map) Range(f func(key, value any) bool) {
	point("Map.Range", nil)
	m.mu.Lock()
	keys := append([]any(nil), m.keys...)
	m.mu.Unlock()
	for _, k := range keys {
		point("Map.Range.next", nil)
		m.mu.Lock()
		e, ok := m.get(k)
		var v any
		if ok {
			v = e.v
		}
		m.mu.Unlock()
		if ok && !f(k, v) {
			return
		}
	}
}

func (m *Map) Clear() {
	point("Map.Clear", nil)
	m.mu.Lock()
	defer m.mu.Unlock()
	m.m, m.keys = nil, nil
}

// ---------------------------------------------------------------------------------------- WaitGroup

type WaitGroup struct{ n int }

func (wg *WaitGroup) Add(delta int) {
	point("WaitGroup.Add", nil)
	wg.n += delta
	if wg.n < 0 {
		panic("sync: negative WaitGroup counter")
	}
}

func (wg *WaitGroup) Done() {
	point("WaitGroup.Done", nil)
	wg.n--
	if wg.n < 0 {
		panic("sync: negative WaitGroup counter")
	}
}

// Wait parks the calling thread until the counter is zero.
func (wg *WaitGroup) Wait() {
	point("WaitGroup.Wait", func() bool { return wg.n == 0 })
}

// -------------------------------------------------------------------------------------------- Mutex

type Mutex struct{ locked bool }

func (m *Mutex) Lock() {
	point("Mutex.Lock", func() bool { return !m.locked })
	m.locked = true
}

func (m *Mutex) TryLock() bool {
	point("Mutex.TryLock", nil)
	if m.locked {
		return false
	}
	m.locked = true
	return true
}

func (m *Mutex) Unlock() {
	point("Mutex.Unlock", nil)
	if !m.locked {
		panic("sync: unlock of unlocked mutex")
	}
	m.locked = false
}

// ------------------------------------------------------------------------------------------ RWMutex

// RWMutex: a pending writer does not hold back new readers here (package sync's does); the shim
// therefore admits a superset of the real schedules for code that read-locks recursively.
type RWMutex struct {
	w bool
	r int
}

func (m *RWMutex) Lock() {
	point("RWMutex.Lock", func() bool { return !m.w && m.r == 0 })
	m.w = true
}

func (m *RWMutex) TryLock() bool {
	point("RWMutex.TryLock", nil)
	if m.w || m.r != 0 {
		return false
	}
	m.w = true
	return true
}

func (m *RWMutex) Unlock() {
	point("RWMutex.Unlock", nil)
	if !m.w {
		panic("sync: Unlock of unlocked RWMutex")
	}
	m.w = false
}

func (m *RWMutex) RLock() {
	point("RWMutex.RLock", func() bool { return !m.w })
	m.r++
}

func (m *RWMutex) TryRLock() bool {
	point("RWMutex.TryRLock", nil)
	if m.w {
		return false
	}
	m.r++
	return true
}

func (m *RWMutex) RUnlock() {
	point("RWMutex.RUnlock", nil)
	if m.r <= 0 {
		panic("sync: RUnlock of unlocked RWMutex")
	}
	m.r--
}

type rlocker RWMutex

func (r *rlocker) Lock()   { (*RWMutex)(r).RLock() }
func (r *rlocker) Unlock() { (*RWMutex)(r).RUnlock() }

func (m *RWMutex) RLocker() Locker { return (*rlocker)(m) }

// --------------------------------------------------------------------------------------------- Once

type Once struct{ done, running bool }

// Do: callers arriving while f runs are parked until it has returned, as with sync.Once.
func (o *Once) Do(f func()) {
	point("Once.Do", func() bool { return !o.running })
	if o.done {
		return
	}
	o.running = true
	defer func() { o.done, o.running = true, false }()
	f()
}

// --------------------------------------------------------------------------------------------- Cond

type Cond struct {
	L       Locker
	waiters []*condWaiter
}

type condWaiter struct{ signaled bool }

func NewCond(l Locker) *Cond { return &Cond{L: l} }

func (c *Cond) Wait() {
	point("Cond.Wait", nil)
	w := &condWaiter{}
	c.waiters = append(c.waiters, w)
	c.L.Unlock()
	point("Cond.Wait.park", func() bool { return w.signaled })
	c.L.Lock()
}

func (c *Cond) Signal() {
	point("Cond.Signal", nil)
	if len(c.waiters) > 0 {
		c.waiters[0].signaled = true
		c.waiters = c.waiters[1:]
	}
}

func (c *Cond) Broadcast() {
	point("Cond.Broadcast", nil)
	for _, w := range c.waiters {
		w.signaled = true
	}
	c.waiters = nil
}

// --------------------------------------------------------------------------------------------- Pool

// Pool never retains anything (a legal behaviour of sync.Pool) and is not a scheduling point.
type Pool struct{ New func() any }

func (p *Pool) Get() any {
	if p.New != nil {
		return p.New()
	}
	return nil
}

func (p *Pool) Put(any) {}

// OnceFunc / OnceValue are thin wrappers over Once.
func OnceFunc(f func()) func() {
	var o Once
	return func() { o.Do(f) }
}

func OnceValue[T any](f func() T) func() T {
	var o Once
	var v T
	return func() T { o.Do(func() { v = f() }); return v }
}
