// Package vsync is a drop-in replacement for the parts of package sync that a small concurrent data
// structure uses (Map, WaitGroup, Mutex, RWMutex, Once, Cond, Pool, Locker) in which every operation
// is a scheduling point owned by a cooperative controller (C18).
//
// Model: a controlled run (Run) owns N logical threads. Exactly one of them executes at any time.
// Before each shim operation the running thread yields to the controller ("scheduling point"); the
// controller asks a Chooser which runnable thread goes next and hands it the token; the thread then
// executes that one operation atomically and continues up to its next scheduling point. Blocking
// operations (WaitGroup.Wait, Mutex.Lock, ...) yield with a readiness predicate; a thread whose
// predicate is false is parked, i.e. not offered to the Chooser. If no thread is runnable while some
// thread is unfinished the run ends with Result.Deadlock (the parked goroutines are unwound with
// runtime.Goexit, nothing hangs and nothing leaks). No wall clock takes part in any decision; a
// watchdog only turns a run that makes no scheduling progress for a minute (code under test blocking
// on something that is not a shim primitive) into a process panic, i.e. an infrastructure error.
//
// A run is deterministic given the Chooser's answers, as long as the thread bodies are: the same
// choice sequence reproduces the same execution, which is what stateless exploration (Explore) and
// replay rely on.
//
// State: all scheduling state lives in the controller created by Run and dies with it. The only
// package-level state is the pointer to the controller of the run in progress (the shim types must
// be usable as zero values, exactly like their sync counterparts, so they cannot carry it) and the
// watchdog's progress counter. Consequently at most one Run is in progress per process at a time
// (enforced); separate processes are independent.
//
// Outside a controlled run the shim types behave as plain single-goroutine-at-a-time objects whose
// blocking operations panic instead of blocking.
//
// Limitations (stated, not hidden): goroutines started by the code under test itself are not owned
// by the controller; operations of sync/atomic are not scheduling points.
package vsync

import (
	"fmt"
	"runtime"
	"runtime/debug"
	"sync"
	"sync/atomic"
	"time"
)

// Chooser picks the thread to run next. runnable holds the indices of the runnable threads in
// ascending order (never empty); the result is an index into runnable.
type Chooser func(runnable []int) int

// Step is one scheduling decision: thread Thread was resumed and executed operation Op.
type Step struct {
	Thread int    `json:"t"`
	Op     string `json:"op"`
}

type ThreadPanic struct {
	Thread int    `json:"thread"`
	Op     string `json:"last_op"`
	Value  string `json:"value"`
	Stack  string `json:"stack,omitempty"`
}

type Parked struct {
	Thread int    `json:"thread"`
	Op     string `json:"op"`
}

// Result describes one controlled run.
type Result struct {
	Trace     []Step        // the decisions, in order
	Choices   []int         // the index into the runnable set picked at each decision
	Blocked   int           // number of decisions at which at least one unfinished thread was parked
	Deadlock  bool          // no runnable thread while some thread was unfinished
	Parked    []Parked      // on deadlock: who was parked on what
	StepLimit bool          // Options.MaxSteps decisions were made and threads were still unfinished
	Panics    []ThreadPanic // panics raised by thread bodies (code under test), not by misuse of vsync
}

// Misuse is the panic value for violations of this package's own contract (harness bugs).
type Misuse struct{ Msg string }

func (m Misuse) Error() string { return m.Msg }

type Options struct {
	MaxSteps int // 0 = 100000
}

type msg uint8

const (
	msgRun msg = iota
	msgAbort
)

type thread struct {
	id      int
	wake    chan msg
	ready   func() bool // nil: runnable; else runnable iff it returns true
	pending string      // operation it will execute when resumed
	done    bool
	hook    func()
	panicV  any
	stack   []byte
}

type controller struct {
	threads  []*thread
	back     chan struct{}
	cur      *thread
	aborting bool
}

var (
	active   atomic.Pointer[controller]
	progress atomic.Uint64
	wdOnce   sync.Once
)

// Controlled reports whether a controlled run is in progress in this process.
func Controlled() bool { return active.Load() != nil }

func startWatchdog() {
	go func() {
		var last uint64
		var lastC *controller
		stale := 0
		for {
			time.Sleep(5 * time.Second)
			c, p := active.Load(), progress.Load()
			if c != nil && c == lastC && p == last {
				stale++
				if stale >= 12 {
					buf := make([]byte, 1<<20)
					buf = buf[:runtime.Stack(buf, true)]
					panic(fmt.Sprintf("vsync: watchdog: no scheduling progress for 60s (code under test blocks on something that is not a vsync primitive?)\n%s", buf))
				}
			} else {
				stale = 0
			}
			last, lastC = p, c
		}
	}()
}

// Run executes the thread bodies under the controller until all have finished, a deadlock is found
// or the step limit is hit. It must not be called concurrently or recursively in one process.
//
// Before the first decision every thread is run, in index order, up to its first scheduling point;
// bodies must not do anything visible to other threads before their first shim operation.
func Run(bodies []func(), choose Chooser, opt Options) *Result {
	wdOnce.Do(startWatchdog)
	if opt.MaxSteps <= 0 {
		opt.MaxSteps = 100000
	}
	c := &controller{back: make(chan struct{})}
	if !active.CompareAndSwap(nil, c) {
		panic(Misuse{"vsync: Run while another controlled run is in progress in this process"})
	}
	defer active.Store(nil)
	res := &Result{}
	for i, b := range bodies {
		t := &thread{id: i, wake: make(chan msg), pending: "start"}
		c.threads = append(c.threads, t)
		go func(t *thread, body func()) {
			defer func() {
				if r := recover(); r != nil {
					t.panicV, t.stack = r, debug.Stack()
				}
				t.done = true
				c.back <- struct{}{}
			}()
			if <-t.wake == msgAbort {
				return
			}
			body()
		}(t, b)
	}
	for _, t := range c.threads {
		c.resume(t, msgRun)
	}
	runnable := make([]int, 0, len(c.threads))
	for {
		runnable = runnable[:0]
		unfinished := 0
		for _, t := range c.threads {
			if t.done {
				continue
			}
			unfinished++
			if t.ready == nil || t.ready() {
				runnable = append(runnable, t.id)
			}
		}
		if unfinished == 0 {
			break
		}
		if len(runnable) == 0 {
			res.Deadlock = true
			for _, t := range c.threads {
				if !t.done {
					res.Parked = append(res.Parked, Parked{t.id, t.pending})
				}
			}
			c.abort()
			break
		}
		if len(res.Trace) >= opt.MaxSteps {
			res.StepLimit = true
			c.abort()
			break
		}
		if len(runnable) < unfinished {
			res.Blocked++
		}
		k := choose(runnable)
		if k < 0 || k >= len(runnable) {
			c.abort()
			panic(Misuse{fmt.Sprintf("vsync: chooser returned %d for %d runnable threads", k, len(runnable))})
		}
		t := c.threads[runnable[k]]
		res.Trace = append(res.Trace, Step{t.id, t.pending})
		res.Choices = append(res.Choices, k)
		progress.Add(1)
		c.resume(t, msgRun)
	}
	for _, t := range c.threads {
		if t.panicV == nil {
			continue
		}
		if m, ok := t.panicV.(Misuse); ok {
			panic(Misuse{fmt.Sprintf("%s (thread %d)\n%s", m.Msg, t.id, t.stack)})
		}
		res.Panics = append(res.Panics, ThreadPanic{t.id, t.pending, fmt.Sprint(t.panicV), string(t.stack)})
	}
	return res
}

func (c *controller) resume(t *thread, m msg) {
	c.cur = t
	t.wake <- m
	<-c.back
	c.cur = nil
}

// abort unwinds every unfinished thread (Goexit at its scheduling point, deferred calls run with
// scheduling switched off).
func (c *controller) abort() {
	c.aborting = true
	for _, t := range c.threads {
		if !t.done {
			c.resume(t, msgAbort)
		}
	}
}

// point is the scheduling point in front of every shim operation. ready == nil: the operation never
// blocks.
func point(op string, ready func() bool) {
	c := active.Load()
	if c == nil {
		if ready != nil && !ready() {
			panic(Misuse{"vsync: " + op + " would block forever outside a controlled run"})
		}
		return
	}
	if c.aborting {
		return
	}
	t := c.cur
	if t == nil {
		panic(Misuse{"vsync: " + op + " called from the controller's own goroutine during a run"})
	}
	t.pending, t.ready = op, ready
	c.back <- struct{}{}
	if <-t.wake == msgAbort {
		runtime.Goexit()
	}
	t.ready = nil
	if h := t.hook; h != nil {
		t.hook = nil
		h()
	}
}

// Point is a scheduling point for harness code (e.g. the start of a callback the code under test
// invokes).
func Point(op string) { point(op, nil) }

// OnNextResume registers f to run on the calling thread right after it is resumed at its next
// scheduling point, immediately before that operation executes (same atomic step). The harness uses
// it to timestamp the call event of an operation at the moment its first shim operation executes,
// which is the latest sound moment and therefore gives the strictest real-time order.
func OnNextResume(f func()) {
	c := active.Load()
	if c == nil || c.cur == nil {
		panic(Misuse{"vsync: OnNextResume outside a controlled thread"})
	}
	c.cur.hook = f
}

// FlushResumeHook runs the hook registered with OnNextResume now if it has not run yet (the
// operation had no scheduling point at all).
func FlushResumeHook() {
	c := active.Load()
	if c == nil || c.cur == nil {
		return
	}
	if h := c.cur.hook; h != nil {
		c.cur.hook = nil
		h()
	}
}

// ----------------------------------------------------------------------------------------------
// Stateless exhaustive exploration.

// Explore runs exec once per schedule, depth first over every choice at every decision, until all
// schedules have been executed or visit returns false. exec must perform one controlled run from
// scratch with the given chooser and must be deterministic given the chooser's answers. It returns
// the number of schedules executed. A prefix that does not reproduce (different number of runnable
// threads at a replayed decision) is a harness error and panics.
func Explore(exec func(choose Chooser) bool) (schedules int64) {
	type frame struct{ n, i int }
	var stack []frame
	for {
		depth := 0
		choose := func(runnable []int) int {
			if depth < len(stack) {
				f := stack[depth]
				if f.n != len(runnable) {
					panic(Misuse{fmt.Sprintf("vsync: nondeterministic replay: decision %d had %d runnable threads, now %d", depth, f.n, len(runnable))})
				}
				depth++
				return f.i
			}
			stack = append(stack, frame{len(runnable), 0})
			depth++
			return 0
		}
		cont := exec(choose)
		schedules++
		if depth < len(stack) {
			panic(Misuse{fmt.Sprintf("vsync: nondeterministic replay: run ended after %d decisions, prefix has %d", depth, len(stack))})
		}
		if !cont {
			return
		}
		for len(stack) > 0 && stack[len(stack)-1].i+1 >= stack[len(stack)-1].n {
			stack = stack[:len(stack)-1]
		}
		if len(stack) == 0 {
			return
		}
		stack[len(stack)-1].i++
	}
}

// FromList is the Chooser for an explicit schedule: decision i picks runnable[list[i] mod
// len(runnable)]; decisions beyond the list pick the lowest runnable thread.
func FromList(list []int) Chooser {
	i := 0
	return func(runnable []int) int {
		k := 0
		if i < len(list) {
			k = list[i] % len(runnable)
			if k < 0 {
				k += len(runnable)
			}
		}
		i++
		return k
	}
}
