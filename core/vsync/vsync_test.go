package vsync

import (
	"fmt"
	"testing"
)

func binom(n, k int) int64 {
	r := int64(1)
	for i := 1; i <= k; i++ {
		r = r * int64(n-k+i) / int64(i)
	}
	return r
}

// Explore must execute every interleaving exactly once: threads with a and b non-blocking
// scheduling points have C(a+b, a) schedules; three threads a multinomial number.
func TestExploreCountsAllInterleavings(t *testing.T) {
	for _, tc := range []struct {
		pts  []int
		want int64
	}{
		{[]int{1, 1}, 2}, {[]int{3, 3}, binom(6, 3)}, {[]int{5, 2}, binom(7, 2)}, {[]int{6, 6}, binom(12, 6)},
		{[]int{2, 2, 2}, binom(6, 2) * binom(4, 2)}, {[]int{4, 3, 3}, binom(10, 4) * binom(6, 3)},
	} {
		seen := map[string]bool{}
		n := Explore(func(choose Chooser) bool {
			var m Map
			bodies := make([]func(), len(tc.pts))
			for i, p := range tc.pts {
				i, p := i, p
				bodies[i] = func() {
					for j := 0; j < p; j++ {
						m.Store(i, j)
					}
				}
			}
			r := Run(bodies, choose, Options{})
			key := ""
			for _, s := range r.Trace {
				key += fmt.Sprint(s.Thread)
			}
			if seen[key] {
				t.Fatalf("schedule %s executed twice", key)
			}
			seen[key] = true
			return true
		})
		if n != tc.want || int64(len(seen)) != tc.want {
			t.Errorf("points %v: %d schedules (%d distinct), want %d", tc.pts, n, len(seen), tc.want)
		}
	}
}

func TestWaitParksAndDeadlockIsReported(t *testing.T) {
	// waiter + signaller: the waiter is never offered while the counter is non-zero
	var wg WaitGroup
	order := ""
	wg.Add(1) // uncontrolled use: plain operation
	r := Run([]func(){
		func() { wg.Wait(); order += "w" },
		func() { Point("work"); order += "s"; wg.Done() },
	}, func(run []int) int { return 0 }, Options{})
	if r.Deadlock || order != "sw" || r.Blocked == 0 {
		t.Fatalf("deadlock=%v order=%q blocked=%d trace=%v", r.Deadlock, order, r.Blocked, r.Trace)
	}
	// nobody signals: reported, not hung; deferred calls of the parked thread still run
	var wg2 WaitGroup
	wg2.Add(1)
	deferred := false
	r = Run([]func(){func() { defer func() { deferred = true }(); wg2.Wait() }}, func([]int) int { return 0 }, Options{})
	if !r.Deadlock || len(r.Parked) != 1 || r.Parked[0].Op != "WaitGroup.Wait" || !deferred {
		t.Fatalf("%+v deferred=%v", r, deferred)
	}
	if Controlled() {
		t.Fatal("controller leaked")
	}
}

func TestMutexOnceAndPanics(t *testing.T) {
	// a mutex-protected counter is race free under every schedule; Once runs once
	n := Explore(func(choose Chooser) bool {
		var mu Mutex
		var once Once
		cnt, inits := 0, 0
		body := func() {
			once.Do(func() { Point("init"); inits++ })
			mu.Lock()
			v := cnt
			Point("between")
			cnt = v + 1
			mu.Unlock()
		}
		r := Run([]func(){body, body}, choose, Options{})
		if r.Deadlock || cnt != 2 || inits != 1 {
			t.Fatalf("deadlock=%v cnt=%d inits=%d trace=%v", r.Deadlock, cnt, inits, r.Trace)
		}
		return true
	})
	if n < 10 {
		t.Fatalf("only %d schedules", n)
	}
	// a panic of the code under test is captured per thread, the other thread still finishes
	var wg WaitGroup
	r := Run([]func(){func() { wg.Done() }, func() { Point("x") }}, func([]int) int { return 0 }, Options{})
	if len(r.Panics) != 1 || r.Panics[0].Thread != 0 || r.Panics[0].Value != "sync: negative WaitGroup counter" {
		t.Fatalf("%+v", r.Panics)
	}
}

func TestStepLimitAndFromList(t *testing.T) {
	var m Map
	r := Run([]func(){func() {
		for {
			m.Load(1)
		}
	}}, func([]int) int { return 0 }, Options{MaxSteps: 50})
	if !r.StepLimit || len(r.Trace) != 50 {
		t.Fatalf("%+v", r)
	}
	ch := FromList([]int{5, -1, 1})
	if ch([]int{0, 1, 2}) != 2 || ch([]int{0, 1}) != 1 || ch([]int{0, 1}) != 1 || ch([]int{0, 1}) != 0 {
		t.Fatal("FromList")
	}
}
