// Package hx holds the few helpers every harness test shares: TestMain wiring, replay loading,
// panic capture and canonical JSON.
package hx

import (
	"encoding/json"
	"fmt"
	"os"
	"runtime/debug"
	"strconv"
	"strings"
	"testing"

	"verif/core/stats"
)

// Main is called from each harness package's TestMain.
func Main(m *testing.M) {
	code := m.Run()
	stats.FlushAll()
	os.Exit(code)
}

type replayDoc struct {
	Property string          `json:"property"`
	Check    string          `json:"check"`
	Case     json.RawMessage `json:"case"`
}

// Replay loads the case of a replay file if this process was started with VERIF_REPLAY and the file
// belongs to (property, check).
func Replay[T any](property, check string) (c T, ok bool) {
	p := os.Getenv("VERIF_REPLAY")
	if p == "" {
		return c, false
	}
	b, err := os.ReadFile(p)
	if err != nil {
		panic(fmt.Sprintf("cannot read replay file %s: %v", p, err))
	}
	var d replayDoc
	if err := json.Unmarshal(b, &d); err != nil {
		panic(fmt.Sprintf("replay file %s is not JSON: %v", p, err))
	}
	if d.Property != property || (check != "" && !strings.HasPrefix(d.Check, check)) {
		return c, false
	}
	if err := json.Unmarshal(d.Case, &c); err != nil {
		panic(fmt.Sprintf("replay file %s: case does not decode: %v", p, err))
	}
	return c, true
}

// Replaying reports whether the process is a replay run (tests that are not the replay's target skip).
func Replaying() bool { return os.Getenv("VERIF_REPLAY") != "" }

// Try runs f and converts a panic into (panicked=true, value, stack).
func Try(f func()) (panicked bool, val any, stack string) {
	defer func() {
		if r := recover(); r != nil {
			panicked, val, stack = true, r, string(debug.Stack())
		}
	}()
	f()
	return
}

func J(v any) string {
	b, err := json.Marshal(v)
	if err != nil {
		return fmt.Sprintf("%+v", v)
	}
	return string(b)
}

// Q quotes bytes for messages and JSON-safe sample output.
func Q(s string) string { return strconv.QuoteToASCII(s) }

func Checks(def int) int {
	if v, err := strconv.Atoi(os.Getenv("VERIF_CHECKS")); err == nil && v > 0 {
		return v
	}
	return def
}

func ShardIndex() (i, n int) {
	i, _ = strconv.Atoi(os.Getenv("VERIF_SHARD_INDEX"))
	n, _ = strconv.Atoi(os.Getenv("VERIF_NSHARDS"))
	if n <= 0 {
		n = 1
	}
	return
}

func Gen() string {
	if g := os.Getenv("VERIF_GEN"); g != "" {
		return g
	}
	return "v2"
}

func HasAny(s string, chars string) bool { return strings.ContainsAny(s, chars) }
