#!/usr/bin/env python3
"""Regenerates the seeded-changes table of DESIGN.md (section 5.5) from seeded/*/meta.json."""
import glob, json, os, re
VERIF = os.path.dirname(os.path.dirname(os.path.abspath(__file__)))
rows = []
for f in sorted(glob.glob(os.path.join(VERIF, "seeded", "*", "meta.json"))):
    m = json.load(open(f))
    needs = m.get("needs", "")
    what = m.get("what", "")
    caught = ", ".join(m.get("caught_by") or []) or "**not caught**"
    how = m.get("caught_how", "")
    rows.append("| %s | %s | %s | %s | %s | %s |" % (m["seed"], m["property"], what, needs, "yes" if m.get("confirmed") else "NO", caught + (" - " + how if how else "")))
block = ["### 5.5 Seeded changes (written by sub-agents that saw only the property text; confirmed, then run against the checks)", "",
         "Each change compiles, passes the repository's own suite, and comes with a demonstration that fails with the change and passes without it ",
         "(`seeded/<id>/`: patch.diff, demonstration, notes.md, meta.json with the commands and what every check printed).", "",
         "| seed | property | change | needs, to manifest | confirmed | caught by (quick tier) |", "|---|---|---|---|---|---|"] + rows + [""]
p = os.path.join(VERIF, "DESIGN.md")
s = open(p).read()
s = re.sub(r"<!-- SEEDED-TABLE-BEGIN -->.*<!-- SEEDED-TABLE-END -->", "<!-- SEEDED-TABLE-BEGIN -->\n" + "\n".join(block) + "\n<!-- SEEDED-TABLE-END -->", s, flags=re.S)
open(p, "w").write(s)
print(len(rows), "rows")
