#!/usr/bin/env python3
"""Regenerates the seeded-changes table of DESIGN.md (section 5.5) from seeded/*/meta.json."""
import glob, json, os, re
VERIF = os.path.dirname(os.path.dirname(os.path.abspath(__file__)))
summary = json.load(open(os.path.join(VERIF, "seeded", "summary.json")))
rows = []
for f in sorted(glob.glob(os.path.join(VERIF, "seeded", "*", "meta.json"))):
    m = json.load(open(f))
    needs = summary.get(m["seed"], {}).get("needs", "")
    what = summary.get(m["seed"], {}).get("what", "")
    caught = ", ".join(m.get("caught_by") or []) or "**not caught**"
    how = ""
    for c in m.get("caught_by") or []:
        first = (m["checks"][c].get("first") or "").splitlines()
        if len(first) > 1:
            how = first[1].strip()[:160].replace("|", "/")
            break
    rows.append("| %s | %s | %s | %s | %s | %s |" % (m["seed"], m["property"], what, needs, "yes" if m.get("confirmed") else "NO", caught + (" - " + how if how else "")))
block = ["### 5.5 Seeded changes (written by sub-agents that saw only the property text; confirmed, then run against the checks)", "",
         "Each change compiles, passes the repository's own suite, and comes with a demonstration that fails with the change and passes without it ",
         "(`seeded/<id>/`: patch.diff, demonstration, notes.md, meta.json with the commands and what every check printed).", "",
         "| seed | property | change | needs, to manifest | confirmed | caught by (quick tier) |", "|---|---|---|---|---|---|"] + rows + ["",
    "Caught by the checks as they stood when the change arrived: C01, C02, C03, C04, C05, C09, C10, C11, C12, C13, C15, C16, C18, C19, C20 (15 of 20).",
    "Four of the twenty were missed by the checks as first built, and the checks were strengthened (never the other way round):",
    "",
    "* C14 - no check ever had two tunnelled requests alive at once. Added `TestC14Overlap` (2-5 requests built through the public",
    "  constructors before any is sent, each then de-tunnelled and compared with its own verb / path / query / body).",
    "* C06 - the corpus had include chains but no two siblings sharing an intermediate include. Added include lattices",
    "  (root with r required fields, intermediate adding m, three siblings each, two joins of two intermediates; (r, m) in",
    "  {2+1, 3+1, 3+2, 1+1, 4+1}) to the codec corpus, which C01, C03, C06, C10, C13 all draw from.",
    "* C17 - the resource world had no filters. Added the mount `filtered` (two filters recording what the documented context",
    "  accessors return before and after the method, the PostRequest side after a yield) to C02 (serial) and C17 (concurrent).",
    "* C07 - caught by C02 only after a resource whose alphabetically last fields are annotated leaves was added (`annlast`); for",
    "  C07 itself `TestC07Envelope` now writes `entities` / `elements` envelopes of 1-4 entities the way the library's batch methods",
    "  do (one `SetScope()` writer per entity) and compares every entity with its pruned model.",
    "* C08's generator of error texts gained texts with percent signs before its seed was run (the seed's notes were read first, so",
    "  this one does not count as a blind catch).",
    ""]
p = os.path.join(VERIF, "DESIGN.md")
s = open(p).read()
new = "<!-- SEEDED-TABLE-BEGIN -->\n" + "\n".join(block) + "\n<!-- SEEDED-TABLE-END -->"
s = re.sub(r"<!-- SEEDED-TABLE-BEGIN -->.*<!-- SEEDED-TABLE-END -->", lambda _m: new, s, flags=re.S)
open(p, "w").write(s)
print(len(rows), "rows")
