#!/usr/bin/env python3
"""Regenerates the seeded-changes table of DESIGN.md (section 5.5) from seeded/*/meta.json."""
import glob, json, os, re
VERIF = os.path.dirname(os.path.dirname(os.path.abspath(__file__)))
summary = json.load(open(os.path.join(VERIF, "seeded", "summary.json")))
rows = []
nblind = 0
noutside = 0
for f in sorted(glob.glob(os.path.join(VERIF, "seeded", "*", "meta.json"))):
    m = json.load(open(f))
    sm = summary.get(m["seed"], {})
    caught = ", ".join(m.get("caught_by") or []) or "**not caught**"
    how = ""
    for c in m.get("caught_by") or []:
        first = (m["checks"][c].get("first") or "").splitlines()
        if len(first) > 1:
            how = first[1].strip()[:140].replace("|", "/")
            break
    blind = "as built" if sm.get("blind") else "after strengthening: " + sm.get("strengthening", "")
    if sm.get("strengthening", "").startswith("NOT A VIOLATION"):
        blind, caught = sm["strengthening"], "out of the property's scope"
        noutside += 1
    nblind += 1 if sm.get("blind") else 0
    rows.append("| %s | %s | %s | %s | %s | %s |" % (m["seed"], sm.get("what", ""), sm.get("needs", ""), "yes" if m.get("confirmed") else "NO", caught + (" - " + how if how else ""), blind))
block = ["### 5.5 Seeded changes (written by sub-agents that saw only the property text; confirmed, then run against the checks)", "",
         "Seven rounds (1-3: one change per property; 4, 5 and 6: two per property, `CNNdA`/`CNNeA`/`CNNfA` in v2 and `CNNdB`/`CNNeB`/`CNNfB` in the root module; round 6 came after the clause audit of 5.7; round 7, `CNNgA` (v2) / `CNNgB` (root), is twenty changes (v2 for C01-C05, C07, C09, C11, C13-C17, C19, C20; root for C06, C08, C10, C13, C18); rounds 2-7 were told the",
         "one-line descriptions of the earlier changes and asked for a different mechanism; round 3 had to change the root module only wherever",
         "the property names both generations). Each change",
         "compiles, passes the repository's own suite, and comes with a demonstration that fails with the change and passes without it",
         "(`seeded/<id>/`: patch.diff, demonstration, notes.md, meta.json with the commands and what every check printed). All %d are confirmed; %d is outside its" % (len(rows), noutside),
         "property's scope (a root-module change against the v2-only C09), the other %d are caught by the quick tier of their property's check (C17fB, a change to the lazy map written for C17, by C18's); %d were caught by the checks as they stood when the change arrived, the others only after the" % (len(rows) - noutside, nblind),
         "check was strengthened (last column; a check was never loosened). The misses had these causes: a shape, sequence or configuration the generators did not",
         "reach (sibling includes, overlapping requests, filters, deep trees and deep values, encode-while-filling, a failing marshal or response first, a second",
         "request, colliding unrequested key, only-generated output directory, user directory at a generated path, rich default literals, annotations, short",
         "network reads, lenient client, key order on the wire, cross-namespace includes, failed decodes first, colliding requested keys, byte arrays in untyped values,",
         "wildcard next to named spec entries, whole-record annotations, 16 KiB texts, parameter-only key variants, extended hashes, namespaces sharing a last segment, GOOS-suffixed type",
         "names, 4 KiB+ queries, host named like the root, concurrent registrations; round 5: a client shared by all calls of a configuration, context path ending with the root,",
         "create-only-only and entity-returning resources, unserialisable entities, large batches, bracket keys, broken tunnelled bodies, reused enum receivers,",
         "registration while serving, hashes across processes, optional fields with defaults, prefix-named fields, regeneration into a used directory, dependency manifests;",
         "round 6: a repeated member in a document, batch keys that are equal but encode differently, keys ordered differently by bytes and by UTF-16 units, a custom typeref key with a coarser equality,",
         "one response object handed to overlapping requests; round 7: map keys containing the path separator, failing methods behind filters, values sharing a backing array, null-valued members in patch documents, user symbolic links in the output tree), once a vacuous condition in a check (C10 key-hash law guarded by a predicate that is true for equal values), three times the driver or harness build (a crash in every shard, a job that cannot drive channel operations, and a harness registry naming generated",
         "identifiers the changed generator no longer emits, were reported as inconclusive instead of a verdict), and twice a check that looked in the wrong place",
         "(C03 envelope returned early on a failing call; C08 checked the status of the second probe only). In round 7 the first strengthening of C08 and C10 did not take: C08's oracle",
         "kept using the unfiltered server although the case named the filtered one, and C10's aliasing helper expected a pointer where the harness holds a struct value; the re-run against the seeded change showed both (a",
         "strengthening counts only after the change it was written for is reported).", "",
         "| seed | change | needs, to manifest | confirmed | caught by (quick tier) | caught |", "|---|---|---|---|---|---|"] + rows + [""]
p = os.path.join(VERIF, "DESIGN.md")
s = open(p).read()
new = "<!-- SEEDED-TABLE-BEGIN -->\n" + "\n".join(block) + "\n<!-- SEEDED-TABLE-END -->"
s = re.sub(r"<!-- SEEDED-TABLE-BEGIN -->.*<!-- SEEDED-TABLE-END -->", lambda _m: new, s, flags=re.S)
open(p, "w").write(s)
print(len(rows), "rows")
