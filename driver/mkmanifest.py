#!/usr/bin/env python3
"""Regenerates /verif/MANIFEST.json from the property table (driver/proptable.py) and driver/na.json."""
import json, os, sys
sys.path.insert(0, os.path.dirname(os.path.abspath(__file__)))
import props

VERIF = props.VERIF
allp = [json.loads(l)["id"] for l in open(os.path.join(VERIF, "properties.jsonl"))]
na_path = os.path.join(VERIF, "driver", "na.json")
na = json.load(open(na_path)) if os.path.exists(na_path) else {}
hooks_path = os.path.join(VERIF, "driver", "hooks.json")
hooks = json.load(open(hooks_path)) if os.path.exists(hooks_path) else {"source_commits": []}

checks = []
ready = set(json.load(open(os.path.join(VERIF, "driver", "ready.json"))))
for pid in allp:
    if pid not in props.PROPS or pid in na or pid not in ready:
        continue
    P = props.PROPS[pid]
    c = dict(
        property_id=pid,
        quick_cmd="./check %s --tier quick" % pid,
        thorough_cmd="./check %s --tier thorough" % pid,
        evidence_file="/verif/evidence/%s.json" % pid,
        replay_cmd_template="./check %s --replay {path}" % pid,
        engine="check",
        level_claimed=dict(category="exploration", text=P["level_text"], design_ref="DESIGN.md " + P["design_ref"]),
        level_note=P["level_note"],
        technique=P["technique"],
    )
    checks.append(c)

m = dict(
    version=1,
    setup_cmd="./check setup",
    hooks=dict(
        guard="verif",
        enable="every harness test binary is built with `go test -c -tags verif` against /repo (replace directive)",
        baseline_off_cmd="cd /repo && go test -vet=off -count=1 ./... && cd /repo/v2 && go test -vet=off -count=1 ./...",
        source_commits=hooks.get("source_commits", []),
        add_only=True,
    ),
    engines=[dict(name="check", path="/verif/check", serves_properties=[c["property_id"] for c in checks],
                  kind_free_text="python driver: instantiates Go harness modules against /repo (v2 and root), runs the tree's own code "
                                 "generator where bindings are needed, builds rapid / enumeration / native-fuzz test binaries, shards "
                                 "them over the cores, merges statistics into evidence files")],
    checks=checks,
    notes="all checks: property-based testing and fuzzing (pgregory.net/rapid, exhaustive enumerators, go test -fuzz in thorough tiers); see DESIGN.md",
    not_applicable=[dict(property_id=p, reason=na.get(p, "check not built yet (construction in progress; no technique limitation)"))
                    for p in allp if p not in [c["property_id"] for c in checks]],
)
json.dump(m, open(os.path.join(VERIF, "MANIFEST.json"), "w"), indent=1)
print("claimed:", [c["property_id"] for c in checks])
