"""prepare hooks: steps a job needs before its test binary is built (corpus + code generation, source rewriting)."""
import os, json, shutil, subprocess
