"""C18 - lazy map publishes each key's value once under every interleaving."""


def register(prop, J):
    sched_env = {"GOMAXPROCS": "1"}  # one logical thread runs at a time anyway; token hand-off is fastest on one P
    prop("C18",
         rule="one evaluation = one execution of a (program, schedule) pair on the working tree's lazymap.go built against the "
              "scheduling shim (or, in the stress jobs, one real-goroutine run of the unmodified package); non-trivial = at least "
              "two threads touch the same key and at least one context switch happens while an operation is in flight (stress: two "
              "operations of different goroutines on one key overlap in time); distinct by (program, schedule) (stress: by program, "
              "GOMAXPROCS and history)",
         jobs=[
             J("sched-v2", "v2", "lazyprops", "^TestC18Sched", checks=(320000, 4800000), shards=(8, 16), prepare="prepare_c18",
               env=sched_env, timeout=(300, 1500)),
             J("sched-v1", "v1", "lazyprops", "^TestC18Sched", checks=(160000, 2400000), shards=(8, 16), prepare="prepare_c18",
               env=sched_env, timeout=(300, 1500)),
             J("stress-v2", "v2", "lazyprops", "^TestC18Stress$", checks=(8000, 160000), shards=(4, 16), race=True,
               prepare="prepare_c18", crash_is_violation=True, timeout=(300, 1500)),
             J("stress-v1", "v1", "lazyprops", "^TestC18Stress$", checks=(4000, 80000), shards=(4, 16), race=True,
               prepare="prepare_c18", crash_is_violation=True, timeout=(300, 1500)),
         ],
         level_text="systematic schedule exploration of the working tree's lazymap.go with its sync import rewritten to a cooperative "
                    "scheduling shim: every interleaving (at the granularity of sync.Map / WaitGroup operations and compute-callback "
                    "entry) of every program with <= 2 threads x <= 2 operations and 3 threads x 1 operation is executed and judged "
                    "(no deadlock, no placeholder returned, at most one compute per key, history + final loads linearizable w.r.t. a "
                    "map with compute-if-absent, porcupine); 3 threads x <= 2 operations are sampled with rapid (shrinkable program + "
                    "schedule); the unmodified package is cross-checked with real goroutines under -race; exhaustive within the stated "
                    "bounds for the enumerated shapes only, no absence proof beyond them",
         level_note="the shim models sync.Map and WaitGroup operations as atomic steps (sequentially consistent); weak-memory effects "
                    "inside the real sync primitives are out of scope except for what -race sees in the stress jobs; goroutines the "
                    "code under test might start itself would not be owned by the controller",
         technique="stateless model checking (exhaustive DFS over schedules with replay) + property-based sampling (rapid) + "
                   "linearizability checking (porcupine) + race-detector stress",
         design_ref="2/C18",
         assumptions=["the schedule-controlled build is the working tree's lazymap.go with only its import of sync replaced by verif/core/vsync",
                      "scheduling points: before every sync.Map / WaitGroup operation and at entry of the compute callback (the sampled "
                      "part also yields at callback return; provably redundant for the exhaustive part)",
                      "quick tier enumerates all schedules over 1 key, thorough over 2 keys; sampled programs always use 2 keys",
                      "a data race reported by the race detector in a stress job counts as a violation (unsynchronised publication)"])
