"""C19 - D2 announcement tracking and host selection follow the event history."""


def register(prop, J):
    prop("C19",
         rule="histories: enumerated (all event histories up to length 5 quick / 6 thorough over a 19-symbol alphabet, every prefix "
              "checked) and rapid-drawn (length <= 12, richer payloads, direct and through the client's update loop); non-trivial = "
              "some event other than a first-time add arrives while a node is announced (update, delete, malformed / bad-URL / "
              "weight-less payload, cluster-node event); selections: rapid-drawn (announcement set x prioritized schemes); "
              "non-trivial = more than one eligible host or priorities configured over a non-empty set; distinct by canonical JSON "
              "of the case (enumerated histories are counted as distinct non-trivial only up to length 4)",
         jobs=[
             # every job runs ^TestC19 of the same package; C19_PART selects its share (replays ignore the selection)
             J("fold-v2", "v2", "d2props", "^TestC19", checks=(20000, 1000000), shards=(8, 16), env={"C19_PART": "fold"}),
             J("select-v2", "v2", "d2props", "^TestC19", checks=(2000, 60000), shards=(8, 16), env={"C19_PART": "select", "GOGC": "800"}),
             J("edge-v2", "v2", "d2props", "^TestC19", checks=(20000, 1000000), shards=(1, 8), env={"C19_PART": "edge", "GOGC": "800"}),
             J("fold-v1", "v1", "d2props", "^TestC19", checks=(20000, 1000000), shards=(8, 16), env={"C19_PART": "fold"}),
             J("select-v1", "v1", "d2props", "^TestC19", checks=(2000, 60000), shards=(8, 16), env={"C19_PART": "select", "GOGC": "800"}),
             J("edge-v1", "v1", "d2props", "^TestC19", checks=(20000, 1000000), shards=(1, 8), env={"C19_PART": "edge", "GOGC": "800"}),
         ],
         level_text="generated-input search against a reference model written from the property text (fold of the event history, "
                    "eligible-host set): every event history up to the stated length over a small alphabet is enumerated and each "
                    "prefix compared with the fold, with all earlier snapshots re-inspected; longer histories, richer payloads and "
                    "announcement sets are sampled; proportionality is a statistical statement (stated tolerance); no absence proof "
                    "beyond the enumerated alphabet",
         level_note="starts at the TreeCacheEvent boundary (treecache.go needs a live ZooKeeper connection); the package rng is "
                    "replaced through the verif hook; the edge-* jobs script the rng to the ends of its range (Float64() == 0 and "
                    "1-2^-53), which a seeded generator reaches with probability 2^-63 and about 2^-53 per selection",
         technique="property-based testing (rapid) + bounded exhaustive enumeration with a reference model; seeded and scripted rng "
                   "for selection frequencies",
         design_ref="2/C19",
         assumptions=[
             "event histories are injected as TreeCacheEvents (handleUriUpdate directly, or the channel read by waitForUriUpdates); "
             "the ZooKeeper tree cache itself is not in the loop",
             "through the update loop each event is followed by an event on the cluster node itself, used as a barrier",
             "host weights are non-negative finite numbers; scheme names are lower case",
             "proportionality is asserted when at least two hosts are eligible, one has a positive weight and no host is announced "
             "by several nodes (how weights of a host announced twice combine is not stated); tolerance 6 sigma + 5 counts, "
             "a miss must repeat on 4x fresh draws",
             "the scripted-rng sweeps assume that one selection reads rng.Float64() and nothing else from the rng",
             "a malformed service-definition payload is only required not to panic",
         ])
