"""C09 - deterministic canonical serialization (v2)."""


def register(prop, J):
    prop("C09",
         rule="values of map-bearing records (C01's corpus and generators) built in 4 representation variants (map insertion order "
              "reversed, empty collections as nil) x 3 repetitions x 6 formats; rapid-drawn key sets (string / int64 / bytes) encoded "
              "under permutations and with intermediate encodes while the set is filled; hand-built RawRecords with typed maps; every third "
              "repetition follows marshals that failed midway; 2400 seed-fixed (value, format) cases encoded in 4 fresh processes; non-trivial = some map / "
              "parameter set / key set with >= 2 entries; distinct by (type, format, value) or key set",
         jobs=[
             J("determinism-v2", "v2", "codecprops", "^TestC09", checks=(6000, 1800000), shards=(4, 16), prepare="prepare_codec",
               extra_pkgs=["dyn", "gendrv"], timeout=(900, 3000)),
             # (appended) "requests are reproducible": generated calls made three times, batch keys supplied in another order
             J("requests-v2", "v2", "resprops", "^TestC09", checks=(3000, 600000), shards=(2, 16), prepare="prepare_resources",
               extra_pkgs=["dyn", "gendrv"], timeout=(900, 3000)),
             # (no root-module job: the property is stated for the v2 module only, so an alarm about the root module's
             #  serialisation would be an alarm on code where the property holds; the harness does run for v1 - it was used to
             #  see that the root module happens to satisfy the same laws - with
             #  J("determinism-v1", "v1", "codecprops", "^TestC09", ...) )
         ],
         level_text="byte identity of encodings across insertion orders, nil-vs-empty representations, repetitions (Go re-randomises map "
                    "iteration per range statement) and fresh processes (different map hash seeds), plus canonical order of object "
                    "keys, query parameters and batch ids checked on the reference-parsed output",
         level_note="the property is stated for v2 and only v2 is judged; hand-built RawRecords (typed maps at any depth) are "
                    "included; request level (job requests-v2): the same generated call made three times, its batch keys supplied in another order, must "
                    "send byte-identical requests or none at all (key multisets of C16, incl. complex keys equal up to $params)",
         technique="property-based testing (rapid), metamorphic byte-identity relation, multi-process digest comparison",
         design_ref="2/C09")
