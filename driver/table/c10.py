"""C10 - Equals / hash contract."""


def register(prop, J):
    prop("C10",
         rule="value of any generated named type (C01's corpus) -> pool {original, independent copy, maps inserted in reverse order, "
              "empty collections as nil, JSON round-tripped copy, 1-3 single-position mutants (leaf change, +0/-0, optional set / "
              "unset / set to zero value, array append / remove / swap, map add / remove / rename, union member switch / unset, enum "
              "symbol, fixed byte), possibly chained}; all pairs and triples; every case is non-trivial; distinct by (type, value, mutation kinds)",
         jobs=[
             J("equals-v2", "v2", "codecprops", "^TestC10", checks=(12000, 2400000), shards=(4, 16), prepare="prepare_codec",
               extra_pkgs=["dyn", "gendrv"], timeout=(900, 3000)),
             J("equals-v1", "v1", "codecprops", "^TestC10", checks=(8000, 1200000), shards=(4, 16), prepare="prepare_codec",
               extra_pkgs=["dyn", "gendrv"], timeout=(900, 3000)),
         ],
         level_text="relational laws over generated pools: reflexive (NaN-free), symmetric, transitive, insensitive to insertion order "
                    "and nil-vs-empty, distinguishes every single-position mutation, Equal implies equal hashes, hash is a pure "
                    "function of the abstract value",
         level_note="hash purity across processes is covered through C09's multi-process digest of encodings only indirectly; key "
                    "types of the library (batch key sets) are exercised by C16",
         technique="property-based testing (rapid) with mutation-derived pools and relational oracles",
         design_ref="2/C10")
