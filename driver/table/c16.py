"""C16 - batch correlation."""


def register(prop, J):
    prop("C16",
         rule="batch get / update / partial update / delete of every keyed resource of C02's corpus (string, int32, int64, bool, "
              "float32/64, typeref, enum, complex keys with params) x key multisets (exact duplicates, complex keys equal up to "
              "params, FNV-1a colliding typeref strings found by search, +0/-0, strings differing only in escaping-relevant "
              "characters) x scripted replies derived from the keys the server received (exact, subset, params changed or dropped, "
              "superset with an unrequested key); non-trivial = >= 2 keys; distinct by (call, reply)",
         jobs=[
             J("batch-v2", "v2", "resprops", "^TestC16", checks=(6000, 3000000), shards=(4, 16), prepare="prepare_resources",
               extra_pkgs=["dyn", "gendrv"], timeout=(1200, 3000)),
             # (appended after the v2 job: the position of a job determines its derived seeds)
             J("batch-v1", "v1", "resprops", "^TestC16", checks=(4000, 1500000), shards=(4, 16), prepare="prepare_resources",
               extra_pkgs=["dyn", "gendrv"], timeout=(1200, 3000)),
         ],
         level_text="generated key multisets and server replies through generated bindings: duplicates rejected with zero requests on "
                    "the wire, ids parameter reference-parsed (each id once), every response entry filed under the caller's own key "
                    "value (abstract equality incl. params, pointer identity for complex keys), nothing lost / duplicated / moved, "
                    "unrequested keys rejected",
         level_note="TestC16DamagedKeys: a captured response in which one key of results / statuses / errors lost a required field of its key record must be an error for lenient and strict clients; batch_get entities carry a marker derived from the position of their key and are compared per key; bytes keys are excluded (KF-C12-bytes-key); the corpus holds one collection keyed by a custom typeref whose registered equality ignores case (v2; an ordinary typeref in the root generation): the same id in another spelling is a duplicate; the same checks run on "
                    "root-module bindings (batch-v1)",
         technique="property-based testing (rapid) over generated bindings with wire capture and pointer-identity oracle",
         design_ref="2/C16")
