"""C04 - decoder robustness."""


def register(prop, J):
    prop("C04",
         rule="(a) every string of <= 5 (quick) / 6 (thorough) tokens over {( ) , : ' List( a 1 %} x {ROR2 reader, query parser} x 25 "
              "shapes (generated unmarshalers of primitives, records, nested records, arrays, maps, unions, enum, fixed, complex key; "
              "ReadInterface, Skip, ReadRawBytes, generic map/array readers, RawRecord) - enumerated completely; (b) valid encodings "
              "of C01 values in all formats under 1-2 truncations / single edits / rotations, read as their own type, as another "
              "shape or through the generic operations; (c) rapid-generated untyped Go values (nil, typed nil pointers, channels, "
              "funcs, structs, wrong key kinds, nested maps / slices) through the untyped-value reader and RawRecord; non-trivial = "
              "input that is not a valid encoding (contains a delimiter / was actually changed); distinct by (entry, input)",
         jobs=[
             J("hostile-v2", "v2", "codecprops", "^TestC04", checks=(20000, 1000000), shards=(4, 16), prepare="prepare_codec",
               extra_pkgs=["dyn", "gendrv"], timeout=(900, 3000)),
         ],
         level_text="every decoder call runs under panic capture and a watchdog (30 s without progress = hang): the oracle is 'returns a "
                    "value or an error'; complete enumeration of short delimiter strings plus generated mutations of valid documents",
         level_note="the HTTP half of the property (4xx not 5xx, client-side errors) is checked by the resource-level harness; native "
                    "coverage-guided fuzzing runs only in the thorough tier",
         technique="exhaustive enumeration + mutation-based property testing (rapid) with a crash / hang oracle",
         design_ref="2/C04")
