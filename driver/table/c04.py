"""C04 - decoder robustness."""


def register(prop, J):
    prop("C04",
         rule="(a) every string of <= 5 (quick) / 6 (thorough) tokens over {( ) , : ' List( a 1 %} x {ROR2 reader, query parser} x 25 "
              "shapes (generated unmarshalers of primitives, records, nested records, arrays, maps, unions, enum, fixed, complex key; "
              "ReadInterface, Skip, ReadRawBytes, generic map/array readers, RawRecord) - enumerated completely; (b) valid encodings "
              "of C01 values in all formats under 1-2 truncations / single edits / rotations, read as their own type, as another "
              "shape or through the generic operations; (c) rapid-generated untyped Go values (nil, typed nil pointers, channels, "
              "funcs, structs, wrong key kinds, nested maps / slices) through the untyped-value reader and RawRecord; non-trivial = "
              "input that is not a valid encoding (contains a delimiter / was actually changed); distinct by (entry, input); (d) HTTP: the wire request of a generated valid call under 1-2 mutations of path, query, "
              "body, Rest.li / tunnelling headers or verb against the generated server (never 5xx, no stack trace, no resource code "
              "behind a 4xx); the wire response of a valid call under mutations of body, id / version / error headers and status "
              "served to the generated client (an error, never a panic); (e) thorough tier: native coverage-guided fuzzing "
              "(go test -fuzz) over (bytes, entry point, shape) seeded with the hostile constants and valid encodings of corpus values",
         jobs=[
             J("hostile-v2", "v2", "codecprops", "^TestC04", checks=(20000, 4000000), shards=(4, 16), prepare="prepare_codec",
               extra_pkgs=["dyn", "gendrv"], timeout=(900, 3000)),
             J("hostile-http-v2", "v2", "resprops", "^TestC04", checks=(8000, 1600000), shards=(4, 16), prepare="prepare_resources",
               extra_pkgs=["dyn", "gendrv"], timeout=(1200, 3000)),
             # (appended after the v2 jobs: the position of a job determines its derived seeds)
             J("hostile-v1", "v1", "codecprops", "^TestC04", checks=(12000, 2000000), shards=(4, 16), prepare="prepare_codec",
               extra_pkgs=["dyn", "gendrv"], timeout=(900, 3000)),
             # native coverage-guided fuzzing (thorough tier only; a campaign cannot be pinned to a seed)
             J("fuzz-v2", "v2", "codecprops", "^TestC04Mutations$",  # (run pattern of the replay path)
                tiers=("thorough",), shards=(1, 1), prepare="prepare_codec",
               extra_pkgs=["dyn", "gendrv"], timeout=(900, 1200), opts={"fuzz": "FuzzC04Decode", "fuzztime": (0, 240)}),
             J("fuzz-v1", "v1", "codecprops", "^TestC04Mutations$",
                tiers=("thorough",), shards=(1, 1), prepare="prepare_codec",
               extra_pkgs=["dyn", "gendrv"], timeout=(900, 1200), opts={"fuzz": "FuzzC04Decode", "fuzztime": (0, 120)}),
             # HTTP level against root-module bindings (appended last: existing jobs keep their derived seeds)
             J("hostile-http-v1", "v1", "resprops", "^TestC04", checks=(6000, 800000), shards=(4, 16), prepare="prepare_resources",
               extra_pkgs=["dyn", "gendrv"], timeout=(1200, 3000)),
             # native fuzzing of whole requests against the generated server (thorough tier only)
             J("fuzz-http-v2", "v2", "resprops", "^TestC04Requests$", tiers=("thorough",), shards=(1, 1), prepare="prepare_resources",
               extra_pkgs=["dyn", "gendrv"], timeout=(900, 1200), opts={"fuzz": "FuzzC04HTTP", "fuzztime": (0, 180)}),
             J("fuzz-http-v1", "v1", "resprops", "^TestC04Requests$", tiers=("thorough",), shards=(1, 1), prepare="prepare_resources",
               extra_pkgs=["dyn", "gendrv"], timeout=(900, 1200), opts={"fuzz": "FuzzC04HTTP", "fuzztime": (0, 90)}),
         ],
         level_text="every decoder call runs under panic capture and a watchdog (30 s without progress = hang): the oracle is 'returns a "
                    "value or an error'; complete enumeration of short delimiter strings plus generated mutations of valid documents",
         level_note="positive clauses (4xx for a malformed request, an error for a malformed response) are asserted where the message is malformed beyond doubt: a body that is structurally not one JSON object (tolerant scanner; lenient number spellings, duplicate keys and non-UTF-8 text are not judged). "
                    "a mutated request may still be valid: then a 2xx with exactly one invocation is accepted; only 5xx, crashes, stack "
                    "traces and invocations behind a 4xx are violations",
         technique="exhaustive enumeration + mutation-based property testing (rapid) + native coverage-guided fuzzing (thorough tier) with a crash / hang oracle",
         design_ref="2/C04")
