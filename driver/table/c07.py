"""C07 - read-only / create-only field exclusion."""


def register(prop, J):
    prop("C07",
         rule="record value from C01's corpus x exclusion spec of 1-4 paths drawn from the value's own paths (map keys optionally "
              "generalised to the wildcard, wildcard at array level inside longer paths) or naming nothing x {encode to JSON / pretty "
              "JSON / ROR2 with the spec; decode an offending or a clean document with the spec through the JSON, ROR2 and untyped "
              "readers, bare or under a batch envelope with its leading-scope offset}; non-trivial = the spec matches some but not all "
              "keyed values, or uses a wildcard; distinct by (mode, format, wrap, spec, document)",
         jobs=[
             J("excl-v2", "v2", "codecprops", "^TestC07", checks=(12000, 3600000), shards=(4, 16), prepare="prepare_codec",
               extra_pkgs=["dyn", "gendrv"], timeout=(900, 3000)),
             J("excl-wire-v2", "v2", "resprops", "^TestC07", checks=(6000, 1200000), shards=(4, 16), prepare="prepare_resources",
               extra_pkgs=["dyn", "gendrv"], timeout=(1200, 3000)),
             # (appended after the v2 jobs: the position of a job determines its derived seeds)
             J("excl-v1", "v1", "codecprops", "^TestC07", checks=(8000, 1800000), shards=(4, 16), prepare="prepare_codec",
               extra_pkgs=["dyn", "gendrv"], timeout=(900, 3000)),
             J("excl-wire-v1", "v1", "resprops", "^TestC07", checks=(4000, 600000), shards=(4, 16), prepare="prepare_resources",
               extra_pkgs=["dyn", "gendrv"], timeout=(1200, 3000)),
         ],
         level_text="generated (value, exclusion spec) pairs against an independent prefix-matching model: the encoder must omit "
                    "exactly the matching subtrees, the decoder must reject exactly the documents carrying a matching value and must "
                    "not report excluded required fields as missing",
         level_note="the wire-level half (which generated client call passes which spec, server 400s) is exercised by the "
                    "resource-level harness on v2 and root-module bindings; a trailing wildcard that would exclude every array item is not generated (the property's "
                    "wildcard is the item level of a longer path)",
         technique="property-based testing (rapid) with a reference path matcher and the reference codec",
         design_ref="2/C07")
