"""C11 - schema validity constraints."""
import os

# Root-module jobs that report a violation on the unchanged tree would be parked here (not registered); none at present.
PENDING_V1 = []


def register(prop, J):
    prop("C11", exhaustive=True,
         rule="complete enumeration per schema of C01's corpus: all 2^members subsets of every union (encode to JSON / ROR2, "
              "ValidateUnionFields, decode of the equivalent document, a document naming no member); fixed wire lengths 0..size+2 x 3 "
              "fill characters; enum constants -1..N+2 and symbol spellings (case variants, padding, prefixes); for 7 records every "
              "assignment of a subset of {delete, set, nested patch} to each field x exclusion specs (none, each field, one nested "
              "path), deletion of each required field; every case is non-trivial; distinct by case",
         jobs=[
             J("validity-v2", "v2", "codecprops", "^TestC11", checks=(1, 1), shards=(4, 8), prepare="prepare_codec",
               extra_pkgs=["dyn", "gendrv"], timeout=(900, 3000)),
             J("validity-v1", "v1", "codecprops", "^TestC11", checks=(1, 1), shards=(4, 8),
               prepare="prepare_codec", extra_pkgs=["dyn", "gendrv"], timeout=(900, 3000)),
         ] + (PENDING_V1 if os.environ.get("VERIF_PENDING_V1") else []),
         level_text="exhaustive enumeration of the small finite spaces the property quantifies over, against a legality predicate "
                    "written from the property text; legal partial updates must also have the protocol's patch/$set/$delete wire shape "
                    "(reference-parsed) and round-trip",
         level_note="spaces are complete per schema of the corpus, not over all schemas; nested patches are enumerated one level deep; "
                    "a nested-path exclusion combined with a wholesale $set / $delete of the parent field is left unasserted",
         technique="exhaustive enumeration with a reference legality model and the reference JSON parser",
         design_ref="2/C11")
