"""C13 - schema default values."""


def register(prop, J):
    prop("C13",
         rule="every record with defaulted fields of C01's corpus (each field type expression x 2-5 default literals incl. empty and "
              "nested-empty containers, escapes, extremes; direct, nested, in included records, random records): default constructor "
              "vs literal model, in-place scrambling of one instance vs older and newer instances; rapid-drawn values x mask of "
              "supplied / omitted defaulted fields decoded through the JSON, ROR2 and untyped readers; every case is non-trivial; "
              "distinct by (reader, type, value)",
         jobs=[
             J("defaults-v2", "v2", "codecprops", "^TestC13", checks=(12000, 4800000), shards=(4, 16), prepare="prepare_codec",
               extra_pkgs=["dyn", "gendrv"], timeout=(900, 3000)),
             J("defaults-v1", "v1", "codecprops", "^TestC13", checks=(8000, 2400000), shards=(4, 16), prepare="prepare_codec",
               extra_pkgs=["dyn", "gendrv"], timeout=(900, 3000)),
         ],
         level_text="default constructors enumerated completely for the corpus and compared with the reference reading of each "
                    "literal; generated (value, omission mask, reader) cases check that omitted defaults are filled, supplied values "
                    "win, nothing is reported missing, readers agree, and no storage is shared between instances",
         level_note="bytes-like default literals holding a code point >= U+0080 nested inside a container / record default are kept "
                    "out of the shared corpus (they panic in the generated package's init: see DESIGN.md findings) and are checked by "
                    "a dedicated witness",
         technique="exhaustive enumeration (constructors) + property-based testing (rapid) with a literal reference model",
         design_ref="2/C13")
