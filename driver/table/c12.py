"""C12 - code generation is total, deterministic and yields compilable bindings."""
import os

# Root-module jobs (the same checks driving the root generator through gendrv1 with the SpecV1 rendering). Appended after
# the v2 jobs so that those keep their derived seeds.
def _v1_jobs(J):
    return [
        J("gen-v1", "v1", "genprops", "^TestC12(Generate|CheckedIn|KnownFindings)", checks=(120, 6000), shards=(8, 16), prepare="prepare_genprops",
          extra_pkgs=["gendrv"], timeout=(1500, 3300)),
        J("stress-v1", "v1", "genprops", "^TestC12Stress", checks=(60, 3000), shards=(8, 16), prepare="prepare_genprops",
          extra_pkgs=["gendrv"], timeout=(1500, 3300)),
    ]


def register(prop, J):
    PENDING_V1 = _v1_jobs(J)
    prop("C12",
         rule="rapid-generated manifests (1-10 named types over 5 namespaces incl. an 'internal' one: records with every field type "
              "constructor / optional / default / includes, enums, fixed, typerefs, unions incl. nullable and single-member, complex "
              "keys; forward references, so cycles between namespaces and clashing type names occur; 0-3 resources of every kind with "
              "any mix of REST methods, finders with params / paging / metadata, actions); each manifest is generated in 3 fresh "
              "processes and compiled against the tree's runtime; non-trivial = >= 2 namespaces, a resource or a default; distinct by manifest",
         jobs=[
             J("gen-v2", "v2", "genprops", "^TestC12(Generate|CheckedIn|KnownFindings)", checks=(120, 6000), shards=(8, 16), prepare="prepare_genprops",
               extra_pkgs=["gendrv"], timeout=(1500, 3300)),
             J("stress-v2", "v2", "genprops", "^TestC12Stress", checks=(60, 3000), shards=(8, 16), prepare="prepare_genprops",
               extra_pkgs=["gendrv"], timeout=(1500, 3300)),
         ] + (PENDING_V1 if os.environ.get("VERIF_PENDING_V1") else []),
         level_text="generated schema sets through the working tree's generator: exit status (no panic), byte-identical output of three "
                    "fresh processes, and the Go compiler / type checker as the oracle for the emitted bindings; the checked-in "
                    "bindings are regenerated from the checked-in manifest and compared file by file (bytes, then AST without comments)",
         level_note="the PDL -> manifest step (Java) is outside the sandbox, manifests are rendered the way the spec parser emits them; "
                    "go vet diagnostics are not part of the oracle; identifier-stress manifests (Go keywords, names of generated "
                    "methods) run as a separately attributed test",
         technique="property-based testing (rapid) over a schema grammar with the compiler as oracle; multi-process determinism",
         design_ref="2/C12",
         assumptions=["collections keyed by bytes are excluded from the grammar: known finding KF-C12-bytes-key (witness test)"])
