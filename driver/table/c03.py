"""C03 - wire-format conformance against the independent reference codec."""


def register(prop, J):
    prop("C03",
         rule="C01's schema corpus and value generators (valid UTF-8 strings); emit: library document parsed by the reference parser "
              "and compared with the value; accept: reference-encoded document under a drawn variation (key permutation, 0-3 unknown "
              "fields, JSON nulls, whitespace, full \\u / %XX escaping, alternative number spellings) decoded by the library; "
              "non-trivial = emit: value has an interesting leaf or depth >= 2, accept: every case; distinct by (direction, type, format, document)",
         jobs=[
             J("conf-v2", "v2", "codecprops", "^TestC03", checks=(8000, 3200000), shards=(4, 16), prepare="prepare_codec",
               extra_pkgs=["dyn", "gendrv"], timeout=(900, 3000)),
             J("conf-v1", "v1", "codecprops", "^TestC03", checks=(6000, 1600000), shards=(4, 16), prepare="prepare_codec",
               extra_pkgs=["dyn", "gendrv"], timeout=(900, 3000)),
             # native coverage-guided fuzzing (thorough tier only): bytes the reference reads as a valid value must be accepted
             J("fuzz-v2", "v2", "codecprops", "^TestC03Accept$", tiers=("thorough",), shards=(1, 1), prepare="prepare_codec",
               extra_pkgs=["dyn", "gendrv"], timeout=(900, 1200), opts={"fuzz": "FuzzC03Accept", "fuzztime": (0, 240)}),
             J("fuzz-v1", "v1", "codecprops", "^TestC03Accept$", tiers=("thorough",), shards=(1, 1), prepare="prepare_codec",
               extra_pkgs=["dyn", "gendrv"], timeout=(900, 1200), opts={"fuzz": "FuzzC03Accept", "fuzztime": (0, 120)}),
             # the envelope clause, on the wire between generated client and generated server (appended last)
             J("envelope-v2", "v2", "resprops", "^TestC03", checks=(4000, 1000000), shards=(4, 16), prepare="prepare_resources",
               extra_pkgs=["dyn", "gendrv"], timeout=(1200, 3000)),
             J("envelope-v1", "v1", "resprops", "^TestC03", checks=(3000, 500000), shards=(4, 16), prepare="prepare_resources",
               extra_pkgs=["dyn", "gendrv"], timeout=(1200, 3000)),
         ],
         level_text="differential testing in both directions against a reference encoder/decoder pair written from the protocol rules "
                    "(strict JSON on encoding/json's tokenizer with duplicate-key / trailing-data / UTF-8 checks, hand-written ROR2 "
                    "recursive descent, context-safety check for URL path and query), over generated schemas and values",
         level_note="the reference is only as good as the protocol rules available offline (DESIGN.md Appendix A lists each rule and "
                    "its grounding); envelopes and headers are checked on the wire of generated calls (verb, method / protocol-version / override headers, content types, "
                    "top-level members of request and response bodies) against the protocol's shapes",
         technique="property-based differential testing (rapid) against an independent reference codec",
         design_ref="2/C03, Appendix A",
         assumptions=["bytes >= 0x80 follow the known finding KF-C03-bytes-utf8 (counted and excluded by signature)",
                      "an unset nullable union is emitted as an empty object; null, {} and absence are all accepted by the reference"])
