"""C17 - concurrent use."""


def register(prop, J):
    prop("C17",
         rule="rapid draws 2-32 mixed calls of C02's corpus (any method, hostile arguments, scripted outcomes, every third one "
              "optionally returning one shared error object) released together against one handler and one client, GOMAXPROCS in "
              "{1,2,4,16}, in-process wire or real TCP, a yield inside every resource method; 2-16 concurrent D2 resolutions while "
              "0-20 announcement events are applied; 2-32 concurrent round trips through the custom-typeref registry; all under the "
              "race detector; every case is non-trivial; distinct by case",
         jobs=[
             J("race-v2", "v2", "resprops", "^TestC17", checks=(600, 90000), shards=(4, 16), prepare="prepare_resources",
               extra_pkgs=["dyn", "gendrv"], timeout=(1500, 3000), race=True, crash_is_violation=True),
             # (appended after the v2 job: the position of a job determines its derived seeds)
             J("race-v1", "v1", "resprops", "^TestC17", checks=(400, 45000), shards=(4, 16), prepare="prepare_resources",
               extra_pkgs=["dyn", "gendrv"], timeout=(1500, 3000), race=True, crash_is_violation=True),
         ],
         level_text="randomised concurrent executions under happens-before race detection, plus a serial differential: every "
                    "concurrent call must observe exactly the outcome the C02 / C08 oracles prescribe for it alone (no leakage of "
                    "keys, parameters, status or error objects)",
         level_note="the Go scheduler is not owned: this samples schedules, it does not enumerate them; a race report does not "
                    "shrink (the replay file is the report plus the command line); TestC17D2 replaces the package-level rng; the "
                    "root-module run (race-v1) has no custom-typeref part (the root module has no such registry)",
         technique="randomised stress under the race detector (rapid-generated workloads) + serial differential oracle",
         design_ref="2/C17")
