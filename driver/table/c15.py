"""C15 - request URL construction."""


def register(prop, J):
    prop("C15",
         rule="rapid-generated (base URL x context path x root name x encoded resource path x query); non-trivial = context "
              "path non-empty or path/query holds a %XX, dot segment or ROR2 delimiter; distinct by (base, path, query); generated "
              "clients: any call of C02's corpus (two in three on a sub-resource) under a resolver whose context path is plain, ends "
              "with the root resource name or shares a prefix with it; non-trivial = sub-resource or non-plain context",
         jobs=[
             J("url-v2", "v2", "urlprops", "^TestC15", checks=(30000, 22500000), shards=(2, 16)),
             J("url-v1", "v1", "urlprops", "^TestC15", checks=(15000, 7500000), shards=(1, 16)),
             # (appended: the position of a job determines its derived seeds) the root name generated clients hand to the library
             J("generated-v2", "v2", "resprops", "^TestC15", checks=(3000, 600000), shards=(2, 16), prepare="prepare_resources",
               extra_pkgs=["dyn", "gendrv"], timeout=(900, 3000)),
             J("generated-v1", "v1", "resprops", "^TestC15", checks=(3000, 600000), shards=(2, 16), prepare="prepare_resources",
               extra_pkgs=["dyn", "gendrv"], timeout=(900, 3000)),
         ],
         level_text="generated-input search against a URL model written from the property text: every generated (base URL, "
                    "encoded path, query) must come out byte-identical in scheme, host, escaped path, raw query and request target; "
                    "tens of thousands of cases per run in both module generations; no absence proof",
         level_note="trusts net/url's parsing of the generated base URL and http.NewRequest; the Go HTTP transport itself is not in the loop",
         technique="property-based testing (rapid) with a reference URL model",
         design_ref="2/C15",
         assumptions=["request URL observed on the *http.Request returned by NewGetRequest / NewJsonRequest",
                      "contexts holding the root name as a complete non-final segment are generated but not asserted (left unspecified by the property)"])
