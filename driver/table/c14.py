"""C14 - query tunnelling is transparent."""


def register(prop, J):
    fn = "^TestC14Fn"
    wire = "^TestC14(Client|Router|Malformed|Overlap)"
    prop("C14",
         rule="rapid-generated (verb x path x query x body x threshold) at three levels (Encode/Decode functions, public request "
              "constructors through an HTTP hop, hand-registered restli server) plus hand-written malformed envelopes; non-trivial = "
              "the request is actually tunnelled and de-tunnelled (query of at least 2 bytes above a positive threshold), or the "
              "threshold is within 1 of the query length, or the envelope is a malformed/hand-written one; distinct by "
              "(level, verb/kind, path, query, body, threshold or malformed class+variant)",
         jobs=[
             J("fn-v2", "v2", "tunnelprops", fn, checks=(160000, 10000000), shards=(8, 16)),
             J("wire-v2", "v2", "tunnelprops", wire, checks=(36000, 1120000), shards=(12, 16)),
             J("fn-v1", "v1", "tunnelprops", fn, checks=(60000, 3200000), shards=(4, 16)),
             J("wire-v1", "v1", "tunnelprops", wire, checks=(16000, 400000), shards=(8, 16)),
         ],
         level_text="generated-input search against a reference model of tunnelling (decision rule, expected request, independent "
                    "envelope writer): Decode(Encode(x)) on requests re-parsed off the wire for arbitrary query bytes and bodies; "
                    "requests from the public constructors at thresholds {0, 1, len-1, len, len+1, ...} compared after a real TCP hop "
                    "(a quarter of the cases) or an in-process wire re-parse with the same request sent untunnelled; identical "
                    "invocation logs and responses of a hand-registered restli server for tunnelled vs untunnelled calls; 400 and no "
                    "invocation for each class of malformed envelope; both module generations; no absence proof",
         level_note="the multipart boundary is chosen at random by mime/multipart and cannot be targeted by the generator (bodies and "
                    "queries hold boundary-shaped text, not the actual boundary); generated resource bindings are not in the loop "
                    "(hand-written resource types against the same Register* functions generated code calls)",
         technique="property-based testing (rapid) with a reference model; real HTTP hop via net/http/httptest",
         design_ref="2/C14",
         assumptions=["a client only tunnels queries of at least 2 bytes (threshold > 0 and len(query) > threshold); shorter queries "
                      "are passed to EncodeTunnelledQuery only to check that nothing panics",
                      "URL queries are drawn from the alphabet the query encoder emits (ASCII); arbitrary bytes incl. CR/LF, NUL and "
                      "invalid UTF-8 are exercised at function level, where no URL is involved",
                      "a multipart envelope cut inside the closing delimiter's trailing '--CRLF' is not counted as malformed",
                      "override header on a non-POST request is not tunnelling: only 'no 5xx, no panic' is asserted",
                      "error responses (status >= 400) of the tunnelled and the untunnelled call are compared by status and headers, not by message text (the text depends on the server's map iteration order even between two identical requests)"])
