"""C06 - required-field accounting and unknown-field tolerance."""


def register(prop, J):
    prop("C06",
         rule="record value from C01's corpus -> reference wire tree -> edit script (delete 0-4 record fields at any depth, null 0-2 "
              "(JSON), permute all keys, inject 0-2 unknown fields of any shape) -> JSON, ROR2, query-parameter and untyped readers; "
              "non-trivial = a deletion below depth 1 or inside a collection, or an unknown field next to a missing one; distinct by "
              "(reader, type, edited document)",
         jobs=[
             J("missing-v2", "v2", "codecprops", "^TestC06", checks=(12000, 7200000), shards=(4, 16), prepare="prepare_codec",
               extra_pkgs=["dyn", "gendrv"], timeout=(900, 3000)),
             J("missing-v1", "v1", "codecprops", "^TestC06", checks=(8000, 3600000), shards=(4, 16), prepare="prepare_codec",
               extra_pkgs=["dyn", "gendrv"], timeout=(900, 3000)),
             # (appended: the position of a job determines its derived seeds) the lenient / strict client half of the property
             J("lenient-v2", "v2", "resprops", "^TestC06", checks=(3000, 600000), shards=(2, 16), prepare="prepare_resources",
               extra_pkgs=["dyn", "gendrv"], timeout=(900, 3000)),
             J("lenient-v1", "v1", "resprops", "^TestC06", checks=(3000, 600000), shards=(2, 16), prepare="prepare_resources",
               extra_pkgs=["dyn", "gendrv"], timeout=(900, 3000)),
         ],
         level_text="generated edit scripts over valid documents against a model of the missing-required-field set (full paths, one "
                    "error, nothing reported when nothing is missing) and of the partially decoded value, for four reader kinds",
         level_note="documents are rendered by the reference encoder; the lenient-client half of the property runs in the resource-level "
                    "harness (jobs lenient-*): required fields are removed from the entities of captured responses and the edited response "
                    "is served to a lenient and to a strict generated client",
         technique="property-based testing (rapid) with a missing-field reference model; metamorphic across readers and key orders",
         design_ref="2/C06")
