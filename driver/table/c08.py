"""C08 - error and status propagation."""


def register(prop, J):
    prop("C08",
         rule="every method of C02's resource corpus x scripted outcome in {error response with a drawn subset of its 10 fields, "
              "plain error, panic, nil result without error, overridden status (ctx.ResponseStatus / CreatedEntity.Status), default "
              "status}; the error object handed to the library is snapshotted before and compared after; each case is followed by a "
              "probe call on the same server; every case is non-trivial; distinct by (kind, method, outcome)",
         jobs=[
             J("errors-v2", "v2", "resprops", "^TestC08", checks=(6000, 3000000), shards=(4, 16), prepare="prepare_resources",
               extra_pkgs=["dyn", "gendrv"], timeout=(1200, 3000)),
             # (appended after the v2 job: the position of a job determines its derived seeds)
             J("errors-v1", "v1", "resprops", "^TestC08", checks=(4000, 1500000), shards=(4, 16), prepare="prepare_resources",
               extra_pkgs=["dyn", "gendrv"], timeout=(1200, 3000)),
         ],
         level_text="generated (method, outcome) pairs through generated bindings over HTTP wire bytes against the propagation table "
                    "of the property: client error equals the resource's error response field by field, HTTP status and error header, "
                    "failure status and message for plain errors / panics / nil entities, unmodified error objects, default and "
                    "overridden success statuses, server still usable",
         level_note="per-key batch errors: TestC08BatchErrors (every case holds at least one full error response under a key); panics are a string, an error value or a nil dereference; the concurrent sharing of error objects is exercised by C17; "
                    "root-module run (errors-v1): its ErrorResponse has 4 fields (status, message, exceptionClass, stackTrace), the "
                    "other 6 are not scripted there",
         technique="property-based testing (rapid) over generated bindings with a propagation-table oracle",
         design_ref="2/C08")
