"""C05 - routing and Rest.li method inference."""

RUN = "^TestC05"


def register(prop, J):
    prop("C05",
         rule="fixed family of registered trees x {verb x method header x path shape x query x tunnelled} enumerated completely on the "
              "bare handler (filter configurations rotated over the product), sampled for the mounting variants, plus rapid-generated "
              "(tree, request, filters); non-trivial = the path names a registered resource, so that the outcome depends on verb, header, "
              "entity key and q/ids/action together; distinct by (tree, late registrations, handler, mount, filters, request)",
         exhaustive=True,
         jobs=[
             J("route-v2", "v2", "routeprops", RUN, checks=(24000, 3200000), shards=(8, 16), timeout=(300, 1500)),
             J("route-v1", "v1", "routeprops", RUN, checks=(12000, 960000), shards=(8, 16), timeout=(300, 1500)),
         ],
         level_text="complete enumeration of a fixed family of resource trees x request product against an independent routing decision "
                    "table (DESIGN Appendix B), and rapid-generated trees / requests with shrinking, in both module generations; every request is "
                    "real HTTP/1.1 wire bytes parsed by net/http; observed: which registered method ran, status class, filter call order and "
                    "what filters saw; no absence proof beyond the enumerated family",
         level_note="resources are registered through the runtime's generic Register* functions with hand-written stand-ins for generated "
                    "types (string keys); generated RegisterResource code itself is covered by C02",
         technique="exhaustive enumeration + property-based testing (rapid) against a reference decision table",
         design_ref="2/C05, Appendix B",
         assumptions=["entity keys are strings; a key segment holding an unescaped ( ) or , does not decode (400)",
                      "left unspecified by the property and only checked for <=1 invocation / no 5xx: header contradicting the verb on a "
                      "collection-like resource, non-standard verb with a header on a simple resource, DELETE/PUT with key and ids, "
                      "duplicate or empty q/ids/action, empty inner path segments",
                      "unknown method header: 'as if absent' or any 4xx accepted; trailing slash: the literal reading (empty key / unknown "
                      "sub-resource) or the reading without it accepted",
                      "a key segment with excess ')' and an unknown last segment after a simple resource are asserted only as 4xx",
                      "undeclared query parameters on batch methods: invoked or 400 both accepted (the generations differ)",
                      "tunnelled requests are built with restli.EncodeTunnelledQuery and only for non-empty queries (C14 owns the envelope)"])
