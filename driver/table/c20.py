"""C20 - regeneration never touches files the generator does not own."""


def register(prop, J):
    prop("C20",
         rule="cleaning cases: real directory trees over {generated file, manifest, user .go file, other file, empty dir, nested dir} "
              "x target given as absolute path / relative path / '.' (and './' as a report-only class); non-trivial = the tree holds at least one generator-owned file "
              "and at least one foreign regular file (cleaning has to discriminate), or the target does not exist; distinct by "
              "(target mode, canonical tree). regeneration cases: real GenerateCode runs (fresh process each) into a directory "
              "pre-populated with user files, a hand-written custom typeref implementation and stale generated files; distinct by "
              "initial population",
         jobs=[
             J("clean-v2", "v2", "cleanprops", "^TestC20(Regress|Enum|Missing|Clean|Symlinks)$", checks=(6000, 250000), shards=(16, 16), timeout=(300, 1200)),
             J("regen-v2", "v2", "cleanprops", "^TestC20Regen$", checks=(160, 3200), shards=(8, 16), timeout=(300, 1200)),
             J("clean-v1", "v1", "cleanprops", "^TestC20(Regress|Enum|Missing|Clean|Symlinks)$", checks=(4000, 120000), shards=(8, 16), timeout=(300, 1200),
               env={"VERIF_C20_QUICK_SPACE": "small"}),
             J("regen-v1", "v1", "cleanprops", "^TestC20Regen$", checks=(80, 1600), shards=(8, 16), timeout=(300, 1200)),
         ],
         exhaustive=False,
         level_text="generated-input search on real scratch directories against a set model written from the property text: every tree "
                    "of depth <= 2 with <= 3 entries per level (29205 trees up to entry order; thorough tier also every tree of depth "
                    "<= 3 with <= 2 entries per level, 54284 trees) is built, cleaned twice by the real CleanTargetDir and compared "
                    "(foreign files byte- and mode-identical, owned files gone, directories holding foreign files kept, directories "
                    "left empty by the removal gone, nothing created, second clean a no-op, no error); rapid-sampled depth-3 trees with "
                    "adversarial names/modes/binary contents; non-existent targets; target '.', relative and absolute; and real "
                    "generator runs (clean + regenerate reproduces byte-identical generated files, user files untouched) in both "
                    "module generations; the enumerated spaces are complete, the depth-3 x 3-entries space of the quantifier is only "
                    "sampled; no absence proof",
         level_note="runs as root on ext4 under os.TempDir(): permission-denied paths (read-only directories) are not exercisable; "
                    "user symbolic links to directories outside the output tree are covered by their own generated check (the link stays, nothing behind it changes; TestC20Symlinks); "
                    "other special files are outside the property's alphabet and not generated",
         technique="exhaustive enumeration of small directory trees + property-based testing (rapid) against a reference set model; "
                   "multi-process regeneration differential",
         design_ref="2/C20",
         assumptions=["owned = regular file whose name ends in '.gr.go', or is named exactly like the generation's manifest "
                      "(v2: go-restli-manifest.gr.json, root module: parsed-specs.gr.json) at any depth; manifest-named files below the "
                      "top level are labelled manifest_nested",
                      "whether a directory that held no file at all before cleaning (pre-existing empty directory) is removed or kept is "
                      "not asserted (labels preexisting_empty_dir, g4_unasserted_file_free_dir_below); only G1-G3 apply there",
                      "directories carrying a generator-owned name (x.gr.go/, a manifest-named directory) are outside the alphabet: "
                      "generated in class unspecified_dir_with_owned_name, asserting only no panic and no foreign file lost",
                      "the current directory spelled './' (mode=dotslash) is a report-only class: file and directory guarantees are asserted, an error "
                      "return is only labelled (reportonly_dotslash_clean_returned_error) and noted",
                      "file contents and permission bits are compared; timestamps are not",
                      "the generator entry point GenerateCode is called through reflection in a re-executed test binary (one fresh process per "
                      "generation because utils.TypeRegistry is a process global)"])
