#!/usr/bin/env python3
"""Regression over the seeded changes: every stored change (seeded/<id>/patch.diff) is applied to a scratch worktree of /repo
HEAD (never to /repo itself), the quick check of its property is run against that tree (VERIF_REPO), and the exit status
is compared with what seeded/<id>/meta.json recorded (1 = caught).  Usage: driver/reseed.py [ids...]  -> .work/reseed.json"""
import glob, json, os, subprocess, sys, time
VERIF = os.path.dirname(os.path.dirname(os.path.abspath(__file__)))
ENV = dict(os.environ, GOFLAGS="-mod=mod", GOPROXY="off", GOSUMDB="off", GOTOOLCHAIN="local")
WT = "/tmp/reseed-wt"


def sh(cmd, cwd=None, env=None, timeout=3600):
    p = subprocess.run(cmd, cwd=cwd, env=env or ENV, shell=True, stdout=subprocess.PIPE, stderr=subprocess.STDOUT, timeout=timeout)
    return p.returncode, p.stdout.decode("utf-8", "replace")


def main():
    ids = sys.argv[1:] or sorted(os.path.basename(os.path.dirname(f)) for f in glob.glob(os.path.join(VERIF, "seeded", "*", "patch.diff")))
    sh("git -C /repo worktree remove --force %s; rm -rf %s; git -C /repo worktree prune" % (WT, WT))
    rc, out = sh("git -C /repo worktree add -q --detach %s HEAD" % WT)
    if rc != 0:
        raise SystemExit(out)
    res = {}
    outp = os.path.join(VERIF, ".work", "reseed.json")
    if os.path.exists(outp) and sys.argv[1:]:
        res = json.load(open(outp))
    try:
        for sid in ids:
            prop = sid[:3]
            patch = os.path.join(VERIF, "seeded", sid, "patch.diff")
            sh("git reset -q --hard HEAD && git clean -fdq", cwd=WT)
            rc, out = sh("git apply %s" % patch, cwd=WT)
            if rc != 0:
                sh("git reset -q --hard HEAD && git clean -fdq", cwd=WT)
                rc, out = sh("git apply --3way %s" % patch, cwd=WT)
            if rc != 0:
                sh("git reset -q --hard HEAD && git clean -fdq", cwd=WT)
                res[sid] = dict(status="patch does not apply to HEAD any more", detail=out[-600:])
                print(sid, res[sid]["status"], flush=True)
                continue
            t0 = time.time()
            env = dict(ENV, VERIF_REPO=WT, VERIF_OUTROOT=os.path.join(VERIF, ".work", "reseedout"))
            rc, out = sh("./check %s" % prop, cwd=VERIF, env=env)
            first = ""
            lines = out.splitlines()
            for j, l in enumerate(lines):
                if l.startswith("VIOLATION") or l.startswith("INFRA"):
                    first = "\n".join(lines[j:j + 3])[:700]
                    break
            res[sid] = dict(exit=rc, wall_s=round(time.time() - t0, 1), first=first)
            print(sid, "exit", rc, first.splitlines()[1][:160] if rc == 1 and len(first.splitlines()) > 1 else first[:200], flush=True)
            json.dump(res, open(outp, "w"), indent=1)
    finally:
        sh("git -C /repo worktree remove --force %s; git -C /repo worktree prune; rm -rf %s" % (WT, os.path.join(VERIF, ".work", "reseedout")))
    json.dump(res, open(outp, "w"), indent=1)
    bad = [k for k, v in res.items() if v.get("exit") != 1]
    print("not caught / not applicable:", bad)


main()
