"""Property table and run logic for ./check (see DESIGN.md section 1)."""
import json, os, shutil, subprocess, sys, time, array, re, glob

VERIF = os.path.dirname(os.path.dirname(os.path.abspath(__file__)))
REPO = os.environ.get("VERIF_REPO", "/repo")
import hashlib
ALT = os.path.realpath(REPO) != "/repo"
# sensitivity runs against a scratch copy of the tree get their own work, replay and evidence directories so they
# can run next to checks of /repo and never overwrite real evidence
WORK = os.path.join(VERIF, ".work", "alt-" + hashlib.md5(REPO.encode()).hexdigest()[:8]) if ALT else os.path.join(VERIF, ".work")
OUTROOT = os.environ.get("VERIF_OUTROOT") or (WORK if ALT else VERIF)  # (seeded-change runs set VERIF_OUTROOT: real evidence stays untouched)
NCPU = os.cpu_count() or 4

V2 = "github.com/PapaCharlie/go-restli/v2"
V1 = "github.com/PapaCharlie/go-restli"


class Infra(Exception):
    pass


def goenv():
    e = dict(os.environ)
    e.update(GOFLAGS="-mod=mod", GOPROXY="off", GOSUMDB="off", GOTOOLCHAIN="local", CGO_ENABLED=e.get("CGO_ENABLED", "1"))
    e.setdefault("GOCACHE", os.path.join(os.path.expanduser("~"), ".cache", "go-build"))
    return e


def sh(cmd, cwd=None, env=None, timeout=None, log=None):
    """run, return (rc, output)"""
    try:
        p = subprocess.run(cmd, cwd=cwd, env=env or goenv(), stdout=subprocess.PIPE, stderr=subprocess.STDOUT,
                           timeout=timeout)
        out = p.stdout.decode("utf-8", "replace")
        rc = p.returncode
    except subprocess.TimeoutExpired as ex:
        out = (ex.stdout or b"").decode("utf-8", "replace") + "\n[driver] TIMEOUT after %ss" % timeout
        rc = -9
    if log:
        with open(log, "a") as f:
            f.write("$ %s\n%s\n[rc=%s]\n" % (" ".join(cmd), out, rc))
    return rc, out


# ----------------------------------------------------------------------------------------------
# harness instantiation

def gomod(gen, extra_replace=()):
    mod = V2 if gen == "v2" else V1
    src = os.path.join(REPO, "v2") if gen == "v2" else REPO
    lines = [
        "module verif/h" + ("2" if gen == "v2" else "1"), "", "go 1.18", "",
        "require (", "\t%s %s" % (mod, "v2.0.0" if gen == "v2" else "v1.0.0"),
        "\tverif/core v0.0.0-00010101000000-000000000000",
        "\tpgregory.net/rapid v1.3.0", "\tgithub.com/anishathalye/porcupine v1.3.0", ")", "",
        "replace %s => %s" % (mod, src),
        "replace verif/core => %s" % os.path.join(VERIF, "core"),
    ]
    for a, b in extra_replace:
        lines.append("replace %s => %s" % (a, b))
    return "\n".join(lines) + "\n", os.path.join(src, "go.sum")


def write_if_changed(path, data):
    if isinstance(data, str):
        data = data.encode()
    try:
        with open(path, "rb") as f:
            if f.read() == data:
                return
    except FileNotFoundError:
        pass
    os.makedirs(os.path.dirname(path), exist_ok=True)
    with open(path, "wb") as f:
        f.write(data)


def instantiate(pid, gen, pkgs):
    """copy harness packages into .work/<pid>/<gen>/ rewriting import paths for the root module"""
    wd = os.path.join(WORK, pid, gen)
    os.makedirs(wd, exist_ok=True)
    mod, sumfile = gomod(gen)
    write_if_changed(os.path.join(wd, "go.mod"), mod)
    # go.sum: the repo's own plus the core module's (rapid, porcupine)
    sums = set()
    for f in (sumfile, os.path.join(VERIF, "core", "go.sum")):
        if os.path.exists(f):
            sums.update(l for l in open(f).read().splitlines() if l.strip())
    write_if_changed(os.path.join(wd, "go.sum"), "\n".join(sorted(sums)) + "\n")
    for pkg in pkgs:
        src = os.path.join(VERIF, "harness", pkg)
        dst = os.path.join(wd, pkg)
        if not os.path.isdir(src):
            raise Infra("no harness package %s" % src)
        keep = set()
        for root, dirs, files in os.walk(src):
            rel = os.path.relpath(root, src)
            for fn in files:
                data = open(os.path.join(root, fn), "rb").read()
                if fn.endswith(".go"):
                    txt = data.decode()
                    if gen == "v1":
                        if txt.startswith("//verif:v2only"):
                            continue  # file relies on v2-only API; not instantiated for the root module
                        txt = rewrite_v1(txt)
                    elif txt.startswith("//verif:v1only"):
                        continue
                    txt = txt.replace("verif/HARNESS/", "verif/h%s/" % ("2" if gen == "v2" else "1"))
                    data = txt.encode()
                out = os.path.normpath(os.path.join(dst, rel, fn))
                keep.add(out)
                write_if_changed(out, data)
        # remove stale files from earlier versions of the harness (not generated dirs)
        for root, dirs, files in os.walk(dst):
            if os.path.basename(root) == "gen" or "/gen/" in root + "/":
                continue
            for fn in files:
                p = os.path.normpath(os.path.join(root, fn))
                if p not in keep and fn.endswith(".go") and not fn.endswith(".gen.go"):
                    os.remove(p)
    return wd


def rewrite_v1(txt):
    # root-module instantiation of a template written against v2
    txt = txt.replace('\t"' + V2 + '/restlidata/generated/com/linkedin/restli/common"', '\tcommon "' + V1 + '/restlidata"')
    txt = txt.replace(V2 + "/restlidata/generated/com/linkedin/restli/common", V1 + "/restlidata")
    txt = txt.replace('\t"' + V2 + '/restli/patch"', '\tpatch "' + V1 + '/restli"')
    txt = txt.replace(V2 + "/restli/patch", V1 + "/restli")
    txt = txt.replace(V2 + "/", V1 + "/")
    txt = txt.replace('"' + V2 + '"', '"' + V1 + '"')
    return txt


def build_test(wd, pkg, race=False, tags="verif", log=None, fuzz=None):
    out = os.path.join(wd, pkg.replace("/", "_") + (".race" if race else "") + (".fuzz" if fuzz else "") + ".test")
    cmd = ["go", "test", "-c", "-vet=off", "-tags", tags, "-o", out]
    if race:
        cmd.append("-race")
    if fuzz:
        cmd.append("-fuzz=^%s$" % fuzz)  # builds with coverage instrumentation
    cmd.append("./" + pkg)
    t0 = time.time()
    rc, o = sh(cmd, cwd=wd, timeout=1500, log=log)
    if rc != 0:
        raise Infra("harness build failed (%s %s):\n%s" % (wd, pkg, o[-6000:]))
    return out, time.time() - t0


def derive_seed(seed, job_index, shard):
    s = (seed * 1000003 + job_index * 104729 + shard * 7919 + 12345) % 2147483647
    return s or 1


# ----------------------------------------------------------------------------------------------
# property table. Each job: gen (v2|v1), pkg (harness package), run (test regexp), checks (quick, thorough) per shard
# total, shards (quick, thorough), race, timeout (quick, thorough) seconds, prepare (callable name) optional.

def J(name, gen, pkg, run, checks=(2000, 50000), shards=(1, 16), race=False, timeout=(600, 3000), prepare=None,
      crash_is_violation=False, env=None, tiers=("quick", "thorough"), steps=None, extra_pkgs=(), opts=None):
    return dict(name=name, gen=gen, pkg=pkg, run=run, checks=checks, shards=shards, race=race, timeout=timeout,
                prepare=prepare, crash_is_violation=crash_is_violation, env=env or {}, tiers=tiers, steps=steps,
                extra_pkgs=list(extra_pkgs), opts=opts or {})


LEVEL = "exploration"

PROPS = {}


def prop(pid, rule, jobs, assumptions=(), exhaustive=False, level_text="", level_note="", technique="", design_ref=""):
    PROPS[pid] = dict(id=pid, rule=rule, jobs=jobs, assumptions=list(assumptions), exhaustive=exhaustive,
                      level_text=level_text, level_note=level_note, technique=technique, design_ref=design_ref)


from proptable import register  # noqa: E402
register(prop, J)


# ----------------------------------------------------------------------------------------------

def setup():
    """MANIFEST.setup_cmd: verify the toolchain and pre-build the core module (offline)."""
    rc, out = sh(["go", "build", "./..."], cwd=os.path.join(VERIF, "core"))
    print(out)
    if rc != 0:
        return 2
    print("setup ok")
    return 0


def merge_stats(sdir, pid):
    tot = dict(evaluations=0, nontrivial=0, labels={}, samples=[], exhaustive={}, known={}, violations=[], notes=[])
    hashes = set()
    files = sorted(glob.glob(os.path.join(sdir, "**", pid + ".*.json"), recursive=True))
    for f in files:
        try:
            d = json.load(open(f))
        except Exception as ex:  # a shard died while writing
            raise Infra("unreadable stats file %s: %s" % (f, ex))
        tot["evaluations"] += d.get("evaluations", 0)
        tot["nontrivial"] += d.get("nontrivial_evaluations", 0)
        for k, v in (d.get("labels") or {}).items():
            tot["labels"][k] = tot["labels"].get(k, 0) + v
        for k, v in (d.get("exhaustive") or {}).items():
            tot["exhaustive"][k] = tot["exhaustive"].get(k, 0) + v
        for s in d.get("samples") or []:
            if len(tot["samples"]) < 40:
                tot["samples"].append(s)
        for k in d.get("known") or []:
            e = tot["known"].setdefault(k["id"], dict(id=k["id"], what=k["what"], count=0, first=k.get("first")))
            e["count"] += k["count"]
        tot["violations"].extend(d.get("violations") or [])
        for n in d.get("notes") or []:
            if n not in tot["notes"]:
                tot["notes"].append(n)
        hf = f[:-5] + ".hashes"
        if os.path.exists(hf):
            a = array.array("Q")
            with open(hf, "rb") as fh:
                b = fh.read()
            a.frombytes(b[:len(b) // 8 * 8])
            hashes.update(a)
    seen = {v["replay"] for v in tot["violations"]}
    for f in sorted(glob.glob(os.path.join(sdir, "**", pid + ".*.viol"), recursive=True)):
        for line in open(f, errors="replace"):
            try:
                v = json.loads(line)
            except Exception:
                continue
            if v["replay"] not in seen:
                seen.add(v["replay"])
                tot["violations"].append(v)
    tot["distinct"] = len(hashes)
    tot["files"] = len(files)
    return tot


def run_property(pid, tier, seed, replay, keep, only):
    P = PROPS[pid]
    t0 = time.time()
    wroot = os.path.join(WORK, pid)
    os.makedirs(wroot, exist_ok=True)
    sdir = os.path.join(wroot, "stats-" + tier)
    shutil.rmtree(sdir, ignore_errors=True)
    os.makedirs(sdir)
    logdir = os.path.join(wroot, "logs")
    os.makedirs(logdir, exist_ok=True)
    log = os.path.join(logdir, "%s-%s.log" % (tier, "replay" if replay else "run"))
    open(log, "w").close()
    rdir = os.path.join(OUTROOT, "replays")
    os.makedirs(rdir, exist_ok=True)
    evpath = os.path.join(OUTROOT, "evidence", pid + ".json")
    os.makedirs(os.path.dirname(evpath), exist_ok=True)
    if not replay and os.path.exists(evpath):
        os.remove(evpath)

    # private Go build cache of the run (used by jobs that compile many one-off packages), removed at the end
    shutil.rmtree(os.path.join(wroot, ".gocache"), ignore_errors=True)
    crash_violations = []
    infra_errors = []
    job_reports = []
    ti = 0 if tier == "quick" else 1
    import prepare as prep

    jobs = [j for j in P["jobs"] if tier in j["tiers"] and (not only or j["name"] in only)]
    if replay:
        try:
            rj = json.load(open(replay)).get("job")
        except Exception:
            rj = None
        if rj:
            jobs = [j for j in P["jobs"] if j["name"] == rj] or jobs
    if not jobs:
        raise Infra("no jobs selected")

    for ji, job in enumerate(P["jobs"]):
        if job not in jobs:
            continue
        extra = [("gendrv1" if (x == "gendrv" and job["gen"] == "v1") else x) for x in job.get("extra_pkgs", [])]
        wd = instantiate(pid, job["gen"], [job["pkg"]] + extra)
        penv = {}
        if job["prepare"]:
            penv = getattr(prep, job["prepare"])(pid=pid, job=job, wd=wd, tier=tier, seed=seed, log=log, replay=replay) or {}
        binp, bt = build_test(wd, job["pkg"], race=job["race"], log=log, fuzz=(None if replay else job["opts"].get("fuzz")))
        nsh = 1 if replay else max(1, min(job["shards"][ti], NCPU))
        checks = job["checks"][ti]
        scale = os.environ.get("VERIF_SCALE")
        if scale:
            checks = max(1, int(checks * float(scale)))
        per = max(1, checks // nsh)
        procs = []
        jt0 = time.time()
        for s in range(nsh):
            eff = derive_seed(seed, ji, s)
            env = goenv()
            env.update(job["env"])
            env.update(penv)
            env.update(VERIF_SHARD=str(ji * 100 + s), VERIF_SEED_EFFECTIVE=str(eff), VERIF_TIER=tier,
                       VERIF_STATS_DIR=os.path.join(sdir, job["name"]), VERIF_REPLAY_DIR=rdir,
                       VERIF_KF=os.path.join(VERIF, "known_findings.json"), VERIF_JOB=job["name"],
                       VERIF_REPO=REPO, VERIF_NSHARDS=str(nsh), VERIF_SHARD_INDEX=str(s),
                       VERIF_CHECKS=str(per), VERIF_GEN=job["gen"])
            if replay:
                env["VERIF_REPLAY"] = replay
            if job["race"]:
                env.setdefault("GORACE", "halt_on_error=0")
            cmd = [binp, "-test.run", job["run"], "-test.timeout", "%ds" % (job["timeout"][ti] + 60),
                   "-rapid.checks", str(per), "-rapid.seed", str(eff), "-rapid.nofailfile", "-test.count", "1"]
            fz = job["opts"].get("fuzz")
            if fz and not replay:
                # native coverage-guided fuzzing: one coordinator process, NCPU workers; the fuzz function records
                # violations itself (replay = the case as JSON, re-run by the ordinary replay path)
                ft = job["opts"].get("fuzztime", (0, 60))[ti]
                if scale:
                    ft = max(1, int(ft * float(scale)))
                cache = os.path.join(wd, job["pkg"], ".fuzzcache")
                shutil.rmtree(cache, ignore_errors=True)
                shutil.rmtree(os.path.join(wd, job["pkg"], "testdata", "fuzz"), ignore_errors=True)
                cmd = [binp, "-test.run", "^$", "-test.fuzz", "^%s$" % fz, "-test.fuzztime", "%ds" % ft,
                       "-test.fuzzcachedir", cache, "-test.parallel", str(NCPU), "-test.fuzzminimizetime", "10s",
                       "-test.timeout", "%ds" % (job["timeout"][ti] + 60)]
            if job.get("steps"):
                cmd += ["-rapid.steps", str(job["steps"])]
            slog = os.path.join(logdir, "%s-%s-%d.out" % (tier, job["name"], s))
            fh = open(slog, "wb")
            p = subprocess.Popen(cmd, cwd=os.path.join(wd, job["pkg"]), env=env, stdout=fh, stderr=subprocess.STDOUT)
            procs.append((p, fh, slog, s))
        deadline = time.time() + job["timeout"][ti]
        failed = []
        timed_out = False
        for p, fh, slog, s in procs:
            try:
                rc = p.wait(timeout=max(1, deadline - time.time()))
            except subprocess.TimeoutExpired:
                p.kill(); p.wait(); rc = -9; timed_out = True
            fh.close()
            if rc != 0:
                failed.append((rc, slog, s))
        job_reports.append(dict(job=job["name"], gen=job["gen"], shards=nsh, checks_requested=per * nsh,
                                build_s=round(bt, 1), run_s=round(time.time() - jt0, 1)))
        if timed_out:
            # inconclusive for this job; the other jobs of the property still run (a violation found by one of them is a
            # verdict, otherwise the property ends inconclusive)
            infra_errors.append("job %s timed out after %ss (inconclusive); logs in %s" % (job["name"], job["timeout"][ti], logdir))
            continue
        if failed:
            # a failing test binary is a verdict only if it recorded a violation (or, for jobs whose oracle is
            # "the process survives", if the log shows a crash in the code under test)
            st = merge_stats(sdir, pid)
            if not st["violations"]:
                rc, slog, s = failed[0]
                txt = open(slog, errors="replace").read()
                if job["crash_is_violation"] and re.search(r"WARNING: DATA RACE|fatal error:|^panic:|\[signal ", txt, re.M):
                    rp = os.path.join(rdir, "%s-%s-crash-seed%d-shard%d.log" % (pid, job["name"], seed, s))
                    with open(rp, "w") as f:
                        f.write(json.dumps(dict(property=pid, job=job["name"], seed=seed, shard=s,
                                                cmd="VERIF_SEED=%d ./check %s --tier %s --jobs %s" % (seed, pid, tier, job["name"]))) + "\n")
                        f.write(txt[-200000:])
                    crash_violations.append(dict(message="process crashed / race detector report in job " + job["name"], replay=rp))
                else:
                    infra_errors.append("test binary of job %s failed without recording a violation (rc=%s):\n%s" % (
                        job["name"], rc, txt[-5000:]))

    shutil.rmtree(os.path.join(wroot, ".gocache"), ignore_errors=True)
    st = merge_stats(sdir, pid)
    viols = st["violations"] + crash_violations
    # a full disk / exhausted memory makes compilers, generators and the code under test fail in ways that look like
    # violations: that is the environment, not a verdict
    for v in viols:
        if re.search(r"no space left on device|cannot allocate memory|out of memory", v.get("message", "")):
            raise Infra("resource exhaustion during the run (inconclusive): " + v["message"][:300])
    if infra_errors and not viols:
        raise Infra("\n".join(infra_errors))
    if st["files"] == 0 and not viols:
        raise Infra("no stats were written")
    wall = time.time() - t0
    known = sorted(st["known"].values(), key=lambda k: k["id"])
    if not replay:
        ev = dict(
            property_id=pid, tier=tier, seed=seed, level=LEVEL,
            coverage=dict(
                evaluations=st["evaluations"], distinct_nontrivial=st["distinct"],
                nontrivial_evaluations=st["nontrivial"], rule=P["rule"], samples=st["samples"][:24],
                labels=dict(sorted(st["labels"].items())), exhaustive=bool(P.get("exhaustive")) and bool(st["exhaustive"]),
                exhaustive_spaces=st["exhaustive"], jobs=job_reports, known_findings=known, notes=st["notes"],
                repo=REPO,
            ),
            assumptions=P["assumptions"], wall_s=round(wall, 2), violations=len(viols),
        )
        tmp = evpath + ".tmp"
        with open(tmp, "w") as f:
            json.dump(ev, f, indent=1, default=str)
        os.replace(tmp, evpath)
    for k in known:
        print("KNOWN-FINDING: property=%s %s [%s] (%d cases)" % (pid, k["what"], k["id"], k["count"]))
    seen = set()
    for v in viols:
        if v["replay"] in seen:
            continue
        seen.add(v["replay"])
        print("VIOLATION property=%s replay=%s" % (pid, v["replay"]))
        print("  " + v["message"].replace("\n", "\n  ")[:3000])
    print("%s %s seed=%d: %d cases, %d distinct non-trivial, %d violations, %d known-finding classes, %.1fs" % (
        pid, tier, seed, st["evaluations"], st["distinct"], len(seen), len(known), wall))
    if not keep:
        pass
    return 1 if viols else 0
