#!/usr/bin/env python3
"""Confirm a seeded change and run the registered checks against it.

  driver/seedrun.py <ID> [--checks C01,C03] [--src /tmp/seed-out/<ID>] [--tier quick]

1. fresh worktree of /repo HEAD under /tmp/seedchk/<ID>: demo without the change must PASS, with it must FAIL,
   the repository's own test suite must give the same per-package results as on the untouched tree;
2. run ./check for the requested properties against that worktree with the change applied (VERIF_REPO; /repo itself is
   not touched);
3. store patch, demonstration and meta.json under /verif/seeded/<ID>/ and remove the worktree.
"""
import glob, json, os, re, shutil, subprocess, sys, time

VERIF = os.path.dirname(os.path.dirname(os.path.abspath(__file__)))
ENV = dict(os.environ, GOFLAGS="-mod=mod", GOPROXY="off", GOSUMDB="off", GOTOOLCHAIN="local")


def sh(cmd, cwd=None, timeout=1800):
    p = subprocess.run(cmd, cwd=cwd, env=ENV, shell=isinstance(cmd, str), stdout=subprocess.PIPE, stderr=subprocess.STDOUT, timeout=timeout)
    return p.returncode, p.stdout.decode("utf-8", "replace")


def suite(wt):
    """per-package result of the repository's own suite (ok / FAIL / setup failed), both modules"""
    res = {}
    for mod in ("", "v2"):
        rc, out = sh("go test -vet=off -count=1 ./... 2>&1", cwd=os.path.join(wt, mod))
        for line in out.splitlines():
            m = re.match(r"^(ok|FAIL|---|\?)\s+(\S+)", line)
            if m and m.group(1) in ("ok", "FAIL", "?"):
                if "zz_demo" in m.group(2):
                    continue
                res[(mod or "root") + ":" + m.group(2)] = m.group(1) + (" [setup failed]" if "setup failed" in line else "")
    return res


def main():
    a = sys.argv[1:]
    sid = a[0]
    checks = [sid]
    src = "/tmp/seed-out/" + sid
    tier = "quick"
    name = sid
    modroot = False  # the demonstration lives in the root module (zz_demo/) instead of v2/zz_demo/
    i = 1
    while i < len(a):
        if a[i] == "--checks":
            checks = a[i + 1].split(","); i += 2
        elif a[i] == "--src":
            src = a[i + 1]; i += 2
        elif a[i] == "--tier":
            tier = a[i + 1]; i += 2
        elif a[i] == "--name":
            name = a[i + 1]; i += 2
        elif a[i] == "--root":
            modroot = True; i += 1
        else:
            raise SystemExit("bad arg " + a[i])
    patch = os.path.join(src, "patch.diff")
    demos = [f for f in glob.glob(os.path.join(src, "*.go"))]
    meta = dict(seed=name, property=sid, source=src, time=time.strftime("%Y-%m-%d %H:%M:%S"), repo_head=sh("git -C /repo rev-parse --short HEAD")[1].strip())
    wt = "/tmp/seedchk/" + name
    sh("git -C /repo worktree remove --force %s" % wt)
    shutil.rmtree(wt, ignore_errors=True)
    rc, out = sh("git -C /repo worktree add -q --detach %s HEAD" % wt)
    if rc != 0:
        raise SystemExit("worktree: " + out)
    try:
        moddir = wt if modroot else os.path.join(wt, "v2")
        demo_dir = os.path.join(moddir, "zz_demo")
        if os.path.isdir(os.path.join(src, "zz_demo")):
            shutil.copytree(os.path.join(src, "zz_demo"), demo_dir, dirs_exist_ok=True)
        os.makedirs(demo_dir, exist_ok=True)
        for d in demos:
            shutil.copy(d, demo_dir)
        demo_cmd = "go test -tags verif -vet=off -count=1 ./zz_demo/..."
        rc0, out0 = sh(demo_cmd, cwd=moddir)
        meta["demo_cmd"] = "cd <worktree>%s && " % ("" if modroot else "/v2") + demo_cmd
        meta["demo_without_change"] = "PASS" if rc0 == 0 else "FAIL"
        base = suite(wt)
        rc, out = sh("git apply --3way %s || git apply %s" % (patch, patch), cwd=wt)
        rc, out = sh("git apply --check -R %s" % patch, cwd=wt)
        meta["patch_applies"] = rc == 0
        if rc != 0:
            meta["patch_error"] = out[-2000:]
        rc1, out1 = sh(demo_cmd, cwd=moddir)
        meta["demo_with_change"] = "PASS" if rc1 == 0 else "FAIL"
        meta["demo_with_change_output"] = out1[-1500:]
        changed = suite(wt)
        diff = {k: (base.get(k), changed.get(k)) for k in set(base) | set(changed) if base.get(k) != changed.get(k)}
        meta["suite_same_as_baseline"] = not diff
        meta["suite_diff"] = {k: list(v) for k, v in diff.items()}
        rc, out = sh("go build ./... 2>&1 | grep -v 'function main is undeclared\\|restlidata/generated$' | head -5", cwd=os.path.join(wt, "v2"))
        meta["builds"] = "does not compile" not in out and ".go:" not in out
        confirmed = meta["patch_applies"] and meta["demo_without_change"] == "PASS" and meta["demo_with_change"] == "FAIL" and meta["suite_same_as_baseline"]
        meta["confirmed"] = bool(confirmed)
        # run the registered checks against the scratch worktree that holds the change (VERIF_REPO): /repo itself is never
        # touched, so other runs against it are not disturbed; the demonstration package is removed first
        results = {}
        if meta["patch_applies"]:
            import hashlib
            shutil.rmtree(demo_dir, ignore_errors=True)
            alt = os.path.join(VERIF, ".work", "alt-" + hashlib.md5(wt.encode()).hexdigest()[:8])
            try:
                for c in checks:
                    t0 = time.time()
                    rc, out = sh("VERIF_REPO=%s VERIF_OUTROOT=%s ./check %s --tier %s" % (wt, os.path.join(VERIF, ".work", "seedout"), c, tier), cwd=VERIF, timeout=3600)
                    viol = [l for l in out.splitlines() if l.startswith("VIOLATION")]
                    first = ""
                    lines = out.splitlines()
                    for j, l in enumerate(lines):
                        if l.startswith("VIOLATION") or l.startswith("INFRA"):
                            first = "\n".join(lines[j:j + 4])[:1200]
                            break
                    results[c] = dict(exit=rc, violations=len(viol), wall_s=round(time.time() - t0, 1), first=first, tail=out.splitlines()[-1] if out.strip() else "")
            finally:
                sh("chmod -R u+w %s 2>/dev/null; rm -rf %s" % (alt, alt))
        meta["checks"] = results
        meta["caught_by"] = [c for c, r in results.items() if isinstance(r, dict) and r.get("exit") == 1]
    finally:
        sh("git -C /repo worktree remove --force %s" % wt)
        shutil.rmtree(wt, ignore_errors=True)
    dst = os.path.join(VERIF, "seeded", name)
    os.makedirs(dst, exist_ok=True)
    shutil.copy(patch, os.path.join(dst, "patch.diff"))
    for d in demos:
        shutil.copy(d, dst)
    if os.path.isdir(os.path.join(src, "zz_demo")):
        shutil.copytree(os.path.join(src, "zz_demo"), os.path.join(dst, "zz_demo"), dirs_exist_ok=True,
                        ignore=shutil.ignore_patterns("out", "*.gr.go", "*.gr.json"))
    if os.path.exists(os.path.join(src, "notes.md")):
        shutil.copy(os.path.join(src, "notes.md"), dst)
    json.dump(meta, open(os.path.join(dst, "meta.json"), "w"), indent=1)
    print(json.dumps({k: meta[k] for k in ("seed", "confirmed", "patch_applies", "demo_without_change", "demo_with_change", "suite_same_as_baseline", "caught_by")}, indent=1))
    for c, r in results.items():
        print(c, r if not isinstance(r, dict) else (r["exit"], r["violations"], r["tail"]))
        if isinstance(r, dict) and r.get("first"):
            print(r["first"])


if __name__ == "__main__":
    main()
