"""The property table: one module per property under driver/table/ (cNN.py), each with register(prop, J)."""
import importlib, os, sys

_dir = os.path.join(os.path.dirname(os.path.abspath(__file__)), "table")
sys.path.insert(0, _dir)


def register(prop, J):
    for fn in sorted(os.listdir(_dir)):
        if fn.endswith(".py") and fn[0] == "c":
            importlib.import_module(fn[:-3]).register(prop, J)
