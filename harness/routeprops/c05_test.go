package routeprops

// C05 - routing and Rest.li method inference send each request to exactly one method.
//
// Domain: registered resource trees (collection / simple / action-set nodes, nesting 0-3, method / finder / action
// subsets) x requests (verb x X-RestLi-Method header x path shape x reserved and other query parameters x tunnelled
// or not) x 0-3 filters (passing, context-adding, failing) x mounting (bare Handler(), ServeMux via AddToMux,
// NewPrefixedServer bare and behind a ServeMux, a real httptest.Server) x registrations made after Handler().
// Oracle: verif/core/model/routemodel (DESIGN.md Appendix B), which imports nothing from go-restli.
// Requests are real wire bytes parsed by http.ReadRequest (or written to a TCP connection for the http mount), so
// URL.Path / RawPath are what net/http produces.
//
// Check names (one replay file each, so that one defect does not hide another):
//   route-5xx, route-status, route-recorder, filter-order, filter-view, filter-ctx   bare handler, well-formed input
//   bad-query-500 / bad-query   query string with excess ')' (expected: 404 for unknown resources, else 400)
//   bad-body                    malformed document on a routed request (expected 400, nothing invoked)
//   late-registration           registrations after Handler()
//   mount-mux, mount-prefix, mount-prefix-mux, mount-http   mounting variants

import (
	"bufio"
	"bytes"
	"fmt"
	"net"
	"net/http"
	"net/http/httptest"
	"sort"
	"strings"
	"testing"
	"time"

	"github.com/PapaCharlie/go-restli/v2/restli"
	"pgregory.net/rapid"

	"verif/core/hx"
	"verif/core/model/routemodel"
	"verif/core/stats"
)

func TestMain(m *testing.M) { hx.Main(m) }

type Node = routemodel.Node

type routeCase struct {
	Tree      []*Node            `json:"tree"`
	Late      []*Node            `json:"late,omitempty"`      // registered after the first Handler() was obtained
	UseNew    bool               `json:"use_new,omitempty"`   // send to a Handler() obtained after the late registrations
	Req       routemodel.Request `json:"request"`             // the logical (de-tunnelled) request, path after the mount prefix
	Tunnelled bool               `json:"tunnelled,omitempty"` // sent as POST + X-HTTP-Method-Override
	Filters   []string           `json:"filters,omitempty"`   // pass | ctx | fail
	Mount     string             `json:"mount"`               // bare | mux | prefix | prefix-mux | http
	Outside   bool               `json:"outside,omitempty"`   // prefix mounts: request sent without the prefix

	treeKey string
}

var bodyBytes = map[routemodel.Body]string{
	routemodel.BodyNone:      "",
	routemodel.BodyMinimal:   `{}`,
	routemodel.BodyElements:  `{"elements":[]}`,
	routemodel.BodyEntities:  `{"entities":{}}`,
	routemodel.BodyUniversal: `{"elements":[],"entities":{}}`,
	routemodel.BodyMalformed: `{"elements":[`,
}

func (c routeCase) prefixed() bool {
	return c.Mount == "prefix" || c.Mount == "prefix-mux" || c.Mount == "prefix-addtomux"
}

// wire renders the request as HTTP/1.1 bytes.
func (c routeCase) wire() []byte {
	body, ok := bodyBytes[c.Req.Body]
	if !ok {
		panic("harness: unknown body kind " + string(c.Req.Body))
	}
	verb, query := c.Req.Verb, c.Req.Query
	var extra http.Header
	if c.Tunnelled {
		nb, h := restli.EncodeTunnelledQuery(verb, query, []byte(body))
		verb, query, body, extra = "POST", "", string(nb), h
	} else if body != "" {
		extra = http.Header{"Content-Type": {"application/json"}}
	}
	target := c.Req.Path
	if c.prefixed() && !c.Outside {
		target = mountPrefix + target
	}
	if target == "" {
		target = "http://x" // absolute-form request target with an empty path
	}
	if query != "" {
		target += "?" + query
	}
	var b bytes.Buffer
	fmt.Fprintf(&b, "%s %s HTTP/1.1\r\nHost: x\r\n", verb, target)
	if c.Req.HasHeader {
		fmt.Fprintf(&b, "X-RestLi-Method: %s\r\n", c.Req.Header)
	}
	keys := make([]string, 0, len(extra))
	for k := range extra {
		keys = append(keys, k)
	}
	sort.Strings(keys)
	for _, k := range keys {
		for _, v := range extra[k] {
			fmt.Fprintf(&b, "%s: %s\r\n", k, v)
		}
	}
	if c.Mount == "http" {
		b.WriteString("Connection: close\r\n")
	}
	fmt.Fprintf(&b, "Content-Length: %d\r\n\r\n%s", len(body), body)
	return b.Bytes()
}

// ---- server cache -------------------------------------------------------------------------------------------------------

var cache = map[string]*built{}

func getBuilt(c routeCase) *built {
	tk := c.treeKey
	if tk == "" {
		tk = hx.J(c.Tree)
	}
	key := tk + "|" + hx.J(c.Late) + "|" + strings.Join(c.Filters, ",") + "|" + c.Mount
	if b, ok := cache[key]; ok {
		return b
	}
	if len(cache) >= 128 {
		for k, b := range cache {
			b.close()
			delete(cache, k)
		}
	}
	b := build(c.Tree, c.Late, c.Filters, c.Mount)
	cache[key] = b
	return b
}

// ---- observation -----------------------------------------------------------------------------------------------------------

type obs struct {
	Status int     `json:"status"`
	Events []event `json:"events"`
	Panic  string  `json:"panic,omitempty"`
}

func send(b *built, c routeCase) obs {
	wire := c.wire()
	b.w.take()
	var ob obs
	if c.Mount == "http" {
		conn, err := net.Dial("tcp", b.srv.Listener.Addr().String())
		if err != nil {
			panic("harness: dial: " + err.Error())
		}
		defer conn.Close()
		_ = conn.SetDeadline(time.Now().Add(20 * time.Second))
		if _, err = conn.Write(wire); err != nil {
			panic("harness: write: " + err.Error())
		}
		verb := c.Req.Verb
		if c.Tunnelled {
			verb = "POST"
		}
		res, err := http.ReadResponse(bufio.NewReader(conn), &http.Request{Method: verb})
		if err != nil {
			ob.Panic = "no HTTP response (connection dropped): " + err.Error()
		} else {
			ob.Status = res.StatusCode
			res.Body.Close()
		}
	} else {
		req, err := http.ReadRequest(bufio.NewReader(bytes.NewReader(wire)))
		if err != nil {
			panic(fmt.Sprintf("harness: generated request does not parse: %v\n%q", err, wire))
		}
		h := b.handler
		if c.UseNew {
			h = b.handler2
		}
		rr := httptest.NewRecorder()
		if panicked, pv, stack := hx.Try(func() { h.ServeHTTP(rr, req) }); panicked {
			ob.Panic = fmt.Sprintf("ServeHTTP panicked: %v\n%s", pv, stack)
		}
		ob.Status = rr.Code
	}
	ob.Events = b.w.take()
	return ob
}

// ---- judging -----------------------------------------------------------------------------------------------------------------

func sameStrings(a, b []string) bool {
	if len(a) != len(b) {
		return false
	}
	for i := range a {
		if a[i] != b[i] {
			return false
		}
	}
	return true
}

func firstFail(filters []string) int {
	for i, f := range filters {
		if f == "fail" {
			return i
		}
	}
	return -1
}

func seqString(evs []event) string {
	var parts []string
	for _, e := range evs {
		if e.Kind == "call" {
			parts = append(parts, fmt.Sprintf("call(%s %s %s %q)", e.Node, e.Method, e.Name, e.Keys))
		} else {
			parts = append(parts, fmt.Sprintf("%s%d", e.Kind, e.Filter))
		}
	}
	return "[" + strings.Join(parts, " ") + "]"
}

// viewOK: what a filter (or the recorder) saw through the Get*FromContext accessors equals the model.
func viewOK(e event, o routemodel.Outcome) string {
	who := fmt.Sprintf("%s%d", e.Kind, e.Filter)
	if e.Kind == "call" {
		who = "the resource method"
	}
	if e.CtxMethod != o.Method {
		return fmt.Sprintf("%s saw method %q, routed method is %q", who, e.CtxMethod, o.Method)
	}
	if want := expectedSegs(o.NodePath); e.Segs != want {
		return fmt.Sprintf("%s saw resource path %s, routed resource is %s", who, e.Segs, want)
	}
	if e.CtxName != o.Name {
		return fmt.Sprintf("%s saw finder/action name %q, routed one is %q", who, e.CtxName, o.Name)
	}
	if e.Kind != "call" && o.KeysDecode == routemodel.DecodeOK {
		if e.KeyErr != "" || !sameStrings(e.Keys, o.Keys) {
			return fmt.Sprintf("%s saw entity keys %q (err %q), request has %q", who, e.Keys, e.KeyErr, o.Keys)
		}
	}
	return ""
}

// matchInvoked: the routed request behaves as "method invoked" (or is stopped by the failing filter).
func matchInvoked(c routeCase, o routemodel.Outcome, ob obs) (kind, msg string) {
	n, fi := len(c.Filters), firstFail(c.Filters)
	var want []string
	if fi >= 0 {
		for i := 0; i <= fi; i++ {
			want = append(want, fmt.Sprintf("pre%d", i))
		}
	} else {
		for i := 0; i < n; i++ {
			want = append(want, fmt.Sprintf("pre%d", i))
		}
		want = append(want, "call")
		for i := n - 1; i >= 0; i-- {
			want = append(want, fmt.Sprintf("post%d", i))
		}
	}
	var calls []event
	var got []string
	for _, e := range ob.Events {
		if e.Kind == "call" {
			calls = append(calls, e)
			got = append(got, "call")
		} else {
			got = append(got, fmt.Sprintf("%s%d", e.Kind, e.Filter))
		}
	}
	if fi >= 0 {
		if len(calls) != 0 {
			return "recorder", fmt.Sprintf("filter %d fails in PreRequest but the request reached resource code: %s", fi, seqString(ob.Events))
		}
	} else {
		if len(calls) != 1 {
			return "recorder", fmt.Sprintf("expected exactly the recorder of %s %s %q to fire, log is %s (status %d)", o.NodeString(), o.Method, o.Name, seqString(ob.Events), ob.Status)
		}
		e := calls[0]
		if e.Node != o.NodeString() || e.Method != o.Method || e.Name != o.Name {
			return "recorder", fmt.Sprintf("wrong method invoked: %s %s %q (late=%v), model routes to %s %s %q", e.Node, e.Method, e.Name, e.Late, o.NodeString(), o.Method, o.Name)
		}
		if o.KeysDecode == routemodel.DecodeOK && !sameStrings(e.Keys, o.Keys) {
			return "recorder", fmt.Sprintf("recorder received keys %q, request has %q", e.Keys, o.Keys)
		}
	}
	if !sameStrings(got, want) {
		return "filter-order", fmt.Sprintf("filter / method call order is %v, expected %v", got, want)
	}
	for _, e := range ob.Events {
		if m := viewOK(e, o); m != "" {
			return "filter-view", m
		}
	}
	if fi < 0 {
		var wantCtx []int
		for i, f := range c.Filters {
			if f == "ctx" {
				wantCtx = append(wantCtx, i)
			}
		}
		if fmt.Sprint(calls[0].Ctx) != fmt.Sprint(wantCtx) {
			return "filter-ctx", fmt.Sprintf("resource saw the context values of filters %v, expected those of %v", calls[0].Ctx, wantCtx)
		}
		if ob.Status < 200 || ob.Status >= 400 {
			return "status", fmt.Sprintf("method was invoked and succeeded but the status is %d", ob.Status)
		}
	} else if ob.Status >= 200 && ob.Status < 300 {
		return "status", fmt.Sprintf("filter %d failed in PreRequest but the status is %d", fi, ob.Status)
	}
	return "", ""
}

// matchDecodeFail: routed, but key / parameters / body do not decode: 400 and nothing invoked. Filters may or may not
// have run before the decoding (the property orders them before the method, not before the decoding): a prefix of
// the PreRequest calls in registration order is accepted, no PostRequest.
func matchDecodeFail(c routeCase, o routemodel.Outcome, ob obs) (kind, msg string) {
	failReached := false
	next := 0
	for _, e := range ob.Events {
		switch e.Kind {
		case "call":
			return "recorder", fmt.Sprintf("request does not decode (%s) but resource code ran: %s", o.DecodeReason, seqString(ob.Events))
		case "post":
			return "filter-order", fmt.Sprintf("PostRequest ran although the method did not succeed: %s", seqString(ob.Events))
		case "pre":
			if e.Filter != next || failReached {
				return "filter-order", fmt.Sprintf("PreRequest order %s is not registration order", seqString(ob.Events))
			}
			next++
			if c.Filters[e.Filter] == "fail" {
				failReached = true
			}
			if m := viewOK(e, o); m != "" {
				return "filter-view", m
			}
		}
	}
	if failReached {
		if ob.Status >= 200 && ob.Status < 300 {
			return "status", fmt.Sprintf("a filter failed but the status is %d", ob.Status)
		}
	} else if ob.Status != 400 {
		return "status", fmt.Sprintf("routed to %s %s %q but %s does not decode: expected 400, got %d", o.NodeString(), o.Method, o.Name, o.DecodeReason, ob.Status)
	}
	return "", ""
}

func match(c routeCase, o routemodel.Outcome, ob obs) (kind, msg string) {
	switch o.Kind {
	case routemodel.NotFound404, routemodel.BadRequest400:
		want := 404
		if o.Kind == routemodel.BadRequest400 {
			want = 400
		}
		if len(ob.Events) > 0 {
			k := "filter-order"
			for _, e := range ob.Events {
				if e.Kind == "call" {
					k = "recorder"
				}
			}
			return k, fmt.Sprintf("request is not routed (%s) but touched filters / resource code: %s (status %d)", o.Reason, seqString(ob.Events), ob.Status)
		}
		if o.Only4xx {
			if ob.Status < 400 || ob.Status >= 500 {
				return "status", fmt.Sprintf("unrouted request (%s): expected a 4xx, got %d", o.Reason, ob.Status)
			}
		} else if ob.Status != want {
			return "status", fmt.Sprintf("unrouted request (%s): expected %d, got %d", o.Reason, want, ob.Status)
		}
		return "", ""
	case routemodel.Routed:
		switch o.Decode {
		case routemodel.DecodeOK:
			return matchInvoked(c, o, ob)
		case routemodel.DecodeFails:
			return matchDecodeFail(c, o, ob)
		default:
			k, m := matchInvoked(c, o, ob)
			if k == "" {
				return "", ""
			}
			if k2, _ := matchDecodeFail(c, o, ob); k2 == "" {
				return "", ""
			}
			return k, m
		}
	default: // Unspecified
		if len(o.Alternatives) == 0 && !o.Or4xx {
			return "", ""
		}
		fk, fm := "", ""
		for _, a := range o.Alternatives {
			k, m := match(c, a, ob)
			if k == "" {
				return "", ""
			}
			if fk == "" {
				fk, fm = k, m
			}
		}
		if o.Or4xx && ob.Status >= 400 && ob.Status < 500 && len(ob.Events) == 0 {
			return "", ""
		}
		if fk == "" {
			fk, fm = "status", fmt.Sprintf("expected a 4xx that touches nothing, got %d %s", ob.Status, seqString(ob.Events))
		}
		return fk, fmt.Sprintf("unspecified (%s): no acceptable alternative matched; first: %s", o.Reason, fm)
	}
}

func expected(c routeCase) routemodel.Outcome {
	if c.Outside && c.prefixed() {
		return routemodel.Outcome{Kind: routemodel.NotFound404, Reason: "outside-mount-prefix"}
	}
	tree := c.Tree
	if c.Late != nil && c.UseNew {
		tree = routemodel.Merge(c.Tree, c.Late)
	}
	return routemodel.Route(tree, c.Req)
}

func describe(c routeCase, o routemodel.Outcome, ob obs) string {
	w := c.wire()
	if len(w) > 600 {
		w = append(w[:600:600], "..."...)
	}
	return fmt.Sprintf("\n mount=%s filters=%v tunnelled=%v late=%v use_new=%v\n wire=%q\n model=%s\n observed: status=%d log=%s\n tree=%s",
		c.Mount, c.Filters, c.Tunnelled, c.Late != nil, c.UseNew, w, hx.J(o), ob.Status, seqString(ob.Events), hx.J(c.Tree))
}

// checkRoute evaluates one case. It returns the check name and message of a violation, or "", "".
func checkRoute(rec *stats.Recorder, c routeCase) (name, msg string) {
	b := getBuilt(c)
	o := expected(c)
	ob := send(b, c)

	labels := []string{"mount=" + c.Mount, "outcome=" + o.Kind.String(), "reason=" + o.Reason, fmt.Sprintf("filters=%d", len(c.Filters))}
	if o.Kind == routemodel.Routed {
		labels = append(labels, "routed:"+o.Method, "decode="+o.Decode.String())
		if o.DecodeReason != "" {
			labels = append(labels, "decode_reason="+o.DecodeReason)
		}
		if len(o.NodePath) > 1 {
			labels = append(labels, fmt.Sprintf("depth=%d", len(o.NodePath)))
		}
	}
	if c.Tunnelled {
		labels = append(labels, "tunnelled")
	}
	if c.Req.HasHeader {
		labels = append(labels, "has_method_header")
	}
	if firstFail(c.Filters) >= 0 {
		labels = append(labels, "failing_filter")
	}
	if c.Late != nil {
		labels = append(labels, fmt.Sprintf("late_registration,new_handler=%v", c.UseNew))
	}
	rec.Case(labels...)
	if o.PathResolved {
		tk := c.treeKey
		if tk == "" {
			tk = hx.J(c.Tree)
		}
		rec.NonTrivial(o.Kind.String()+":"+o.Reason, tk+hx.J(c.Late)+fmt.Sprint(c.UseNew, c.Tunnelled, c.Mount, c.Filters)+hx.J(c.Req), func() any { return c })
	}

	// unconditional parts
	kind, m := "", ""
	calls, failReached := 0, false
	for _, e := range ob.Events {
		if e.Kind == "call" {
			calls++
		}
		if e.Kind == "pre" && e.Filter < len(c.Filters) && c.Filters[e.Filter] == "fail" {
			failReached = true
		}
		if e.Panic != "" && kind == "" {
			kind, m = "filter-view", fmt.Sprintf("a Get*FromContext accessor panicked in %s%d: %s", e.Kind, e.Filter, e.Panic)
		}
	}
	switch {
	case ob.Panic != "":
		kind, m = "5xx", ob.Panic
	case calls > 1:
		kind, m = "recorder", fmt.Sprintf("%d methods invoked for one request: %s", calls, seqString(ob.Events))
	case ob.Status >= 500 && !failReached:
		kind, m = "5xx", fmt.Sprintf("status %d (model: %s %s)", ob.Status, o.Kind, o.Reason)
	}
	if kind == "" {
		kind, m = match(c, o, ob)
	}
	if kind == "" {
		return "", ""
	}
	wellFormed, _ := routemodel.QueryWellFormed(c.Req.Query)
	switch {
	case c.Mount != "bare":
		name = "mount-" + c.Mount
	case c.Late != nil:
		name = "late-registration"
	case !wellFormed && kind == "5xx":
		name = "bad-query-500"
	case !wellFormed:
		name = "bad-query"
	case c.Req.Body == routemodel.BodyMalformed:
		name = "bad-body"
	case strings.HasPrefix(kind, "filter-"):
		name = kind
	default:
		name = "route-" + kind
	}
	return name, m + describe(c, o, ob)
}

// ---- vocabulary ---------------------------------------------------------------------------------------------------------------

var verbs = []string{"GET", "POST", "PUT", "DELETE", "PATCH"}

type hdr struct {
	has bool
	val string
}

func headers() []hdr {
	hs := []hdr{{false, ""}}
	for _, m := range routemodel.MethodNames {
		hs = append(hs, hdr{true, m})
	}
	return append(hs, hdr{true, "bogus"})
}

var queries = []string{"", "q=f1", "q=nope", "ids=List(a,b)", "action=a1", "action=nope", "q=f1&ids=List(a)", "other=1"}

var filterCfgs = [][]string{
	nil, {"pass"}, {"ctx"}, {"pass", "ctx"}, {"ctx", "pass", "ctx"}, {"pass", "fail"}, {"fail", "pass"}, {"ctx", "pass", "fail"}, {"pass", "pass", "pass"},
}

// chooseBody picks the document to send: the minimal valid one of the method the model routes to, so that routed
// requests decode; otherwise one that fits the header's method or the verb.
func chooseBody(tree []*Node, r routemodel.Request) routemodel.Body {
	r.Body = routemodel.BodyUniversal
	o := routemodel.Route(tree, r)
	if o.Kind == routemodel.Routed {
		return routemodel.BodyFor(o.Method)
	}
	for _, a := range o.Alternatives {
		if a.Kind == routemodel.Routed {
			return routemodel.BodyFor(a.Method)
		}
	}
	if r.HasHeader && routemodel.VerbOf(r.Header) != "" {
		return routemodel.BodyFor(r.Header)
	}
	if r.Verb == "POST" || r.Verb == "PUT" || r.Verb == "PATCH" {
		return routemodel.BodyMinimal
	}
	return routemodel.BodyNone
}

var simpleMethods = []string{"get", "update", "delete", "partial_update"}

func coll(name string, methods, finders, actions []string, children ...*Node) *Node {
	return &Node{Name: name, Collection: true, Methods: methods, Finders: finders, Actions: actions, Children: children}
}

func simple(name string, methods, actions []string, children ...*Node) *Node {
	return &Node{Name: name, Methods: methods, Actions: actions, Children: children}
}

func fullColl(name string, children ...*Node) *Node {
	return coll(name, routemodel.PlainMethods, []string{"f1"}, []string{"a1"}, children...)
}

func fullSimple(name string, children ...*Node) *Node {
	return simple(name, simpleMethods, []string{"a1"}, children...)
}

type famTree struct {
	name  string
	roots []*Node
}

// family: the fixed family of registered trees of the exhaustive part.
func family() []famTree {
	var f []famTree
	add := func(name string, roots ...*Node) { f = append(f, famTree{name, roots}) }
	add("coll-full", fullColl("res"))
	anyp := fullColl("res")
	anyp.AnyParams = true
	anyp.Actions = []string{"a1", "a2"}
	add("coll-full-anyparams", anyp)
	for _, m := range routemodel.PlainMethods {
		add("coll-only-"+m, coll("res", []string{m}, nil, nil))
	}
	add("coll-only-finder", coll("res", nil, []string{"f1"}, nil))
	add("coll-only-action", coll("res", nil, nil, []string{"a1"}))
	add("coll-mixed-1", coll("res", []string{"get", "batch_get"}, []string{"f1"}, nil))
	add("coll-mixed-2", coll("res", []string{"create", "update", "delete", "get_all"}, nil, nil))
	add("coll-mixed-3", coll("res", []string{"batch_update", "batch_delete", "partial_update"}, nil, []string{"a1"}))
	add("coll-mixed-4", coll("res", []string{"get_all", "batch_create", "batch_partial_update"}, []string{"f2"}, []string{"a2"}))
	add("coll-empty", coll("res", nil, nil, nil), fullColl("other")) // a resource without methods registers nothing
	add("simple-full", fullSimple("res"))
	for _, m := range simpleMethods {
		add("simple-only-"+m, simple("res", []string{m}, nil))
	}
	add("action-set", simple("res", nil, []string{"a1"}))
	add("coll/coll", fullColl("res", fullColl("sub")))
	add("coll/simple", coll("res", []string{"get"}, nil, nil, fullSimple("sub")))
	add("simple/coll", fullSimple("res", fullColl("sub")))
	add("coll/coll/simple", fullColl("res", coll("sub", []string{"get", "create"}, []string{"f1"}, nil, fullSimple("leaf"))))
	add("emptycoll/coll", coll("res", nil, nil, nil, coll("sub", []string{"get"}, nil, nil)))
	add("two-roots-prefix-names", coll("res", []string{"get", "get_all"}, nil, nil), simple("resx", []string{"get"}, nil), coll("re", []string{"get"}, nil, nil))
	add("child-named-like-key", fullColl("res", fullSimple("k", fullColl("k"))))
	if stats.Thorough() {
		pm := routemodel.PlainMethods
		for i := range pm {
			for j := i + 1; j < len(pm); j++ {
				add("coll-pair-"+pm[i]+"+"+pm[j], coll("res", []string{pm[i], pm[j]}, nil, nil))
			}
		}
		add("simple/simple", fullSimple("res", fullSimple("sub")))
		add("coll/coll/coll", fullColl("res", fullColl("sub", fullColl("leaf"))))
		add("simple/coll/simple", fullSimple("res", fullColl("sub", fullSimple("leaf"))))
	}
	return f
}

// pathShapes instantiates the path shapes for a tree: R root name, S a child name, T a grandchild name.
func pathShapes(roots []*Node) []string {
	R, S, T := roots[0].Name, "sub", "leaf"
	if len(roots[0].Children) > 0 {
		S = roots[0].Children[0].Name
		if len(roots[0].Children[0].Children) > 0 {
			T = roots[0].Children[0].Children[0].Name
		}
	}
	shapes := []string{
		"/R", "/R/", "/R/k", "/R/k/", "/R/k/S", "/R/k/S/", "/R/k/S/k2", "/R/S", "/R/S/k2", "/R/k/S/k2/T", "/R/S/k2/T", "/R/S/T",
		"/unknown", "/R/k/unknown", "/R/unknown/S", "/Rx", "/x/R", "", "/", "//R",
		"/R/(a:1)", "/R/a)", "/R/a%2Fb", "/R/a%20b/S", "/R/..",
	}
	out := make([]string, 0, len(shapes))
	seen := map[string]bool{}
	for _, s := range shapes {
		p := strings.NewReplacer("R", R, "S", S, "T", T).Replace(s)
		if !seen[p] {
			seen[p] = true
			out = append(out, p)
		}
	}
	return out
}

// ---- exhaustive product --------------------------------------------------------------------------------------------------

type worst struct {
	c     routeCase
	msg   string
	size  int
	count int
}

type tally struct {
	rec *stats.Recorder
	by  map[string]*worst
}

func newTally(rec *stats.Recorder) *tally { return &tally{rec: rec, by: map[string]*worst{}} }

func caseSize(c routeCase) int {
	return len(c.wire()) + 40*len(hx.J(c.Tree))/10 + 100*len(c.Filters) + 200*len(c.Late)
}

func (tl *tally) add(name, msg string, c routeCase) {
	w := tl.by[name]
	sz := caseSize(c)
	if w == nil {
		w = &worst{c: c, msg: msg, size: sz}
		tl.by[name] = w
		tl.rec.Violation(name, msg, c) // crash-safe: recorded at the first occurrence, refined at the end
	} else if sz < w.size {
		w.c, w.msg, w.size = c, msg, sz
	}
	w.count++
}

func (tl *tally) finish(t *testing.T) {
	names := make([]string, 0, len(tl.by))
	for n := range tl.by {
		names = append(names, n)
	}
	sort.Strings(names)
	for _, n := range names {
		w := tl.by[n]
		msg := fmt.Sprintf("[%d failing cases in this enumeration; smallest shown] %s", w.count, w.msg)
		tl.rec.Violation(n, msg, w.c)
		t.Errorf("%s: %s", n, msg)
	}
}

func mix(i int) int { return int((uint32(i) * 2654435761) >> 12) }

// product enumerates family x verbs x headers x path shapes x queries x tunnelled. every-th element (offset by the
// mount's index) is evaluated; mount "bare" uses every == 1, i.e. the complete product.
func product(t *testing.T, rec *stats.Recorder, mount string, every int, space string) {
	si, sn := hx.ShardIndex()
	tl := newTally(rec)
	idx, evaluated := 0, int64(0)
	hs := headers()
	for _, ft := range family() {
		tk := hx.J(ft.roots)
		for _, p := range pathShapes(ft.roots) {
			if (mount == "mux" || mount == "prefix-mux" || mount == "prefix-addtomux") && (p == "" || strings.Contains(p, "//") || strings.Contains(p, "..")) {
				continue // ServeMux redirects paths it considers unclean; not Rest.li routing
			}
			for _, v := range verbs {
				for _, h := range hs {
					for _, q := range queries {
						for tun := 0; tun < 2; tun++ {
							if tun == 1 && q == "" {
								continue // clients tunnel only long (hence non-empty) queries
							}
							idx++
							if idx%every != 0 || (idx/every)%sn != si {
								continue
							}
							c := routeCase{Tree: ft.roots, Mount: mount, Tunnelled: tun == 1, treeKey: tk,
								Req:     routemodel.Request{Verb: v, Path: p, HasHeader: h.has, Header: h.val, Query: q},
								Filters: filterCfgs[mix(idx)%len(filterCfgs)]}
							c.Req.Body = chooseBody(ft.roots, c.Req)
							if c.prefixed() && mix(idx+7)%16 == 0 {
								c.Outside = true
							}
							evaluated++
							if name, msg := checkRoute(rec, c); name != "" {
								tl.add(name, msg, c)
							}
						}
					}
				}
			}
		}
	}
	rec.Exhaustive("["+hx.Gen()+"] "+space, evaluated)
	tl.finish(t)
}

func skipIfReplaying(t *testing.T) {
	if hx.Replaying() {
		t.Skip()
	}
}

// TestC05Replay evaluates the case of any C05 replay file.
func TestC05Replay(t *testing.T) {
	c, ok := hx.Replay[routeCase]("C05", "")
	if !ok {
		t.Skip()
	}
	rec := stats.For("C05")
	if name, msg := checkRoute(rec, c); name != "" {
		rec.Violation(name, msg, c)
		t.Fatal(msg)
	}
}

// TestC05Exhaustive: the complete product on the bare handler (filters rotate deterministically over the product).
func TestC05Exhaustive(t *testing.T) {
	skipIfReplaying(t)
	product(t, stats.For("C05"), "bare", 1, "family x verb x header x path x query x tunnelled (bare handler; filter configuration rotated)")
}

// Mounting variants: each its own test (and check name) so that a defect of one mounting cannot hide the rest.
func TestC05MountMux(t *testing.T) {
	skipIfReplaying(t)
	product(t, stats.For("C05"), "mux", 13, "1/13 sample of the product behind http.ServeMux via AddToMux")
}

func TestC05MountPrefix(t *testing.T) {
	skipIfReplaying(t)
	product(t, stats.For("C05"), "prefix", 17, "1/17 sample of the product under NewPrefixedServer(\"/api/v1\")")
}

func TestC05MountPrefixMux(t *testing.T) {
	skipIfReplaying(t)
	product(t, stats.For("C05"), "prefix-mux", 19, "1/19 sample of the product under NewPrefixedServer behind a ServeMux pattern")
}

// (added last: NewPrefixedServer registered on a ServeMux through its own AddToMux - the patterns carry the prefix)
func TestC05MountPrefixAddToMux(t *testing.T) {
	skipIfReplaying(t)
	product(t, stats.For("C05"), "prefix-addtomux", 23, "1/23 sample of the product under NewPrefixedServer registered with AddToMux")
}

func TestC05MountHTTP(t *testing.T) {
	skipIfReplaying(t)
	every := 211
	if stats.Thorough() {
		every = 53
	}
	product(t, stats.For("C05"), "http", every, "sample of the product through a real httptest.Server")
}

// TestC05BadBody: routed requests of body-taking methods with a malformed document: 400, nothing invoked.
func TestC05BadBody(t *testing.T) {
	skipIfReplaying(t)
	rec := stats.For("C05")
	tl := newTally(rec)
	n := int64(0)
	si, sn := hx.ShardIndex()
	idx := 0
	for _, ft := range family() {
		for _, p := range pathShapes(ft.roots) {
			for _, v := range []string{"POST", "PUT"} {
				for _, h := range headers() {
					for _, q := range []string{"", "ids=List(a,b)", "action=a1"} {
						for tun := 0; tun < 2; tun++ {
							if tun == 1 && q == "" {
								continue
							}
							idx++
							if idx%sn != si {
								continue
							}
							c := routeCase{Tree: ft.roots, Mount: "bare", Tunnelled: tun == 1, Filters: filterCfgs[mix(idx)%len(filterCfgs)],
								Req: routemodel.Request{Verb: v, Path: p, HasHeader: h.has, Header: h.val, Query: q, Body: routemodel.BodyMalformed}}
							if o := routemodel.Route(ft.roots, c.Req); o.Kind != routemodel.Routed || o.DecodeReason != "malformed-body" {
								continue
							}
							n++
							if name, msg := checkRoute(rec, c); name != "" {
								tl.add(name, msg, c)
							}
						}
					}
				}
			}
		}
	}
	rec.Exhaustive("["+hx.Gen()+"] routed body-taking requests of the product with a malformed document", n)
	tl.finish(t)
}

var badQueries = []string{"x=)", "q=f1&x=)", "ids=List(a))", "action=a1&p=())", "q=)", "x=1&y=(a:1))"}

// TestC05BadQuery: query strings that are not valid ROR2 (excess ')'). Unknown resources stay 404; everything else
// is a 400 that touches nothing ("provided keys, parameters and body decode, otherwise the answer is a 400").
func TestC05BadQuery(t *testing.T) {
	skipIfReplaying(t)
	rec := stats.For("C05")
	tl := newTally(rec)
	n := int64(0)
	si, sn := hx.ShardIndex()
	idx := 0
	for _, ft := range family() {
		for _, p := range pathShapes(ft.roots) {
			for _, v := range verbs {
				for _, h := range []hdr{{false, ""}, {true, "get"}, {true, "create"}, {true, "action"}, {true, "batch_get"}, {true, "finder"}} {
					for _, q := range badQueries {
						for tun := 0; tun < 2; tun++ {
							idx++
							if idx%sn != si {
								continue
							}
							c := routeCase{Tree: ft.roots, Mount: "bare", Tunnelled: tun == 1, Filters: filterCfgs[mix(idx)%len(filterCfgs)],
								Req: routemodel.Request{Verb: v, Path: p, HasHeader: h.has, Header: h.val, Query: q}}
							c.Req.Body = chooseBody(ft.roots, c.Req)
							n++
							if name, msg := checkRoute(rec, c); name != "" {
								tl.add(name, msg, c)
							}
						}
					}
				}
			}
		}
	}
	rec.Exhaustive("["+hx.Gen()+"] product with malformed (excess ')') query strings", n)
	tl.finish(t)
}

// ---- registrations after Handler() ----------------------------------------------------------------------------------------

type latePair struct {
	base, late []*Node
}

func latePairs() []latePair {
	return []latePair{
		{[]*Node{coll("res", []string{"get"}, nil, nil)}, []*Node{fullColl("other")}},                                                                                                                // new root resource
		{[]*Node{coll("res", []string{"get"}, nil, nil)}, []*Node{coll("res", []string{"create", "get_all", "delete", "batch_get"}, []string{"f1"}, []string{"a1"})}},                                // new methods on an existing resource
		{[]*Node{coll("res", []string{"get"}, nil, nil)}, []*Node{coll("res", nil, nil, nil, fullSimple("sub"))}},                                                                                    // new sub-resource
		{[]*Node{fullColl("res", coll("sub", []string{"get"}, nil, nil))}, []*Node{coll("res", nil, nil, nil, coll("sub", []string{"get_all", "create"}, []string{"f1"}, nil, fullSimple("leaf")))}}, // deeper
		{[]*Node{fullSimple("res")}, []*Node{simple("res", nil, []string{"a2"}, fullColl("sub")), simple("resx", []string{"get"}, nil)}},
	}
}

func lateRequests(merged []*Node) []routemodel.Request {
	var out []routemodel.Request
	for _, p := range []string{"/res", "/res/k", "/res/k/sub", "/res/sub", "/res/k/sub/k2", "/res/sub/k2", "/res/k/sub/k2/leaf", "/other", "/other/k", "/resx"} {
		for _, v := range verbs[:4] {
			for _, h := range headers() {
				for _, q := range []string{"", "q=f1", "ids=List(a,b)", "action=a1", "action=a2"} {
					r := routemodel.Request{Verb: v, Path: p, HasHeader: h.has, Header: h.val, Query: q}
					r.Body = chooseBody(merged, r)
					out = append(out, r)
				}
			}
		}
	}
	return out
}

func checkLate(rec *stats.Recorder, tl *tally, c routeCase) {
	for _, useNew := range []bool{false, true} {
		c.UseNew = useNew
		if name, msg := checkRoute(rec, c); name != "" {
			tl.add(name, msg, c)
		}
	}
}

// TestC05LateRegistration: h := Handler(); register more; h behaves per the original tree, a new Handler() per the
// merged tree.
func TestC05LateRegistration(t *testing.T) {
	skipIfReplaying(t)
	rec := stats.For("C05")
	tl := newTally(rec)
	n := int64(0)
	si, sn := hx.ShardIndex()
	idx := 0
	for _, lp := range latePairs() {
		merged := routemodel.Merge(lp.base, lp.late)
		// (behind a ServeMux the earlier handler is the mux AddToMux filled before the late registrations: it has the snapshot
		// and the patterns of the root resources known then)
		for _, mount := range []string{"bare", "mux", "prefix-addtomux"} {
			for _, r := range lateRequests(merged) {
				if mount != "bare" && (r.Path == "" || strings.Contains(r.Path, "//") || strings.Contains(r.Path, "..") || strings.Contains(r.Path, "/.")) {
					continue // ServeMux redirects unclean paths
				}
				idx++
				if idx%sn != si {
					continue
				}
				c := routeCase{Tree: lp.base, Late: lp.late, Mount: mount, Req: r, Filters: filterCfgs[mix(idx)%len(filterCfgs)]}
				n += 2
				checkLate(rec, tl, c)
			}
		}
	}
	rec.Exhaustive("["+hx.Gen()+"] late-registration pairs x requests x {old handler, new handler}", n)
	tl.finish(t)
}

// ---- rapid -----------------------------------------------------------------------------------------------------------------------

// ("api", "pets", "v1x": names that start with characters of the mount prefix /api/v1)
var rootNames = []string{"res", "resx", "re", "other", "k", "sub", "api", "pets", "v1x"}
var childNames = []string{"sub", "leaf", "k", "res", "k2", "a1"}
var keyVocab = []string{"k", "k2", "a", "1", "sub", "res", "leaf", "a%2Fb", "a%20b", "x.y", "..", ".", "''", "(a:1)", "List(a,b)", "a)", "(a", "a:b", "a'b", "f1", "unknown", "resx"}
var paramNames = []string{"q", "ids", "action", "other", "start", "count", "fields"}
var paramValues = []string{"f1", "f2", "nope", "a1", "a2", "List(a,b)", "List(a)", "List()", "a", "1", "(a:1)", "a%20b", "List((a:1))", "", "(x", "f-1"}
var junkHeaders = []string{"bogus", "", "GET", "Get", "batchGet", "BATCH_GET", "finder,get"}

func genNodes(t *rapid.T, names []string, depth int, label string) []*Node {
	maxN := 4
	if depth > 0 {
		maxN = 2
	}
	n := rapid.IntRange(boolToInt(depth == 0), maxN).Draw(t, label+"_n")
	perm := rapid.Permutation(names).Draw(t, label+"_names")
	var out []*Node
	for i := 0; i < n && i < len(perm); i++ {
		nd := &Node{Name: perm[i], Collection: rapid.Bool().Draw(t, label+"_coll"), AnyParams: rapid.Bool().Draw(t, label+"_anyp")}
		pool := simpleMethods
		if nd.Collection {
			pool = routemodel.PlainMethods
		}
		switch rapid.IntRange(0, 7).Draw(t, label+"_mset") {
		case 0: // none
		case 1: // all
			nd.Methods = append([]string{}, pool...)
		default:
			for _, m := range pool {
				if rapid.IntRange(0, 2).Draw(t, label+"_m") == 2 {
					nd.Methods = append(nd.Methods, m)
				}
			}
		}
		if nd.Collection {
			for _, f := range []string{"f1", "f2"} {
				if rapid.IntRange(0, 2).Draw(t, label+"_f") == 2 {
					nd.Finders = append(nd.Finders, f)
				}
			}
		}
		for _, a := range []string{"a1", "a2"} {
			if rapid.IntRange(0, 2).Draw(t, label+"_a") == 2 {
				nd.Actions = append(nd.Actions, a)
			}
		}
		// (up to 5 levels with siblings at every level: path bookkeeping per node must not leak between siblings)
		if depth < 4 && rapid.IntRange(0, 1+min2(depth, 1)).Draw(t, label+"_kids") == 1+min2(depth, 1) {
			nd.Children = genNodes(t, childNames, depth+1, label+"c")
		}
		out = append(out, nd)
	}
	return out
}

func min2(a, b int) int {
	if a < b {
		return a
	}
	return b
}

func boolToInt(b bool) int {
	if b {
		return 1
	}
	return 0
}

var plainKeys = []string{"k", "k2", "a", "1", "a%2Fb", "a%20b", "x.y", "''", "sub", "res"}

func genKey(t *rapid.T) string {
	if rapid.IntRange(0, 3).Draw(t, "plainkey") < 3 {
		return rapid.SampledFrom(plainKeys).Draw(t, "key")
	}
	return rapid.SampledFrom(keyVocab).Draw(t, "oddkey")
}

// genWalk walks along the tree (so that deep routes are reached) with occasional deviations; final is the node the
// path ends on (nil when the walk left the tree).
func genWalk(t *rapid.T, roots []*Node) (segs []string, final *Node) {
	nodes := roots
	for depth := 0; depth < 6; depth++ {
		if len(nodes) == 0 || rapid.IntRange(0, 11).Draw(t, "leave") == 11 {
			segs = append(segs, rapid.SampledFrom([]string{"unknown", "resx", "re", "res", "k", "sub", "Res", "res.x"}).Draw(t, "junkname"))
			return segs, nil
		}
		cur := nodes[rapid.IntRange(0, len(nodes)-1).Draw(t, "pick")]
		segs = append(segs, cur.Name)
		if len(cur.Children) == 0 || rapid.IntRange(0, 2).Draw(t, "stop") == 0 {
			return segs, cur
		}
		if cur.Collection || rapid.IntRange(0, 7).Draw(t, "keyonsimple") == 7 {
			segs = append(segs, genKey(t))
		}
		if rapid.IntRange(0, 9).Draw(t, "subwithoutkey") == 9 && cur.Collection {
			segs = segs[:len(segs)-1]
		}
		nodes = cur.Children
	}
	return segs, nil
}

func genQuery(t *rapid.T, allowMalformed bool, max int) []string {
	n := rapid.IntRange(0, max).Draw(t, "nparams")
	var parts []string
	for i := 0; i < n; i++ {
		name := rapid.SampledFrom(paramNames).Draw(t, "pname")
		val := rapid.SampledFrom(paramValues).Draw(t, "pval")
		parts = append(parts, name+"="+val)
	}
	if allowMalformed {
		name := rapid.SampledFrom(paramNames).Draw(t, "bad_pname")
		val := rapid.SampledFrom(paramValues).Draw(t, "bad_pval") + rapid.SampledFrom([]string{")", "))", ")("}).Draw(t, "excess")
		at := rapid.IntRange(0, len(parts)).Draw(t, "bad_at")
		parts = append(parts[:at:at], append([]string{name + "=" + val}, parts[at:]...)...)
	}
	return parts
}

func genRequest(t *rapid.T, roots []*Node, allowMalformed bool) (routemodel.Request, bool) {
	var r routemodel.Request
	if rapid.IntRange(0, 49).Draw(t, "path_special") == 49 {
		r.Path = rapid.SampledFrom([]string{"", "/", "//", "//res", "/res//sub"}).Draw(t, "special")
	}
	segs, final := genWalk(t, roots)
	var params []string
	if final != nil && rapid.IntRange(0, 9).Draw(t, "coherent") < 7 {
		// a request that means something: pick the method first, then derive verb, header, key and parameters from it,
		// each with a small chance of deviating
		pool := append([]string{}, final.Methods...)
		if len(final.Finders) > 0 {
			pool = append(pool, "finder")
		}
		if len(final.Actions) > 0 {
			pool = append(pool, "action")
		}
		m := rapid.SampledFrom(routemodel.MethodNames).Draw(t, "intent_any")
		if len(pool) > 0 && rapid.IntRange(0, 3).Draw(t, "intent_registered") < 3 {
			m = pool[rapid.IntRange(0, len(pool)-1).Draw(t, "intent")]
		}
		needKey := final.Collection && (m == "get" || m == "delete" || m == "update" || m == "partial_update" || m == "action" && rapid.Bool().Draw(t, "entity_action"))
		if rapid.IntRange(0, 11).Draw(t, "key_deviation") == 11 {
			needKey = !needKey
		}
		if needKey {
			segs = append(segs, genKey(t))
		}
		r.Verb = routemodel.VerbOf(m)
		if rapid.IntRange(0, 11).Draw(t, "verb_deviation") == 11 {
			r.Verb = rapid.SampledFrom([]string{"GET", "POST", "PUT", "DELETE", "PATCH", "OPTIONS", "HEAD"}).Draw(t, "verb")
		}
		hp := 5 // out of 10
		if r.Verb == "POST" && final.Collection {
			hp = 9
		} else if !final.Collection {
			hp = 3
		}
		if rapid.IntRange(0, 9).Draw(t, "with_header") >= 10-hp {
			r.HasHeader, r.Header = true, m
			if rapid.IntRange(0, 14).Draw(t, "hdr_deviation") == 14 {
				r.Header = rapid.SampledFrom(append(append([]string{}, junkHeaders...), routemodel.MethodNames...)).Draw(t, "other_hdr")
			}
		}
		dev := rapid.IntRange(0, 9).Draw(t, "param_deviation") == 9
		switch {
		case m == "finder" && !dev:
			params = append(params, "q="+rapid.SampledFrom(append([]string{"f1", "f2", "nope"}, final.Finders...)).Draw(t, "finder"))
		case m == "action" && !dev:
			params = append(params, "action="+rapid.SampledFrom(append([]string{"a1", "a2", "nope"}, final.Actions...)).Draw(t, "action"))
		case routemodel.IsBatch(m) && m != "batch_create" && !dev:
			params = append(params, "ids="+rapid.SampledFrom([]string{"List(a,b)", "List(a)", "List()", "List(a%2Fb,k)"}).Draw(t, "ids"))
		}
		extra := genQuery(t, allowMalformed, 1)
		if rapid.Bool().Draw(t, "extra_first") {
			params = append(extra, params...)
		} else {
			params = append(params, extra...)
		}
	} else {
		r.Verb = rapid.SampledFrom([]string{"GET", "POST", "PUT", "DELETE", "GET", "POST", "PUT", "DELETE", "PATCH", "OPTIONS", "HEAD"}).Draw(t, "verb")
		switch rapid.IntRange(0, 9).Draw(t, "hdrkind") {
		case 0, 1, 2, 3:
		case 4:
			r.HasHeader, r.Header = true, rapid.SampledFrom(junkHeaders).Draw(t, "junkhdr")
		default:
			r.HasHeader, r.Header = true, rapid.SampledFrom(routemodel.MethodNames).Draw(t, "hdr")
		}
		if rapid.Bool().Draw(t, "with_key") {
			segs = append(segs, genKey(t))
		}
		if rapid.IntRange(0, 5).Draw(t, "more") == 5 {
			segs = append(segs, rapid.SampledFrom([]string{"unknown", "sub", "k", "leaf"}).Draw(t, "more_seg"))
		}
		params = genQuery(t, allowMalformed, 3)
	}
	if r.Path == "" || rapid.IntRange(0, 49).Draw(t, "keep_special") < 49 {
		r.Path = "/" + strings.Join(segs, "/")
		if rapid.IntRange(0, 11).Draw(t, "trailing") == 11 {
			r.Path += "/"
		}
	}
	r.Query = strings.Join(params, "&")
	tun := r.Query != "" && rapid.IntRange(0, 3).Draw(t, "tunnelled") == 3
	r.Body = chooseBody(roots, r)
	if rapid.IntRange(0, 19).Draw(t, "oddbody") == 19 {
		r.Body = rapid.SampledFrom([]routemodel.Body{routemodel.BodyNone, routemodel.BodyMinimal, routemodel.BodyElements, routemodel.BodyEntities, routemodel.BodyUniversal}).Draw(t, "body")
	}
	return r, tun
}

func genFilters(t *rapid.T) []string {
	n := rapid.IntRange(0, 3).Draw(t, "nfilters")
	var fs []string
	for i := 0; i < n; i++ {
		fs = append(fs, rapid.SampledFrom([]string{"pass", "pass", "ctx", "ctx", "fail"}).Draw(t, "filter"))
	}
	return fs
}

func rapidMount(t *testing.T, mount string, allowMalformed bool) {
	skipIfReplaying(t)
	rec := stats.For("C05")
	rapid.Check(t, func(rt *rapid.T) {
		roots := genNodes(rt, rootNames, 0, "t")
		r, tun := genRequest(rt, roots, allowMalformed)
		c := routeCase{Tree: roots, Req: r, Tunnelled: tun, Filters: genFilters(rt), Mount: mount}
		if mount == "mux" || mount == "prefix-mux" || mount == "prefix-addtomux" {
			if r.Path == "" || strings.Contains(r.Path, "//") || strings.Contains(r.Path, "/.") {
				rt.Skip("ServeMux redirects unclean paths")
			}
			if r.Verb == "OPTIONS" || r.Verb == "HEAD" {
				c.Req.Verb = "GET"
				c.Req.Body = chooseBody(roots, c.Req)
			}
		}
		if c.prefixed() {
			c.Outside = rapid.IntRange(0, 15).Draw(rt, "outside") == 15
		}
		if name, msg := checkRoute(rec, c); name != "" {
			rec.Violation(name, msg, c)
			rt.Fatalf("%s: %s", name, msg)
		}
	})
}

func TestC05Rapid(t *testing.T)          { rapidMount(t, "bare", false) }
func TestC05RapidBadQuery(t *testing.T)  { rapidMount(t, "bare", true) }
func TestC05RapidMux(t *testing.T)       { rapidMount(t, "mux", false) }
func TestC05RapidPrefix(t *testing.T)    { rapidMount(t, "prefix", false) }
func TestC05RapidPrefixMux(t *testing.T) { rapidMount(t, "prefix-mux", false) }
func TestC05RapidPrefixAddToMux(t *testing.T) {
	rapidMount(t, "prefix-addtomux", false)
}

// subtractTree removes from late what base already registers (a method cannot be registered twice) and aligns the
// kind of same-named nodes (a path segment cannot be registered with two kinds).
func subtractTree(late, base []*Node) []*Node {
	var out []*Node
	for _, l := range late {
		var b *Node
		for _, x := range base {
			if x.Name == l.Name {
				b = x
			}
		}
		cp := *l
		if b != nil {
			cp.Collection, cp.AnyParams = b.Collection, b.AnyParams
			minus := func(a, b []string) (o []string) {
				for _, x := range a {
					keep := true
					for _, y := range b {
						if x == y {
							keep = false
						}
					}
					if keep {
						o = append(o, x)
					}
				}
				return
			}
			cp.Methods, cp.Finders, cp.Actions = minus(l.Methods, b.Methods), minus(l.Finders, b.Finders), minus(l.Actions, b.Actions)
			if !cp.Collection {
				cp.Methods = minus(cp.Methods, []string{"create", "batch_get", "batch_create", "batch_delete", "batch_update", "batch_partial_update", "get_all"})
				cp.Finders = nil
			}
			cp.Children = subtractTree(l.Children, b.Children)
		} else {
			cp.Children = subtractTree(l.Children, nil)
		}
		out = append(out, &cp)
	}
	return out
}

func TestC05RapidLate(t *testing.T) {
	skipIfReplaying(t)
	rec := stats.For("C05")
	rapid.Check(t, func(rt *rapid.T) {
		base := genNodes(rt, rootNames, 0, "t")
		late := subtractTree(genNodes(rt, rootNames, 0, "l"), base)
		merged := routemodel.Merge(base, late)
		r, tun := genRequest(rt, merged, false)
		c := routeCase{Tree: base, Late: late, Req: r, Tunnelled: tun, Filters: genFilters(rt), Mount: "bare", UseNew: rapid.Bool().Draw(rt, "use_new")}
		if name, msg := checkRoute(rec, c); name != "" {
			rec.Violation(name, msg, c)
			rt.Fatalf("%s: %s", name, msg)
		}
	})
}

// ---- regression table ---------------------------------------------------------------------------------------------------------

var regressionCases = []routeCase{
	// GET with both q and ids is a finder; with a key it is a get whatever the query says
	{Tree: []*Node{fullColl("res")}, Mount: "bare", Req: routemodel.Request{Verb: "GET", Path: "/res", Query: "q=f1&ids=List(a)"}},
	{Tree: []*Node{fullColl("res")}, Mount: "bare", Req: routemodel.Request{Verb: "GET", Path: "/res/k", Query: "q=f1&ids=List(a)"}},
	// encoded slash stays inside the key
	{Tree: []*Node{fullColl("res", fullSimple("sub"))}, Mount: "bare", Filters: []string{"pass"}, Req: routemodel.Request{Verb: "GET", Path: "/res/a%2Fb/sub"}},
	// simple resources ignore the header
	{Tree: []*Node{fullSimple("res")}, Mount: "bare", Req: routemodel.Request{Verb: "POST", Path: "/res", HasHeader: true, Header: "partial_update", Query: "action=a1", Body: routemodel.BodyMinimal}},
	// filters around a tunnelled batch request
	{Tree: []*Node{fullColl("res")}, Mount: "bare", Tunnelled: true, Filters: []string{"ctx", "pass", "ctx"}, Req: routemodel.Request{Verb: "PUT", Path: "/res", Query: "ids=List(a,b)", Body: routemodel.BodyEntities}},
}

func TestC05Regress(t *testing.T) {
	skipIfReplaying(t)
	rec := stats.For("C05")
	for i, c := range regressionCases {
		if name, msg := checkRoute(rec, c); name != "" {
			rec.Violation(fmt.Sprintf("%s-regress%d", name, i), msg, c)
			t.Error(msg)
		}
	}
}
