package routeprops

// Server construction for C05: hand-written generic types standing in for generated bindings (routing
// lives entirely in the runtime package, so no generated code is needed), recorder closures registered
// through the same restli.Register* calls and type-parameter shapes that generated RegisterResource code
// uses (codegen/resources: rest_method.go, finder.go, action.go, method_utils.go registerParams), filters
// and the mounting variants.

import (
	"context"
	"errors"
	"fmt"
	"net/http"
	"net/http/httptest"
	"sync"

	"github.com/PapaCharlie/go-restli/v2/restli"
	"github.com/PapaCharlie/go-restli/v2/restlicodec"
	common "github.com/PapaCharlie/go-restli/v2/restlidata/generated/com/linkedin/restli/common"

	"verif/core/hx"
	"verif/core/model/routemodel"
)

// ---- stand-ins for generated types -------------------------------------------------------------------------------

// entity: a record that accepts any JSON object and writes {}.
type entity struct{}

func (e *entity) NewInstance() *entity { return new(entity) }
func (e *entity) MarshalRestLi(w restlicodec.Writer) error {
	return w.WriteMap(func(func(string) restlicodec.Writer) error { return nil })
}
func (e *entity) UnmarshalRestLi(r restlicodec.Reader) error {
	return r.ReadMap(func(r restlicodec.Reader, _ string) error { return r.Skip() })
}

// patch: the partial-update document type (just another record).
type patch struct{}

func (e *patch) NewInstance() *patch { return new(patch) }
func (e *patch) MarshalRestLi(w restlicodec.Writer) error {
	return w.WriteMap(func(func(string) restlicodec.Writer) error { return nil })
}
func (e *patch) UnmarshalRestLi(r restlicodec.Reader) error {
	return r.ReadMap(func(r restlicodec.Reader, _ string) error { return r.Skip() })
}

// rpath: ResourcePath / ResourceEntityPath stand-in; every key is a string.
type rpath struct{ keys []string }

func (p *rpath) NewInstance() *rpath { return new(rpath) }
func (p *rpath) UnmarshalResourcePath(segments []restlicodec.Reader) error {
	for _, s := range segments {
		k, err := s.ReadString()
		if err != nil {
			return err
		}
		p.keys = append(p.keys, k)
	}
	return nil
}

// anyParams: a query-parameter struct that accepts and ignores every parameter.
type anyParams struct{}

func (p *anyParams) NewInstance() *anyParams                               { return new(anyParams) }
func (p *anyParams) DecodeQueryParams(restlicodec.QueryParamsReader) error { return nil }

// anyBatchParams: same for the batch methods (reads ids, ignores the rest).
type anyBatchParams struct{}

func (p *anyBatchParams) NewInstance() *anyBatchParams { return new(anyBatchParams) }
func (p *anyBatchParams) DecodeQueryParams(reader restlicodec.QueryParamsReader) (ids []string, err error) {
	seen := false
	err = reader.ReadRecord(nil, func(r restlicodec.Reader, field string) error {
		if field == "ids" {
			seen = true
			var e error
			ids, e = restlicodec.ReadArray(r, restlicodec.UnmarshalRestLi[string])
			return e
		}
		return r.Skip()
	})
	if err == nil && !seen {
		err = errors.New("ids missing")
	}
	return ids, err
}

type batchDecoder[QP any] interface {
	NewInstance() QP
	DecodeQueryParams(restlicodec.QueryParamsReader) ([]string, error)
}

// ---- per-request log ------------------------------------------------------------------------------------------------

type event struct {
	Kind   string   `json:"kind"` // pre | post | call
	Filter int      `json:"filter,omitempty"`
	Node   string   `json:"node,omitempty"` // call: node path the recorder was registered on
	Method string   `json:"method"`         // call: the recorder's method; pre/post: GetMethodFromContext
	Name   string   `json:"name,omitempty"`
	Keys   []string `json:"keys,omitempty"`
	KeyErr string   `json:"key_err,omitempty"`
	Segs   string   `json:"segs,omitempty"` // fmt of GetResourcePathSegmentsFromContext
	Ctx    []int    `json:"ctx,omitempty"`  // call: indices of context-adding filters whose value is visible
	Late   bool     `json:"late,omitempty"`
	Panic  string   `json:"panic,omitempty"`
	// what the recorder itself sees through the Get*FromContext accessors
	CtxMethod string `json:"ctx_method,omitempty"`
	CtxName   string `json:"ctx_name,omitempty"`
}

type world struct {
	mu  sync.Mutex
	log []event
}

func (w *world) add(e event) {
	w.mu.Lock()
	w.log = append(w.log, e)
	w.mu.Unlock()
}

func (w *world) take() []event {
	w.mu.Lock()
	defer w.mu.Unlock()
	l := w.log
	w.log = nil
	return l
}

type ctxKey int

// view fills what the Get*FromContext accessors return.
func view(ctx context.Context, e *event) {
	panicked, pv, _ := hx.Try(func() {
		m := restli.GetMethodFromContext(ctx)
		e.CtxMethod = m.String()
		e.Segs = fmt.Sprintf("%+v", restli.GetResourcePathSegmentsFromContext(ctx))
		for _, r := range restli.GetEntitySegmentsFromContext(ctx) {
			k, err := r.ReadString()
			if err != nil {
				e.KeyErr = err.Error()
			}
			e.Keys = append(e.Keys, k)
		}
		// the two name accessors type-assert and panic when unset: only call them for their method
		switch m {
		case restli.Method_finder:
			e.CtxName = restli.GetFinderNameFromContext(ctx)
		case restli.Method_action:
			e.CtxName = restli.GetActionNameFromContext(ctx)
		}
	})
	if panicked {
		e.Panic = fmt.Sprint(pv)
	}
}

type filt struct {
	w    *world
	idx  int
	kind string // pass | ctx | fail
}

func (f *filt) PreRequest(req *http.Request) (context.Context, error) {
	e := event{Kind: "pre", Filter: f.idx}
	view(req.Context(), &e)
	e.Method, e.Name = e.CtxMethod, e.CtxName
	f.w.add(e)
	switch f.kind {
	case "fail":
		return nil, errors.New("filter refuses the request")
	case "ctx":
		return context.WithValue(req.Context(), ctxKey(f.idx), f.idx), nil
	}
	return nil, nil
}

func (f *filt) PostRequest(ctx context.Context, _ http.Header) error {
	e := event{Kind: "post", Filter: f.idx}
	view(ctx, &e)
	e.Method, e.Name = e.CtxMethod, e.CtxName
	f.w.add(e)
	return nil
}

// ---- registration -----------------------------------------------------------------------------------------------------

type regCtx struct {
	w    *world
	s    restli.Server
	segs []restli.ResourcePathSegment
	node string
	late bool
}

func (rc regCtx) fire(ctx *restli.RequestContext, method, name string, rp *rpath) {
	e := event{Kind: "call", Node: rc.node, Method: method, Name: name, Late: rc.late}
	view(ctx.Request.Context(), &e)
	e.Keys = append([]string{}, rp.keys...) // the keys the resource-path unmarshaler decoded
	for i := 0; i < 3; i++ {
		if v, ok := ctx.Request.Context().Value(ctxKey(i)).(int); ok && v == i {
			e.Ctx = append(e.Ctx, i)
		}
	}
	rc.w.add(e)
}

func emptyBatch() *common.BatchResponse[string, *common.BatchEntityUpdateResponse] {
	return &common.BatchResponse[string, *common.BatchEntityUpdateResponse]{}
}

func regPlain[QP restlicodec.QueryParamsDecoder[QP]](rc regCtx, m string) {
	switch m {
	case "get":
		restli.RegisterGet(rc.s, rc.segs, func(ctx *restli.RequestContext, rp *rpath, _ QP) (*entity, error) {
			rc.fire(ctx, m, "", rp)
			return &entity{}, nil
		})
	case "create":
		restli.RegisterCreate(rc.s, rc.segs, nil, func(ctx *restli.RequestContext, rp *rpath, _ *entity, _ QP) (*common.CreatedEntity[string], error) {
			rc.fire(ctx, m, "", rp)
			return &common.CreatedEntity[string]{Id: "id1"}, nil
		})
	case "delete":
		restli.RegisterDelete(rc.s, rc.segs, func(ctx *restli.RequestContext, rp *rpath, _ QP) error {
			rc.fire(ctx, m, "", rp)
			return nil
		})
	case "update":
		restli.RegisterUpdate(rc.s, rc.segs, nil, func(ctx *restli.RequestContext, rp *rpath, _ *entity, _ QP) error {
			rc.fire(ctx, m, "", rp)
			return nil
		})
	case "partial_update":
		restli.RegisterPartialUpdate(rc.s, rc.segs, nil, func(ctx *restli.RequestContext, rp *rpath, _ *patch, _ QP) error {
			rc.fire(ctx, m, "", rp)
			return nil
		})
	case "batch_create":
		restli.RegisterBatchCreate(rc.s, rc.segs, nil, func(ctx *restli.RequestContext, rp *rpath, _ []*entity, _ QP) ([]*common.CreatedEntity[string], error) {
			rc.fire(ctx, m, "", rp)
			return []*common.CreatedEntity[string]{}, nil
		})
	case "get_all":
		restli.RegisterGetAll(rc.s, rc.segs, func(ctx *restli.RequestContext, rp *rpath, _ QP) (*common.Elements[*entity], error) {
			rc.fire(ctx, m, "", rp)
			return &common.Elements[*entity]{}, nil
		})
	default:
		panic("harness: not a plain method: " + m)
	}
}

func regBatch[QP batchDecoder[QP]](rc regCtx, m string) {
	switch m {
	case "batch_get":
		restli.RegisterBatchGet(rc.s, rc.segs, func(ctx *restli.RequestContext, rp *rpath, _ []string, _ QP) (*common.BatchResponse[string, *entity], error) {
			rc.fire(ctx, m, "", rp)
			return &common.BatchResponse[string, *entity]{}, nil
		})
	case "batch_delete":
		restli.RegisterBatchDelete(rc.s, rc.segs, func(ctx *restli.RequestContext, rp *rpath, _ []string, _ QP) (*common.BatchResponse[string, *common.BatchEntityUpdateResponse], error) {
			rc.fire(ctx, m, "", rp)
			return emptyBatch(), nil
		})
	case "batch_update":
		restli.RegisterBatchUpdate(rc.s, rc.segs, nil, func(ctx *restli.RequestContext, rp *rpath, _ map[string]*entity, _ QP) (*common.BatchResponse[string, *common.BatchEntityUpdateResponse], error) {
			rc.fire(ctx, m, "", rp)
			return emptyBatch(), nil
		})
	case "batch_partial_update":
		restli.RegisterBatchPartialUpdate(rc.s, rc.segs, nil, func(ctx *restli.RequestContext, rp *rpath, _ map[string]*patch, _ QP) (*common.BatchResponse[string, *common.BatchEntityUpdateResponse], error) {
			rc.fire(ctx, m, "", rp)
			return emptyBatch(), nil
		})
	default:
		panic("harness: not a batch method: " + m)
	}
}

func regFinder[QP restlicodec.QueryParamsDecoder[QP]](rc regCtx, name string) {
	restli.RegisterFinder(rc.s, rc.segs, name, func(ctx *restli.RequestContext, rp *rpath, _ QP) (*common.Elements[*entity], error) {
		rc.fire(ctx, "finder", name, rp)
		return &common.Elements[*entity]{}, nil
	})
}

// regAction: P is the action's parameter struct (*entity) or common.EmptyRecord for an action without parameters (for
// which the runtime does not read the body at all); a2 is an action with a result.
func regAction[P any](rc regCtx, name string) {
	if name == "a2" {
		restli.RegisterActionWithResults(rc.s, rc.segs, name,
			func(v string, w restlicodec.Writer) error { w.WriteString(v); return nil },
			func(ctx *restli.RequestContext, rp *rpath, _ P) (string, error) {
				rc.fire(ctx, "action", name, rp)
				return "ok", nil
			})
		return
	}
	restli.RegisterAction(rc.s, rc.segs, name, func(ctx *restli.RequestContext, rp *rpath, _ P) error {
		rc.fire(ctx, "action", name, rp)
		return nil
	})
}

func registerTree(w *world, s restli.Server, nodes []*routemodel.Node, parent []restli.ResourcePathSegment, parentPath string, late bool) {
	for _, n := range nodes {
		segs := append(append([]restli.ResourcePathSegment{}, parent...), restli.NewResourcePathSegment(n.Name, n.Collection))
		rc := regCtx{w: w, s: s, segs: segs, node: parentPath + "/" + n.Name, late: late}
		for _, m := range n.Methods {
			switch {
			case routemodel.IsBatch(m) && m != "batch_create":
				if n.AnyParams {
					regBatch[*anyBatchParams](rc, m)
				} else {
					regBatch[*restli.SliceBatchQueryParams[string]](rc, m)
				}
			case n.AnyParams:
				regPlain[*anyParams](rc, m)
			default:
				regPlain[common.EmptyRecord](rc, m)
			}
		}
		for _, f := range n.Finders {
			if n.AnyParams {
				regFinder[*anyParams](rc, f)
			} else {
				regFinder[common.EmptyRecord](rc, f)
			}
		}
		for _, a := range n.Actions {
			if n.AnyParams {
				regAction[*entity](rc, a)
			} else {
				regAction[common.EmptyRecord](rc, a)
			}
		}
		registerTree(w, s, n.Children, segs, rc.node, late)
	}
}

func expectedSegs(path []routemodel.Seg) string {
	segs := make([]restli.ResourcePathSegment, 0, len(path))
	for _, p := range path {
		segs = append(segs, restli.NewResourcePathSegment(p.Name, p.Collection))
	}
	return fmt.Sprintf("%+v", segs)
}

// ---- mounting ------------------------------------------------------------------------------------------------------------

const mountPrefix = "/api/v1"

type built struct {
	w        *world
	handler  http.Handler // obtained BEFORE the late registrations
	handler2 http.Handler // a fresh Handler() obtained after them (nil without late registrations)
	srv      *httptest.Server
}

func (b *built) close() {
	if b.srv != nil {
		b.srv.Close()
	}
}

// build constructs the server of a case. mount: bare | mux | prefix | prefix-mux | http (bare handler behind a real
// httptest.Server).
func build(tree, late []*routemodel.Node, filters []string, mount string) *built {
	w := &world{}
	var fs []restli.Filter
	for i, k := range filters {
		fs = append(fs, &filt{w: w, idx: i, kind: k})
	}
	var s restli.Server
	switch mount {
	case "prefix", "prefix-mux", "prefix-addtomux":
		s = restli.NewPrefixedServer(mountPrefix, fs...)
	default:
		s = restli.NewServer(fs...)
	}
	registerTree(w, s, tree, nil, "", false)
	mounted := func() http.Handler {
		switch mount {
		case "mux", "prefix-addtomux":
			mux := http.NewServeMux()
			s.AddToMux(mux)
			return mux
		case "prefix-mux":
			mux := http.NewServeMux()
			mux.Handle(mountPrefix+"/", s.Handler())
			return mux
		}
		return s.Handler()
	}
	b := &built{w: w, handler: mounted()}
	if late != nil {
		registerTree(w, s, late, nil, "", true)
		b.handler2 = mounted()
	}
	if mount == "http" {
		b.srv = httptest.NewServer(b.handler)
	}
	return b
}
