// gendrv runs the working tree's v2 code generator on a manifest, preceded by the manifests of the libraries it
// depends on (fresh process per run: the
// generator's type registry is a process global).
package main

import (
	"fmt"
	"os"

	"github.com/PapaCharlie/go-restli/v2/cmd"
)

func main() {
	if len(os.Args) < 3 {
		fmt.Fprintln(os.Stderr, "usage: gendrv [<dependency-manifest.json> ...] <manifest.json> <outdir>")
		os.Exit(2)
	}
	var ms []*cmd.GoRestliManifest
	for _, f := range os.Args[1 : len(os.Args)-1] {
		data, err := os.ReadFile(f)
		if err != nil {
			fmt.Fprintln(os.Stderr, err)
			os.Exit(2)
		}
		m, err := cmd.ReadManifest(data)
		if err != nil {
			fmt.Fprintln(os.Stderr, "GENERATOR-ERROR: cannot read manifest:", err)
			os.Exit(3)
		}
		ms = append(ms, m)
	}
	if err := cmd.GenerateCode(os.Args[len(os.Args)-1], ms, false); err != nil {
		fmt.Fprintln(os.Stderr, "GENERATOR-ERROR:", err)
		os.Exit(3)
	}
}
