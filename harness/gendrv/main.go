// gendrv runs the working tree's v2 code generator on a manifest (fresh process per run: the
// generator's type registry is a process global).
package main

import (
	"fmt"
	"os"

	"github.com/PapaCharlie/go-restli/v2/cmd"
)

func main() {
	if len(os.Args) != 3 {
		fmt.Fprintln(os.Stderr, "usage: gendrv <manifest.json> <outdir>")
		os.Exit(2)
	}
	data, err := os.ReadFile(os.Args[1])
	if err != nil {
		fmt.Fprintln(os.Stderr, err)
		os.Exit(2)
	}
	m, err := cmd.ReadManifest(data)
	if err != nil {
		fmt.Fprintln(os.Stderr, "GENERATOR-ERROR: cannot read manifest:", err)
		os.Exit(3)
	}
	if err := cmd.GenerateCode(os.Args[2], []*cmd.GoRestliManifest{m}, false); err != nil {
		fmt.Fprintln(os.Stderr, "GENERATOR-ERROR:", err)
		os.Exit(3)
	}
}
