// Package dyn is the reflection bridge between abstract values (verif/core/aval) and the Go values of
// generated bindings. It never goes through the library's codecs, so the abstract side of every
// oracle is independent of the code under test.
package dyn

import (
	"github.com/PapaCharlie/go-restli/v2/fnv1a"
	"fmt"
	"reflect"
	"sort"

	"github.com/PapaCharlie/go-restli/v2/restlicodec"

	"verif/core/aval"
	"verif/core/schema"
)

var (
	types     = map[string]reflect.Type{}
	required  = map[string]*restlicodec.RequiredFields{}
	patches   = map[string]reflect.Type{}
	defaults  = map[string]func() any{}
	Resources = map[string]ResourceBinding{}
)

type ResourceBinding struct {
	NewClient         any // func(*restli.Client) Client
	Register          any // func(restli.Server, Resource)
	Mock              reflect.Type
	ClientIface       reflect.Type
}

func RegisterType(full string, t reflect.Type)                   { types[full] = t }
func RegisterRequired(full string, r *restlicodec.RequiredFields) { required[full] = r }
func RegisterPatch(full string, t reflect.Type)                  { patches[full] = t }
func RegisterDefaults(full string, f func() any)                 { defaults[full] = f }
func RegisterResource(ns string, b ResourceBinding)              { Resources[ns] = b }

func TypeOf(full string) reflect.Type {
	t, ok := types[full]
	if !ok {
		panic("dyn: no generated type registered for " + full)
	}
	return t
}

func PatchTypeOf(full string) reflect.Type {
	t, ok := patches[full]
	if !ok {
		panic("dyn: no partial update type registered for " + full)
	}
	return t
}

func RequiredOf(full string) *restlicodec.RequiredFields { return required[full] }

// NewDefault calls New<T>WithDefaultValues (nil, false when the record declares no defaults itself).
func NewDefault(full string) (any, bool) {
	f, ok := defaults[full]
	if !ok {
		return nil, false
	}
	return f(), true
}

func HasType(full string) bool { _, ok := types[full]; return ok }

// GoType is the Go type generated code uses for schema type t in value position.
func GoType(s *schema.Schema, t schema.Type) reflect.Type {
	switch {
	case t.Prim != "":
		return primType(t.Prim)
	case t.Ref != nil:
		return TypeOf(t.Ref.Full())
	case t.Array != nil:
		return reflect.SliceOf(refType(s, *t.Array))
	case t.Map != nil:
		return reflect.MapOf(reflect.TypeOf(""), refType(s, *t.Map))
	}
	panic("dyn: empty type")
}

// refType is the element ("referenced") type: pointers for records, unions, fixed and complex keys.
func refType(s *schema.Schema, t schema.Type) reflect.Type {
	g := GoType(s, t)
	if t.Ref != nil {
		switch s.Lookup(*t.Ref).Kind {
		case "record", "union", "fixed", "complexkey":
			return reflect.PointerTo(g)
		}
	}
	return g
}

func primType(p string) reflect.Type {
	switch p {
	case "int32":
		return reflect.TypeOf(int32(0))
	case "int64":
		return reflect.TypeOf(int64(0))
	case "float32":
		return reflect.TypeOf(float32(0))
	case "float64":
		return reflect.TypeOf(float64(0))
	case "bool":
		return reflect.TypeOf(false)
	case "string":
		return reflect.TypeOf("")
	case "bytes":
		return reflect.TypeOf([]byte(nil))
	}
	panic("dyn: prim " + p)
}

// BuildOpts vary representation choices that must not matter.
type BuildOpts struct {
	// EmptyAsNil builds empty arrays, maps and byte strings as nil instead of empty non-nil values.
	EmptyAsNil bool
	// ReverseMaps inserts map entries in descending key order.
	ReverseMaps bool
}

// Build constructs a new addressable Go value (of GoType(t)) denoting v.
func Build(s *schema.Schema, t schema.Type, v *aval.V, o BuildOpts) reflect.Value {
	dst := reflect.New(GoType(s, t)).Elem()
	set(s, dst, t, v, o)
	return dst
}

func set(s *schema.Schema, dst reflect.Value, t schema.Type, v *aval.V, o BuildOpts) {
	if dst.Kind() == reflect.Ptr {
		dst.Set(reflect.New(dst.Type().Elem()))
		dst = dst.Elem()
	}
	switch {
	case t.Prim != "":
		setPrim(dst, t.Prim, v, o)
		return
	case t.Array != nil:
		if len(v.Arr) == 0 && o.EmptyAsNil {
			dst.Set(reflect.Zero(dst.Type()))
			return
		}
		sl := reflect.MakeSlice(dst.Type(), len(v.Arr), len(v.Arr))
		for i, x := range v.Arr {
			set(s, sl.Index(i), *t.Array, x, o)
		}
		dst.Set(sl)
		return
	case t.Map != nil:
		if len(v.Ent) == 0 && o.EmptyAsNil {
			dst.Set(reflect.Zero(dst.Type()))
			return
		}
		m := reflect.MakeMapWithSize(dst.Type(), len(v.Ent))
		keys := v.Keys()
		if o.ReverseMaps {
			sort.Sort(sort.Reverse(sort.StringSlice(keys)))
		}
		for _, k := range keys {
			e := reflect.New(dst.Type().Elem()).Elem()
			set(s, e, *t.Map, v.Get(k), o)
			m.SetMapIndex(reflect.ValueOf(k), e)
		}
		dst.Set(m)
		return
	}
	n := s.Lookup(*t.Ref)
	switch n.Kind {
	case "record", "complexkey":
		for _, f := range s.AllFields(n) {
			x, ok := v.Flds[f.Name]
			if !ok {
				continue
			}
			fv := fieldOf(dst, f.Name)
			set(s, fv, f.Type, x, o)
		}
	case "enum":
		ord := v.EnumOrd
		if ord == 0 {
			for i, sym := range n.Symbols {
				if sym == v.S {
					ord = i + 1
				}
			}
		}
		dst.SetInt(int64(ord))
	case "fixed":
		b := v.Bytes()
		if len(b) != dst.Len() {
			panic(fmt.Sprintf("dyn: fixed %s built from %d bytes", n.Name, len(b)))
		}
		reflect.Copy(dst, reflect.ValueOf(b))
	case "typeref":
		setPrim(dst, n.Prim, v, o)
	case "union":
		if v.Mem == "" {
			return
		}
		for _, m := range n.Members {
			if m.Alias == v.Mem {
				fv := dst.FieldByName(schema.MemberField(m.Alias))
				if !fv.IsValid() {
					panic("dyn: union " + n.Full() + " has no Go field for member " + m.Alias)
				}
				set(s, fv, m.Type, v.Val, o)
				return
			}
		}
		panic("dyn: union member " + v.Mem)
	default:
		panic("dyn: kind " + n.Kind)
	}
}

func fieldOf(rec reflect.Value, name string) reflect.Value {
	goName := schema.Exported(name)
	if name == "$params" {
		goName = "Params"
	}
	fv := rec.FieldByName(goName)
	if !fv.IsValid() {
		panic(fmt.Sprintf("dyn: %s has no Go field %s for schema field %q", rec.Type(), goName, name))
	}
	return fv
}

func setPrim(dst reflect.Value, p string, v *aval.V, o BuildOpts) {
	switch p {
	case "int32", "int64":
		dst.SetInt(v.I)
	case "float32", "float64":
		dst.SetFloat(v.Float())
	case "bool":
		dst.SetBool(v.B)
	case "string":
		dst.SetString(v.Str())
	case "bytes":
		b := v.Bytes()
		if len(b) == 0 && o.EmptyAsNil {
			dst.Set(reflect.Zero(dst.Type()))
			return
		}
		dst.SetBytes(append(make([]byte, 0, len(b)), b...))
	default:
		panic("dyn: prim " + p)
	}
}

// Extract reads the abstract value back out of a Go value of GoType(t) (or a pointer to it).
// A nil pointer yields nil (absent).
func Extract(s *schema.Schema, t schema.Type, rv reflect.Value) *aval.V {
	if rv.Kind() == reflect.Ptr {
		if rv.IsNil() {
			return nil
		}
		rv = rv.Elem()
	}
	switch {
	case t.Prim != "":
		return extractPrim(t.Prim, rv)
	case t.Array != nil:
		a := aval.Array()
		for i := 0; i < rv.Len(); i++ {
			x := Extract(s, *t.Array, rv.Index(i))
			if x == nil {
				x = &aval.V{Kind: "nilptr"}
			}
			a.Arr = append(a.Arr, x)
		}
		return a
	case t.Map != nil:
		m := aval.Map()
		it := rv.MapRange()
		for it.Next() {
			x := Extract(s, *t.Map, it.Value())
			if x == nil {
				x = &aval.V{Kind: "nilptr"}
			}
			m.Put(it.Key().String(), x)
		}
		return m
	}
	n := s.Lookup(*t.Ref)
	switch n.Kind {
	case "record", "complexkey":
		r := aval.Record()
		for _, f := range s.AllFields(n) {
			fv := fieldOf(rv, f.Name)
			if x := Extract(s, f.Type, fv); x != nil {
				r.Flds[f.Name] = x
			}
		}
		return r
	case "enum":
		ord := int(rv.Int())
		if ord >= 1 && ord <= len(n.Symbols) {
			return aval.Enum(n.Symbols[ord-1])
		}
		if ord == 0 {
			return aval.Enum("")
		}
		return &aval.V{Kind: "enum", EnumOrd: ord}
	case "fixed":
		b := make([]byte, rv.Len())
		reflect.Copy(reflect.ValueOf(b), rv)
		return aval.Fixed(b)
	case "typeref":
		return extractPrim(n.Prim, rv)
	case "union":
		var out *aval.V
		count := 0
		for _, m := range n.Members {
			fv := rv.FieldByName(schema.MemberField(m.Alias))
			if !fv.IsNil() {
				count++
				out = aval.Union(m.Alias, Extract(s, m.Type, fv))
			}
		}
		if count == 0 {
			return aval.Union("", nil)
		}
		if count > 1 {
			return &aval.V{Kind: "union", Mem: fmt.Sprintf("<%d members set>", count)}
		}
		return out
	}
	panic("dyn: extract kind " + n.Kind)
}

func extractPrim(p string, rv reflect.Value) *aval.V {
	switch p {
	case "int32":
		return aval.Int32(int32(rv.Int()))
	case "int64":
		return aval.Int64(rv.Int())
	case "float32":
		return aval.Float32(float32(rv.Float()))
	case "float64":
		return aval.Float64(rv.Float())
	case "bool":
		return aval.Bool(rv.Bool())
	case "string":
		return aval.Str(rv.String())
	case "bytes":
		return aval.Bytes(rv.Bytes())
	}
	panic("dyn: prim " + p)
}

// ---------------------------------------------------------------------------------------------
// calling generated methods

func ptrTo(rv reflect.Value) reflect.Value {
	if rv.Kind() == reflect.Ptr {
		return rv
	}
	if !rv.CanAddr() {
		c := reflect.New(rv.Type()).Elem()
		c.Set(rv)
		rv = c
	}
	return rv.Addr()
}

// Marshal writes a value of schema type t (rv of GoType(t)) with the library's own encoder entry
// point for that type: Write<Prim> for primitives, MarshalRestLi for named types. Containers are only
// reachable as fields of records (that is how generated code reaches them).
func Marshal(s *schema.Schema, t schema.Type, rv reflect.Value, w restlicodec.Writer) error {
	switch {
	case t.Prim != "":
		return marshalPrim(t.Prim, rv, w)
	case t.Ref != nil:
		m, ok := ptrTo(rv).Interface().(restlicodec.Marshaler)
		if !ok {
			panic(fmt.Sprintf("dyn: %s is not a Marshaler", rv.Type()))
		}
		return m.MarshalRestLi(w)
	}
	panic("dyn: Marshal of a bare container type " + t.String())
}

func marshalPrim(p string, rv reflect.Value, w restlicodec.Writer) error {
	switch p {
	case "int32":
		return restlicodec.MarshalRestLi(int32(rv.Int()), w)
	case "int64":
		return restlicodec.MarshalRestLi(rv.Int(), w)
	case "float32":
		return restlicodec.MarshalRestLi(float32(rv.Float()), w)
	case "float64":
		return restlicodec.MarshalRestLi(rv.Float(), w)
	case "bool":
		return restlicodec.MarshalRestLi(rv.Bool(), w)
	case "string":
		return restlicodec.MarshalRestLi(rv.String(), w)
	case "bytes":
		return restlicodec.MarshalRestLi(rv.Bytes(), w)
	}
	panic("dyn: prim " + p)
}

// Unmarshal decodes a value of schema type t from r and returns it (GoType(t), addressable) together
// with the decoder's error. The value is returned even when err != nil (partially filled).
// UnmarshalInto decodes into an EXISTING value of a named type (a reused variable, a struct decoded twice): dst is a
// pointer to the value.
func UnmarshalInto(dst reflect.Value, r restlicodec.Reader) error {
	u, ok := dst.Interface().(restlicodec.Unmarshaler)
	if !ok {
		panic(fmt.Sprintf("dyn: %s is not an Unmarshaler", dst.Type()))
	}
	return u.UnmarshalRestLi(r)
}

func Unmarshal(s *schema.Schema, t schema.Type, r restlicodec.Reader) (reflect.Value, error) {
	switch {
	case t.Prim != "":
		dst := reflect.New(primType(t.Prim)).Elem()
		var err error
		switch t.Prim {
		case "int32":
			var x int32
			x, err = restlicodec.UnmarshalRestLi[int32](r)
			dst.SetInt(int64(x))
		case "int64":
			var x int64
			x, err = restlicodec.UnmarshalRestLi[int64](r)
			dst.SetInt(x)
		case "float32":
			var x float32
			x, err = restlicodec.UnmarshalRestLi[float32](r)
			dst.SetFloat(float64(x))
		case "float64":
			var x float64
			x, err = restlicodec.UnmarshalRestLi[float64](r)
			dst.SetFloat(x)
		case "bool":
			var x bool
			x, err = restlicodec.UnmarshalRestLi[bool](r)
			dst.SetBool(x)
		case "string":
			var x string
			x, err = restlicodec.UnmarshalRestLi[string](r)
			dst.SetString(x)
		case "bytes":
			var x []byte
			x, err = restlicodec.UnmarshalRestLi[[]byte](r)
			dst.SetBytes(x)
		}
		return dst, err
	case t.Ref != nil:
		p := reflect.New(TypeOf(t.Ref.Full()))
		u, ok := p.Interface().(restlicodec.Unmarshaler)
		if !ok {
			panic(fmt.Sprintf("dyn: %s is not an Unmarshaler", p.Type()))
		}
		err := u.UnmarshalRestLi(r)
		return p.Elem(), err
	}
	panic("dyn: Unmarshal of a bare container type " + t.String())
}

// Equals calls the generated Equals method (a.Equals(b)).
func Equals(a, b reflect.Value) bool {
	pa := ptrTo(a)
	m := pa.MethodByName("Equals")
	if !m.IsValid() {
		panic(fmt.Sprintf("dyn: %s has no Equals", pa.Type()))
	}
	arg := b
	if m.Type().In(0).Kind() == reflect.Ptr {
		arg = ptrTo(b)
	} else if b.Kind() == reflect.Ptr {
		arg = b.Elem()
	}
	return m.Call([]reflect.Value{arg})[0].Bool()
}

// Hash calls ComputeHash and returns the hash's 32-bit map key.
func Hash(a reflect.Value) uint32 {
	m := ptrTo(a).MethodByName("ComputeHash")
	if !m.IsValid() {
		panic(fmt.Sprintf("dyn: %s has no ComputeHash", a.Type()))
	}
	h := m.Call(nil)[0]
	mk := h.MethodByName("MapKey").Call(nil)[0]
	return uint32(mk.Uint())
}

// HashObject returns the fnv1a.Hash object ComputeHash hands out (as the interface type of the generation in use).
func HashObject(a reflect.Value) fnv1a.Hash {
	return ptrTo(a).MethodByName("ComputeHash").Call(nil)[0].Interface().(fnv1a.Hash)
}

// CallBool calls the named method (receiver: pointer to a) with b as its only argument and returns its bool result.
func CallBool(a reflect.Value, name string, b reflect.Value) bool {
	m := ptrTo(a).MethodByName(name)
	arg := b
	if m.Type().In(0).Kind() == reflect.Ptr {
		arg = ptrTo(b)
	} else if b.Kind() == reflect.Ptr {
		arg = b.Elem()
	}
	return m.Call([]reflect.Value{arg})[0].Bool()
}

// CallHash calls the named argument-less method returning a fnv1a.Hash and returns its 32-bit value.
func CallHash(a reflect.Value, name string) uint32 {
	h := ptrTo(a).MethodByName(name).Call(nil)[0]
	return uint32(h.MethodByName("MapKey").Call(nil)[0].Uint())
}

// HasMethod reports whether values of the generated type (or pointers to it) have the method.
func HasMethod(a reflect.Value, name string) bool {
	return ptrTo(a).MethodByName(name).IsValid()
}
