package dyn

import (
	"fmt"
	"reflect"
	"sort"
	"strings"

	"verif/core/aval"
	"verif/core/refcodec"
	"verif/core/schema"
)

// PatchM is the abstract model of a partial update of one record.
type PatchM struct {
	Deletes []string           `json:"deletes,omitempty"`
	Sets    map[string]*aval.V `json:"sets,omitempty"`
	Nested  map[string]*PatchM `json:"nested,omitempty"`
}

func (p *PatchM) Empty() bool { return len(p.Deletes) == 0 && len(p.Sets) == 0 && len(p.Nested) == 0 }

// legal: no field is touched by more than one of delete / set / nested patch (recursively).
func (p *PatchM) Legal() bool {
	seen := map[string]int{}
	for _, d := range p.Deletes {
		seen[d]++
	}
	for k := range p.Sets {
		seen[k]++
	}
	for k, n := range p.Nested {
		seen[k]++
		if !n.Legal() {
			return false
		}
	}
	for _, c := range seen {
		if c > 1 {
			return false
		}
	}
	return true
}

func (p *PatchM) Touches(spec [][]string, prefix []string) bool {
	hit := func(name string) bool {
		path := append(append([]string(nil), prefix...), name)
		for _, q := range spec {
			if len(q) == len(path) {
				ok := true
				for i := range q {
					if q[i] != path[i] {
						ok = false
					}
				}
				if ok {
					return true
				}
			}
		}
		return false
	}
	for _, d := range p.Deletes {
		if hit(d) {
			return true
		}
	}
	for k := range p.Sets {
		if hit(k) {
			return true
		}
	}
	for k, n := range p.Nested {
		if hit(k) || n.Touches(spec, append(append([]string(nil), prefix...), k)) {
			return true
		}
	}
	return false
}

// owner returns the record (n itself or a transitively included one) that declares field name, and the chain of
// included record names leading to it.
func owner(S *schema.Schema, n *schema.Named, name string) (*schema.Named, []string) {
	for _, f := range n.Fields {
		if f.Name == name {
			return n, nil
		}
	}
	for _, inc := range n.Includes {
		in := S.Lookup(inc)
		if o, chain := owner(S, in, name); o != nil {
			return o, append([]string{in.Name}, chain...)
		}
	}
	return nil, nil
}

func FieldByName(S *schema.Schema, n *schema.Named, name string) schema.Field {
	for _, f := range S.AllFields(n) {
		if f.Name == name {
			return f
		}
	}
	panic("no field " + name + " in " + n.Full())
}

// patchStruct navigates to the <Owner>_PartialUpdate struct that holds the slots of field name.
func patchStruct(S *schema.Schema, pv reflect.Value, n *schema.Named, name string) reflect.Value {
	_, chain := owner(S, n, name)
	cur := pv
	for _, inc := range chain {
		next := cur.FieldByName(inc + "_PartialUpdate")
		if !next.IsValid() {
			// root-module bindings flatten included records: the slots of an included field live in the including
			// record's own Set_Fields / Delete_Fields
			if sf := cur.FieldByName("Set_Fields"); sf.IsValid() && sf.FieldByName(schema.Exported(name)).IsValid() {
				return cur
			}
			panic("dyn: no embedded partial update struct for included record " + inc)
		}
		cur = next
	}
	return cur
}

func BuildPatch(S *schema.Schema, n *schema.Named, p *PatchM) reflect.Value {
	pv := reflect.New(PatchTypeOf(n.Full())).Elem()
	fillPatch(S, pv, n, p)
	return pv
}

func fillPatch(S *schema.Schema, pv reflect.Value, n *schema.Named, p *PatchM) {
	for _, d := range p.Deletes {
		ps := patchStruct(S, pv, n, d)
		fv := ps.FieldByName("Delete_Fields").FieldByName(schema.Exported(d))
		if !fv.IsValid() {
			panic("field " + d + " of " + n.Full() + " has no delete slot")
		}
		fv.SetBool(true)
	}
	for name, v := range p.Sets {
		f := FieldByName(S, n, name)
		ps := patchStruct(S, pv, n, name)
		fv := ps.FieldByName("Set_Fields").FieldByName(schema.Exported(name))
		built := Build(S, f.Type, v, BuildOpts{})
		ptr := reflect.New(fv.Type().Elem())
		ptr.Elem().Set(built)
		fv.Set(ptr)
	}
	for name, np := range p.Nested {
		f := FieldByName(S, n, name)
		ps := patchStruct(S, pv, n, name)
		fv := ps.FieldByName(schema.Exported(name))
		ptr := reflect.New(fv.Type().Elem())
		fillPatch(S, ptr.Elem(), S.Lookup(*f.Type.Ref), np)
		fv.Set(ptr)
	}
}

func ExtractPatch(S *schema.Schema, pv reflect.Value, n *schema.Named) *PatchM {
	p := &PatchM{Sets: map[string]*aval.V{}, Nested: map[string]*PatchM{}}
	for _, f := range S.AllFields(n) {
		ps := patchStruct(S, pv, n, f.Name)
		if dv := ps.FieldByName("Delete_Fields").FieldByName(schema.Exported(f.Name)); dv.IsValid() && dv.Bool() {
			p.Deletes = append(p.Deletes, f.Name)
		}
		if sv := ps.FieldByName("Set_Fields").FieldByName(schema.Exported(f.Name)); sv.IsValid() && !sv.IsNil() {
			p.Sets[f.Name] = Extract(S, f.Type, sv.Elem())
		}
		if f.Type.Ref != nil && S.Lookup(*f.Type.Ref).Kind == "record" {
			if nv := ps.FieldByName(schema.Exported(f.Name)); nv.IsValid() && nv.Kind() == reflect.Ptr && !nv.IsNil() {
				p.Nested[f.Name] = ExtractPatch(S, nv.Elem(), S.Lookup(*f.Type.Ref))
			}
		}
	}
	sort.Strings(p.Deletes)
	return p
}

// withDefaults: decoding fills schema defaults into the values being set.
func (p *PatchM) WithDefaults(S *schema.Schema, n *schema.Named) *PatchM {
	out := &PatchM{Deletes: p.Deletes, Sets: map[string]*aval.V{}, Nested: map[string]*PatchM{}}
	for k, v := range p.Sets {
		out.Sets[k] = aval.FillDefaults(S, FieldByName(S, n, k).Type, v, refcodec.Defaults(S))
	}
	for k, np := range p.Nested {
		out.Nested[k] = np.WithDefaults(S, S.Lookup(*FieldByName(S, n, k).Type.Ref))
	}
	return out
}

func (p *PatchM) Canon() string {
	var b strings.Builder
	d := append([]string(nil), p.Deletes...)
	sort.Strings(d)
	fmt.Fprintf(&b, "del%v set{", d)
	var ks []string
	for k := range p.Sets {
		ks = append(ks, k)
	}
	sort.Strings(ks)
	for _, k := range ks {
		fmt.Fprintf(&b, "%s=%s;", k, p.Sets[k].Canon())
	}
	b.WriteString("} nested{")
	ks = ks[:0]
	for k := range p.Nested {
		ks = append(ks, k)
	}
	sort.Strings(ks)
	for _, k := range ks {
		fmt.Fprintf(&b, "%s=%s;", k, p.Nested[k].Canon())
	}
	b.WriteString("}")
	return b.String()
}

// patchTree is the protocol's wire shape of a patch body: {$delete:[...], $set:{...}, field:{nested}}.
func PatchTree(S *schema.Schema, n *schema.Named, p *PatchM) *refcodec.Tree {
	t := refcodec.Obj()
	if len(p.Deletes) > 0 {
		a := refcodec.Arr()
		d := append([]string(nil), p.Deletes...)
		sort.Strings(d)
		for _, x := range d {
			a.Arr = append(a.Arr, refcodec.Str(x))
		}
		t.Obj = append(t.Obj, refcodec.KV{K: "$delete", V: a})
	}
	if len(p.Sets) > 0 {
		s := refcodec.Obj()
		var ks []string
		for k := range p.Sets {
			ks = append(ks, k)
		}
		sort.Strings(ks)
		for _, k := range ks {
			s.Obj = append(s.Obj, refcodec.KV{K: k, V: refcodec.TreeOf(S, FieldByName(S, n, k).Type, p.Sets[k], refcodec.Opts{Bytes: refcodec.RawUTF8})})
		}
		t.Obj = append(t.Obj, refcodec.KV{K: "$set", V: s})
	}
	var ks []string
	for k := range p.Nested {
		ks = append(ks, k)
	}
	sort.Strings(ks)
	for _, k := range ks {
		t.Obj = append(t.Obj, refcodec.KV{K: k, V: PatchTree(S, S.Lookup(*FieldByName(S, n, k).Type.Ref), p.Nested[k])})
	}
	return t
}

// sameTree compares wire trees ignoring key order and the order of $delete lists, numbers by value.
func SameTree(a, b *refcodec.Tree, underDelete bool) bool {
	if a.Kind != b.Kind {
		return false
	}
	switch a.Kind {
	case "obj":
		if len(a.Obj) != len(b.Obj) {
			return false
		}
		for _, kv := range a.Obj {
			o := b.Get(kv.K)
			if o == nil || !SameTree(kv.V, o, kv.K == "$delete") {
				return false
			}
		}
		return true
	case "arr":
		if len(a.Arr) != len(b.Arr) {
			return false
		}
		if underDelete {
			as, bs := []string{}, []string{}
			for i := range a.Arr {
				as = append(as, a.Arr[i].Str)
				bs = append(bs, b.Arr[i].Str)
			}
			sort.Strings(as)
			sort.Strings(bs)
			return reflect.DeepEqual(as, bs)
		}
		for i := range a.Arr {
			if !SameTree(a.Arr[i], b.Arr[i], false) {
				return false
			}
		}
		return true
	case "num":
		var x, y float64
		fmt.Sscan(a.Str, &x)
		fmt.Sscan(b.Str, &y)
		return x == y
	case "bool":
		return a.Bool == b.Bool
	}
	return a.Str == b.Str
}

