package dyn

// Resource-level bridge: abstract calls and outcomes <-> generated Client / Resource methods. Shared by both module
// generations (the generated client / resource / mock API and package restli are the same in both); what differs -
// the fields of ErrorResponse and the name of the collection metadata record - lives in res_v2.go / res_v1.go.

import (
	"sync"
	"strings"
	"errors"
	"context"
	"fmt"
	"reflect"
	"sort"

	"github.com/PapaCharlie/go-restli/v2/restli"
	"github.com/PapaCharlie/go-restli/v2/restlidata/generated/com/linkedin/restli/common"

	"verif/core/aval"
	"verif/core/schema"
)

type KV struct {
	K *aval.V `json:"k"`
	V *aval.V `json:"v,omitempty"`
	P *PatchM `json:"p,omitempty"`
	// Status / Err: batch response entries
	Status int   `json:"status,omitempty"`
	Err    *ErrM `json:"err,omitempty"`
}

// Call is one abstract client call (equally: what a resource method was invoked with).
type Call struct {
	Resource  string    `json:"resource"` // resource namespace
	Method    string    `json:"method"`   // generated function name (Get, FindByFoo, BarAction, ...)
	PathKeys  []*aval.V `json:"path_keys,omitempty"`
	Keys      []*aval.V `json:"keys,omitempty"`
	Entity    *aval.V   `json:"entity,omitempty"`
	Patch     *PatchM   `json:"patch,omitempty"`
	Entities  []*aval.V `json:"entities,omitempty"`
	EntityMap []KV      `json:"entity_map,omitempty"`
	Params    *aval.V   `json:"params,omitempty"`
}

type ErrM struct {
	Status           *int32  `json:"status,omitempty"`
	ServiceErrorCode *int32  `json:"service_error_code,omitempty"`
	Code             *string `json:"code,omitempty"`
	Message          *string `json:"message,omitempty"`
	DocUrl           *string `json:"doc_url,omitempty"`
	RequestId        *string `json:"request_id,omitempty"`
	ExceptionClass   *string `json:"exception_class,omitempty"`
	StackTrace       *string `json:"stack_trace,omitempty"`
	ErrorDetailType  *string `json:"error_detail_type,omitempty"`
	Details          bool    `json:"details,omitempty"`
	// Plain: a non-Rest.li error with this text; Panic: the method panics with this value
	Plain string `json:"plain,omitempty"`
	Panic string `json:"panic,omitempty"`
}

type CreatedM struct {
	Id     *aval.V `json:"id"`
	Status int     `json:"status,omitempty"`
	Entity *aval.V `json:"entity,omitempty"`
	Nil    bool    `json:"nil,omitempty"`
}

// Outcome is what a resource method returns / what a client call returned.
type Outcome struct {
	Entity       *aval.V     `json:"entity,omitempty"`
	HasElements  bool        `json:"has_elements,omitempty"`
	Elements     []*aval.V   `json:"elements,omitempty"`
	Paging       *PagingM    `json:"paging,omitempty"`
	Metadata     *aval.V     `json:"metadata,omitempty"`
	Created      *CreatedM   `json:"created,omitempty"`
	HasBatchCr   bool        `json:"has_batch_created,omitempty"`
	BatchCreated []*CreatedM `json:"batch_created,omitempty"`
	HasBatch     bool        `json:"has_batch,omitempty"`
	Results      []KV        `json:"results,omitempty"`
	Statuses     []KV        `json:"statuses,omitempty"`
	Errors       []KV        `json:"errors,omitempty"`
	Action       *aval.V     `json:"action,omitempty"`
	// StatusOverride: set ctx.ResponseStatus before returning (0 = leave the default)
	StatusOverride int   `json:"status_override,omitempty"`
	Err            *ErrM `json:"err,omitempty"`
	// NilResult: return a nil result without an error
	NilResult bool `json:"nil_result,omitempty"`
	// GoErr: return this very error object (C08: the object must not be modified by the library)
	GoErr error `json:"-"`
	// ShareKey: every invocation scripted with the same non-empty key returns the very same result objects (built by the
	// first one): resource code may hand out one response object to overlapping requests (C17)
	ShareKey string `json:"share_key,omitempty"`
}

var sharedResults sync.Map // ShareKey -> []reflect.Value

type PagingM struct {
	Start int32  `json:"start"`
	Count int32  `json:"count"`
	Total *int32 `json:"total,omitempty"`
}

// MethodInfo resolves the schema-side description of a generated method.
type MethodInfo struct {
	R        *schema.Resource
	M        schema.Method
	Func     string
	PathKeys []schema.Type // parents' keys, then the resource's own key when the method is on an entity
	KeyType  *schema.Type  // the resource's own key type (collections)
	Entity   *schema.Type
	Params   *schema.Named // synthesized record describing the params struct (nil: none)
}

func Methods(s *schema.Schema) []*MethodInfo {
	var out []*MethodInfo
	for _, r := range s.Resources {
		for _, m := range r.Methods {
			out = append(out, Info(s, r, m))
		}
	}
	return out
}

func Info(s *schema.Schema, r *schema.Resource, m schema.Method) *MethodInfo {
	mi := &MethodInfo{R: r, M: m, Func: schema.FuncName(m), Entity: r.Schema}
	for _, seg := range r.Segments[:len(r.Segments)-1] {
		if seg.Key != nil {
			mi.PathKeys = append(mi.PathKeys, *seg.Key)
		}
	}
	if k := r.Last().Key; k != nil {
		mi.KeyType = k
		if m.OnEntity {
			mi.PathKeys = append(mi.PathKeys, *k)
		}
	}
	if pn := schema.ParamsStructName(m); pn != "" {
		n := &schema.Named{Ident: schema.Ident{Name: pn, Namespace: r.Namespace + "#" + m.Kind + ":" + m.Name}, Kind: "record"}
		n.Fields = append(n.Fields, m.Params...)
		if m.Paging && m.Kind != "ACTION" {
			n.Fields = append(n.Fields, schema.Field{Name: "start", Type: schema.P("int32"), Optional: true}, schema.Field{Name: "count", Type: schema.P("int32"), Optional: true})
		}
		mi.Params = n
	}
	return mi
}

func (mi *MethodInfo) paramsGoType() reflect.Type {
	return TypeOf(mi.R.Namespace + "#" + mi.M.Kind + ":" + mi.M.Name)
}

// ParamsType is the schema type of the synthesized params record; EnsureParams registers it in the schema so
// that Build / Extract / generators can use it like any record.
func (mi *MethodInfo) ParamsType() schema.Type { return schema.RI(mi.Params.Ident) }

func EnsureParams(s *schema.Schema, mi *MethodInfo) {
	if mi.Params != nil && !s.Has(mi.Params.Ident) {
		s.Add(mi.Params)
		RegisterType(mi.Params.Full(), mi.paramsGoType())
	}
}

func (mi *MethodInfo) Rest() string {
	if mi.M.Kind == "REST_METHOD" {
		return mi.M.Name
	}
	return ""
}

// conv adapts a built value (GoType) to the parameter type a generated function declares (pointer or value).
func conv(v reflect.Value, want reflect.Type) reflect.Value {
	if v.Type() == want {
		return v
	}
	if want.Kind() == reflect.Ptr && v.Type() == want.Elem() {
		return ptrTo(v)
	}
	if v.Kind() == reflect.Ptr && v.Type().Elem() == want {
		return v.Elem()
	}
	if v.Type().ConvertibleTo(want) {
		return v.Convert(want)
	}
	panic(fmt.Sprintf("dyn: cannot pass %s where %s is expected", v.Type(), want))
}

// specificArgs builds the method-specific arguments (after the path keys) for the declared parameter types.
func specificArgs(s *schema.Schema, mi *MethodInfo, c *Call, in []reflect.Type, keep *KeepKeys) []reflect.Value {
	var out []reflect.Value
	i := 0
	next := func() reflect.Type { t := in[i]; i++; return t }
	switch mi.Rest() {
	case "batch_get", "batch_delete":
		t := next()
		sl := reflect.MakeSlice(t, 0, len(c.Keys))
		for _, k := range c.Keys {
			kv := conv(Build(s, *mi.KeyType, k, BuildOpts{}), t.Elem())
			keep.add(k, kv)
			sl = reflect.Append(sl, kv)
		}
		out = append(out, sl)
	case "create", "update":
		out = append(out, conv(Build(s, *mi.Entity, c.Entity, BuildOpts{}), next()))
	case "partial_update":
		out = append(out, conv(BuildPatch(s, s.Lookup(*mi.Entity.Ref), c.Patch), next()))
	case "batch_create":
		t := next()
		sl := reflect.MakeSlice(t, 0, len(c.Entities))
		for _, e := range c.Entities {
			sl = reflect.Append(sl, conv(Build(s, *mi.Entity, e, BuildOpts{}), t.Elem()))
		}
		out = append(out, sl)
	case "batch_update", "batch_partial_update":
		t := next()
		m := reflect.MakeMapWithSize(t, len(c.EntityMap))
		for _, kv := range c.EntityMap {
			k := conv(Build(s, *mi.KeyType, kv.K, BuildOpts{}), t.Key())
			keep.add(kv.K, k)
			var v reflect.Value
			if mi.Rest() == "batch_update" {
				v = conv(Build(s, *mi.Entity, kv.V, BuildOpts{}), t.Elem())
			} else {
				v = conv(BuildPatch(s, s.Lookup(*mi.Entity.Ref), kv.P), t.Elem())
			}
			m.SetMapIndex(k, v)
		}
		out = append(out, m)
	}
	if mi.Params != nil {
		t := next()
		EnsureParams(s, mi)
		p := c.Params
		if p == nil {
			p = aval.Record()
		}
		out = append(out, conv(Build(s, mi.ParamsType(), p, BuildOpts{}), t))
	}
	if i != len(in) {
		panic(fmt.Sprintf("dyn: %s.%s declares %d method arguments, the bridge built %d", mi.R.Namespace, mi.Func, len(in), i))
	}
	return out
}

// KeepKeys remembers the Go values of the keys a client call was made with (C16: identity of returned keys).
type KeepKeys struct {
	Abs []*aval.V
	Go  []reflect.Value
}

func (k *KeepKeys) add(a *aval.V, g reflect.Value) {
	if k != nil {
		k.Abs = append(k.Abs, a)
		k.Go = append(k.Go, g)
	}
}

// extractSpecific is the inverse of specificArgs (server side: what the resource method received).
func extractSpecific(s *schema.Schema, mi *MethodInfo, args []reflect.Value, c *Call) {
	i := 0
	next := func() reflect.Value { v := args[i]; i++; return v }
	switch mi.Rest() {
	case "batch_get", "batch_delete":
		sl := next()
		for j := 0; j < sl.Len(); j++ {
			c.Keys = append(c.Keys, Extract(s, *mi.KeyType, sl.Index(j)))
		}
	case "create", "update":
		c.Entity = Extract(s, *mi.Entity, next())
	case "partial_update":
		v := next()
		if v.Kind() == reflect.Ptr {
			v = v.Elem()
		}
		c.Patch = ExtractPatch(s, v, s.Lookup(*mi.Entity.Ref))
	case "batch_create":
		sl := next()
		for j := 0; j < sl.Len(); j++ {
			c.Entities = append(c.Entities, Extract(s, *mi.Entity, sl.Index(j)))
		}
	case "batch_update", "batch_partial_update":
		m := next()
		it := m.MapRange()
		for it.Next() {
			kv := KV{K: Extract(s, *mi.KeyType, it.Key())}
			if mi.Rest() == "batch_update" {
				kv.V = Extract(s, *mi.Entity, it.Value())
			} else {
				v := it.Value()
				if v.Kind() == reflect.Ptr {
					v = v.Elem()
				}
				kv.P = ExtractPatch(s, v, s.Lookup(*mi.Entity.Ref))
			}
			c.EntityMap = append(c.EntityMap, kv)
		}
		sort.Slice(c.EntityMap, func(a, b int) bool { return c.EntityMap[a].K.Canon() < c.EntityMap[b].K.Canon() })
	}
	if mi.Params != nil {
		EnsureParams(s, mi)
		c.Params = Extract(s, mi.ParamsType(), next())
	}
}

// ---------------------------------------------------------------------------------------------
// errors

func p32(v *int32) *int32 {
	if v == nil {
		return nil
	}
	c := *v
	return &c
}
func pstr(v *string) *string {
	if v == nil {
		return nil
	}
	c := *v
	return &c
}

type plainError struct{ msg string }

func (p plainError) Error() string { return p.msg }

// PlainError is an error that is not a Rest.li error response.
func PlainError(msg string) error { return plainError{msg} }

var errorType = reflect.TypeOf((*error)(nil)).Elem()

// ---------------------------------------------------------------------------------------------
// results: abstract outcome -> Go return values of a resource method (server side)

func resultValues(s *schema.Schema, mi *MethodInfo, o *Outcome, ft reflect.Type, received *Call, receivedKeys map[string]reflect.Value) []reflect.Value {
	nout := ft.NumOut()
	outs := make([]reflect.Value, nout)
	for i := 0; i < nout; i++ {
		outs[i] = reflect.Zero(ft.Out(i))
	}
	if o.GoErr != nil {
		outs[nout-1] = reflect.ValueOf(o.GoErr).Convert(errorType)
		return outs
	}
	if o.Err != nil {
		if o.Err.Plain != "" {
			outs[nout-1] = reflect.ValueOf(plainError{o.Err.Plain}).Convert(errorType)
		} else {
			outs[nout-1] = reflect.ValueOf(o.Err.ToGo()).Convert(errorType)
		}
		return outs
	}
	if nout == 1 || o.NilResult {
		return outs
	}
	rt := ft.Out(0)
	keyOf := func(k *aval.V, want reflect.Type) reflect.Value {
		if g, ok := receivedKeys[k.Canon()]; ok && g.Type() == want {
			return g // hand back the very key value the server passed in, as real resource code does
		}
		return conv(Build(s, *mi.KeyType, k, BuildOpts{}), want)
	}
	switch {
	case o.Entity != nil && mi.Rest() != "create":
		outs[0] = conv(Build(s, *mi.Entity, o.Entity, BuildOpts{}), rt)
	case o.HasElements:
		ev := reflect.New(rt.Elem())
		el := ev.Elem().FieldByName("Elements")
		et := *mi.Entity
		if mi.M.Return != nil {
			et = *mi.M.Return
		}
		sl := reflect.MakeSlice(el.Type(), 0, len(o.Elements))
		for _, e := range o.Elements {
			sl = reflect.Append(sl, conv(Build(s, et, e, BuildOpts{}), el.Type().Elem()))
		}
		el.Set(sl)
		if o.Paging != nil {
			ev.Elem().FieldByName("Paging").Set(reflect.ValueOf(pagingToGo(o.Paging)))
		}
		if mf := ev.Elem().FieldByName("Metadata"); mf.IsValid() && o.Metadata != nil {
			mf.Set(conv(Build(s, *mi.M.Metadata, o.Metadata, BuildOpts{}), mf.Type()))
		}
		outs[0] = ev
	case o.Created != nil:
		outs[0] = createdValue(s, mi, o.Created, rt)
	case o.HasBatchCr:
		sl := reflect.MakeSlice(rt, 0, len(o.BatchCreated))
		for _, c := range o.BatchCreated {
			sl = reflect.Append(sl, createdValue(s, mi, c, rt.Elem()))
		}
		outs[0] = sl
	case o.HasBatch:
		bv := reflect.New(rt.Elem())
		res := bv.Elem().FieldByName("Results")
		if len(o.Results) > 0 {
			m := reflect.MakeMap(res.Type())
			for _, kv := range o.Results {
				var v reflect.Value
				if mi.Rest() == "batch_get" {
					v = conv(Build(s, *mi.Entity, kv.V, BuildOpts{}), res.Type().Elem())
				} else {
					v = reflect.ValueOf(&common.BatchEntityUpdateResponse{Status: kv.Status})
				}
				m.SetMapIndex(keyOf(kv.K, res.Type().Key()), v)
			}
			res.Set(m)
		}
		if len(o.Statuses) > 0 {
			f := bv.Elem().FieldByName("Statuses")
			m := reflect.MakeMap(f.Type())
			for _, kv := range o.Statuses {
				m.SetMapIndex(keyOf(kv.K, f.Type().Key()), reflect.ValueOf(kv.Status))
			}
			f.Set(m)
		}
		if len(o.Errors) > 0 {
			f := bv.Elem().FieldByName("Errors")
			m := reflect.MakeMap(f.Type())
			for _, kv := range o.Errors {
				m.SetMapIndex(keyOf(kv.K, f.Type().Key()), reflect.ValueOf(kv.Err.ToGo()))
			}
			f.Set(m)
		}
		outs[0] = bv
	case o.Action != nil:
		outs[0] = conv(Build(s, *mi.M.Return, o.Action, BuildOpts{}), rt)
	}
	return outs
}

func createdValue(s *schema.Schema, mi *MethodInfo, c *CreatedM, rt reflect.Type) reflect.Value {
	if c.Nil {
		return reflect.Zero(rt)
	}
	cv := reflect.New(rt.Elem())
	ce := cv.Elem()
	if f := ce.FieldByName("Entity"); f.IsValid() && c.Entity != nil {
		f.Set(conv(Build(s, *mi.Entity, c.Entity, BuildOpts{}), f.Type()))
	}
	idf := ce.FieldByName("Id")
	idf.Set(conv(Build(s, *mi.KeyType, c.Id, BuildOpts{}), idf.Type()))
	ce.FieldByName("Status").SetInt(int64(c.Status))
	return cv
}

// ---------------------------------------------------------------------------------------------
// results: Go return values of a client call -> abstract outcome

func outcomeFromClient(s *schema.Schema, mi *MethodInfo, rets []reflect.Value) (*Outcome, error, map[string]reflect.Value) {
	o := &Outcome{}
	goKeys := map[string]reflect.Value{}
	var err error
	if e := rets[len(rets)-1]; !e.IsNil() {
		err = e.Interface().(error)
	}
	if len(rets) == 1 {
		return o, err, goKeys
	}
	rv := rets[0]
	if rv.Kind() == reflect.Ptr && rv.IsNil() {
		o.NilResult = true
		return o, err, goKeys
	}
	created := func(cv reflect.Value) *CreatedM {
		if cv.IsNil() {
			return &CreatedM{Nil: true}
		}
		ce := cv.Elem()
		c := &CreatedM{Id: Extract(s, *mi.KeyType, ce.FieldByName("Id")), Status: int(ce.FieldByName("Status").Int())}
		if f := ce.FieldByName("Entity"); f.IsValid() {
			c.Entity = Extract(s, *mi.Entity, f)
		}
		return c
	}
	switch {
	case mi.M.Kind == "ACTION":
		o.Action = Extract(s, *mi.M.Return, rv)
	case mi.M.Kind == "FINDER" || mi.Rest() == "get_all":
		o.HasElements = true
		et := *mi.Entity
		if mi.M.Return != nil {
			et = *mi.M.Return
		}
		el := rv.Elem().FieldByName("Elements")
		for i := 0; i < el.Len(); i++ {
			o.Elements = append(o.Elements, Extract(s, et, el.Index(i)))
		}
		if p := rv.Elem().FieldByName("Paging"); !p.IsNil() {
			o.Paging = pagingFromGo(p.Interface())
		}
		if mf := rv.Elem().FieldByName("Metadata"); mf.IsValid() {
			o.Metadata = Extract(s, *mi.M.Metadata, mf)
		}
	case mi.Rest() == "get", mi.Rest() == "partial_update":
		o.Entity = Extract(s, *mi.Entity, rv)
	case mi.Rest() == "create":
		o.Created = created(rv)
	case mi.Rest() == "batch_create":
		o.HasBatchCr = true
		for i := 0; i < rv.Len(); i++ {
			o.BatchCreated = append(o.BatchCreated, created(rv.Index(i)))
		}
	default: // batch_get, batch_update, batch_partial_update, batch_delete
		o.HasBatch = true
		b := rv.Elem()
		it := b.FieldByName("Results").MapRange()
		for it.Next() {
			kv := KV{K: Extract(s, *mi.KeyType, it.Key())}
			goKeys["results|"+kv.K.Canon()] = it.Key()
			if mi.Rest() == "batch_get" {
				kv.V = Extract(s, *mi.Entity, it.Value())
			} else if !it.Value().IsNil() {
				kv.Status = int(it.Value().Elem().FieldByName("Status").Int())
			}
			o.Results = append(o.Results, kv)
		}
		it = b.FieldByName("Statuses").MapRange()
		for it.Next() {
			kv := KV{K: Extract(s, *mi.KeyType, it.Key()), Status: int(it.Value().Int())}
			goKeys["statuses|"+kv.K.Canon()] = it.Key()
			o.Statuses = append(o.Statuses, kv)
		}
		it = b.FieldByName("Errors").MapRange()
		for it.Next() {
			kv := KV{K: Extract(s, *mi.KeyType, it.Key()), Err: ErrFromGo(it.Value().Interface().(*common.ErrorResponse))}
			goKeys["errors|"+kv.K.Canon()] = it.Key()
			o.Errors = append(o.Errors, kv)
		}
		for _, l := range [][]KV{o.Results, o.Statuses, o.Errors} {
			l := l
			sort.Slice(l, func(a, b int) bool { return l[a].K.Canon() < l[b].K.Canon() })
		}
	}
	return o, err, goKeys
}

// ---------------------------------------------------------------------------------------------
// the two entry points

// CallClient performs the abstract call through the generated client (the ...WithContext variant).
func CallClient(s *schema.Schema, ctx context.Context, c *restli.Client, call *Call, keep *KeepKeys) (o *Outcome, err error, returnedKeys map[string]reflect.Value) {
	mi := FindMethod(s, call.Resource, call.Method)
	b, ok := Resources[call.Resource]
	if !ok {
		panic("dyn: no binding registered for resource " + call.Resource)
	}
	cl := reflect.ValueOf(b.NewClient).Call([]reflect.Value{reflect.ValueOf(c)})[0]
	m := cl.MethodByName(mi.Func + "WithContext")
	if !m.IsValid() {
		panic("dyn: generated client of " + call.Resource + " has no method " + mi.Func + "WithContext")
	}
	ft := m.Type()
	args := []reflect.Value{reflect.ValueOf(ctx)}
	if len(call.PathKeys) != len(mi.PathKeys) {
		panic(fmt.Sprintf("dyn: %s.%s needs %d path keys, call has %d", call.Resource, mi.Func, len(mi.PathKeys), len(call.PathKeys)))
	}
	for i, k := range call.PathKeys {
		args = append(args, conv(Build(s, mi.PathKeys[i], k, BuildOpts{}), ft.In(len(args))))
	}
	var rest []reflect.Type
	for i := len(args); i < ft.NumIn(); i++ {
		rest = append(rest, ft.In(i))
	}
	args = append(args, specificArgs(s, mi, call, rest, keep)...)
	rets := m.Call(args)
	return outcomeFromClient(s, mi, rets)
}

func FindMethod(s *schema.Schema, resource, fn string) *MethodInfo {
	for _, r := range s.Resources {
		if r.Namespace != resource {
			continue
		}
		for _, m := range r.Methods {
			if schema.FuncName(m) == fn {
				return Info(s, r, m)
			}
		}
	}
	panic("dyn: no method " + fn + " on resource " + resource)
}

// Invocation is what a mock resource method observed.
type Invocation struct {
	Call Call
	Ctx  *restli.RequestContext
}

// Script decides the outcome of an invocation. It may panic (that is one of the outcomes to test).
type Script func(inv *Invocation) *Outcome

// NewMock builds a *MockResource for the resource whose every method records its invocation and
// returns script's outcome.
func NewMock(s *schema.Schema, r *schema.Resource, script Script) reflect.Value {
	b, ok := Resources[r.Namespace]
	if !ok {
		panic("dyn: no binding registered for resource " + r.Namespace)
	}
	mock := reflect.New(b.Mock)
	for _, m := range r.Methods {
		mi := Info(s, r, m)
		f := mock.Elem().FieldByName("Mock" + mi.Func)
		if !f.IsValid() {
			panic("dyn: mock of " + r.Namespace + " has no field Mock" + mi.Func)
		}
		ft := f.Type()
		f.Set(reflect.MakeFunc(ft, func(args []reflect.Value) []reflect.Value {
			inv := &Invocation{Ctx: args[0].Interface().(*restli.RequestContext)}
			inv.Call.Resource, inv.Call.Method = r.Namespace, mi.Func
			received := map[string]reflect.Value{}
			for i, kt := range mi.PathKeys {
				inv.Call.PathKeys = append(inv.Call.PathKeys, Extract(s, kt, args[1+i]))
			}
			rest := args[1+len(mi.PathKeys):]
			extractSpecific(s, mi, rest, &inv.Call)
			// remember the key values handed in, so outcomes can be keyed by the very same values
			if len(rest) > 0 && mi.KeyType != nil {
				switch mi.Rest() {
				case "batch_get", "batch_delete":
					for j := 0; j < rest[0].Len(); j++ {
						received[Extract(s, *mi.KeyType, rest[0].Index(j)).Canon()] = rest[0].Index(j)
					}
				case "batch_update", "batch_partial_update":
					it := rest[0].MapRange()
					for it.Next() {
						received[Extract(s, *mi.KeyType, it.Key()).Canon()] = it.Key()
					}
				}
			}
			o := script(inv)
			if o.Err != nil && o.Err.Panic != "" {
				// three kinds of panic: a string, an error value ("error:<text>"), a runtime error ("nil-deref")
				switch {
				case o.Err.Panic == "nil-deref":
					var np *Invocation
					_ = np.Call.Method // nil pointer dereference (runtime.Error)
				case strings.HasPrefix(o.Err.Panic, "error:"):
					panic(errors.New(strings.TrimPrefix(o.Err.Panic, "error:")))
				}
				panic(o.Err.Panic)
			}
			if o.StatusOverride != 0 {
				inv.Ctx.ResponseStatus = o.StatusOverride
			}
			if o.ShareKey != "" {
				if v, ok := sharedResults.Load(o.ShareKey); ok {
					return v.([]reflect.Value)
				}
				v, _ := sharedResults.LoadOrStore(o.ShareKey, resultValues(s, mi, o, ft, &inv.Call, received))
				return v.([]reflect.Value)
			}
			return resultValues(s, mi, o, ft, &inv.Call, received)
		}))
	}
	return mock
}

// Register registers a mock with a server through the generated RegisterResource.
func Register(server restli.Server, r *schema.Resource, mock reflect.Value) {
	b := Resources[r.Namespace]
	reflect.ValueOf(b.Register).Call([]reflect.Value{reflect.ValueOf(server), mock})
}
