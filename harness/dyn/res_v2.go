//verif:v2only ErrorResponse has ten fields in v2 (four in the root module); the collection metadata record is CollectionMetadata

package dyn

import (
	"github.com/PapaCharlie/go-restli/v2/restlidata/generated/com/linkedin/restli/common"
)

// Generation of the module the bridge is instantiated for.
const Generation = "v2"

// Restrict clears the fields this generation's ErrorResponse cannot carry (v2: it has all of them) and returns e.
func (e *ErrM) Restrict() *ErrM { return e }

func (e *ErrM) ToGo() *common.ErrorResponse {
	r := &common.ErrorResponse{Status: p32(e.Status), ServiceErrorCode: p32(e.ServiceErrorCode), Code: pstr(e.Code), Message: pstr(e.Message), DocUrl: pstr(e.DocUrl),
		RequestId: pstr(e.RequestId), ExceptionClass: pstr(e.ExceptionClass), StackTrace: pstr(e.StackTrace), ErrorDetailType: pstr(e.ErrorDetailType)}
	if e.Details {
		r.ErrorDetails = &common.ErrorDetails{}
	}
	return r
}

func ErrFromGo(r *common.ErrorResponse) *ErrM {
	if r == nil {
		return nil
	}
	return &ErrM{Status: p32(r.Status), ServiceErrorCode: p32(r.ServiceErrorCode), Code: pstr(r.Code), Message: pstr(r.Message), DocUrl: pstr(r.DocUrl),
		RequestId: pstr(r.RequestId), ExceptionClass: pstr(r.ExceptionClass), StackTrace: pstr(r.StackTrace), ErrorDetailType: pstr(r.ErrorDetailType), Details: r.ErrorDetails != nil}
}

func pagingToGo(p *PagingM) *common.CollectionMetadata {
	return &common.CollectionMetadata{Start: p.Start, Count: p.Count, Total: p32(p.Total)}
}

func pagingFromGo(v any) *PagingM {
	cm := v.(*common.CollectionMetadata)
	return &PagingM{Start: cm.Start, Count: cm.Count, Total: p32(cm.Total)}
}
