//verif:v1only the root module's restlidata.ErrorResponse has four fields (status, message, exceptionClass, stackTrace); its collection metadata record is spelled CollectionMedata

package dyn

import (
	"github.com/PapaCharlie/go-restli/v2/restlidata/generated/com/linkedin/restli/common"
)

// Generation of the module the bridge is instantiated for.
const Generation = "v1"

// Restrict clears the fields this generation's ErrorResponse cannot carry and returns e. The root module's
// restlidata.ErrorResponse (restlidata/ErrorResponse.gr.go) has no code, serviceErrorCode, docUrl, requestId,
// errorDetailType and errorDetails: resource code cannot return them, so case generators do not script them.
func (e *ErrM) Restrict() *ErrM {
	e.ServiceErrorCode, e.Code, e.DocUrl, e.RequestId, e.ErrorDetailType, e.Details = nil, nil, nil, nil, nil, false
	return e
}

func (e *ErrM) ToGo() *common.ErrorResponse {
	if e.ServiceErrorCode != nil || e.Code != nil || e.DocUrl != nil || e.RequestId != nil || e.ErrorDetailType != nil || e.Details {
		panic("dyn: the case scripts an error-response field the root module's ErrorResponse does not have (generator must call ErrM.Restrict)")
	}
	return &common.ErrorResponse{Status: p32(e.Status), Message: pstr(e.Message), ExceptionClass: pstr(e.ExceptionClass), StackTrace: pstr(e.StackTrace)}
}

func ErrFromGo(r *common.ErrorResponse) *ErrM {
	if r == nil {
		return nil
	}
	return &ErrM{Status: p32(r.Status), Message: pstr(r.Message), ExceptionClass: pstr(r.ExceptionClass), StackTrace: pstr(r.StackTrace)}
}

func pagingToGo(p *PagingM) *common.CollectionMedata {
	return &common.CollectionMedata{Start: p.Start, Count: p.Count, Total: p32(p.Total)}
}

func pagingFromGo(v any) *PagingM {
	cm := v.(*common.CollectionMedata)
	return &PagingM{Start: cm.Start, Count: cm.Count, Total: p32(cm.Total)}
}
