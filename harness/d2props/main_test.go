package d2props

// C19 - D2 announcement tracking and host selection follow the event history.
//
// Shared plumbing of the C19 checks: conversion of model events (verif/core/model/d2model) to TreeCacheEvents,
// rendering of a live snapshot to the model's State, and the scripted random source used for the edge probes.
// The reference model imports nothing from go-restli; this package only moves data between the two.

import (
	"fmt"
	"math/rand"
	"net/url"
	"os"
	"strings"
	"testing"

	"github.com/PapaCharlie/go-restli/v2/d2"

	"verif/core/hx"
	"verif/core/model/d2model"
)

func TestMain(m *testing.M) { hx.Main(m) }

// The jobs of C19 all run ^TestC19 of this package and select their share through C19_PART (comma separated:
// fold, select, edge; empty = everything). A replay run ignores the selection: the replay file's check name decides.
func skipUnlessPart(t *testing.T, part string) {
	if hx.Replaying() {
		return
	}
	sel := os.Getenv("C19_PART")
	if sel == "" {
		return
	}
	for _, p := range strings.Split(sel, ",") {
		if p == part {
			return
		}
	}
	t.Skip("not part of this job")
}

const (
	clusterName = "cluster-1"
	serviceName = "svc"
)

// zkPathOf is where the announcements of a cluster live (written out here, not taken from the package under test).
func zkPathOf(cluster string) string { return "/d2/uris/" + cluster }

func treeEvent(zkPath string, e d2model.Event) d2.TreeCacheEvent {
	ev := d2.TreeCacheEvent{Path: zkPath + e.Node}
	if b, ok := d2model.Payload(e); ok {
		ev.Data = &b
	}
	return ev
}

var urlStrings = map[url.URL]string{}

func hostString(u url.URL) string {
	if u.User != nil { // pointer member: not cacheable by value
		return u.String()
	}
	s, ok := urlStrings[u]
	if !ok {
		s = u.String()
		if len(urlStrings) < 4096 {
			urlStrings[u] = s
		}
	}
	return s
}

// render deep-copies a live snapshot into the model's representation (node -> host -> weight).
func render(w *d2.VerifServiceUris) d2model.State {
	out := d2model.State{}
	for node, uri := range w.VerifUris() {
		m := map[string]float64{}
		if uri != nil {
			for h, wt := range uri.Weights {
				m[hostString(h)] += wt
			}
			if len(m) != len(uri.Weights) {
				panic(fmt.Sprintf("harness: two announced URLs of node %s render to the same string: %v", node, uri.Weights))
			}
		}
		out[node] = m
	}
	return out
}

// sameState compares a live snapshot with a model state without building an intermediate copy.
func sameState(w *d2.VerifServiceUris, want d2model.State) bool {
	uris := w.VerifUris()
	if len(uris) != len(want) {
		return false
	}
	for node, uri := range uris {
		wm, ok := want[node]
		if !ok || uri == nil || len(uri.Weights) != len(wm) {
			return false
		}
		for h, wt := range uri.Weights {
			if ww, ok := wm[hostString(h)]; !ok || ww != wt {
				return false
			}
		}
	}
	return true
}

// scriptedSource is a rand.Source whose values are dictated by the harness. math/rand's Float64 is
// float64(Int63()) / (1<<63) (resampled when that rounds to 1), so with Int63() == v<<10 and 0 <= v < 2^53 it
// yields exactly v/2^53. newScriptedRng verifies this against the toolchain in use.
type scriptedSource struct{ v int64 }

func (s *scriptedSource) Int63() int64 {
	if s.v < 0 || s.v >= two53 {
		panic("harness: scripted rng value out of range")
	}
	return s.v << 10
}
func (s *scriptedSource) Seed(int64) {}

const two53 = int64(1) << 53

// newScriptedRng installs nothing; it returns a rand.Rand whose Float64 yields k/2^53 after src.v = k.
func newScriptedRng() (*rand.Rand, *scriptedSource) {
	src := &scriptedSource{}
	r := rand.New(src)
	for _, k := range []int64{0, 1, two53 / 2, two53 - 1, 123456789} {
		src.v = k
		if got, want := r.Float64(), float64(k)/float64(two53); got != want {
			panic(fmt.Sprintf("harness: scripted source does not control Float64 (k=%d got %v want %v)", k, got, want))
		}
	}
	return r, src
}
