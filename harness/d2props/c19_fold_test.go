package d2props

// C19, first half: after every event of a history the live snapshot equals the model's fold of the history so far,
// and no snapshot obtained earlier has changed.
//
//   - TestC19Exhaustive enumerates every history up to a length bound over a 19-symbol alphabet (3 nodes x {write A,
//     write B, delete, malformed, bad host URL, weight-less} + one event on the cluster node itself) as a prefix tree.
//   - TestC19History draws histories up to length 12 with richer payloads (rapid), half of them driven through the
//     client's real update loop (waitForUriUpdates fed over its event channel).

import (
	"fmt"
	"strings"
	"testing"

	"github.com/PapaCharlie/go-restli/v2/d2"
	"pgregory.net/rapid"

	"verif/core/hx"
	"verif/core/model/d2model"
	"verif/core/stats"
)

type histCase struct {
	Cluster string          `json:"cluster"`
	Events  []d2model.Event `json:"events"`
	// Loop: the events are sent to the client's update loop (each followed by an event on the cluster node itself,
	// which the loop must ignore and which tells the harness that the previous event has been processed); otherwise
	// handleUriUpdate is applied directly.
	Loop bool `json:"via_update_loop"`
}

func nonTrivialStep(s d2model.State, e d2model.Event) bool {
	if len(s) == 0 {
		return false
	}
	c := d2model.Classify(s, e)
	return c != "add" && c != "delete_absent"
}

// historyDriver feeds events to the code under test and returns the snapshot that is live afterwards.
type historyDriver interface {
	current() *d2.VerifServiceUris
	apply(ev d2.TreeCacheEvent) (snap *d2.VerifServiceUris, failure string)
	finish() (snap *d2.VerifServiceUris, failure string)
}

type directDriver struct {
	c *d2.Client
	w *d2.VerifServiceUris
}

func (d *directDriver) apply(ev d2.TreeCacheEvent) (*d2.VerifServiceUris, string) {
	var next *d2.VerifServiceUris
	if p, v, stack := hx.Try(func() { next = d.c.VerifHandleUriUpdate(d.w, ev) }); p {
		return nil, fmt.Sprintf("handleUriUpdate panicked: %v\n%s", v, stack)
	}
	if next == nil {
		return nil, "handleUriUpdate returned no snapshot"
	}
	d.w = next
	return next, ""
}

func (d *directDriver) finish() (*d2.VerifServiceUris, string) { return d.w, "" }
func (d *directDriver) current() *d2.VerifServiceUris          { return d.w }

type loopDriver struct {
	c       *d2.Client
	cluster string
	zkPath  string
	ch      chan d2.TreeCacheEvent
	done    chan string // receives the panic text (or "") when the loop returns
	closed  bool
}

func newLoopDriver(cluster string) *loopDriver {
	d := &loopDriver{c: &d2.Client{}, cluster: cluster, zkPath: zkPathOf(cluster), ch: make(chan d2.TreeCacheEvent), done: make(chan string, 1)}
	d.c.VerifSeed(serviceName, &d2.Service{ServiceName: serviceName, ClusterName: cluster}, d2.VerifNewServiceUris(d.zkPath))
	go func() {
		msg := ""
		if p, v, stack := hx.Try(func() { d.c.VerifWaitForUriUpdates(cluster, d.ch) }); p {
			msg = fmt.Sprintf("update loop panicked: %v\n%s", v, stack)
		}
		d.done <- msg
	}()
	return d
}

// send hands one event to the loop; the unbuffered channel means the loop has finished every earlier event when
// send returns.
func (d *loopDriver) send(ev d2.TreeCacheEvent) string {
	select {
	case d.ch <- ev:
		return ""
	case msg := <-d.done:
		d.closed = true
		if msg == "" {
			msg = "update loop returned while its event channel was still open"
		}
		return msg
	}
}

func (d *loopDriver) apply(ev d2.TreeCacheEvent) (*d2.VerifServiceUris, string) {
	if msg := d.send(ev); msg != "" {
		return nil, msg
	}
	// an event on the cluster node itself (ignored by the property) as a barrier: once it is accepted, ev is applied
	if msg := d.send(d2.TreeCacheEvent{Path: d.zkPath}); msg != "" {
		return nil, msg
	}
	if msg := d.send(d2.TreeCacheEvent{Path: d.zkPath}); msg != "" { // and the first barrier is processed, too
		return nil, msg
	}
	w := d.c.VerifLoadUris(d.cluster)
	if w == nil {
		return nil, "no snapshot stored for the cluster"
	}
	return w, ""
}

func (d *loopDriver) current() *d2.VerifServiceUris { return d.c.VerifLoadUris(d.cluster) }

func (d *loopDriver) finish() (*d2.VerifServiceUris, string) {
	if !d.closed {
		d.closed = true
		close(d.ch)
		if msg := <-d.done; msg != "" {
			return nil, msg
		}
	}
	w := d.c.VerifLoadUris(d.cluster)
	if w == nil {
		return nil, "no snapshot stored for the cluster"
	}
	return w, ""
}

func describeHistory(c histCase, upto int) string {
	var b strings.Builder
	for i, e := range c.Events {
		if i > upto {
			break
		}
		data, ok := d2model.Payload(e)
		p := "<deleted>"
		if ok {
			p = string(data)
		}
		node := e.Node
		if node == "" {
			node = "<cluster node>"
		}
		fmt.Fprintf(&b, "\n  %d. %s %s %s", i+1, node, e.Kind, hx.Q(p))
	}
	return b.String()
}

// checkHistory returns "" when the property holds for c, or a description of the violation.
func checkHistory(rec *stats.Recorder, c histCase, count bool) string {
	zk := zkPathOf(c.Cluster)

	if count { // classification: a pure pass over the model
		st := d2model.State{}
		seen := map[string]bool{}
		nt := false
		for _, e := range c.Events {
			seen["has_"+d2model.Classify(st, e)] = true
			nt = nt || nonTrivialStep(st, e)
			st = d2model.Apply(st, e)
		}
		labels := []string{fmt.Sprintf("history_len=%02d", len(c.Events))}
		if c.Loop {
			labels = append(labels, "via_update_loop")
		} else {
			labels = append(labels, "direct_handleUriUpdate")
		}
		for l := range seen {
			labels = append(labels, l)
		}
		rec.Case(labels...)
		if nt {
			class := "history_direct"
			if c.Loop {
				class = "history_loop"
			}
			rec.NonTrivial(class, hx.J(c), func() any { return c })
		}
	}

	var drv historyDriver
	if c.Loop {
		drv = newLoopDriver(c.Cluster)
	} else {
		drv = &directDriver{c: &d2.Client{}, w: d2.VerifNewServiceUris(zk)}
	}
	defer drv.finish()

	state := d2model.State{}
	snaps := []*d2.VerifServiceUris{drv.current()}
	if snaps[0] == nil || len(snaps[0].VerifUris()) != 0 {
		panic("harness: initial snapshot missing or not empty")
	}
	copies := []d2model.State{render(snaps[0])}

	unchanged := func(when string, i int) string {
		for j, old := range snaps {
			if !sameState(old, copies[j]) {
				return fmt.Sprintf("the snapshot that was live after event %d was modified %s: it was %s and now reads %s (via_update_loop=%v)%s",
					j, when, copies[j], render(old), c.Loop, describeHistory(c, i))
			}
		}
		return ""
	}

	for i, e := range c.Events {
		state = d2model.Apply(state, e)
		snap, failure := drv.apply(treeEvent(zk, e))
		if failure != "" {
			return fmt.Sprintf("event %d: %s (via_update_loop=%v)%s", i+1, failure, c.Loop, describeHistory(c, i))
		}
		got := render(snap)
		if !d2model.Equal(got, state) {
			return fmt.Sprintf("after event %d the announced URIs are %s but the fold of the history is %s (via_update_loop=%v)%s",
				i+1, got, state, c.Loop, describeHistory(c, i))
		}
		if msg := unchanged(fmt.Sprintf("by event %d", i+1), i); msg != "" {
			return msg
		}
		snaps = append(snaps, snap)
		copies = append(copies, got)
	}
	final, failure := drv.finish()
	if failure != "" {
		return fmt.Sprintf("after the last event: %s%s", failure, describeHistory(c, len(c.Events)))
	}
	if got := render(final); !d2model.Equal(got, state) {
		return fmt.Sprintf("after the whole history the announced URIs are %s but the fold is %s (via_update_loop=%v)%s",
			got, state, c.Loop, describeHistory(c, len(c.Events)))
	}
	return unchanged("by the end of the history", len(c.Events))
}

// ----------------------------------------------------------------------------------------------
// exhaustive enumeration

var (
	exhA = []d2model.HW{{Host: "http://h1:8080/ctx", Weight: 1}, {Host: "https://h1:8443/ctx", Weight: 0}}
	exhB = []d2model.HW{{Host: "https://h2:8443/ctx", Weight: 2.5}}
)

func exhaustiveAlphabet() []d2model.Event {
	var out []d2model.Event
	for _, n := range []string{"/n0", "/n1", "/n2"} {
		out = append(out,
			d2model.Event{Node: n, Kind: d2model.Write, Hosts: exhA},
			d2model.Event{Node: n, Kind: d2model.Write, Hosts: exhB, Extras: true},
			d2model.Event{Node: n, Kind: d2model.Delete},
			d2model.Event{Node: n, Kind: d2model.Malformed, Variant: 0},
			d2model.Event{Node: n, Kind: d2model.BadHost, Variant: 0, Hosts: exhB},
			d2model.Event{Node: n, Kind: d2model.Weightless, Variant: 0},
		)
	}
	// an event on the cluster node itself, carrying a well-formed announcement
	out = append(out, d2model.Event{Node: "", Kind: d2model.Write, Hosts: exhB})
	return out
}

type exhaust struct {
	rec      *stats.Recorder
	client   *d2.Client
	alphabet []d2model.Event
	events   []d2.TreeCacheEvent
	maxLen   int
	shard, n int
	path     []int
	snaps    []*d2.VerifServiceUris
	copies   []d2model.State
	states   []d2model.State
	nontriv  []bool
	lenLabel []string
	visited  int64
	failure  string
	failCase histCase
}

func (x *exhaust) history(depth int) histCase {
	c := histCase{Cluster: clusterName}
	for d := 0; d <= depth; d++ {
		c.Events = append(c.Events, x.alphabet[x.path[d]])
	}
	return c
}

// visit extends the history of length depth by every symbol. Returns false once a violation has been found.
func (x *exhaust) visit(depth int) bool {
	A := len(x.alphabet)
	for i := 0; i < A; i++ {
		if depth == 1 && (x.path[0]*A+i)%x.n != x.shard {
			continue // histories of length >= 2 are split across shards by their first two events
		}
		x.path[depth] = i
		want := d2model.Apply(x.states[depth], x.alphabet[i])
		var child *d2.VerifServiceUris
		msg := ""
		if p, v, _ := hx.Try(func() { child = x.client.VerifHandleUriUpdate(x.snaps[depth], x.events[i]) }); p {
			msg = fmt.Sprintf("handleUriUpdate panicked: %v", v)
		} else if child == nil {
			msg = "handleUriUpdate returned no snapshot"
		} else if !sameState(child, want) {
			msg = fmt.Sprintf("announced URIs are %s but the fold of the history is %s", render(child), want)
		} else {
			for d := 0; d <= depth; d++ {
				if !sameState(x.snaps[d], x.copies[d]) {
					msg = fmt.Sprintf("the snapshot that was live after event %d was modified: it was %s and now reads %s", d, x.copies[d], render(x.snaps[d]))
					break
				}
			}
		}
		// each history is counted in the pass whose bound is its length; length-1 histories are evaluated by every
		// shard but counted once
		counted := depth+1 == x.maxLen && (depth > 0 || x.shard == 0)
		if counted {
			x.visited++
			x.rec.Case(x.lenLabel[depth+1])
		}
		nt := x.nontriv[depth] || nonTrivialStep(x.states[depth], x.alphabet[i])
		if nt && depth+1 <= 4 && counted {
			key := make([]byte, 0, 8)
			key = append(key, "exh:"...)
			for d := 0; d <= depth; d++ {
				key = append(key, byte('a'+x.path[d]))
			}
			x.rec.NonTrivial("history_enumerated", string(key), func() any { return x.history(depth) })
		}
		if msg != "" {
			x.failCase = x.history(depth)
			x.failure = fmt.Sprintf("after event %d: %s%s", depth+1, msg, describeHistory(x.failCase, depth))
			return false
		}
		if depth+1 < x.maxLen {
			x.snaps[depth+1], x.copies[depth+1], x.states[depth+1], x.nontriv[depth+1] = child, render(child), want, nt
			if !x.visit(depth + 1) {
				return false
			}
		}
	}
	return true
}

func TestC19Exhaustive(t *testing.T) {
	skipUnlessPart(t, "fold")
	rec := stats.For("C19")
	if hx.Replaying() {
		t.Skip() // replays of enumerated histories are evaluated by TestC19History (same case type, check prefix "fold")
	}
	maxLen := 5 // quick; the property's quantifier (length 6) is covered by the thorough tier
	if stats.Thorough() {
		maxLen = 6
	}
	x := &exhaust{rec: rec, client: &d2.Client{}, alphabet: exhaustiveAlphabet(), maxLen: maxLen}
	x.shard, x.n = hx.ShardIndex()
	zk := zkPathOf(clusterName)
	for _, e := range x.alphabet {
		x.events = append(x.events, treeEvent(zk, e))
	}
	x.path = make([]int, maxLen)
	x.snaps = make([]*d2.VerifServiceUris, maxLen+1)
	x.copies = make([]d2model.State, maxLen+1)
	x.states = make([]d2model.State, maxLen+1)
	x.nontriv = make([]bool, maxLen+1)
	for l := 0; l <= maxLen; l++ {
		x.lenLabel = append(x.lenLabel, fmt.Sprintf("enumerated_len=%d", l))
	}
	x.snaps[0] = d2.VerifNewServiceUris(zk)
	x.copies[0] = render(x.snaps[0])
	x.states[0] = d2model.State{}
	// iterative deepening, so that the first violation reported is one of the shortest histories of this shard
	ok := true
	for l := 1; l <= maxLen && ok; l++ {
		x.maxLen = l
		ok = x.visit(0)
	}
	rec.Exhaustive(fmt.Sprintf("event histories of length 1..%d over 3 nodes x {write A, write B, delete, malformed, bad host URL, weight-less} + cluster-node event (19 symbols), every prefix checked", maxLen), x.visited)
	if !ok {
		// re-evaluate the history on its own so that the replay file holds a case that fails without the prefix tree
		if msg := checkHistory(rec, x.failCase, false); msg != "" {
			x.failure = msg
		} else {
			x.failure += "\n(the history passes when evaluated on its own: a snapshot shared with a sibling history was modified)"
		}
		rec.Violation("fold-enumerated", x.failure, x.failCase)
		t.Fatal(x.failure)
	}
}

// ----------------------------------------------------------------------------------------------
// rapid histories

var hostPool = []string{
	"http://h1:8080/ctx", "http://h2:8080/ctx", "http://h3:8080/", "http://h4.example.com:80/a/b",
	"https://h1:8443/ctx", "https://h2:8443/ctx", "https://h3:8443", "https://[::1]:8443/ctx",
	"ftp://h1:21/ctx", "ftp://h5:21/x",
}

var weightPool = []float64{0, 0, 0, 1, 1, 1, 2, 3, 10, 100, 0.5, 2.5, 0.1, 0.2, 0.3, 0.4, 0.6, 0.7, 1.1, 1.5, 1e-3, 1e6}

func genHosts(t *rapid.T, min, max int) []d2model.HW { return genHostsW(t, min, max, weightPool) }

func genHostsW(t *rapid.T, min, max int, weights []float64) []d2model.HW {
	n := rapid.IntRange(min, max).Draw(t, "nhosts")
	var out []d2model.HW
	used := map[string]bool{}
	for len(out) < n {
		h := rapid.SampledFrom(hostPool).Draw(t, "host")
		if used[h] {
			continue
		}
		used[h] = true
		out = append(out, d2model.HW{Host: h, Weight: rapid.SampledFrom(weights).Draw(t, "weight")})
	}
	return out
}

func genEvent(t *rapid.T) d2model.Event {
	e := d2model.Event{Node: rapid.SampledFrom([]string{"/n0", "/n1", "/n2"}).Draw(t, "node")}
	if rapid.IntRange(0, 11).Draw(t, "on_cluster_node") == 0 {
		e.Node = ""
	}
	switch k := rapid.IntRange(0, 11).Draw(t, "kind"); {
	case k < 5:
		e.Kind = d2model.Write
		e.Hosts = genHosts(t, 1, 3)
		e.Extras = rapid.Bool().Draw(t, "extras")
	case k < 8:
		e.Kind = d2model.Delete
	case k < 9:
		e.Kind = d2model.Malformed
		e.Variant = rapid.IntRange(0, d2model.NVariants(d2model.Malformed)-1).Draw(t, "variant")
	case k < 10:
		e.Kind = d2model.BadHost
		e.Variant = rapid.IntRange(0, d2model.NVariants(d2model.BadHost)-1).Draw(t, "variant")
		e.Hosts = genHosts(t, 0, 2)
	default:
		e.Kind = d2model.Weightless
		e.Variant = rapid.IntRange(0, d2model.NVariants(d2model.Weightless)-1).Draw(t, "variant")
	}
	return e
}

func genHistory(t *rapid.T) histCase {
	c := histCase{Cluster: clusterName, Loop: rapid.Bool().Draw(t, "via_update_loop")}
	c.Events = rapid.SliceOfN(rapid.Custom(genEvent), 1, 12).Draw(t, "events") // a slice shrinks by dropping events
	return c
}

func TestC19History(t *testing.T) {
	skipUnlessPart(t, "fold")
	rec := stats.For("C19")
	if c, ok := hx.Replay[histCase]("C19", "fold"); ok {
		if msg := checkHistory(rec, c, true); msg != "" {
			rec.Violation("fold-replay", msg, c)
			t.Fatal(msg)
		}
		return
	} else if hx.Replaying() {
		t.Skip()
	}
	rapid.Check(t, func(rt *rapid.T) {
		c := genHistory(rt)
		if msg := checkHistory(rec, c, true); msg != "" {
			rec.Violation("fold", msg, c)
			rt.Fatalf("%s", msg)
		}
	})
}
