package d2props

// C19, second half: host selection.
//
// For an announcement set (built by feeding the announcements through handleUriUpdate) and a list of prioritized
// schemes the model gives the eligible set: the hosts of the highest-priority scheme for which any host is announced,
// or every host when no priorities are configured. Checked per case:
//
//	member  every chosen host is eligible; no host (and an error from ResolveHostnameAndContextForQuery) iff the
//	        eligible set is empty; never a zero-weight host while an eligible host has a positive weight
//	stat    Draws selections with the package rng seeded from the case: each eligible host's count within
//	        6*sqrt(K p (1-p)) + 5 of K p, p = weight/total; a miss must repeat on 4K fresh draws to count
//	grid    the package rng scripted to return the midpoints of Grid equal cells of [0,1): same tolerance
//	edge    the package rng scripted to return 0, 2^-53, 1/2, 1-3*2^-53 .. 1-2^-53: the member rules
//
// The checks of this file replace the package-level rng of d2 and therefore never run in parallel.

import (
	"fmt"
	"math"
	"math/rand"
	"net/url"
	"testing"

	"github.com/PapaCharlie/go-restli/v2/d2"
	"pgregory.net/rapid"

	"verif/core/hx"
	"verif/core/kf"
	"verif/core/model/d2model"
	"verif/core/stats"
)

type nodeAnn struct {
	Node  string       `json:"node"`
	Hosts []d2model.HW `json:"hosts"`
}

type selCase struct {
	Nodes       []nodeAnn `json:"nodes"`
	Prioritized []string  `json:"prioritized_schemes"`
	RngSeed     int64     `json:"rng_seed"`
	Draws       int       `json:"draws"`        // statistical draws K (0: skip)
	Grid        int       `json:"grid"`         // scripted-rng grid points (0: skip)
	EdgeRepeats int       `json:"edge_repeats"` // selections per scripted edge value (0: skip)
}

const (
	sigmas       = 6.0
	absSlack     = 5.0
	memberDraws  = 48
	clientDraws  = 16
	confirmTimes = 4
)

func tolerance(k int, p float64) float64 {
	return sigmas*math.Sqrt(float64(k)*p*(1-p)) + absSlack
}

// judge applies the unconditional selection rules to one outcome.
func judge(el d2model.Eligibility, got *url.URL) string {
	if got == nil {
		if !el.Empty() {
			return "no host was chosen although eligible hosts exist"
		}
		return ""
	}
	h := got.String()
	if el.Empty() {
		return fmt.Sprintf("host %s was chosen although no host is eligible", h)
	}
	w, ok := el.Hosts[h]
	if !ok {
		return fmt.Sprintf("host %s was chosen but is not in the eligible set", h)
	}
	if w == 0 && el.Positive {
		return fmt.Sprintf("zero-weight host %s was chosen while an eligible host with positive weight exists", h)
	}
	return ""
}

func describeSel(c selCase, st d2model.State, el d2model.Eligibility) string {
	return fmt.Sprintf("\n announced: %s\n prioritized schemes: %q\n eligible (scheme %q): %v", st, c.Prioritized, el.Scheme, el.Hosts)
}

type selFailure struct {
	check string // sub-check name
	msg   string
}

// checkSelect evaluates one selection case. ok=false with a selFailure describes a violation.
func checkSelect(rec *stats.Recorder, c selCase) (f selFailure, ok bool) {
	client := &d2.Client{}
	zk := zkPathOf(clusterName)
	w := d2.VerifNewServiceUris(zk)
	var history []d2model.Event
	for _, n := range c.Nodes {
		e := d2model.Event{Node: n.Node, Kind: d2model.Write, Hosts: n.Hosts}
		history = append(history, e)
		if p, v, stack := hx.Try(func() { w = client.VerifHandleUriUpdate(w, treeEvent(zk, e)) }); p {
			return selFailure{check: "select-build", msg: fmt.Sprintf("handleUriUpdate panicked: %v\n%s", v, stack)}, false
		}
	}
	st := d2model.Fold(history)
	if w == nil || !sameState(w, st) {
		return selFailure{check: "select-build", msg: fmt.Sprintf("announcing %s gave the snapshot %v", st, w)}, false
	}
	el := d2model.Eligible(st, c.Prioritized)
	hosts := el.SortedHosts()
	desc := describeSel(c, st, el)

	// classification
	labels := []string{fmt.Sprintf("eligible_hosts=%d", len(hosts))}
	switch {
	case len(c.Prioritized) == 0:
		labels = append(labels, "no_priorities")
	case el.Empty():
		labels = append(labels, "priorities_none_matching")
	case el.Scheme == c.Prioritized[0]:
		labels = append(labels, "priorities_first_scheme_has_hosts")
	default:
		labels = append(labels, "priorities_fall_through_to_later_scheme")
	}
	distinctW := map[float64]bool{}
	zero := 0
	for _, h := range hosts {
		distinctW[el.Hosts[h]] = true
		if el.Hosts[h] == 0 {
			zero++
		}
	}
	if zero > 0 && el.Positive {
		labels = append(labels, "zero_and_positive_weights_eligible")
	}
	if len(hosts) > 0 && !el.Positive {
		labels = append(labels, "all_eligible_weights_zero")
	}
	if len(distinctW) > 1 {
		labels = append(labels, "unequal_eligible_weights")
	}
	if el.Dup {
		labels = append(labels, "unspecified_host_announced_by_several_nodes")
	}
	proportional := el.Positive && !el.Dup && len(hosts) > 1
	if proportional {
		labels = append(labels, "proportionality_asserted")
	}
	rec.Case(labels...)
	if len(hosts) > 1 || len(c.Prioritized) > 0 && len(st) > 0 {
		rec.NonTrivial("selection", hx.J(c.Nodes)+hx.J(c.Prioritized), func() any { return c })
	}

	choose := func() (got *url.URL, panicMsg string) {
		if p, v, stack := hx.Try(func() { got = w.VerifChooseHost(c.Prioritized) }); p {
			return nil, fmt.Sprintf("chooseHost panicked: %v\n%s", v, stack)
		}
		return got, ""
	}

	// --- member: seeded rng, direct and through the client
	d2.VerifSetRng(rand.New(rand.NewSource(c.RngSeed)))
	for i := 0; i < memberDraws; i++ {
		got, pm := choose()
		if pm != "" {
			return selFailure{check: "select-member", msg: pm + desc}, false
		}
		if m := judge(el, got); m != "" {
			return selFailure{check: "select-member", msg: fmt.Sprintf("%s (rng seed %d, draw %d)%s", m, c.RngSeed, i, desc)}, false
		}
	}
	client.VerifSeed(serviceName, &d2.Service{ServiceName: serviceName, ClusterName: clusterName, PrioritizedSchemes: c.Prioritized}, w)
	for i := 0; i < clientDraws; i++ {
		var got *url.URL
		var err error
		if p, v, stack := hx.Try(func() { got, err = client.ResolveHostnameAndContextForQuery(serviceName, nil) }); p {
			return selFailure{check: "select-member", msg: fmt.Sprintf("ResolveHostnameAndContextForQuery panicked: %v\n%s%s", v, stack, desc)}, false
		}
		if (err != nil) != (got == nil) {
			return selFailure{check: "select-member", msg: fmt.Sprintf("ResolveHostnameAndContextForQuery returned host %v together with error %v%s", got, err, desc)}, false
		}
		if m := judge(el, got); m != "" {
			return selFailure{check: "select-member", msg: fmt.Sprintf("ResolveHostnameAndContextForQuery: %s (error: %v; rng seed %d)%s", m, err, c.RngSeed, desc)}, false
		}
	}

	// --- stat / grid: frequencies
	count := func(k int, next func(i int)) (counts map[string]int, failure string) {
		counts = map[string]int{}
		i := 0
		if p, v, stack := hx.Try(func() {
			for ; i < k; i++ {
				next(i)
				got := w.VerifChooseHost(c.Prioritized)
				if got == nil {
					if failure = judge(el, nil); failure != "" {
						return
					}
					continue
				}
				h := hostString(*got)
				if wt, ok := el.Hosts[h]; !ok || wt == 0 && el.Positive {
					failure = judge(el, got)
					return
				}
				counts[h]++
			}
		}); p {
			return nil, fmt.Sprintf("chooseHost panicked: %v\n%s", v, stack)
		}
		if failure != "" {
			failure = fmt.Sprintf("%s (draw %d)", failure, i)
		}
		return counts, failure
	}
	offenders := func(counts map[string]int, k int) []string {
		var out []string
		for _, h := range hosts {
			p := el.Hosts[h] / el.Total
			if d := math.Abs(float64(counts[h]) - float64(k)*p); d > tolerance(k, p) {
				out = append(out, fmt.Sprintf("%s: weight %v of %v, expected %.1f of %d draws, observed %d (tolerance %.1f)",
					h, el.Hosts[h], el.Total, float64(k)*p, k, counts[h], tolerance(k, p)))
			}
		}
		return out
	}
	if c.Draws > 0 {
		d2.VerifSetRng(rand.New(rand.NewSource(c.RngSeed)))
		counts, m := count(c.Draws, func(int) {})
		if m != "" {
			return selFailure{check: "select-member", msg: m + fmt.Sprintf(" (rng seed %d)", c.RngSeed) + desc}, false
		}
		if proportional {
			if off := offenders(counts, c.Draws); len(off) > 0 {
				d2.VerifSetRng(rand.New(rand.NewSource(c.RngSeed + 1)))
				k2 := confirmTimes * c.Draws
				counts2, m := count(k2, func(int) {})
				if m != "" {
					return selFailure{check: "select-member", msg: m + desc}, false
				}
				if off2 := offenders(counts2, k2); len(off2) > 0 {
					return selFailure{check: "select-stat", msg: fmt.Sprintf("selection frequencies are not proportional to the weights (rng seed %d, then %d):\n  %v\n confirmed on %d fresh draws:\n  %v%s",
						c.RngSeed, c.RngSeed+1, off, k2, off2, desc)}, false
				}
				rec.Label("stat_miss_not_confirmed", 1)
			}
		}
	}
	if c.Grid > 0 || c.EdgeRepeats > 0 {
		r, src := newScriptedRng()
		d2.VerifSetRng(r)
		if c.Grid > 0 && proportional {
			sweep := func(g int) (map[string]int, string) {
				return count(g, func(i int) { src.v = int64((float64(i) + 0.5) / float64(g) * float64(two53)) })
			}
			counts, m := sweep(c.Grid)
			if m != "" {
				return selFailure{check: "select-grid", msg: m + " with the rng scripted over a grid" + desc}, false
			}
			if off := offenders(counts, c.Grid); len(off) > 0 {
				g2 := confirmTimes * c.Grid
				counts2, m := sweep(g2)
				if m != "" {
					return selFailure{check: "select-grid", msg: m + desc}, false
				}
				if off2 := offenders(counts2, g2); len(off2) > 0 {
					return selFailure{check: "select-grid", msg: fmt.Sprintf("with rng.Float64() scripted to the midpoints of %d equal cells of [0,1) the hosts are not chosen in proportion to their weights:\n  %v\n confirmed on %d cells:\n  %v%s",
						c.Grid, off, g2, off2, desc)}, false
				}
				rec.Label("grid_miss_not_confirmed", 1)
			}
		}
		if c.EdgeRepeats > 0 {
		edges:
			for _, k := range []int64{0, 1, two53 / 2, two53 - 3, two53 - 2, two53 - 1} {
				src.v = k
				for i := 0; i < c.EdgeRepeats; i++ {
					got, pm := choose()
					if pm != "" {
						return selFailure{check: "select-edge", msg: pm + desc}, false
					}
					m := judge(el, got)
					if m == "" {
						continue
					}
					f := selFailure{check: "select-edge", msg: fmt.Sprintf("with rng.Float64() == %d/2^53 (%.17g): %s%s", k, float64(k)/float64(two53), m, desc)}
					// signatures of known findings (active only while listed as open in known_findings.json): a hit is
					// counted and the remaining edge values are still probed
					known := ""
					switch {
					case k == 0 && got != nil && inSet(el, got) && el.Hosts[got.String()] == 0 && el.Positive:
						f.check, known = "select-edge-u0", "KF-C19-rng-zero-picks-zero-weight"
					case k >= two53-3 && el.Positive && (got == nil || !inSet(el, got)):
						f.check, known = "select-edge-u1", "KF-C19-rounding-skips-all-hosts"
					}
					if known != "" && kf.Open(known) {
						rec.Known(known, kf.What(known), c)
						continue edges
					}
					return f, false
				}
			}
		}
	}
	// "snapshots handed to readers are immutable": selecting from the snapshot (any number of times, through every path above)
	// must have left it as it was
	if !sameState(w, st) {
		return selFailure{check: "select-snapshot", msg: fmt.Sprintf("selecting hosts changed the snapshot: announced %s, now %v%s", st, w, desc)}, false
	}
	return selFailure{}, true
}

func inSet(el d2model.Eligibility, u *url.URL) bool {
	_, ok := el.Hosts[u.String()]
	return ok
}

// ----------------------------------------------------------------------------------------------
// generator

var matchingSchemeLists = [][]string{
	{"http"}, {"https"}, {"ftp"},
	{"https", "http"}, {"http", "https"}, {"ftp", "https", "http"}, {"https", "ftp"}, {"d2", "https", "http"},
	{"https", "https", "http"}, {"http", "ftp", "https", "d2"}, {"ftp", "http"}, {"gopher", "ftp", "d2", "http"},
}

var foreignSchemeLists = [][]string{{"d2"}, {"gopher", "d2"}, {""}}

var schemeLists = append(append([][]string{}, matchingSchemeLists...), foreignSchemeLists...)

func genSelCase(t *rapid.T) selCase {
	c := selCase{
		RngSeed: rapid.Int64Range(1, 1<<40).Draw(t, "rng_seed"),
		Draws:   20000,
		Grid:    2000,
	}
	genAnnouncements(t, &c, weightPool)
	return c
}

// edgeWeights favours fractional weights whose sums round differently in different orders, next to zero weights.
var edgeWeights = []float64{0, 0, 0.1, 0.2, 0.3, 0.4, 0.6, 0.7, 1, 1.1, 1.5, 2.5, 3, 10, 1e-3, 1e6}

func genEdgeCase(t *rapid.T) selCase {
	c := selCase{RngSeed: 1, EdgeRepeats: 32}
	genAnnouncements(t, &c, edgeWeights)
	return c
}

func genAnnouncements(t *rapid.T, c *selCase, weights []float64) {
	nodes := []string{"/n0", "/n1", "/n2", "/n3"}
	n := []int{2, 2, 2, 2, 2, 2, 2, 1, 1, 1, 1, 1, 3, 3, 3, 3, 3, 4, 4, 0}[rapid.IntRange(0, 19).Draw(t, "nnodes")]
	dup := rapid.IntRange(0, 9).Draw(t, "allow_same_host_in_several_nodes") == 0
	used := map[string]bool{}
	for i := 0; i < n; i++ {
		var hs []d2model.HW
		for _, h := range genHostsW(t, 1, 3, weights) {
			if used[h.Host] && !dup {
				continue
			}
			used[h.Host] = true
			hs = append(hs, h)
		}
		if len(hs) > 0 {
			c.Nodes = append(c.Nodes, nodeAnn{Node: nodes[i], Hosts: hs})
		}
	}
	switch k := rapid.IntRange(0, 9).Draw(t, "priorities"); {
	case k <= 5:
		c.Prioritized = rapid.SampledFrom(matchingSchemeLists).Draw(t, "schemes")
	case k <= 8: // none configured
		if rapid.Bool().Draw(t, "empty_not_nil") {
			c.Prioritized = []string{}
		}
	default:
		c.Prioritized = rapid.SampledFrom(foreignSchemeLists).Draw(t, "schemes")
	}
}

func reportSelect(rec *stats.Recorder, c selCase, f selFailure, fatal func(string)) {
	rec.Violation(f.check, f.msg, c)
	fatal(f.msg)
}

func TestC19Select(t *testing.T) {
	skipUnlessPart(t, "select")
	rec := stats.For("C19")
	rec.Note("selection frequencies: K=20000 draws per announcement set with the package rng seeded from the case; every eligible host must be chosen "+
		"within %.0f*sqrt(K p (1-p)) + %.0f of K p (p = weight / total eligible weight); a miss counts only if it repeats on %dK fresh draws "+
		"(false-alarm probability per host below 1e-15); the same tolerance is used for the scripted-rng grid sweep", sigmas, absSlack, confirmTimes)
	rec.Note("Go randomises map iteration order per call, so a case replays with the same rng stream but not necessarily the same host sequence; " +
		"frequency and edge checks aggregate over many calls")
	if c, ok := hx.Replay[selCase]("C19", "select"); ok {
		if f, ok := checkSelect(rec, c); !ok {
			reportSelect(rec, c, f, func(m string) { t.Fatal(m) })
		}
		return
	} else if hx.Replaying() {
		t.Skip()
	}
	rapid.Check(t, func(rt *rapid.T) {
		c := genSelCase(rt)
		if f, ok := checkSelect(rec, c); !ok {
			reportSelect(rec, c, f, func(m string) { rt.Fatalf("%s", m) })
		}
	})
}

// TestC19SelectEdge probes the ends of the rng's range, which a seeded generator reaches with probability 2^-63
// (Float64() == 0) and about 2^-53 (Float64() == 1-2^-53) per selection.
func TestC19SelectEdge(t *testing.T) {
	skipUnlessPart(t, "edge")
	rec := stats.For("C19")
	if hx.Replaying() {
		t.Skip() // selection replays of every kind are evaluated by TestC19Select
	}
	rec.Note("edge probes: the package rng is scripted so that rng.Float64() returns exactly 0, 2^-53, 1/2, 1-3*2^-53, 1-2*2^-53, 1-2^-53; " +
		"each value is used for edge_repeats selections per case (map iteration order varies between calls)")
	rapid.Check(t, func(rt *rapid.T) {
		c := genEdgeCase(rt)
		if f, ok := checkSelect(rec, c); !ok {
			reportSelect(rec, c, f, func(m string) { rt.Fatalf("%s", m) })
		}
	})
}
