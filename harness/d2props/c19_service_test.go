package d2props

// C19, service definition updates: a well-formed event on the service's own node replaces the definition (cluster
// name and prioritized schemes as written); events on other paths and events without data change nothing. What a
// malformed service payload does is not stated by the property: such cases are generated and only required not to
// panic.

import (
	"encoding/json"
	"fmt"
	"math/rand"
	"net/url"
	"reflect"
	"testing"

	"github.com/PapaCharlie/go-restli/v2/d2"
	"pgregory.net/rapid"

	"verif/core/hx"
	"verif/core/model/d2model"
	"verif/core/stats"
)

type svcCase struct {
	Service  string   `json:"service"`
	PathKind string   `json:"path_kind"` // service | other_service | child | uris
	DataKind string   `json:"data_kind"` // none | wellformed | malformed
	Cluster  string   `json:"cluster"`
	Schemes  []string `json:"prioritized_schemes"`
	Extra    bool     `json:"extra_members"`
	Variant  int      `json:"variant"`
	// Loop: the event goes through waitForServiceUpdates of a client whose service was defined with OldSchemes, and
	// hosts are then resolved
	Loop       bool     `json:"via_update_loop"`
	OldSchemes []string `json:"old_prioritized_schemes"`
	RngSeed    int64    `json:"rng_seed"`
}

var malformedServicePayloads = []string{`{`, ``, `nope`, `[]`, `{"clusterName":7}`, `{"prioritizedSchemes":"http"}`, `{"clusterName":"c"} x`}

func servicePath(name string) string { return "/d2/services/" + name }

func (c svcCase) event() d2.TreeCacheEvent {
	var ev d2.TreeCacheEvent
	switch c.PathKind {
	case "service":
		ev.Path = servicePath(c.Service)
	case "other_service":
		ev.Path = servicePath(c.Service + "2")
	case "child":
		ev.Path = servicePath(c.Service) + "/child"
	default:
		ev.Path = zkPathOf(c.Cluster)
	}
	switch c.DataKind {
	case "wellformed":
		doc := map[string]any{"serviceName": c.Service, "clusterName": c.Cluster, "prioritizedSchemes": c.Schemes}
		if c.Schemes == nil {
			delete(doc, "prioritizedSchemes")
		}
		if c.Extra {
			doc["path"] = "/" + c.Service
			doc["loadBalancerStrategyList"] = []string{"degraderV3"}
			doc["sslSessionValidationStrings"] = []string{"x"}
			doc["degraderProperties"] = map[string]any{"degrader.maxDropRate": "0.5"}
		}
		b, err := json.Marshal(doc)
		if err != nil {
			panic(err)
		}
		ev.Data = &b
	case "malformed":
		b := []byte(malformedServicePayloads[c.Variant%len(malformedServicePayloads)])
		ev.Data = &b
	}
	return ev
}

func sameSchemes(a, b []string) bool {
	if len(a) == 0 && len(b) == 0 {
		return true
	}
	return reflect.DeepEqual(a, b)
}

var svcState = d2model.State{
	"/n0": {"http://h1:8080/ctx": 1, "https://h1:8443/ctx": 2},
	"/n1": {"ftp://h5:21/x": 1, "https://h2:8443/ctx": 0},
}

func checkService(rec *stats.Recorder, c svcCase) string {
	applies := c.PathKind == "service" && c.DataKind == "wellformed"
	ignored := c.PathKind != "service" || c.DataKind == "none"
	labels := []string{"service_update", "service_path=" + c.PathKind, "service_data=" + c.DataKind}
	if c.Loop {
		labels = append(labels, "service_via_update_loop")
	}
	if !applies && !ignored {
		labels = append(labels, "unspecified_malformed_service_payload")
	}
	rec.Case(labels...)
	if applies {
		rec.NonTrivial("service_update", hx.J(c), func() any { return c })
	}
	ev := c.event()
	desc := fmt.Sprintf("\n event path %s, data %s", ev.Path, func() string {
		if ev.Data == nil {
			return "<none>"
		}
		return hx.Q(string(*ev.Data))
	}())

	client := &d2.Client{}
	if !c.Loop {
		var s *d2.Service
		if p, v, stack := hx.Try(func() { s = client.VerifHandleServiceUpdate(c.Service, ev) }); p {
			return fmt.Sprintf("handleServiceUpdate panicked: %v\n%s%s", v, stack, desc)
		}
		switch {
		case ignored && s != nil:
			return fmt.Sprintf("an event that is not a definition of service %q produced the definition %+v%s", c.Service, *s, desc)
		case applies && s == nil:
			return "a well-formed service definition was not applied" + desc
		case applies && (s.ClusterName != c.Cluster || !sameSchemes(s.PrioritizedSchemes, c.Schemes)):
			return fmt.Sprintf("service definition applied as cluster %q schemes %q, written as cluster %q schemes %q%s",
				s.ClusterName, s.PrioritizedSchemes, c.Cluster, c.Schemes, desc)
		}
		return ""
	}

	// through the update loop: the cluster stays the same (a new cluster would need ZooKeeper), the schemes change
	w := d2.VerifNewServiceUris(zkPathOf(c.Cluster))
	for _, n := range []string{"/n0", "/n1"} {
		var hs []d2model.HW
		for _, h := range []string{"http://h1:8080/ctx", "https://h1:8443/ctx", "ftp://h5:21/x", "https://h2:8443/ctx"} {
			if wt, ok := svcState[n][h]; ok {
				hs = append(hs, d2model.HW{Host: h, Weight: wt})
			}
		}
		w = client.VerifHandleUriUpdate(w, treeEvent(zkPathOf(c.Cluster), d2model.Event{Node: n, Kind: d2model.Write, Hosts: hs}))
	}
	if !sameState(w, svcState) {
		return fmt.Sprintf("announcing %s gave %s", svcState, render(w))
	}
	client.VerifSeed(c.Service, &d2.Service{ServiceName: c.Service, ClusterName: c.Cluster, PrioritizedSchemes: c.OldSchemes}, w)
	ch := make(chan d2.TreeCacheEvent)
	done := make(chan string, 1)
	go func() {
		msg := ""
		if p, v, stack := hx.Try(func() { client.VerifWaitForServiceUpdates(c.Service, ch) }); p {
			msg = fmt.Sprintf("service update loop panicked: %v\n%s", v, stack)
		}
		done <- msg
	}()
	select {
	case ch <- ev:
	case msg := <-done:
		return msg + desc
	}
	close(ch)
	if msg := <-done; msg != "" {
		return msg + desc
	}
	if !applies && !ignored {
		return "" // unspecified: no panic is all that is required
	}
	schemes := c.OldSchemes
	if applies {
		schemes = c.Schemes
	}
	el := d2model.Eligible(svcState, schemes)
	d2.VerifSetRng(rand.New(rand.NewSource(c.RngSeed)))
	for i := 0; i < 24; i++ {
		var got *url.URL
		var err error
		if p, v, stack := hx.Try(func() { got, err = client.ResolveHostnameAndContextForQuery(c.Service, nil) }); p {
			return fmt.Sprintf("ResolveHostnameAndContextForQuery panicked: %v\n%s%s", v, stack, desc)
		}
		if (err != nil) != (got == nil) {
			return fmt.Sprintf("ResolveHostnameAndContextForQuery returned host %v together with error %v%s", got, err, desc)
		}
		if m := judge(el, got); m != "" {
			return fmt.Sprintf("after the service event (definition %s; schemes in force %q, before %q): %s\n announced: %s%s",
				map[bool]string{true: "replaced", false: "unchanged"}[applies], schemes, c.OldSchemes, m, svcState, desc)
		}
	}
	return ""
}

func genSvcCase(t *rapid.T) svcCase {
	lists := append([][]string{nil, {}}, schemeLists...)
	c := svcCase{
		Service:    rapid.SampledFrom([]string{"svc", "greetings", "a-b_c"}).Draw(t, "service"),
		PathKind:   rapid.SampledFrom([]string{"service", "service", "service", "other_service", "child", "uris"}).Draw(t, "path"),
		DataKind:   rapid.SampledFrom([]string{"wellformed", "wellformed", "wellformed", "none", "malformed"}).Draw(t, "data"),
		Cluster:    rapid.SampledFrom([]string{"cluster-1", "c", "Cluster_2"}).Draw(t, "cluster"),
		Schemes:    rapid.SampledFrom(lists).Draw(t, "schemes"),
		Extra:      rapid.Bool().Draw(t, "extra"),
		Variant:    rapid.IntRange(0, len(malformedServicePayloads)-1).Draw(t, "variant"),
		Loop:       rapid.Bool().Draw(t, "loop"),
		OldSchemes: rapid.SampledFrom(lists).Draw(t, "old_schemes"),
		RngSeed:    rapid.Int64Range(1, 1<<40).Draw(t, "rng_seed"),
	}
	return c
}

func TestC19Service(t *testing.T) {
	skipUnlessPart(t, "fold")
	rec := stats.For("C19")
	if c, ok := hx.Replay[svcCase]("C19", "service"); ok {
		if msg := checkService(rec, c); msg != "" {
			rec.Violation("service-replay", msg, c)
			t.Fatal(msg)
		}
		return
	} else if hx.Replaying() {
		t.Skip()
	}
	rapid.Check(t, func(rt *rapid.T) {
		c := genSvcCase(rt)
		if msg := checkService(rec, c); msg != "" {
			rec.Violation("service", msg, c)
			rt.Fatalf("%s", msg)
		}
	})
}
