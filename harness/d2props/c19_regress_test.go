package d2props

// Pinned cases of C19, evaluated first in every tier.

import (
	"fmt"
	"testing"

	"verif/core/hx"
	"verif/core/model/d2model"
	"verif/core/stats"
)

func hw(host string, w float64) d2model.HW { return d2model.HW{Host: host, Weight: w} }

var regressHistories = []histCase{
	// a stale snapshot must survive the deletion and the replacement of its node
	{Cluster: clusterName, Events: []d2model.Event{
		{Node: "/n0", Kind: d2model.Write, Hosts: exhA},
		{Node: "/n0", Kind: d2model.Delete},
		{Node: "/n0", Kind: d2model.Write, Hosts: exhB},
	}},
	// ignored kinds on an announced node keep the announcement
	{Cluster: clusterName, Loop: true, Events: []d2model.Event{
		{Node: "/n1", Kind: d2model.Write, Hosts: exhA},
		{Node: "/n1", Kind: d2model.Weightless, Variant: 0},
		{Node: "/n1", Kind: d2model.Malformed, Variant: 3},
		{Node: "/n1", Kind: d2model.BadHost, Variant: 0, Hosts: exhB},
		{Node: "", Kind: d2model.Delete},
		{Node: "", Kind: d2model.Write, Hosts: exhB},
		{Node: "/n2", Kind: d2model.Delete},
	}},
}

var regressSelections = []selCase{
	// the top scheme has only a zero-weight host: that host is the eligible set
	{Nodes: []nodeAnn{{Node: "/n0", Hosts: []d2model.HW{hw("https://h1:8443/ctx", 0), hw("http://h1:8080/ctx", 3)}}},
		Prioritized: []string{"https", "http"}, RngSeed: 1, Draws: 2000, Grid: 500},
	// unequal weights, zero-weight host next to positive ones, two nodes
	{Nodes: []nodeAnn{
		{Node: "/n0", Hosts: []d2model.HW{hw("http://h1:8080/ctx", 1), hw("http://h2:8080/ctx", 0)}},
		{Node: "/n1", Hosts: []d2model.HW{hw("http://h3:8080/", 9), hw("https://h3:8443", 5)}}},
		Prioritized: nil, RngSeed: 2, Draws: 20000, Grid: 2000},
	// no prioritized scheme matches
	{Nodes: []nodeAnn{{Node: "/n0", Hosts: []d2model.HW{hw("http://h1:8080/ctx", 1)}}},
		Prioritized: []string{"d2"}, RngSeed: 3, Draws: 100, Grid: 100},
}

// edge probes (scripted rng) on pinned announcement sets
var regressEdges = []selCase{
	// Float64() == 0 with a zero-weight host next to a positive one
	{Nodes: []nodeAnn{{Node: "/n0", Hosts: []d2model.HW{hw("http://h1:8080/ctx", 0), hw("http://h2:8080/ctx", 1)}}}, RngSeed: 1, EdgeRepeats: 64},
	// Float64() == 1-2^-53 with weights whose sum rounds up: 0.6 + 1 + 0.1
	{Nodes: []nodeAnn{{Node: "/n0", Hosts: []d2model.HW{hw("http://h1:8080/ctx", 0.6), hw("http://h2:8080/ctx", 1), hw("http://h3:8080/", 0.1)}}}, RngSeed: 1, EdgeRepeats: 256},
	// the same below a lower-priority scheme
	{Nodes: []nodeAnn{{Node: "/n0", Hosts: []d2model.HW{hw("https://h1:8443/ctx", 0.6), hw("https://h2:8443/ctx", 1), hw("https://h3:8443", 0.1), hw("http://h1:8080/ctx", 1)}}},
		Prioritized: []string{"https", "http"}, RngSeed: 1, EdgeRepeats: 256},
}

func TestC19RegressFold(t *testing.T) {
	skipUnlessPart(t, "fold")
	rec := stats.For("C19")
	if hx.Replaying() {
		t.Skip()
	}
	for i, c := range regressHistories {
		if msg := checkHistory(rec, c, true); msg != "" {
			rec.Violation(fmt.Sprintf("fold-regress%d", i), msg, c)
			t.Error(msg)
		}
	}
}

func TestC19RegressSelect(t *testing.T) {
	skipUnlessPart(t, "select")
	regressSelect(t, regressSelections)
}

func TestC19RegressEdge(t *testing.T) {
	skipUnlessPart(t, "edge")
	regressSelect(t, regressEdges)
}

func regressSelect(t *testing.T, cases []selCase) {
	rec := stats.For("C19")
	if hx.Replaying() {
		t.Skip()
	}
	for i, c := range cases {
		if f, ok := checkSelect(rec, c); !ok {
			rec.Violation(fmt.Sprintf("%s-regress%d", f.check, i), f.msg, c)
			t.Error(f.msg)
		}
	}
}
