package tunnelprops

// C14, client level: requests built by the public constructors (NewGetRequest, NewDeleteRequest, NewJsonRequest,
// NewCreateRequest) at thresholds {0, 1, len-1, len, len+1, -1, 2, large}.
//
// Model (verif/core/model/tunnel): tunnelled iff threshold > 0 && len(rawQuery) > threshold.
//   untouched: the request carries the original verb, the query in the URL, no override header, body and content type
//              as given;
//   tunnelled: POST, empty URL query, X-HTTP-Method-Override = verb;
//   both are pushed through a hop (real TCP to an httptest server, or req.Write -> http.ReadRequest in process), the
//   receiving side runs restli.DecodeTunnelledQuery and the capture after decoding must equal the capture of the same
//   logical request sent with tunnelling off (verb, escaped path, raw query, body bytes, Content-Type, X-RestLi-*).
//
// Domain: query over the query encoder's alphabet (a URL query is percent-encoded ASCII text); body absent (GET/DELETE
// constructors), or present through a Marshaler that emits the drawn bytes verbatim: JSON, JSON-ish text holding
// multipart-delimiter-like lines, arbitrary bytes. An empty-but-present body cannot be produced through the constructors
// (a Marshaler that writes nothing makes the JSON writer emit "null"), so that class exists at function level only.

import (
	"bytes"
	"context"
	"fmt"
	"io"
	"net/http"
	"net/url"
	"strings"
	"testing"

	"github.com/PapaCharlie/go-restli/v2/restli"
	"pgregory.net/rapid"

	"verif/core/hx"
	"verif/core/model/tunnel"
	"verif/core/stats"
)

type clientCase struct {
	Ctor      string   `json:"ctor"` // get | delete | json | create
	Verb      string   `json:"verb"`
	Root      string   `json:"root"`
	Rest      []string `json:"rest"` // encoded path segments after the root
	HasQuery  bool     `json:"has_query"`
	Query     string   `json:"query"`
	HasBody   bool     `json:"has_body"`
	Body      []byte   `json:"body"`
	Kind      string   `json:"body_kind"`
	Threshold int      `json:"threshold"`
	Method    int      `json:"restli_method"`
	Extra     bool     `json:"extra_headers"`
	RealHop   bool     `json:"real_hop"`
}

func (c clientCase) path() string {
	p := "/" + c.Root
	for _, s := range c.Rest {
		p += "/" + s
	}
	return p
}

var clientPathTokens = []string{"1", "abc", "(k:1,j:x)", "a%2Fb", "%25", "List(1,2)", "x.y", "%C3%A9", "$params", "a:b", "'", "~"}

func genClientCase(t *rapid.T) clientCase {
	var c clientCase
	c.Root = rapid.SampledFrom([]string{"coll", "simp", "greetings"}).Draw(t, "root")
	n := rapid.IntRange(0, 3).Draw(t, "nrest")
	for i := 0; i < n; i++ {
		if i%2 == 1 {
			c.Rest = append(c.Rest, rapid.SampledFrom([]string{"sub", "items"}).Draw(t, "sub"))
		} else {
			c.Rest = append(c.Rest, rapid.SampledFrom(clientPathTokens).Draw(t, "seg"))
		}
	}
	c.HasQuery = rapid.IntRange(0, 9).Draw(t, "hasq") > 0
	if c.HasQuery {
		c.Query = tunnel.GenWireQuery(t, "q")
	}
	c.HasBody, c.Body, c.Kind = tunnel.GenBody(t, "body", true, false)
	if c.HasBody {
		if rapid.IntRange(0, 4).Draw(t, "create") == 0 {
			c.Ctor, c.Verb = "create", http.MethodPost
		} else {
			c.Ctor = "json"
			c.Verb = rapid.SampledFrom([]string{"PUT", "POST", "GET", "DELETE", "PATCH"}).Draw(t, "verb")
		}
	} else if rapid.Bool().Draw(t, "del") {
		c.Ctor, c.Verb = "delete", http.MethodDelete
	} else {
		c.Ctor, c.Verb = "get", http.MethodGet
	}
	ths := tunnel.Thresholds(len(c.Query))
	ti := rapid.IntRange(0, len(ths)+1).Draw(t, "threshold_kind")
	if ti < len(ths) {
		c.Threshold = ths[ti]
	} else {
		c.Threshold = rapid.IntRange(-2, len(c.Query)+3).Draw(t, "threshold")
	}
	c.Method = rapid.IntRange(1, 13).Draw(t, "restli_method")
	c.Extra = rapid.Bool().Draw(t, "extra")
	c.RealHop = rapid.IntRange(0, 3).Draw(t, "real_hop") == 0
	return c
}

// build creates the request through the public constructor named by c.Ctor.
func (c clientCase) build(base *url.URL, threshold int) (*http.Request, error) {
	cl := &restli.Client{Client: http.DefaultClient, HostnameResolver: &restli.SimpleHostnameResolver{Hostname: base}, QueryTunnellingThreshold: threshold}
	ctx := context.Background()
	if c.Extra {
		ctx = restli.ExtraRequestHeaders(ctx, func() (http.Header, error) {
			return http.Header{customHeader: {"v1; keep=me"}, "Authorization": {"Bearer abc"}}, nil
		})
	}
	rp := restli.ResourcePathString(c.path())
	var q restli.QueryParamsEncoder
	if c.HasQuery {
		q = restli.QueryParamsString(c.Query)
	}
	m := restli.Method(c.Method)
	switch c.Ctor {
	case "get":
		return restli.NewGetRequest(cl, ctx, rp, q, m)
	case "delete":
		return restli.NewDeleteRequest(cl, ctx, rp, q, m)
	case "create":
		return restli.NewCreateRequest(cl, ctx, rp, q, m, rawBody(c.Body), nil)
	case "json":
		return restli.NewJsonRequest(cl, ctx, rp, q, c.Verb, m, rawBody(c.Body), nil)
	}
	panic("harness: unknown ctor " + c.Ctor)
}

func reqBody(r *http.Request) []byte {
	if r.GetBody == nil {
		if r.Body == nil || r.Body == http.NoBody {
			return []byte{}
		}
		panic("harness: request without GetBody")
	}
	rc, err := r.GetBody()
	if err != nil {
		panic(err)
	}
	b, err := io.ReadAll(rc)
	if err != nil {
		panic(err)
	}
	if b == nil {
		b = []byte{}
	}
	return b
}

func checkClient(rec *stats.Recorder, c clientCase) (string, string) {
	var base *url.URL
	if c.RealHop {
		srv, _ := captureServer()
		base, _ = url.Parse(srv.URL)
	} else {
		base = &url.URL{Scheme: "http", Host: "example.com"}
	}
	model := tunnel.ShouldTunnel(c.Threshold, len(c.Query))
	labels := append(tunnel.QueryLabels(c.Query), "client", "client_ctor="+c.Ctor, "client_verb="+c.Verb, "client_body="+c.Kind,
		"client_"+tunnel.ThresholdLabel(c.Threshold, len(c.Query)))
	if model {
		labels = append(labels, "client_tunnelled")
	} else {
		labels = append(labels, "client_untouched")
	}
	if c.RealHop {
		labels = append(labels, "client_real_tcp_hop")
	}
	rec.Case(labels...)
	d := c.Threshold - len(c.Query)
	if model || (d >= -1 && d <= 1) {
		rec.NonTrivial("client-"+c.Kind, fmt.Sprintf("client|%s|%s|%s|%v|%s|%x|%d", c.Ctor, c.Verb, c.path(), c.HasQuery, c.Query, c.Body, c.Threshold), func() any { return c })
	}
	desc := fmt.Sprintf("\n ctor=%s verb=%s path=%s query=%+q (%d bytes, present=%v) threshold=%d body(%s, present=%v)=%+q", c.Ctor, c.Verb, c.path(),
		clipS(c.Query), len(c.Query), c.HasQuery, c.Threshold, c.Kind, c.HasBody, clipS(string(c.Body)))

	var req, ref *http.Request
	var err, rerr error
	if p, pv, st := hx.Try(func() { req, err = c.build(base, c.Threshold); ref, rerr = c.build(base, 0) }); p {
		return "client-panic", failf("request construction panicked: %v\n%s%s", pv, st, desc)
	}
	if err != nil || rerr != nil {
		return "client-construct", failf("request construction failed: %v / %v%s", err, rerr, desc)
	}

	// the logical request, from the case alone
	want := tunnel.Capture{Method: c.Verb, Path: c.path(), RawQuery: c.Query, RequestURI: tunnel.RequestURI(c.path(), c.Query), Body: []byte{}}
	if c.HasQuery && c.Query == "" {
		want.RequestURI = c.path() + "?" // "path?" and "path" denote the same request; normalised below
	}
	if c.HasBody {
		want.Body = append([]byte{}, c.Body...)
		want.ContentType = []string{tunnel.JSON}
	}
	wh := map[string][]string{"X-Restli-Protocol-Version": {"2.0.0"}, "X-Restli-Method": {restli.Method(c.Method).String()}, "Accept": {"application/json"}}
	if c.Extra {
		wh[customHeader] = []string{"v1; keep=me"}
		wh["Authorization"] = []string{"Bearer abc"}
	}
	want.SplitHeaders(wh)

	// 1. what the constructor produced, looked at on the client side
	tunnelledLook := req.Method == http.MethodPost && len(req.Header.Values("X-HTTP-Method-Override")) > 0
	if model && !tunnelledLook {
		return "client-threshold", failf("len(query)=%d > threshold=%d > 0 but the request was not tunnelled (method %s, override header %q)%s",
			len(c.Query), c.Threshold, req.Method, req.Header.Values("X-HTTP-Method-Override"), desc)
	}
	if !model {
		// "requests whose query does not exceed the threshold are sent untouched"
		got := tunnel.Capture{Method: req.Method, Path: req.URL.EscapedPath(), RawQuery: req.URL.RawQuery, RequestURI: req.URL.RequestURI(), Body: reqBody(req)}
		got.SplitHeaders(req.Header)
		normURI(&want, &got)
		if fields, detail := tunnel.Diff(want, got); len(fields) > 0 {
			name := "client-untouched"
			if len(got.Override) > 0 {
				name = "client-threshold"
			}
			if checkOf(fields) != "roundtrip" {
				name += "-" + checkOf(fields)
			}
			return name, failf("query does not exceed the threshold but the request is not the plain request, differs in %v:\n %s%s", fields, detail, desc)
		}
	} else {
		if req.URL.RawQuery != "" || req.URL.ForceQuery {
			return "client-envelope", failf("tunnelled request still has a URL query %q%s", req.URL.RawQuery, desc)
		}
		if ov := req.Header.Values("X-HTTP-Method-Override"); len(ov) != 1 || ov[0] != c.Verb {
			return "client-envelope", failf("tunnelled request has override header %q, want [%q]%s", ov, c.Verb, desc)
		}
		if req.URL.EscapedPath() != c.path() {
			return "client-envelope", failf("tunnelled request path %q, want %q%s", req.URL.EscapedPath(), c.path(), desc)
		}
	}

	// 2. through the hop
	var hr, ht hopResult
	hr = hop(ref, c.RealHop)
	ht = hop(req, c.RealHop)
	for _, h := range []struct {
		name string
		r    hopResult
	}{{"untunnelled reference", hr}, {"request under test", ht}} {
		if h.r.Panic != "" {
			return "client-panic", failf("DecodeTunnelledQuery panicked on the %s: %s%s", h.name, h.r.Panic, desc)
		}
		if h.r.DecodeErr != "" {
			return "client-transparency", failf("DecodeTunnelledQuery rejected the %s: %s%s", h.name, h.r.DecodeErr, desc)
		}
	}
	// the reference (tunnelling off) as received is the logical request, and decoding leaves it alone
	normURI(&want, &hr.Raw)
	if fields, detail := tunnel.Diff(want, hr.Raw); len(fields) > 0 {
		return "client-untouched" + suffix(fields), failf("request sent with tunnelling off arrives different from the logical request in %v:\n %s%s", fields, detail, desc)
	}
	normURI(&hr.Raw, &hr.After)
	if fields, detail := tunnel.Diff(hr.Raw, hr.After); len(fields) > 0 {
		return "client-decode-noop" + suffix(fields), failf("DecodeTunnelledQuery changed an untunnelled request in %v:\n %s%s", fields, detail, desc)
	}
	// transparency: request under test after de-tunnelling == reference
	normURI(&hr.Raw, &ht.After)
	if fields, detail := tunnel.Diff(hr.Raw, ht.After); len(fields) > 0 {
		return "client-transparency" + suffix(fields), failf("request seen after de-tunnelling (threshold %d, tunnelled=%v) differs from the request sent with tunnelling off in %v:\n %s%s",
			c.Threshold, model, fields, detail, desc)
	}
	if model {
		// on the wire the tunnelled request must not leak the query into the URL
		if ht.Raw.RawQuery != "" || ht.Raw.Method != http.MethodPost {
			return "client-envelope", failf("tunnelled request arrived as %s with URL query %q%s", ht.Raw.Method, ht.Raw.RawQuery, desc)
		}
	} else {
		normURI(&hr.Raw, &ht.Raw)
		if fields, detail := tunnel.Diff(hr.Raw, ht.Raw); len(fields) > 0 {
			return "client-untouched" + suffix(fields), failf("request below the threshold arrives different from the request sent with tunnelling off in %v:\n %s%s", fields, detail, desc)
		}
	}
	return "", ""
}

func suffix(fields []string) string {
	if k := checkOf(fields); k != "roundtrip" {
		return "-" + k
	}
	return ""
}

// normURI: "path?" (empty query with the separator kept) and "path" are the same request target for this property.
func normURI(a, b *tunnel.Capture) {
	ta, tb := strings.TrimSuffix(a.RequestURI, "?"), strings.TrimSuffix(b.RequestURI, "?")
	if a.RawQuery == "" && b.RawQuery == "" && ta == tb {
		a.RequestURI, b.RequestURI = ta, tb
	}
}

func TestC14Client(t *testing.T) {
	rec := recorder()
	if c, ok := hx.Replay[clientCase](propID, "client-"); ok {
		if name, msg := checkClient(rec, c); msg != "" {
			rec.Violation(name, msg, c)
			t.Fatal(msg)
		}
		return
	} else if hx.Replaying() {
		t.Skip()
	}
	rapid.Check(t, func(rt *rapid.T) {
		c := genClientCase(rt)
		if name, msg := checkClient(rec, c); msg != "" {
			rec.Violation(name, msg, c)
			rt.Fatalf("%s", name) // constant text: rapid only keeps shrinking while the failure message stays the same
		}
	})
}

var clientRegress = []clientCase{
	{Ctor: "get", Verb: "GET", Root: "testTunnelling", HasQuery: true, Query: "param=bar", Threshold: 1, Method: 1, Kind: tunnel.BodyAbsent},
	{Ctor: "json", Verb: "PUT", Root: "testTunnelling", HasQuery: true, Query: "param=bar", Threshold: 1, Method: 5, HasBody: true, Body: []byte("{}"), Kind: tunnel.BodyJSON},
	{Ctor: "get", Verb: "GET", Root: "coll", HasQuery: true, Query: "ab", Threshold: 1, Method: 13, Kind: tunnel.BodyAbsent, RealHop: true},
	{Ctor: "get", Verb: "GET", Root: "coll", HasQuery: true, Query: "ab", Threshold: 2, Method: 13, Kind: tunnel.BodyAbsent},
	{Ctor: "delete", Verb: "DELETE", Root: "coll", Rest: []string{"1"}, HasQuery: true, Query: "abc", Threshold: 2, Method: 3, Kind: tunnel.BodyAbsent, Extra: true},
	{Ctor: "json", Verb: "POST", Root: "coll", HasQuery: true, Query: "action=act&s=--0123456789abcdef0123456789abcdef0123456789abcdef0123456789ab", Threshold: 10, Method: 12,
		HasBody: true, Body: []byte("{\"s\":\"x\"}\r\n--0123456789abcdef0123456789abcdef0123456789abcdef0123456789ab--\r\n"), Kind: tunnel.BodyLines, RealHop: true},
	{Ctor: "create", Verb: "POST", Root: "coll", HasQuery: false, Threshold: 1, Method: 2, HasBody: true, Body: []byte(`{"a":1}`), Kind: tunnel.BodyJSON},
}

func TestC14ClientRegress(t *testing.T) {
	rec := recorder()
	if hx.Replaying() {
		t.Skip()
	}
	for i, c := range clientRegress {
		if name, msg := checkClient(rec, c); msg != "" {
			rec.Violation(fmt.Sprintf("%s-regress%d", name, i), msg, c)
			t.Error(msg)
		}
	}
}

var _ = bytes.Equal
