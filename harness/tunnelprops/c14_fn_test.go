package tunnelprops

// C14, function level: DecodeTunnelledQuery(EncodeTunnelledQuery(verb, query, body)) on a request parsed off the wire
// restores verb, raw query, body bytes, content type and leaves the Rest.li headers alone.
//
// Domain: verb in {GET, PUT, DELETE, POST, PATCH} x query x body.
//   query domain "wire":  text over the alphabet the query encoder emits (unreserved, %XX, ROR2 delimiters, & = ; / ? ...)
//   query domain "bytes": arbitrary bytes (CR, LF, CRLF, "--"+60 hex digits, NUL, invalid UTF-8) - the property's
//                         quantifier names CR/LF and boundary-like text explicitly
//   body: absent (nil), empty (non-nil, 0 bytes), JSON, JSON-ish text with multipart-delimiter-like lines, arbitrary bytes
// Precondition (from newRequest: tunnelled iff threshold > 0 && len(query) > threshold): a client only ever tunnels
// queries of at least 2 bytes. Shorter queries are generated, labelled, and only checked for "no panic".
// Content type of an empty non-nil body is not asserted here (there is no untunnelled request at this level to compare
// with); the client-level check compares it against the real untunnelled request.

import (
	"bytes"
	"fmt"
	"net/http"
	"testing"

	"github.com/PapaCharlie/go-restli/v2/restli"
	"pgregory.net/rapid"

	"verif/core/hx"
	"verif/core/model/tunnel"
	"verif/core/stats"
)

type fnCase struct {
	Verb    string `json:"verb"`
	Domain  string `json:"query_domain"`
	Query   []byte `json:"query"`
	HasBody bool   `json:"has_body"`
	Body    []byte `json:"body"`
	Kind    string `json:"body_kind"`
	Path    string `json:"path"`
}

var fnVerbs = []string{"GET", "PUT", "DELETE", "POST", "PATCH"}

func genFnCase(t *rapid.T) fnCase {
	var c fnCase
	c.Verb = rapid.SampledFrom(fnVerbs).Draw(t, "verb")
	if rapid.Bool().Draw(t, "wire_domain") {
		c.Domain = "wire"
		c.Query = []byte(tunnel.GenWireQuery(t, "q"))
	} else {
		c.Domain = "bytes"
		c.Query = tunnel.GenByteQuery(t, "q")
	}
	c.HasBody, c.Body, c.Kind = tunnel.GenBody(t, "body", true, true)
	c.Path = rapid.SampledFrom([]string{"/coll", "/coll/1", "/coll/a%2Fb/sub/(k:1)", "/simp"}).Draw(t, "path")
	return c
}

const customHeader = "X-Verif-Custom"

// checkFn returns (checkName, message); message "" means the property holds for c.
func checkFn(rec *stats.Recorder, c fnCase) (string, string) {
	var body []byte
	if c.HasBody {
		body = c.Body
		if body == nil {
			body = []byte{}
		}
	}
	asserted := len(c.Query) >= tunnel.MinTunnelledQueryLen
	labels := append(tunnel.QueryLabels(string(c.Query)), "fn", "fn_verb="+c.Verb, "fn_body="+c.Kind, "fn_domain="+c.Domain)
	if !asserted {
		labels = append(labels, "fn_query_shorter_than_any_tunnelled_query(no_panic_only)")
	}
	rec.Case(labels...)
	if asserted {
		rec.NonTrivial("fn-"+c.Kind, fmt.Sprintf("fn|%s|%s|%x|%v|%x", c.Verb, c.Path, c.Query, c.HasBody, c.Body), func() any { return c })
	}

	var newBody []byte
	var hdr http.Header
	if p, pv, st := hx.Try(func() { newBody, hdr = restli.EncodeTunnelledQuery(c.Verb, string(c.Query), body) }); p {
		return "fn-panic", failf("EncodeTunnelledQuery panicked: %v\n%s", pv, st)
	}
	creq, err := http.NewRequest(http.MethodPost, "http://example.com"+c.Path, bytes.NewReader(newBody))
	if err != nil {
		panic(err)
	}
	creq.Header.Set("X-RestLi-Protocol-Version", "2.0.0")
	creq.Header.Set("X-RestLi-Method", "finder")
	creq.Header.Set("Accept", "application/json")
	creq.Header.Set(customHeader, "v1; keep=me")
	for k, v := range hdr {
		creq.Header[k] = v
	}
	sreq := serverSide(creq)

	var derr error
	if p, pv, st := hx.Try(func() { derr = restli.DecodeTunnelledQuery(sreq) }); p {
		return "fn-panic", failf("DecodeTunnelledQuery panicked: %v\n%s", pv, st)
	}
	if !asserted {
		return "", ""
	}
	desc := fmt.Sprintf("\n verb=%s path=%s query=%+q (%d bytes) body(%s, present=%v)=%+q", c.Verb, c.Path, clipS(string(c.Query)), len(c.Query), c.Kind, c.HasBody, clipS(string(c.Body)))
	if derr != nil {
		return "fn-roundtrip", failf("DecodeTunnelledQuery rejected the output of EncodeTunnelledQuery: %v%s", derr, desc)
	}
	want := tunnel.Capture{Method: c.Verb, Path: c.Path, RawQuery: string(c.Query), RequestURI: tunnel.RequestURI(c.Path, string(c.Query)), Body: []byte{}}
	if c.HasBody {
		want.Body = append([]byte{}, c.Body...)
		want.ContentType = []string{tunnel.JSON}
	}
	want.SplitHeaders(map[string][]string{"X-Restli-Protocol-Version": {"2.0.0"}, "X-Restli-Method": {"finder"}, "Accept": {"application/json"}, customHeader: {"v1; keep=me"}})
	if c.HasBody {
		want.ContentType = []string{tunnel.JSON}
	}
	got := capture(sreq)
	if c.HasBody && len(c.Body) == 0 {
		// see header comment: content type of an empty non-nil body is compared at client level only
		got.ContentType, want.ContentType = nil, nil
	}
	fields, detail := tunnel.Diff(want, got)
	if len(fields) == 0 {
		return "", ""
	}
	return "fn-" + checkOf(fields), failf("de-tunnelled request differs from the original in %v:\n %s%s", fields, detail, desc)
}

// checkOf maps differing fields to a check name: the fields the property enumerates first.
func checkOf(fields []string) string {
	for _, f := range fields {
		switch f {
		case "verb", "path", "query", "body", "content-type", "override", "restli-headers":
			return "roundtrip"
		}
	}
	for _, f := range fields {
		if f == "request-uri" {
			return "requesturi"
		}
	}
	return "otherheaders"
}

func clipS(s string) string {
	if len(s) > 200 {
		return s[:90] + fmt.Sprintf("...[%d bytes]...", len(s)-180) + s[len(s)-90:]
	}
	return s
}

func TestC14Fn(t *testing.T) {
	rec := recorder()
	if c, ok := hx.Replay[fnCase](propID, "fn-"); ok {
		if name, msg := checkFn(rec, c); msg != "" {
			rec.Violation(name, msg, c)
			t.Fatal(msg)
		}
		return
	} else if hx.Replaying() {
		t.Skip()
	}
	rapid.Check(t, func(rt *rapid.T) {
		c := genFnCase(rt)
		if name, msg := checkFn(rec, c); msg != "" {
			rec.Violation(name, msg, c)
			rt.Fatalf("%s", name) // constant text: rapid only keeps shrinking while the failure message stays the same
		}
	})
}

// pinned cases: the two shapes of the repository's own unit test plus the delimiter-looking contents
var fnRegress = []fnCase{
	{Verb: "GET", Domain: "wire", Query: []byte("param=bar"), Path: "/testTunnelling", Kind: tunnel.BodyAbsent},
	{Verb: "PUT", Domain: "wire", Query: []byte("param=bar"), HasBody: true, Body: []byte("{}"), Path: "/testTunnelling", Kind: tunnel.BodyJSON},
	{Verb: "POST", Domain: "bytes", Query: []byte("a\r\n--xyz\r\nContent-Type: application/json\r\n\r\n{}"), HasBody: true, Body: []byte("\r\n--xyz--\r\n"), Path: "/coll", Kind: tunnel.BodyLines},
	{Verb: "DELETE", Domain: "bytes", Query: []byte("\r\n"), HasBody: true, Body: []byte("\r\n"), Path: "/coll/1", Kind: tunnel.BodyBytes},
	{Verb: "PATCH", Domain: "bytes", Query: []byte{0xff, 0x00}, Path: "/coll/1", Kind: tunnel.BodyAbsent},
	{Verb: "GET", Domain: "wire", Query: []byte("ab"), HasBody: true, Body: []byte{}, Path: "/coll", Kind: tunnel.BodyEmpty},
}

func TestC14FnRegress(t *testing.T) {
	rec := recorder()
	if hx.Replaying() {
		t.Skip()
	}
	for i, c := range fnRegress {
		if name, msg := checkFn(rec, c); msg != "" {
			rec.Violation(fmt.Sprintf("%s-regress%d", name, i), msg, c)
			t.Error(msg)
		}
	}
}
