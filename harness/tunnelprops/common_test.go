package tunnelprops

// C14 - query tunnelling is transparent. Shared helpers: wire re-parsing, request capture, the capture server.
//
// Levels (one file each):
//   c14_fn_test.go      EncodeTunnelledQuery / DecodeTunnelledQuery round trip on requests parsed off the wire
//   c14_client_test.go  public request constructors x thresholds, through a real HTTP hop or an in-process wire re-parse
//   c14_router_test.go  a hand-registered restli server: same logical call tunnelled / untunnelled, malformed envelopes
//
// The oracle is verif/core/model/tunnel (imports nothing from go-restli).

import (
	"bufio"
	"bytes"
	"encoding/json"
	"fmt"
	"io"
	"net"
	"net/http"
	"net/http/httptest"
	"sync"
	"testing"
	"time"

	"github.com/PapaCharlie/go-restli/v2/restli"
	"github.com/PapaCharlie/go-restli/v2/restlicodec"

	"verif/core/hx"
	"verif/core/model/tunnel"
	"verif/core/stats"
)

const propID = "C14"

func TestMain(m *testing.M) { hx.Main(m) }

func recorder() *stats.Recorder { return stats.For(propID) }

// serverSide serialises a client request with net/http's own writer and parses it back with net/http's server-side
// reader, so that the request handed to the code under test is what a server would see (canonical header keys,
// RequestURI, Content-Length framed body).
func serverSide(req *http.Request) *http.Request {
	var buf bytes.Buffer
	if err := req.Write(&buf); err != nil {
		panic(fmt.Sprintf("harness: cannot serialise request: %v", err))
	}
	sreq, err := http.ReadRequest(bufio.NewReader(&buf))
	if err != nil {
		panic(fmt.Sprintf("harness: cannot re-parse request: %v\n%q", err, buf.String()))
	}
	return sreq
}

// capture reads a request the way routing / resource code would look at it. It consumes the body.
func capture(r *http.Request) tunnel.Capture {
	c := tunnel.Capture{Method: r.Method, Path: r.URL.EscapedPath(), RawQuery: r.URL.RawQuery, RequestURI: r.RequestURI}
	if r.Body == nil {
		c.NilBody = true
	} else {
		b, err := io.ReadAll(r.Body)
		if err != nil {
			panic(fmt.Sprintf("harness: cannot read request body: %v", err))
		}
		c.Body = b
	}
	if c.Body == nil {
		c.Body = []byte{}
	}
	c.SplitHeaders(r.Header)
	return c
}

// hopResult is what the capture handler reports about one incoming request.
type hopResult struct {
	Raw       tunnel.Capture `json:"raw"`   // before DecodeTunnelledQuery
	After     tunnel.Capture `json:"after"` // after DecodeTunnelledQuery
	DecodeErr string         `json:"decode_err"`
	Panic     string         `json:"panic"`
}

// observe is the server side of the capture hop: capture, de-tunnel, capture again.
func observe(r *http.Request) (res hopResult) {
	body, err := io.ReadAll(r.Body)
	if err != nil {
		panic(fmt.Sprintf("harness: cannot read incoming body: %v", err))
	}
	r.Body = io.NopCloser(bytes.NewReader(body))
	res.Raw = capture(r)
	r.Body = io.NopCloser(bytes.NewReader(body))
	panicked, pv, stack := hx.Try(func() {
		if err := restli.DecodeTunnelledQuery(r); err != nil {
			res.DecodeErr = err.Error()
		}
	})
	if panicked {
		res.Panic = fmt.Sprintf("%v\n%s", pv, stack)
		return res
	}
	res.After = capture(r)
	return res
}

var (
	hopOnce   sync.Once
	hopServer *httptest.Server
	hopClient *http.Client
)

func newHTTPClient() *http.Client {
	return &http.Client{
		Transport: &http.Transport{
			DialContext:         (&net.Dialer{Timeout: 10 * time.Second}).DialContext,
			MaxIdleConns:        8,
			MaxIdleConnsPerHost: 8,
			DisableCompression:  true,
		},
		Timeout: 60 * time.Second,
	}
}

// captureServer is started once per test process; connections are reused.
func captureServer() (*httptest.Server, *http.Client) {
	hopOnce.Do(func() {
		hopServer = httptest.NewServer(http.HandlerFunc(func(w http.ResponseWriter, r *http.Request) {
			res := observe(r)
			w.Header().Set("Content-Type", "application/json")
			if err := json.NewEncoder(w).Encode(res); err != nil {
				panic(fmt.Sprintf("harness: cannot encode hop result: %v", err))
			}
		}))
		hopClient = newHTTPClient()
	})
	return hopServer, hopClient
}

// hop sends req to the capture handler, over TCP (real=true) or through an in-process wire re-parse.
func hop(req *http.Request, real bool) hopResult {
	if !real {
		return observe(serverSide(req))
	}
	_, cl := captureServer()
	resp, err := cl.Do(req)
	if err != nil {
		panic(fmt.Sprintf("harness: capture hop failed: %v", err))
	}
	defer resp.Body.Close()
	var res hopResult
	if err := json.NewDecoder(resp.Body).Decode(&res); err != nil {
		panic(fmt.Sprintf("harness: capture hop returned garbage (status %d): %v", resp.StatusCode, err))
	}
	return res
}

// rawBody is a restlicodec.Marshaler that emits the given bytes verbatim, which lets the public request constructors
// carry arbitrary body bytes (the compact JSON writer appends raw bytes unchanged).
type rawBody []byte

func (b rawBody) MarshalRestLi(w restlicodec.Writer) error {
	w.WriteRawBytes([]byte(b))
	return nil
}

func isASCIIPrintable(s string) bool {
	for i := 0; i < len(s); i++ {
		if s[i] < 0x21 || s[i] > 0x7e {
			return false
		}
	}
	return true
}

func failf(format string, a ...any) string { return fmt.Sprintf(format, a...) }

var _ = testing.Short
