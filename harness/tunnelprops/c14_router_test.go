package tunnelprops

// C14, router level: a restli server with hand-registered resources (collection "coll" with get / delete / update /
// partial_update / create / get_all / batch_get / finder "search" / action "act", sub-collection "coll/{k}/sub", simple
// resource "simp") whose resource functions log every invocation (method, decoded keys, decoded query parameters incl.
// a long string parameter, decoded body, and the request as the resource sees it).
//
// TestC14Router: the same logical call built by the public constructors with tunnelling off and with a threshold that
// tunnels it must produce identical invocation logs and identical responses. The X-RestLi-Method header is optionally
// removed from both sends (the protocol makes it optional, routing then depends on the restored verb and query).
//
// TestC14Malformed*: hand-written tunnelling envelopes (verif/core/model/tunnel.Multipart) for a call that is routable
// when well-formed. One test per malformed class so that a verdict on one class cannot hide another:
//   a  multipart without a query part            -> 400, no invocation   (named by the property)
//   b  multipart without a body part             -> 400, no invocation   (named by the property)
//   c  part of an unknown type                   -> 400, no invocation   (named by the property)
//   d  override header together with a URL query -> 400, no invocation   (named by the property)
//   e  wrong boundary / no boundary parameter / truncated / garbage multipart -> 400, no invocation
//   f  unknown or missing outer Content-Type     -> 400, no invocation
//   g  override header on a request that is not a POST: not tunnelling; only "no 5xx, no panic" is asserted
//   control  the well-formed envelope of the same call behaves exactly like the untunnelled call

import (
	"strconv"
	"bytes"
	"context"
	"encoding/json"
	"fmt"
	"io"
	"net/http"
	"net/http/httptest"
	"net/url"
	"reflect"
	"sort"
	"strings"
	"sync"
	"testing"

	"github.com/PapaCharlie/go-restli/v2/restli"
	"github.com/PapaCharlie/go-restli/v2/restlicodec"
	common "github.com/PapaCharlie/go-restli/v2/restlidata/generated/com/linkedin/restli/common"
	"pgregory.net/rapid"

	"verif/core/hx"
	"verif/core/kf"
	"verif/core/model/tunnel"
	"verif/core/stats"
)

// ---------------------------------------------------------------------------------------------------------------
// hand-written resource types

type rpKeys struct{ Keys []string }

func (k *rpKeys) NewInstance() *rpKeys { return new(rpKeys) }
func (k *rpKeys) UnmarshalResourcePath(segs []restlicodec.Reader) error {
	for _, s := range segs {
		v, err := s.ReadString()
		if err != nil {
			return err
		}
		k.Keys = append(k.Keys, v)
	}
	return nil
}

func readParam(p map[string]string, rd restlicodec.Reader, field string) error {
	switch field {
	case "n":
		v, err := rd.ReadInt32()
		p[field] = fmt.Sprint(v)
		return err
	case "s", "q", "action":
		v, err := rd.ReadString()
		p[field] = v
		return err
	default:
		raw, err := rd.ReadRawBytes()
		p[field] = "raw:" + string(raw)
		return err
	}
}

type qParams struct{ P map[string]string }

func (q *qParams) NewInstance() *qParams { return &qParams{P: map[string]string{}} }
func (q *qParams) DecodeQueryParams(r restlicodec.QueryParamsReader) error {
	return r.ReadRecord(nil, func(rd restlicodec.Reader, field string) error { return readParam(q.P, rd, field) })
}

type bParams struct{ P map[string]string }

func (q *bParams) NewInstance() *bParams { return &bParams{P: map[string]string{}} }
func (q *bParams) DecodeQueryParams(r restlicodec.QueryParamsReader) (ids []string, err error) {
	err = r.ReadRecord(nil, func(rd restlicodec.Reader, field string) error {
		if field == "ids" {
			return rd.ReadArray(func(item restlicodec.Reader) error {
				v, err := item.ReadString()
				ids = append(ids, v)
				return err
			})
		}
		return readParam(q.P, rd, field)
	})
	return ids, err
}

type ent struct {
	S    string
	N    int32
	Seen []string
}

func (e *ent) NewInstance() *ent { return new(ent) }
func (e *ent) MarshalRestLi(w restlicodec.Writer) error {
	return w.WriteMap(func(kw func(string) restlicodec.Writer) error {
		kw("s").WriteString(e.S)
		kw("n").WriteInt32(e.N)
		return nil
	})
}
func (e *ent) UnmarshalRestLi(r restlicodec.Reader) error {
	return r.ReadRecord(nil, func(rd restlicodec.Reader, field string) (err error) {
		e.Seen = append(e.Seen, field)
		switch field {
		case "s":
			e.S, err = rd.ReadString()
		case "n":
			e.N, err = rd.ReadInt32()
		default:
			err = rd.Skip()
		}
		return err
	})
}

type invocation struct {
	Name         string            `json:"name"`
	Keys         []string          `json:"keys"`
	Ids          []string          `json:"ids,omitempty"`
	Params       map[string]string `json:"params"`
	Body         string            `json:"body"`
	SeenMethod   string            `json:"seen_method"`
	SeenPath     string            `json:"seen_path"`
	SeenQuery    string            `json:"seen_query"`
	SeenCT       []string          `json:"seen_content_type"`
	SeenRestLi   string            `json:"seen_restli_method"`
	SeenOverride []string          `json:"seen_override"`
}

var callLog struct {
	mu    sync.Mutex
	calls []invocation
}

func logCall(ctx *restli.RequestContext, name string, rp *rpKeys, p map[string]string, ids []string, body *ent) {
	inv := invocation{Name: name, Keys: append([]string{}, rp.Keys...), Ids: ids, Params: p}
	if body != nil {
		sort.Strings(body.Seen)
		inv.Body = fmt.Sprintf("s=%q n=%d fields=%v", body.S, body.N, body.Seen)
	}
	r := ctx.Request
	inv.SeenMethod, inv.SeenPath, inv.SeenQuery = r.Method, r.URL.EscapedPath(), r.URL.RawQuery
	inv.SeenCT = r.Header.Values("Content-Type")
	inv.SeenRestLi = r.Header.Get("X-RestLi-Method")
	inv.SeenOverride = r.Header.Values("X-HTTP-Method-Override")
	callLog.mu.Lock()
	callLog.calls = append(callLog.calls, inv)
	callLog.mu.Unlock()
}

func takeLog() []invocation {
	callLog.mu.Lock()
	defer callLog.mu.Unlock()
	l := callLog.calls
	callLog.calls = nil
	return l
}

func registerResources(s restli.Server, segs []restli.ResourcePathSegment, name string, collection bool) {
	restli.RegisterGet(s, segs, func(ctx *restli.RequestContext, rp *rpKeys, qp *qParams) (*ent, error) {
		logCall(ctx, name+".get", rp, qp.P, nil, nil)
		return &ent{S: "got:" + strings.Join(rp.Keys, "/") + ":" + qp.P["s"], N: 7}, nil
	})
	restli.RegisterDelete(s, segs, func(ctx *restli.RequestContext, rp *rpKeys, qp *qParams) error {
		logCall(ctx, name+".delete", rp, qp.P, nil, nil)
		return nil
	})
	restli.RegisterUpdate(s, segs, nil, func(ctx *restli.RequestContext, rp *rpKeys, v *ent, qp *qParams) error {
		logCall(ctx, name+".update", rp, qp.P, nil, v)
		return nil
	})
	restli.RegisterPartialUpdate(s, segs, nil, func(ctx *restli.RequestContext, rp *rpKeys, v *ent, qp *qParams) error {
		logCall(ctx, name+".partial_update", rp, qp.P, nil, v)
		return nil
	})
	restli.RegisterAction(s, segs, "act", func(ctx *restli.RequestContext, rp *rpKeys, v *ent) error {
		logCall(ctx, name+".action.act", rp, nil, nil, v)
		return nil
	})
	if !collection {
		return
	}
	restli.RegisterCreate(s, segs, nil, func(ctx *restli.RequestContext, rp *rpKeys, v *ent, qp *qParams) (*common.CreatedEntity[string], error) {
		logCall(ctx, name+".create", rp, qp.P, nil, v)
		// the id goes into response headers: keep it header-safe whatever the entity holds
		return &common.CreatedEntity[string]{Id: fmt.Sprintf("new-%d-%d", len(v.S), v.N)}, nil
	})
	restli.RegisterGetAll(s, segs, func(ctx *restli.RequestContext, rp *rpKeys, qp *qParams) (*common.Elements[*ent], error) {
		logCall(ctx, name+".get_all", rp, qp.P, nil, nil)
		return &common.Elements[*ent]{Elements: []*ent{{S: "all", N: 1}}}, nil
	})
	restli.RegisterFinder(s, segs, "search", func(ctx *restli.RequestContext, rp *rpKeys, qp *qParams) (*common.Elements[*ent], error) {
		logCall(ctx, name+".finder.search", rp, qp.P, nil, nil)
		return &common.Elements[*ent]{Elements: []*ent{{S: "found:" + qp.P["s"], N: int32(len(qp.P))}}}, nil
	})
	restli.RegisterBatchGet(s, segs, func(ctx *restli.RequestContext, rp *rpKeys, ids []string, qp *bParams) (*common.BatchResponse[string, *ent], error) {
		logCall(ctx, name+".batch_get", rp, qp.P, ids, nil)
		res := &common.BatchResponse[string, *ent]{Results: map[string]*ent{}}
		for _, id := range ids {
			res.Results[id] = &ent{S: id}
		}
		return res, nil
	})
}

var (
	rtOnce    sync.Once
	rtHandler http.Handler
	rtServer  *httptest.Server
	rtClient  *http.Client
)

func router() (http.Handler, *httptest.Server, *http.Client) {
	rtOnce.Do(func() {
		s := restli.NewServer()
		coll := []restli.ResourcePathSegment{restli.NewResourcePathSegment("coll", true)}
		registerResources(s, coll, "coll", true)
		sub := []restli.ResourcePathSegment{restli.NewResourcePathSegment("coll", true), restli.NewResourcePathSegment("sub", true)}
		registerResources(s, sub, "sub", true)
		registerResources(s, []restli.ResourcePathSegment{restli.NewResourcePathSegment("simp", false)}, "simp", false)
		rtHandler = s.Handler()
		rtServer = httptest.NewServer(rtHandler)
		rtClient = newHTTPClient()
	})
	return rtHandler, rtServer, rtClient
}

// ---------------------------------------------------------------------------------------------------------------
// logical calls

type callKind struct {
	Verb    string
	Method  restli.Method
	Path    string // {k} {j} are replaced by encoded keys
	Prefix  string // fixed leading part of the query
	HasBody bool
}

var callKinds = map[string]callKind{
	"get":                   {"GET", restli.Method_get, "/coll/{k}", "", false},
	"delete":                {"DELETE", restli.Method_delete, "/coll/{k}", "", false},
	"update":                {"PUT", restli.Method_update, "/coll/{k}", "", true},
	"partial_update":        {"POST", restli.Method_partial_update, "/coll/{k}", "", true},
	"create":                {"POST", restli.Method_create, "/coll", "", true},
	"get_all":               {"GET", restli.Method_get_all, "/coll", "", false},
	"finder":                {"GET", restli.Method_finder, "/coll", "q=search", false},
	"batch_get":             {"GET", restli.Method_batch_get, "/coll", "ids=List({k},{j})", false},
	"action":                {"POST", restli.Method_action, "/coll", "action=act", true},
	"sub_get":               {"GET", restli.Method_get, "/coll/{k}/sub/{j}", "", false},
	"sub_finder":            {"GET", restli.Method_finder, "/coll/{k}/sub", "q=search", false},
	"sub_update":            {"PUT", restli.Method_update, "/coll/{k}/sub/{j}", "", true},
	"simple_get":            {"GET", restli.Method_get, "/simp", "", false},
	"simple_update":         {"PUT", restli.Method_update, "/simp", "", true},
	"simple_delete":         {"DELETE", restli.Method_delete, "/simp", "", false},
	"simple_action":         {"POST", restli.Method_action, "/simp", "action=act", true},
	"simple_partial_update": {"POST", restli.Method_partial_update, "/simp", "", true},
	"unknown_finder":        {"GET", restli.Method_finder, "/coll", "q=nope", false},
	"unknown_resource":      {"GET", restli.Method_get, "/nope/{k}", "", false},
	"unregistered_method":   {"DELETE", restli.Method_batch_delete, "/coll", "ids=List({k})", false},
}

var callKindNames = func() []string {
	var n []string
	for k := range callKinds {
		n = append(n, k)
	}
	sort.Strings(n)
	return n
}()

// kinds that reach a resource function when sent well-formed with valid keys
var routableKinds = []string{"get", "delete", "update", "partial_update", "create", "get_all", "finder", "batch_get", "action", "sub_get",
	"sub_finder", "sub_update", "simple_get", "simple_update", "simple_delete", "simple_action", "simple_partial_update"}

type logicalCall struct {
	Kind  string `json:"kind"`
	K     string `json:"k"` // encoded keys
	J     string `json:"j"`
	Extra string `json:"extra_query"` // appended to the fixed prefix with "&"
	Body  []byte `json:"body"`
	Strip bool   `json:"strip_restli_method_header"`
}

func (l logicalCall) kind() callKind { return callKinds[l.Kind] }
func (l logicalCall) subst(s string) string {
	return strings.ReplaceAll(strings.ReplaceAll(s, "{k}", l.K), "{j}", l.J)
}
func (l logicalCall) path() string { return l.subst(l.kind().Path) }
func (l logicalCall) query() string {
	p := l.subst(l.kind().Prefix)
	if p != "" && l.Extra != "" {
		return p + "&" + l.Extra
	}
	return p + l.Extra
}

func pct(s string) string {
	var b strings.Builder
	for i := 0; i < len(s); i++ {
		c := s[i]
		if strings.IndexByte(tunnel.Unreserved, c) >= 0 {
			b.WriteByte(c)
		} else {
			fmt.Fprintf(&b, "%%%02X", c)
		}
	}
	return b.String()
}

// keys that UnmarshalResourcePath accepts / keys it rejects or that routing rejects ("%28x%29" reaches the router already
// decoded to "(x)" because net/url drops RawPath for it, likewise "%25" - the same with tunnelling on or off, not this property's business)
var validKeys = []string{"1", "abc", "a%2Fb", "%C3%A9", "x.y", "-7", "a%20b", "%2C"}
var oddKeys = []string{"(k:1)", "List(1)", "'", "a:b", "%", "%zz", "", "%28x%29", "%25"}

func genString(t *rapid.T, label string, maxLen int) string {
	n := rapid.IntRange(0, maxLen).Draw(t, label+"_len")
	var b strings.Builder
	for b.Len() < n {
		switch rapid.IntRange(0, 5).Draw(t, label+"_k") {
		case 0:
			b.WriteString(rapid.SampledFrom(tunnel.ByteTokens).Draw(t, label+"_t"))
		case 1:
			b.WriteString(rapid.SampledFrom([]string{"é", "€", "(", ")", ",", ":", "'", "&", "=", "+", "%", "List(", "--", "\r\n--" + strings.Repeat("0", 60)}).Draw(t, label+"_u"))
		default:
			b.WriteByte(tunnel.Unreserved[rapid.IntRange(0, len(tunnel.Unreserved)-1).Draw(t, label+"_c")])
		}
	}
	return strings.ToValidUTF8(b.String(), "?")
}

func genLogicalCall(t *rapid.T, routableOnly bool) logicalCall {
	var l logicalCall
	if routableOnly {
		l.Kind = rapid.SampledFrom(routableKinds).Draw(t, "kind")
	} else {
		l.Kind = rapid.SampledFrom(callKindNames).Draw(t, "kind")
	}
	if routableOnly || rapid.IntRange(0, 5).Draw(t, "oddkey") > 0 {
		l.K = rapid.SampledFrom(validKeys).Draw(t, "k")
		l.J = rapid.SampledFrom(validKeys).Draw(t, "j")
	} else {
		l.K = rapid.SampledFrom(oddKeys).Draw(t, "k")
		l.J = rapid.SampledFrom(append(oddKeys, validKeys...)).Draw(t, "j")
	}
	// query: a long string parameter, an int, optionally a soup over the encoder's alphabet
	maxLen := 40
	switch rapid.IntRange(0, 5).Draw(t, "slen") {
	case 0:
		maxLen = 1500
	case 1:
		maxLen = 300
	}
	parts := []string{"s=" + pct(genString(t, "s", maxLen))}
	if rapid.IntRange(0, 11).Draw(t, "huge") == 0 {
		// longer than any buffer a reader may peek into (4 KiB and beyond)
		unit := pct(genString(t, "su", 60)) + "x"
		parts[0] = "s=" + strings.Repeat(unit, 1+rapid.IntRange(3900, 20000).Draw(t, "hugelen")/len(unit))
	}
	if parts[0] == "s=" {
		parts[0] = "s=''"
	}
	if rapid.Bool().Draw(t, "has_n") {
		parts = append(parts, fmt.Sprintf("n=%d", rapid.IntRange(-5, 100000).Draw(t, "n")))
	}
	if !routableOnly && rapid.IntRange(0, 3).Draw(t, "soup") == 0 {
		parts = append(parts, "x="+tunnel.GenWireQuery(t, "x"))
	} else if rapid.IntRange(0, 3).Draw(t, "fields") == 0 {
		parts = append(parts, "fields=a,b")
	}
	l.Extra = strings.Join(parts, "&")
	if l.kind().HasBody {
		switch k := rapid.IntRange(0, 9).Draw(t, "bodykind"); {
		case k <= 6 || routableOnly:
			e := map[string]any{"s": genString(t, "bs", 60)}
			if rapid.Bool().Draw(t, "bn") {
				e["n"] = rapid.IntRange(-3, 1000).Draw(t, "bnv")
			}
			if rapid.IntRange(0, 3).Draw(t, "bextra") == 0 {
				e["zz"] = []any{"\r\n--" + tunnel.HexLine(t, "bh") + "--\r\n", 1}
			}
			b, err := json.Marshal(e)
			if err != nil {
				panic(err)
			}
			if rapid.IntRange(0, 3).Draw(t, "ws") == 0 {
				b = append(append([]byte("\r\n "), b...), "\r\n"...)
			}
			l.Body = b
		default:
			_, l.Body, _ = tunnel.GenBody(t, "rawbody", false, false)
		}
	}
	l.Strip = rapid.IntRange(0, 2).Draw(t, "strip") == 0
	if routableOnly && l.kind().Verb == http.MethodPost {
		l.Strip = false // routing requires the method header on POST
	}
	return l
}

// ---------------------------------------------------------------------------------------------------------------
// sending

type outcome struct {
	Status  int                 `json:"status"`
	Headers map[string][]string `json:"headers"`
	Body    string              `json:"body"`
	Calls   []invocation        `json:"calls"`
	Failure string              `json:"failure,omitempty"` // panic out of ServeHTTP or dropped connection
}

var responseHeadersOfInterest = []string{"Content-Type", "X-Restli-Protocol-Version", "X-Restli-Error-Response", "X-Restli-Id", "Location"}

func send(req *http.Request, real bool) (o outcome) {
	h, _, cl := router()
	takeLog()
	o.Headers = map[string][]string{}
	var hdr http.Header
	if real {
		resp, err := cl.Do(req)
		if err != nil {
			o.Failure = "request failed (server dropped the connection?): " + err.Error()
			o.Calls = takeLog()
			return o
		}
		b, _ := io.ReadAll(resp.Body)
		resp.Body.Close()
		o.Status, o.Body, hdr = resp.StatusCode, string(b), resp.Header
	} else {
		sreq := serverSide(req)
		if v := sreq.Header.Get(failAfterHeader); v != "" {
			// the connection breaks after n body bytes: every read past them fails
			n, _ := strconv.Atoi(v)
			sreq.Header.Del(failAfterHeader)
			sreq.Body = io.NopCloser(&brokenBody{r: sreq.Body, left: n})
		}
		rr := httptest.NewRecorder()
		if p, pv, st := hx.Try(func() { h.ServeHTTP(rr, sreq) }); p {
			o.Failure = fmt.Sprintf("ServeHTTP panicked: %v\n%s", pv, st)
			o.Calls = takeLog()
			return o
		}
		o.Status, o.Body, hdr = rr.Code, rr.Body.String(), rr.Header()
	}
	for _, k := range responseHeadersOfInterest {
		if v := hdr.Values(k); len(v) > 0 {
			o.Headers[k] = v
		}
	}
	o.Calls = takeLog()
	return o
}

const failAfterHeader = "X-Verif-Fail-After"

type brokenBody struct {
	r    io.Reader
	left int
}

func (b *brokenBody) Read(p []byte) (int, error) {
	if b.left <= 0 {
		return 0, io.ErrUnexpectedEOF
	}
	if len(p) > b.left {
		p = p[:b.left]
	}
	n, err := b.r.Read(p)
	b.left -= n
	if err == io.EOF {
		err = io.ErrUnexpectedEOF // (the well-formed envelope is longer than what arrives)
	}
	return n, err
}

func canonJSON(s string) any {
	var v any
	if json.Unmarshal([]byte(s), &v) != nil {
		return s
	}
	return v
}

// sameOutcome compares two outcomes: invocation logs, status, headers of interest, body (as JSON when it parses). Error
// responses (status >= 400) are compared by status and headers only: their message text names whichever offending query
// parameter the server's map iteration meets first (it differs between two identical untunnelled requests as well), and
// 5xx bodies carry stack traces.
func sameOutcome(a, b outcome) string {
	if a.Failure != "" || b.Failure != "" {
		if a.Failure != "" && b.Failure != "" {
			return ""
		}
		return fmt.Sprintf("one send failed: %q vs %q", a.Failure, b.Failure)
	}
	if ja, jb := hx.J(a.Calls), hx.J(b.Calls); ja != jb {
		return fmt.Sprintf("recorded invocations differ:\n  untunnelled: %s\n  tunnelled:   %s", clipS(ja), clipS(jb))
	}
	if a.Status != b.Status {
		return fmt.Sprintf("status differs: untunnelled %d (%s) tunnelled %d (%s)", a.Status, clipS(a.Body), b.Status, clipS(b.Body))
	}
	if !reflect.DeepEqual(a.Headers, b.Headers) {
		return fmt.Sprintf("response headers differ: untunnelled %v tunnelled %v", a.Headers, b.Headers)
	}
	if a.Status < 400 && !reflect.DeepEqual(canonJSON(a.Body), canonJSON(b.Body)) {
		return fmt.Sprintf("response body differs: untunnelled %s tunnelled %s", clipS(a.Body), clipS(b.Body))
	}
	return ""
}

func (l logicalCall) build(base *url.URL, threshold int) (*http.Request, error) {
	cl := &restli.Client{Client: http.DefaultClient, HostnameResolver: &restli.SimpleHostnameResolver{Hostname: base}, QueryTunnellingThreshold: threshold}
	k := l.kind()
	rp := restli.ResourcePathString(l.path())
	q := restli.QueryParamsString(l.query())
	var req *http.Request
	var err error
	switch {
	case k.HasBody:
		req, err = restli.NewJsonRequest(cl, context.Background(), rp, q, k.Verb, k.Method, rawBody(l.Body), nil)
	case k.Verb == http.MethodDelete:
		req, err = restli.NewDeleteRequest(cl, context.Background(), rp, q, k.Method)
	default:
		req, err = restli.NewGetRequest(cl, context.Background(), rp, q, k.Method)
	}
	if err == nil && l.Strip {
		req.Header.Del("X-RestLi-Method")
	}
	return req, err
}

func baseURL(real bool) *url.URL {
	if real {
		_, srv, _ := router()
		u, _ := url.Parse(srv.URL)
		return u
	}
	return &url.URL{Scheme: "http", Host: "example.com"}
}

type routerCase struct {
	Call      logicalCall `json:"call"`
	Threshold int         `json:"threshold"`
	RealHop   bool        `json:"real_hop"`
}

func checkRouter(rec *stats.Recorder, c routerCase) (string, string) {
	l := c.Call
	q := l.query()
	model := tunnel.ShouldTunnel(c.Threshold, len(q))
	labels := append(tunnel.QueryLabels(q), "router", "router_kind="+l.Kind)
	if l.Strip {
		labels = append(labels, "router_without_X-RestLi-Method")
	}
	if c.RealHop {
		labels = append(labels, "router_real_tcp_hop")
	}
	if model {
		labels = append(labels, "router_tunnelled")
	} else {
		labels = append(labels, "router_untouched")
	}
	desc := fmt.Sprintf("\n kind=%s %s %s?%s threshold=%d strip_method_header=%v body=%+q", l.Kind, l.kind().Verb, l.path(), clipS(q), c.Threshold, l.Strip, clipS(string(l.Body)))
	base := baseURL(c.RealHop)
	ref, err1 := l.build(base, 0)
	req, err2 := l.build(base, c.Threshold)
	if err1 != nil || err2 != nil {
		rec.Case(append(labels, "router_unconstructible")...)
		if (err1 == nil) != (err2 == nil) {
			return "router-construct", failf("request construction succeeds only with tunnelling on or only off: %v / %v%s", err1, err2, desc)
		}
		return "", ""
	}
	if tl := req.Method == http.MethodPost && req.Header.Get("X-HTTP-Method-Override") != ""; tl != model {
		rec.Case(labels...)
		return "router-threshold", failf("model says tunnelled=%v, request looks tunnelled=%v%s", model, tl, desc)
	}
	u := send(ref, c.RealHop)
	tu := send(req, c.RealHop)
	switch {
	case len(u.Calls) == 1:
		labels = append(labels, "router_invoked")
	case len(u.Calls) == 0:
		labels = append(labels, fmt.Sprintf("router_rejected_%d", u.Status))
	default:
		labels = append(labels, "router_invoked_more_than_once")
	}
	rec.Case(labels...)
	if model {
		rec.NonTrivial("router-"+l.Kind, fmt.Sprintf("router|%s|%s|%s|%x|%v|%d", l.Kind, l.path(), q, l.Body, l.Strip, c.Threshold), func() any { return c })
	}
	if u.Failure != "" {
		// a call that kills the server with tunnelling off is not this property's business unless tunnelling changes it
		labels = append(labels, "router_untunnelled_failure")
	}
	if len(u.Calls) > 1 || len(tu.Calls) > 1 {
		return "router-transparency", failf("more than one invocation: untunnelled %d tunnelled %d%s", len(u.Calls), len(tu.Calls), desc)
	}
	if d := sameOutcome(u, tu); d != "" {
		return "router-transparency", failf("tunnelled call (threshold %d, tunnelled=%v) behaves differently from the untunnelled call: %s%s", c.Threshold, model, d, desc)
	}
	return "", ""
}

func TestC14Router(t *testing.T) {
	rec := recorder()
	if c, ok := hx.Replay[routerCase](propID, "router-"); ok {
		if name, msg := checkRouter(rec, c); msg != "" {
			rec.Violation(name, msg, c)
			t.Fatal(msg)
		}
		return
	} else if hx.Replaying() {
		t.Skip()
	}
	rapid.Check(t, func(rt *rapid.T) {
		var c routerCase
		c.Call = genLogicalCall(rt, false)
		n := len(c.Call.query())
		switch rapid.IntRange(0, 5).Draw(rt, "threshold_kind") {
		case 0:
			c.Threshold = n - 1
		case 1:
			c.Threshold = n // not tunnelled: both sends identical
		case 2:
			c.Threshold = rapid.IntRange(1, n).Draw(rt, "threshold")
		default:
			c.Threshold = 1
		}
		c.RealHop = rapid.IntRange(0, 3).Draw(rt, "real_hop") == 0
		if name, msg := checkRouter(rec, c); msg != "" {
			rec.Violation(name, msg, c)
			rt.Fatalf("%s", name) // constant text: rapid only keeps shrinking while the failure message stays the same
		}
	})
}

var routerRegress = []routerCase{
	{Call: logicalCall{Kind: "get", K: "1", Extra: "s=abc"}, Threshold: 1},
	{Call: logicalCall{Kind: "get", K: "1", Extra: "s=abc", Strip: true}, Threshold: 1},
	{Call: logicalCall{Kind: "simple_get", Extra: "s=abc"}, Threshold: 1, RealHop: true},
	{Call: logicalCall{Kind: "simple_delete", Extra: "s=abc", Strip: true}, Threshold: 4},
	{Call: logicalCall{Kind: "update", K: "a%2Fb", Extra: "s=%0D%0A--x", Body: []byte(`{"s":"v","n":3}`)}, Threshold: 1},
	{Call: logicalCall{Kind: "update", K: "1", Extra: "s=x", Body: []byte(`{"s":"v","n":3}`), Strip: true}, Threshold: 1, RealHop: true},
	{Call: logicalCall{Kind: "action", Extra: "s=x", Body: []byte("{\"s\":\"\\r\\n--abc--\\r\\n\"}")}, Threshold: 2},
	{Call: logicalCall{Kind: "finder", Extra: "s=long" + strings.Repeat("%20x", 500)}, Threshold: 100},
	{Call: logicalCall{Kind: "batch_get", K: "1", J: "abc", Extra: "s=x&fields=a,b", Strip: true}, Threshold: 1},
	{Call: logicalCall{Kind: "partial_update", K: "1", Extra: "s=x", Body: []byte(`{"s":"p"}`)}, Threshold: 1},
	{Call: logicalCall{Kind: "create", Extra: "s=x", Body: []byte(`{"s":"c"}`)}, Threshold: 1},
}

// ---------------------------------------------------------------------------------------------------------------
// malformed envelopes

type malformedCase struct {
	Call    logicalCall `json:"call"`
	Class   string      `json:"class"`
	Variant string      `json:"variant"`
	Seed    uint64      `json:"boundary_seed"`
	Cut     int         `json:"cut_permille"` // truncation point for class e/truncated
	RealHop bool        `json:"real_hop"`
}

var malformedVariants = map[string][]string{
	"a":       {"only_body_part", "body_part_twice", "no_parts"},
	"b":       {"only_query_part", "query_part_twice"},
	"c":       {"third_part_text_plain", "body_part_as_text_plain", "query_part_as_text_plain", "body_part_without_content_type", "third_part_octet_stream", "body_part_as_xml"},
	"d":       {"same_query_in_url", "other_query_in_url", "form_body_empty_and_query_in_url"},
	"e":       {"wrong_boundary", "no_boundary_param", "truncated", "garbage_body", "empty_body", "form_body_labelled_multipart", "read_error"},
	"f":       {"text_plain", "application_json", "missing", "multipart_form_data", "application_xml", "unparseable", "octet_stream"},
	"g":       {"GET", "PUT", "DELETE"},
	"control": {"wellformed"},
}

// envelope builds the hand-written request for (call, class, variant). It returns nil when the variant does not apply.
func (c malformedCase) envelope(base *url.URL) *http.Request {
	l := c.Call
	k := l.kind()
	q := l.query()
	body := l.Body
	if !k.HasBody {
		body = nil
	}
	bd := tunnel.Boundary(c.Seed, []byte(q), body)
	qp, bp := tunnel.QueryPart(q), tunnel.BodyPart(body)
	if body == nil {
		bp = tunnel.BodyPart([]byte("{}"))
	}
	wellFormedBody, wellFormedCT := []byte(q), tunnel.Form
	if k.HasBody {
		wellFormedBody, wellFormedCT = tunnel.Multipart(bd, []tunnel.Part{qp, bp}), tunnel.MixedContentType(bd)
	}
	method, urlQuery, ct, payload := http.MethodPost, "", wellFormedCT, wellFormedBody
	override := k.Verb
	withType := func(p tunnel.Part, t string) tunnel.Part {
		if t == "" {
			return tunnel.Part{Headers: [][2]string{{"X-Part", "1"}}, Content: p.Content}
		}
		return tunnel.Part{Headers: [][2]string{{tunnel.ContentType, t}}, Content: p.Content}
	}
	mixed := func(parts ...tunnel.Part) { ct, payload = tunnel.MixedContentType(bd), tunnel.Multipart(bd, parts) }
	switch c.Class + "/" + c.Variant {
	case "control/wellformed":
	case "a/only_body_part":
		mixed(bp)
	case "a/body_part_twice":
		mixed(bp, bp)
	case "a/no_parts":
		mixed()
	case "b/only_query_part":
		mixed(qp)
	case "b/query_part_twice":
		mixed(qp, qp)
	case "c/third_part_text_plain":
		mixed(qp, bp, tunnel.Part{Headers: [][2]string{{tunnel.ContentType, "text/plain"}}, Content: []byte("hello")})
	case "c/third_part_octet_stream":
		mixed(tunnel.Part{Headers: [][2]string{{tunnel.ContentType, "application/octet-stream"}}, Content: []byte{0, 1, 2}}, qp, bp)
	case "c/body_part_as_text_plain":
		mixed(qp, withType(bp, "text/plain"))
	case "c/body_part_as_xml":
		mixed(qp, withType(bp, "application/xml"))
	case "c/query_part_as_text_plain":
		mixed(withType(qp, "text/plain"), bp)
	case "c/body_part_without_content_type":
		mixed(qp, withType(bp, ""))
	case "d/same_query_in_url":
		urlQuery = q
	case "d/other_query_in_url":
		urlQuery = "zz=1"
	case "d/form_body_empty_and_query_in_url":
		urlQuery, ct, payload = q, tunnel.Form, []byte{}
	case "e/wrong_boundary":
		mixed(qp, bp)
		ct = tunnel.MixedContentType(tunnel.Boundary(c.Seed+1, payload))
	case "e/no_boundary_param":
		mixed(qp, bp)
		ct = tunnel.Mixed
	case "e/truncated":
		mixed(qp, bp)
		// keep a prefix in which the text of the closing delimiter's boundary is incomplete (or absent)
		max := len(payload) - 5
		payload = payload[:max*c.Cut/1000]
	case "e/read_error":
		// a well-formed envelope (form-encoded without a body, multipart with one) of which only a prefix arrives before the
		// connection breaks
	case "e/garbage_body":
		ct, payload = tunnel.MixedContentType(bd), []byte("this is not multipart\r\n--nor-this--\r\n")
	case "e/empty_body":
		ct, payload = tunnel.MixedContentType(bd), []byte{}
	case "e/form_body_labelled_multipart":
		ct, payload = tunnel.MixedContentType(bd), []byte(q)
	case "f/text_plain":
		ct = "text/plain"
	case "f/application_json":
		ct = "application/json"
	case "f/application_xml":
		ct = "application/xml"
	case "f/octet_stream":
		ct = "application/octet-stream"
	case "f/missing":
		ct = ""
	case "f/multipart_form_data":
		ct = "multipart/form-data; boundary=" + bd
	case "f/unparseable":
		ct = "multipart/mixed; boundary"
	case "g/GET", "g/PUT", "g/DELETE":
		// an ordinary untunnelled request that happens to carry the override header
		method, urlQuery, override = c.Variant, q, k.Verb
		ct, payload = "", nil
		if k.HasBody {
			ct, payload = tunnel.JSON, body
		}
	default:
		panic("harness: unknown malformed class/variant " + c.Class + "/" + c.Variant)
	}
	u := *base
	u.Path, u.RawPath = "", ""
	target := u.String() + l.path()
	if urlQuery != "" {
		target += "?" + urlQuery
	}
	req, err := http.NewRequest(method, target, bytes.NewReader(payload))
	if err != nil {
		panic(fmt.Sprintf("harness: cannot build malformed request: %v", err))
	}
	req.Header.Set("X-RestLi-Protocol-Version", "2.0.0")
	if !l.Strip {
		req.Header.Set("X-RestLi-Method", k.Method.String())
	}
	req.Header.Set("Accept", "application/json")
	req.Header.Set("X-HTTP-Method-Override", override)
	if ct != "" {
		req.Header.Set("Content-Type", ct)
	}
	if c.Class == "e" && c.Variant == "read_error" {
		req.Header.Set(failAfterHeader, strconv.Itoa((len(payload)-1)*c.Cut/1000))
	}
	return req
}

func checkMalformed(rec *stats.Recorder, c malformedCase) (string, string) {
	l := c.Call
	name := "malformed-" + c.Class
	labels := []string{"malformed", "malformed_" + c.Class + "/" + c.Variant, "malformed_kind=" + l.Kind}
	if c.RealHop {
		labels = append(labels, "malformed_real_tcp_hop")
	}
	rec.Case(labels...)
	rec.NonTrivial(name, fmt.Sprintf("malformed|%s|%s|%s|%s|%s|%x|%d|%d", c.Class, c.Variant, l.Kind, l.path(), l.query(), l.Body, c.Seed, c.Cut), func() any { return c })
	base := baseURL(c.RealHop)
	req := c.envelope(base)
	desc := fmt.Sprintf("\n class=%s/%s logical call: kind=%s %s %s?%s body=%+q strip_method_header=%v\n sent: %s %s Content-Type=%q override=%q",
		c.Class, c.Variant, l.Kind, l.kind().Verb, l.path(), clipS(l.query()), clipS(string(l.Body)), l.Strip, req.Method, clipS(req.URL.RequestURI()),
		req.Header.Get("Content-Type"), req.Header.Get("X-HTTP-Method-Override"))
	if c.Class == "e" && c.Variant == "truncated" {
		desc += fmt.Sprintf(" cut=%d permille", c.Cut)
	}
	var ref outcome
	if c.Class == "control" {
		r, err := l.build(base, 0)
		if err != nil {
			panic(fmt.Sprintf("harness: cannot build reference request: %v", err))
		}
		ref = send(r, c.RealHop)
		if len(ref.Calls) != 1 || ref.Failure != "" {
			panic(fmt.Sprintf("harness: routable call did not reach exactly one resource function when sent untunnelled: %s%s", hx.J(ref), desc))
		}
	}
	if c.Class == "e" && c.Variant == "read_error" {
		c.RealHop = false // (the broken connection is simulated on the server side of the in-process hop)
	}
	o := send(req, c.RealHop)
	if c.Class == "e" && c.Variant == "read_error" {
		// the request could not be read: whatever the answer is, resource code must not run on a part of it
		if o.Failure != "" {
			return name, failf("tunnelled request whose body breaks off: %s%s", o.Failure, desc)
		}
		if len(o.Calls) != 0 {
			return name, failf("a tunnelled request of which only a prefix could be read reached resource code: %s (status %d)%s", clipS(hx.J(o.Calls)), o.Status, desc)
		}
		if o.Status < 400 {
			return name, failf("a tunnelled request of which only a prefix could be read was answered %d%s", o.Status, desc)
		}
		return "", ""
	}
	switch c.Class {
	case "control":
		if d := sameOutcome(ref, o); d != "" {
			return name, failf("well-formed hand-written tunnelled request behaves differently from the untunnelled call: %s%s", d, desc)
		}
	case "g":
		if o.Failure != "" {
			return name, failf("override header on a %s request: %s%s", req.Method, o.Failure, desc)
		}
		if o.Status >= 500 {
			return name, failf("override header on a %s request: status %d %s%s", req.Method, o.Status, clipS(o.Body), desc)
		}
	default:
		if o.Failure != "" {
			return name, failf("malformed tunnelled request: %s%s", o.Failure, desc)
		}
		if len(o.Calls) != 0 {
			return name, failf("malformed tunnelled request reached resource code: %s (status %d)%s", clipS(hx.J(o.Calls)), o.Status, desc)
		}
		if c.Class == "f" && o.Status == http.StatusInternalServerError && strings.Contains(o.Body, "nil pointer dereference") && kf.Open(kfOuterType) {
			// signature: envelope with an outer Content-Type that is neither form nor multipart/mixed -> recovered nil
			// dereference in routing (request body left nil), answered 500 instead of 400, no resource code reached
			rec.Known(kfOuterType, kf.What(kfOuterType), c)
			return "", ""
		}
		if c.Class == "e" || c.Class == "f" {
			// broken envelopes beyond the four kinds the property lists (no / wrong boundary, truncation, garbage, unknown or
			// missing outer content type): the property's general rule applies - rejected as a client error without reaching
			// resource code; which 4xx is the implementation's choice
			if o.Status < 400 || o.Status >= 500 {
				return name, failf("malformed tunnelled request answered with status %d, want a 4xx; response body %+q%s", o.Status, clipS(o.Body), desc)
			}
		} else if o.Status != http.StatusBadRequest {
			return name, failf("malformed tunnelled request answered with status %d, want 400; response body %+q%s", o.Status, clipS(o.Body), desc)
		}
	}
	return "", ""
}

// id under which known_findings.json may list the class-f symptom (not listed = reported as a violation)
const kfOuterType = "KF-C14-unknown-outer-content-type"

func runMalformed(t *testing.T, class string) {
	rec := recorder()
	if c, ok := hx.Replay[malformedCase](propID, "malformed-"+class); ok {
		if c.Class != class {
			t.Skip()
		}
		if name, msg := checkMalformed(rec, c); msg != "" {
			rec.Violation(name, msg, c)
			t.Fatal(msg)
		}
		return
	} else if hx.Replaying() {
		t.Skip()
	}
	rapid.Check(t, func(rt *rapid.T) {
		c := malformedCase{Class: class}
		c.Call = genLogicalCall(rt, true)
		c.Variant = rapid.SampledFrom(malformedVariants[class]).Draw(rt, "variant")
		c.Seed = rapid.Uint64().Draw(rt, "boundary_seed")
		c.Cut = rapid.IntRange(0, 1000).Draw(rt, "cut")
		c.RealHop = rapid.IntRange(0, 3).Draw(rt, "real_hop") == 0
		if name, msg := checkMalformed(rec, c); msg != "" {
			rec.Violation(name, msg, c)
			rt.Fatalf("%s", name) // constant text: rapid only keeps shrinking while the failure message stays the same
		}
	})
}

func TestC14MalformedControl(t *testing.T)           { runMalformed(t, "control") }
func TestC14MalformedA_NoQueryPart(t *testing.T)     { runMalformed(t, "a") }
func TestC14MalformedB_NoBodyPart(t *testing.T)      { runMalformed(t, "b") }
func TestC14MalformedC_UnknownPart(t *testing.T)     { runMalformed(t, "c") }
func TestC14MalformedD_URLQuery(t *testing.T)        { runMalformed(t, "d") }
func TestC14MalformedE_BrokenMultipart(t *testing.T) { runMalformed(t, "e") }
func TestC14MalformedF_OuterType(t *testing.T)       { runMalformed(t, "f") }
func TestC14MalformedG_NonPost(t *testing.T)         { runMalformed(t, "g") }

var malformedRegress = []malformedCase{
	{Call: logicalCall{Kind: "get", K: "1", Extra: "s=abc"}, Class: "control", Variant: "wellformed"},
	{Call: logicalCall{Kind: "update", K: "1", Extra: "s=abc", Body: []byte(`{"s":"v"}`)}, Class: "control", Variant: "wellformed", RealHop: true},
	{Call: logicalCall{Kind: "update", K: "1", Extra: "s=abc", Body: []byte(`{"s":"v"}`)}, Class: "a", Variant: "only_body_part"},
	{Call: logicalCall{Kind: "update", K: "1", Extra: "s=abc", Body: []byte(`{"s":"v"}`)}, Class: "b", Variant: "only_query_part"},
	{Call: logicalCall{Kind: "update", K: "1", Extra: "s=abc", Body: []byte(`{"s":"v"}`)}, Class: "c", Variant: "body_part_as_text_plain"},
	{Call: logicalCall{Kind: "get", K: "1", Extra: "s=abc"}, Class: "d", Variant: "same_query_in_url"},
	{Call: logicalCall{Kind: "update", K: "1", Extra: "s=abc", Body: []byte(`{"s":"v"}`)}, Class: "e", Variant: "truncated", Cut: 990},
	{Call: logicalCall{Kind: "update", K: "1", Extra: "s=abc", Body: []byte(`{"s":"v"}`)}, Class: "e", Variant: "wrong_boundary"},
	// POST /coll/1 + X-HTTP-Method-Override: GET + Content-Type: text/plain (found by this check: answered 500)
	{Call: logicalCall{Kind: "get", K: "1", Extra: "s=abc", Strip: true}, Class: "f", Variant: "text_plain"},
	{Call: logicalCall{Kind: "simple_get", Extra: "s=abc"}, Class: "f", Variant: "missing"},
	{Call: logicalCall{Kind: "get", K: "1", Extra: "s=abc"}, Class: "g", Variant: "DELETE"},
}

func TestC14MalformedRegress(t *testing.T) {
	rec := recorder()
	if hx.Replaying() {
		t.Skip()
	}
	for i, c := range malformedRegress {
		if name, msg := checkMalformed(rec, c); msg != "" {
			rec.Violation(fmt.Sprintf("%s-regress%d", name, i), msg, c)
			t.Error(msg)
		}
	}
}

func TestC14RouterRegress(t *testing.T) {
	rec := recorder()
	if hx.Replaying() {
		t.Skip()
	}
	for i, c := range routerRegress {
		if name, msg := checkRouter(rec, c); msg != "" {
			rec.Violation(fmt.Sprintf("%s-regress%d", name, i), msg, c)
			t.Error(msg)
		}
	}
}
