package tunnelprops

// C14, overlapping requests: several requests are built (through the public constructors, with tunnelling on)
// BEFORE any of them is sent, as a caller that prepares requests up front or a client shared by goroutines does.
// Each of them, pushed through the hop afterwards, must still de-tunnel to its own verb, path, query and body:
// a request must not share mutable state (buffers) with requests built later.

import (
	"bytes"
	"fmt"
	"net/http"
	"net/url"
	"testing"

	"pgregory.net/rapid"

	"verif/core/hx"
	"verif/core/stats"
)

type overlapCase struct {
	Cases []clientCase `json:"cases"`
}

func checkOverlap(rec *stats.Recorder, c overlapCase) string {
	base := &url.URL{Scheme: "http", Host: "example.com"}
	rec.Case("overlap", fmt.Sprintf("requests=%d", len(c.Cases)))
	rec.NonTrivial("overlap", hx.J(c), func() any {
		s := c
		if len(s.Cases) > 2 {
			s.Cases = s.Cases[:2]
		}
		return s
	})
	reqs := make([]*http.Request, len(c.Cases))
	for i, cc := range c.Cases {
		r, err := cc.build(base, cc.Threshold)
		if err != nil {
			return fmt.Sprintf("request %d could not be built: %v", i, err)
		}
		reqs[i] = r
	}
	for i, cc := range c.Cases {
		var res hopResult
		if p, pv, st := hx.Try(func() { res = hop(reqs[i], false) }); p {
			return fmt.Sprintf("request %d of %d built up front could not be sent: %v\n%s", i, len(reqs), pv, st)
		}
		if res.Panic != "" {
			return fmt.Sprintf("request %d: de-tunnelling panicked: %s", i, res.Panic)
		}
		if res.DecodeErr != "" {
			return fmt.Sprintf("request %d of %d requests built before any was sent no longer de-tunnels: %s\n case=%s", i, len(reqs), res.DecodeErr, hx.J(cc))
		}
		wantBody := []byte{}
		if cc.HasBody {
			wantBody = cc.Body
		}
		if res.After.Method != cc.Verb || res.After.RawQuery != cc.Query || res.After.Path != cc.path() || !bytes.Equal(res.After.Body, wantBody) {
			return fmt.Sprintf("request %d of %d requests built before any was sent arrives as another request: got %s %s?%s body=%q, want %s %s?%s body=%q",
				i, len(reqs), res.After.Method, res.After.Path, res.After.RawQuery, res.After.Body, cc.Verb, cc.path(), cc.Query, wantBody)
		}
	}
	return ""
}

func TestC14Overlap(t *testing.T) {
	rec := stats.For("C14")
	if c, ok := hx.Replay[overlapCase]("C14", "overlap"); ok {
		if msg := checkOverlap(rec, c); msg != "" {
			rec.Violation("overlap", msg, c)
			t.Fatal(msg)
		}
		return
	} else if hx.Replaying() {
		t.Skip()
	}
	rapid.Check(t, func(rt *rapid.T) {
		var c overlapCase
		n := rapid.IntRange(2, 5).Draw(rt, "n")
		for i := 0; i < n; i++ {
			cc := genClientCase(rt)
			cc.RealHop = false
			if cc.HasQuery && len(cc.Query) >= 2 && rapid.IntRange(0, 3).Draw(rt, "force") > 0 {
				cc.Threshold = 1 // make most of them tunnelled
			}
			c.Cases = append(c.Cases, cc)
		}
		if msg := checkOverlap(rec, c); msg != "" {
			rec.Violation("overlap", msg, c)
			rt.Fatalf("overlap")
		}
	})
}
