package codecprops

import (
	"errors"
	"fmt"
	"os"
	"reflect"
	"strconv"
	"strings"
	"testing"
	"unicode/utf8"

	"github.com/PapaCharlie/go-restli/v2/restlicodec"
	"pgregory.net/rapid"

	"verif/HARNESS/dyn"
	"verif/core/aval"
	"verif/core/hx"
	"verif/core/refcodec"
	"verif/core/schema"
)

func TestMain(m *testing.M) { hx.Main(m) }

var (
	S          *schema.Schema
	corpusSeed int64
	roots      []schema.Type // every named type + the seven primitives
	records    []schema.Type
)

func init() {
	p := os.Getenv("VERIF_SCHEMA")
	if p == "" {
		panic("VERIF_SCHEMA not set (run through ./check)")
	}
	b, err := os.ReadFile(p)
	if err != nil {
		panic(err)
	}
	S, err = schema.Load(b)
	if err != nil {
		panic(err)
	}
	corpusSeed, _ = strconv.ParseInt(os.Getenv("VERIF_CORPUS_SEED"), 10, 64)
	if hx.Gen() == "v1" {
		// root-module bindings have no exported MarshalFields / UnmarshalField / RequiredFields
		formats = []string{"json", "pretty", "header", "path", "query"}
	}
	for _, p := range schema.Prims {
		roots = append(roots, schema.P(p))
	}
	for _, n := range S.Types {
		roots = append(roots, schema.RI(n.Ident))
		if n.Kind == "record" {
			records = append(records, schema.RI(n.Ident))
		}
	}
}

func typeByName(name string) schema.Type {
	for _, t := range roots {
		if t.String() == name {
			return t
		}
	}
	panic("replay names unknown type " + name + " (corpus seed mismatch?)")
}

var formats = []string{"json", "pretty", "header", "path", "query", "query-fields"}

// valCase is the replayable case of the value-level checks.
type valCase struct {
	CorpusSeed int64   `json:"corpus_seed"`
	Type       string  `json:"type"`
	Format     string  `json:"format"`
	Value      *aval.V `json:"value"`
	Extra      string  `json:"extra,omitempty"`
	// AfterFailure > 0: before the value is encoded, a marshal that fails after that many map entries were written
	// is performed in the same process (earlier use of the library must not influence later documents)
	AfterFailure int `json:"after_failed_marshal,omitempty"`
	// NilEmpty: the Go value handed to the encoder holds nil (instead of empty non-nil) slices, maps and byte strings -
	// the same abstract value ("an empty and a nil collection are the same value")
	NilEmpty bool `json:"nil_empty,omitempty"`
}

var errFailedMarshal = errors.New("harness: marshaler failing midway")

// failedMarshal performs, on the JSON and the ROR2 writer, a marshal that fails after n entries of a map were written
// (what a Marshaler with an unset union member or an illegal enum constant does).
func failedMarshal(n int) {
	if n <= 0 {
		return
	}
	fails := func(kw func(string) restlicodec.Writer) error {
		for i := 0; i < n; i++ {
			kw(fmt.Sprintf("leftover%d", i)).WriteString("leftover")
		}
		return errFailedMarshal
	}
	for _, w := range []restlicodec.Writer{restlicodec.NewCompactJsonWriter(), restlicodec.NewRor2HeaderWriter()} {
		_ = w.WriteMap(fails)
	}
	// ... and a query string whose encoder fails after n parameters (generated EncodeQueryParams of a finder whose
	// union parameter has no member set)
	_, _ = buildQuery(fails)
}

// pick draws an index in [0,n) roughly uniformly: rapid's integer generators are deliberately biased towards small
// values and range ends, which would concentrate the search on the first and last types of the corpus.
func pick(t *rapid.T, n int, label string) int {
	x := rapid.Uint64().Draw(t, label)
	x ^= x >> 30
	x *= 0xbf58476d1ce4e5b9
	x ^= x >> 27
	x *= 0x94d049bb133111eb
	x ^= x >> 31
	return int(x % uint64(n))
}

func drawType(t *rapid.T, from []schema.Type) schema.Type {
	return from[pick(t, len(from), "type")]
}

func isRecord(t schema.Type) bool {
	return t.Ref != nil && S.Lookup(*t.Ref).Kind == "record"
}

// encode serialises rv (GoType(t)) in the given format with the library's writers.
func encode(t schema.Type, rv reflect.Value, format string, excluded restlicodec.PathSpec) (out string, err error) {
	switch format {
	case "json":
		w := restlicodec.NewCompactJsonWriterWithExcludedFields(excluded)
		err = dyn.Marshal(S, t, rv, w)
		return w.Finalize(), err
	case "pretty":
		w := restlicodec.NewPrettyJsonWriterWithExcludedFields(excluded)
		err = dyn.Marshal(S, t, rv, w)
		return w.Finalize(), err
	case "header":
		w := restlicodec.NewRor2HeaderWriterWithExcludedFields(excluded)
		err = dyn.Marshal(S, t, rv, w)
		return w.Finalize(), err
	case "path":
		w := restlicodec.NewRor2PathWriter()
		err = dyn.Marshal(S, t, rv, w)
		return w.Finalize(), err
	case "query":
		// the value as one query parameter "p", the way generated EncodeQueryParams writes a parameter
		return buildQuery(func(pw func(string) restlicodec.Writer) error {
			return dyn.Marshal(S, t, rv, pw("p"))
		})
	case "query-fields":
		// a record's fields as the parameters of a query (generated params structs do exactly this)
		mf := ptr(rv).MethodByName("MarshalFields")
		return buildQuery(func(pw func(string) restlicodec.Writer) error {
			res := mf.Call([]reflect.Value{reflect.ValueOf(pw)})
			if e := res[0].Interface(); e != nil {
				return e.(error)
			}
			return nil
		})
	}
	panic("format " + format)
}

func ptr(rv reflect.Value) reflect.Value {
	if rv.Kind() == reflect.Ptr {
		return rv
	}
	return rv.Addr()
}

// decode parses doc with the matching library reader. The value is returned even on error.
func decode(t schema.Type, doc string, format string) (rv reflect.Value, err error) {
	var r restlicodec.Reader
	switch format {
	case "json", "pretty":
		r, err = restlicodec.NewJsonReader([]byte(doc))
	case "header", "path":
		r, err = restlicodec.NewRor2Reader(doc)
	case "query":
		var q restlicodec.QueryParamsReader
		q, err = restlicodec.ParseQueryParams(doc)
		if err != nil {
			return rv, err
		}
		pr, ok := q["p"]
		if !ok {
			return rv, fmt.Errorf("parameter p missing from parsed query %q", doc)
		}
		r = pr
	case "query-fields":
		return decodeQueryFields(t, doc)
	default:
		panic("format " + format)
	}
	if err != nil {
		return rv, err
	}
	return dyn.Unmarshal(S, t, r)
}

// failedDecode performs decodes that are aborted midway (a malformed leaf after, or before, required fields were seen;
// a value at an excluded path), through the JSON, ROR2 and untyped readers: what a server does with a bad request.
// Decodes that follow must not be influenced.
func failedDecode(n int) {
	if n <= 0 {
		return
	}
	for _, name := range []string{"vt.Inner", "vt.Deep", "vt.Lat0Sib1"} {
		t := typeOrNilCommon(name)
		if t == nil {
			continue
		}
		for _, doc := range []string{`{"n":"bad"}`, `{"leaf":{"i":"bad"}}`, `{"leaf":{"s":"x"},"n":[]}`, `{"one":{"n":1,"leaf":{"s":7}}}`, `{"r00":"bad"}`} {
			hx.Try(func() { _, _ = decode(*t, doc, "json") })
		}
		for _, doc := range []string{"(n:bad)", "(leaf:(i:bad))", "(leaf:(s:x),n:List())", "(r00:bad)"} {
			hx.Try(func() { _, _ = decode(*t, doc, "header") })
		}
		hx.Try(func() {
			r, err := restlicodec.NewJsonReaderWithExcludedFields([]byte(`{"leaf":{"s":"x"},"n":1}`), restlicodec.NewPathSpec("n"), 0)
			if err == nil {
				_, _ = dyn.Unmarshal(S, *t, r)
			}
		})
		hx.Try(func() {
			_, _ = dyn.Unmarshal(S, *t, restlicodec.NewInterfaceReader(map[string]any{"n": "bad", "leaf": map[string]any{"i": "bad"}}))
		})
	}
}

func typeOrNilCommon(name string) *schema.Type {
	for i := range roots {
		if roots[i].String() == name {
			return &roots[i]
		}
	}
	return nil
}

func fillDefaults(t schema.Type, v *aval.V) *aval.V {
	return aval.FillDefaults(S, t, v, refcodec.Defaults(S))
}

// sanitizeUTF8 is the transformation the JSON writer applies to text that is not valid UTF-8 (each
// offending byte becomes U+FFFD); used only by the signature of KF-C01-json-non-utf8.
func sanitizeUTF8(v *aval.V) (out *aval.V, changed bool, collision bool) {
	out = v.Clone()
	fix := func(s string) string { return string([]rune(s)) }
	out.Walk(func(x *aval.V) {
		switch x.Kind {
		case "string":
			if s := x.Str(); !utf8.ValidString(s) {
				*x = *aval.Str(fix(s))
				changed = true
			}
		case "bytes", "fixed":
			if b := x.Bytes(); !utf8.Valid(b) {
				k := x.Kind
				*x = *aval.Bytes([]byte(fix(string(b))))
				x.Kind = k
				changed = true
			}
		case "map":
			ne := aval.Map()
			for _, k := range x.Keys() {
				nk := k
				if !utf8.ValidString(k) {
					nk = fix(k)
					changed = true
				}
				if ne.Get(nk) != nil {
					collision = true
				}
				ne.Put(nk, x.Get(k))
			}
			x.Ent = ne.Ent
		}
	})
	return
}

// hasInvalidUTF8Fixed: some fixed leaf is not valid UTF-8 (its U+FFFD reading is longer than the declared size).
func hasInvalidUTF8Fixed(v *aval.V) bool {
	found := false
	v.Walk(func(x *aval.V) {
		if x.Kind == "fixed" && !utf8.Valid(x.Bytes()) {
			found = true
		}
	})
	return found
}

func hasInvalidUTF8(v *aval.V) bool {
	_, changed, _ := sanitizeUTF8(v)
	return changed
}

func labelsOf(t schema.Type, v *aval.V, format string) []string {
	ls := []string{"format=" + format}
	if t.Prim != "" {
		ls = append(ls, "root=primitive")
	} else {
		ls = append(ls, "root="+S.Lookup(*t.Ref).Kind)
	}
	return append(ls, aval.Classify(v)...)
}

func nonTrivial(classes []string) bool {
	for _, c := range classes {
		if strings.HasPrefix(c, "format=") || strings.HasPrefix(c, "root=") || c == "encoder_given_nil_collections" {
			continue
		}
		return true
	}
	return false
}

func min3(n int) int {
	if n > 3 {
		return 3
	}
	return n
}
