package codecprops

// C01 - codec round trip: decode(encode(v)) = fillDefaults(v) for every schema type and wire format.

import (
	"fmt"
	"testing"

	"pgregory.net/rapid"

	"verif/HARNESS/dyn"
	"verif/core/aval"
	"verif/core/hx"
	"verif/core/kf"
	"verif/core/stats"
)

func checkRoundTrip(rec *stats.Recorder, c valCase) (msg string, known string) {
	t := typeByName(c.Type)
	v := c.Value
	rv := dyn.Build(S, t, v, dyn.BuildOpts{EmptyAsNil: c.NilEmpty})
	if d := aval.Diff(v, dyn.Extract(S, t, rv), ""); d != "" {
		panic("reflection bridge self-test failed (harness bug, not a verdict): " + d + " for " + c.Type + " " + v.Canon())
	}
	classes := labelsOf(t, v, c.Format)
	if c.AfterFailure > 0 {
		classes = append(classes, "after_failed_marshal")
	}
	if c.NilEmpty {
		classes = append(classes, "encoder_given_nil_collections")
	}
	rec.Case(classes...)
	if nonTrivial(classes) {
		rec.NonTrivial(c.Format, c.Type+"|"+c.Format+"|"+v.Canon(), func() any { return c })
	}
	want := fillDefaults(t, v)
	if c.Format == "query-fields" {
		// the harness drives MarshalFields / UnmarshalField itself (as generated query-params structs do) and does not call
		// the unexported default population, so the record's own unset defaults stay unset here (nested ones are filled)
		for _, f := range S.AllFields(S.Lookup(*t.Ref)) {
			if _, set := v.Flds[f.Name]; !set && f.Default != nil {
				delete(want.Flds, f.Name)
			}
		}
	}

	failedMarshal(c.AfterFailure)
	var doc string
	var err error
	if p, pv, st := hx.Try(func() { doc, err = encode(t, rv, c.Format, nil) }); p {
		return fmt.Sprintf("encoder panicked: %v\n%s", pv, st), ""
	}
	if err != nil {
		return fmt.Sprintf("encoding a valid value failed: %v", err), ""
	}
	fail := func(what string, rejected bool) (string, string) {
		// signature of KF-C01-json-non-utf8 on this path: the only way the U+FFFD substitution makes the decoder reject its own
		// output is a fixed leaf that grew (each offending byte became three) or two map keys that became equal; a panic is
		// never part of the finding
		if rejected && (c.Format == "json" || c.Format == "pretty") && kf.Open("KF-C01-json-non-utf8") {
			if _, changed, collision := sanitizeUTF8(v); changed && (collision || hasInvalidUTF8Fixed(v)) {
				return "", "KF-C01-json-non-utf8"
			}
		}
		return fmt.Sprintf("%s\n type=%s format=%s\n document=%s\n value=%s", what, c.Type, c.Format, hx.Q(doc), want.Canon()), ""
	}
	var dv = rv
	if p, pv, st := hx.Try(func() { dv, err = decode(t, doc, c.Format) }); p {
		return fail(fmt.Sprintf("decoder panicked on the encoder's own output: %v\n%s", pv, st), false)
	}
	if err != nil {
		return fail(fmt.Sprintf("decoding the encoder's own output failed: %v", err), true)
	}
	got := dyn.Extract(S, t, dv)
	if d := aval.Diff(want, got, ""); d != "" {
		if (c.Format == "json" || c.Format == "pretty") && kf.Open("KF-C01-json-non-utf8") {
			// signature of the known finding: the only alteration is U+FFFD substitution of bytes that are not valid UTF-8
			// (only leaves that travelled through the document: defaults filled on decode never did)
			if sv, changed, collision := sanitizeUTF8(v); changed && (collision || aval.Equal(fillDefaults(t, sv), got)) {
				return "", "KF-C01-json-non-utf8"
			}
		}
		return fmt.Sprintf("round trip altered the value at %s\n type=%s format=%s\n document=%s\n want=%s\n got =%s", d, c.Type, c.Format, hx.Q(doc), want.Canon(), got.Canon()), ""
	}
	// the type's own Equals, for values free of NaN (which never equals itself)
	if t.Ref != nil && !want.HasNaN() {
		wv := dyn.Build(S, t, want, dyn.BuildOpts{})
		if dyn.HasMethod(wv, "Equals") {
			var eq, eq2 bool
			if p, pv, st := hx.Try(func() { eq = dyn.Equals(wv, dv); eq2 = dyn.Equals(dv, wv) }); p {
				return fmt.Sprintf("Equals panicked: %v\n%s", pv, st), ""
			}
			if !eq || !eq2 {
				return fmt.Sprintf("decoded value is structurally identical but its own Equals reports a difference (a.Equals(b)=%v b.Equals(a)=%v)\n type=%s format=%s\n value=%s", eq, eq2, c.Type, c.Format, want.Canon()), ""
			}
		}
	}
	return "", ""
}

func runValueProperty(t *testing.T, id, check string, gen func(rt *rapid.T) valCase, f func(*stats.Recorder, valCase) (string, string)) {
	rec := stats.For(id)
	if c, ok := hx.Replay[valCase](id, check); ok {
		if msg, _ := f(rec, c); msg != "" {
			rec.Violation(check, msg, c)
			t.Fatal(msg)
		}
		return
	} else if hx.Replaying() {
		t.Skip()
	}
	rapid.Check(t, func(rt *rapid.T) {
		c := gen(rt)
		msg, known := f(rec, c)
		if known != "" {
			rec.Known(known, kf.What(known), c)
			return
		}
		if msg != "" {
			rec.Violation(check, msg, c)
			rt.Fatalf("property violated (details in the replay file)")
		}
	})
}

func genValCase(rt *rapid.T, g *aval.Gen, allFormats bool) valCase {
	format := formats[pick(rt, len(formats), "format")]
	var t = drawType(rt, roots)
	if format == "query-fields" {
		t = drawType(rt, records)
	}
	c := valCase{CorpusSeed: corpusSeed, Type: t.String(), Format: format}
	if tree := typeOrNil("vt.Tree"); tree != nil && format != "query-fields" && rapid.IntRange(0, 39).Draw(rt, "deep") == 0 {
		// "nested to any depth": a chain of 10-60 levels through the recursive record (optional field, array item, map value)
		c.Type, c.Value = tree.String(), deepTree(rt, rapid.IntRange(10, 60).Draw(rt, "levels"))
	} else {
		c.Value = g.Value(rt, t, 0)
	}
	if rapid.IntRange(0, 3).Draw(rt, "after_failure") == 0 {
		c.AfterFailure = rapid.IntRange(1, 3).Draw(rt, "failed_entries")
	}
	c.NilEmpty = rapid.IntRange(0, 3).Draw(rt, "nil_empty") == 0
	return c
}

// deepTree builds a vt.Tree value nested the given number of levels, each level reached through one of the three
// recursive positions of the record.
func deepTree(rt *rapid.T, levels int) *aval.V {
	cur := aval.Record().Set("v", aval.Str("leaf"))
	for i := 0; i < levels; i++ {
		up := aval.Record().Set("v", aval.Str(""))
		switch rapid.IntRange(0, 2).Draw(rt, "via") {
		case 0:
			up.Set("next", cur)
		case 1:
			up.Set("kids", aval.Array(cur))
		default:
			m := aval.Map()
			m.Put("k", cur)
			up.Set("named", m)
		}
		cur = up
	}
	return cur
}

func TestC01RoundTrip(t *testing.T) {
	g := &aval.Gen{S: S, MaxDepth: 4, InvalidUTF8: true}
	runValueProperty(t, "C01", "roundtrip", func(rt *rapid.T) valCase { return genValCase(rt, g, true) }, checkRoundTrip)
}
