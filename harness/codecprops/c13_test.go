package codecprops

// C13 - schema default values are applied, never override data, never shared.

import (
	"fmt"
	"reflect"
	"testing"

	"github.com/PapaCharlie/go-restli/v2/restlicodec"
	"pgregory.net/rapid"

	"verif/HARNESS/dyn"
	"verif/core/aval"
	"verif/core/hx"
	"verif/core/kf"
	"verif/core/refcodec"
	"verif/core/schema"
	"verif/core/stats"
)

func hasDefaults(n *schema.Named) bool {
	for _, f := range S.AllFields(n) {
		if f.Default != nil {
			return true
		}
	}
	return false
}

// defaultInstance is the model of New<T>WithDefaultValues(): every defaulted field carries its literal; a required
// record-typed field whose record has defaults is itself a default instance; other required fields hold the zero value.
func defaultInstance(n *schema.Named) *aval.V {
	r := aval.Record()
	for _, f := range S.AllFields(n) {
		switch {
		case f.Default != nil:
			r.Flds[f.Name] = fillDefaults(f.Type, refcodec.ParseLiteral(S, f.Type, *f.Default))
		case f.Required():
			if f.Type.Ref != nil {
				if fn := S.Lookup(*f.Type.Ref); fn.Kind == "record" && hasDefaults(fn) {
					r.Flds[f.Name] = defaultInstance(fn)
					continue
				}
			}
			r.Flds[f.Name] = aval.Zero(S, f.Type)
		}
	}
	return r
}

var defaultRecords []schema.Type

func getDefaultRecords() []schema.Type {
	if defaultRecords == nil {
		for _, r := range records {
			if hasDefaults(S.Lookup(*r.Ref)) {
				defaultRecords = append(defaultRecords, r)
			}
		}
	}
	return defaultRecords
}

// scramble mutates every slice, map and byte string reachable from rv in place (without reallocating the
// containers themselves), so that any storage shared with another instance would show up there.
func scramble(rv reflect.Value, depth int) int {
	if depth > 8 {
		return 0
	}
	n := 0
	switch rv.Kind() {
	case reflect.Ptr:
		if !rv.IsNil() {
			n += scramble(rv.Elem(), depth+1)
		}
	case reflect.Struct:
		for i := 0; i < rv.NumField(); i++ {
			n += scramble(rv.Field(i), depth+1)
		}
	case reflect.Slice:
		for i := 0; i < rv.Len(); i++ {
			e := rv.Index(i)
			n += scramble(e, depth+1)
			n += poke(e)
		}
	case reflect.Array:
		for i := 0; i < rv.Len(); i++ {
			n += poke(rv.Index(i))
		}
	case reflect.Map:
		it := rv.MapRange()
		var keys []reflect.Value
		for it.Next() {
			keys = append(keys, it.Key())
			n += scramble(it.Value(), depth+1)
		}
		for _, k := range keys {
			rv.SetMapIndex(k, reflect.Value{}) // delete
			n++
		}
		if rv.Len() == 0 && !rv.IsNil() {
			rv.SetMapIndex(reflect.ValueOf("scrambled").Convert(rv.Type().Key()), reflect.Zero(rv.Type().Elem()))
			n++
		}
	}
	return n
}

func poke(e reflect.Value) int {
	if !e.CanSet() {
		return 0
	}
	switch e.Kind() {
	case reflect.String:
		e.SetString(e.String() + "#scrambled")
	case reflect.Int32, reflect.Int64:
		e.SetInt(e.Int() ^ 0x55)
	case reflect.Uint8:
		e.SetUint(e.Uint() ^ 0x55)
	case reflect.Float32, reflect.Float64:
		e.SetFloat(e.Float() + 1)
	case reflect.Bool:
		e.SetBool(!e.Bool())
	default:
		return 0
	}
	return 1
}

func TestC13Constructors(t *testing.T) {
	rec := stats.For("C13")
	if hx.Replaying() {
		if _, ok := hx.Replay[valCase]("C13", "constructor"); !ok {
			t.Skip()
		}
	}
	if i, _ := hx.ShardIndex(); i != 0 {
		t.Skip()
	}
	var n int64
	for _, ty := range getDefaultRecords() {
		nm := S.Lookup(*ty.Ref)
		want := defaultInstance(nm)
		c := valCase{CorpusSeed: corpusSeed, Type: ty.String(), Format: "constructor", Value: want}
		n++
		rec.Case("constructor")
		rec.NonTrivial("constructor", ty.String(), func() any { return c })
		a, ok := dyn.NewDefault(nm.Full())
		if !ok {
			msg := fmt.Sprintf("record %s has defaulted fields but no New%sWithDefaultValues constructor was generated", nm.Full(), nm.Name)
			rec.Violation("constructor-"+nm.Name, msg, c)
			t.Error(msg)
			continue
		}
		check := func(what string, inst any) bool {
			got := dyn.Extract(S, ty, reflect.ValueOf(inst))
			if d := aval.Diff(want, got, ""); d != "" {
				msg := fmt.Sprintf("%s of %s does not carry the schema defaults: %s\n got =%s\n want=%s", what, nm.Full(), d, got.Canon(), want.Canon())
				rec.Violation("constructor-"+nm.Name, msg, c)
				t.Error(msg)
				return false
			}
			return true
		}
		if !check("a fresh default instance", a) {
			continue
		}
		// no sharing: scramble one instance in place, another (older and newer) instance must be unaffected
		b, _ := dyn.NewDefault(nm.Full())
		pokes := scramble(reflect.ValueOf(a), 0)
		rec.Label("scrambled_positions", int64(pokes))
		fresh, _ := dyn.NewDefault(nm.Full())
		check("a default instance created before another instance was mutated", b)
		check("a default instance created after another instance was mutated", fresh)
	}
	rec.Exhaustive("default constructors of every record with defaults", n)
}

type omitCase struct {
	valCase
	Reader string `json:"reader"` // json ror2 any
	Mask   int    `json:"mask"`   // which defaulted fields are supplied
}

func checkOmission(rec *stats.Recorder, c omitCase) (msg string, known string) {
	ty := typeByName(c.Type)
	nm := S.Lookup(*ty.Ref)
	// v supplies exactly the defaulted fields selected by the mask (with a value different from the default where possible)
	v := c.Value.Clone()
	i := 0
	supplied, omitted := 0, 0
	for _, f := range S.AllFields(nm) {
		if f.Default == nil {
			continue
		}
		if c.Mask&(1<<(i%16)) == 0 {
			delete(v.Flds, f.Name)
			omitted++
		} else if _, ok := v.Flds[f.Name]; ok {
			supplied++
		}
		i++
	}
	want := fillDefaults(ty, v)
	ror2 := c.Reader == "ror2"
	tr := refcodec.TreeOf(S, ty, v, refcodec.Opts{Bytes: refcodec.RawUTF8, ROR2: ror2})
	if c.Reader == "json" && !refcodec.ValidForJSON(tr) {
		rec.Label("skipped_not_denotable_in_json", 1)
		return "", ""
	}
	rec.Case("reader="+c.Reader, fmt.Sprintf("omitted=%d", min3(omitted)), fmt.Sprintf("supplied=%d", min3(supplied)))
	rec.NonTrivial("omission/"+c.Reader, c.Reader+"|"+c.Type+"|"+v.Canon(), func() any { return c })
	var doc string
	var rv reflect.Value
	var err error
	if p, pv, st := hx.Try(func() {
		var r restlicodec.Reader
		switch c.Reader {
		case "json":
			doc = refcodec.RenderJSON(tr, refcodec.JSONOpts{})
			r, err = restlicodec.NewJsonReader([]byte(doc))
		case "ror2":
			doc = refcodec.RenderROR2(tr, refcodec.ROR2Opts{Flavour: refcodec.Header})
			r, err = restlicodec.NewRor2Reader(doc)
		default:
			doc = tr.String()
			r = restlicodec.NewInterfaceReader(refcodec.ToAny(tr, false))
		}
		if err == nil {
			rv, err = dyn.Unmarshal(S, ty, r)
		}
	}); p {
		return fmt.Sprintf("decoder panicked: %v\n%s", pv, st), ""
	}
	if err != nil {
		return fmt.Sprintf("a document omitting only defaulted / optional fields was rejected (defaults must never be reported missing): %v\n type=%s reader=%s document=%s", err, c.Type, c.Reader, hx.Q(doc)), ""
	}
	got := dyn.Extract(S, ty, rv)
	if d := aval.Diff(want, got, ""); d != "" {
		return fmt.Sprintf("decoded instance does not carry the schema defaults / a supplied value did not win: %s\n type=%s reader=%s\n document=%s\n got =%s\n want=%s", d, c.Type, c.Reader, hx.Q(doc), got.Canon(), want.Canon()), ""
	}
	// no sharing between two decoded instances
	if p, pv, st := hx.Try(func() {
		var r2 restlicodec.Reader
		switch c.Reader {
		case "json":
			r2, _ = restlicodec.NewJsonReader([]byte(doc))
		case "ror2":
			r2, _ = restlicodec.NewRor2Reader(doc)
		default:
			r2 = restlicodec.NewInterfaceReader(refcodec.ToAny(tr, false))
		}
		rv2, e2 := dyn.Unmarshal(S, ty, r2)
		if e2 != nil {
			msg = fmt.Sprintf("the document that was accepted once was rejected when decoded a second time: %v\n type=%s reader=%s document=%s", e2, c.Type, c.Reader, hx.Q(doc))
			return
		}
		scramble(rv.Addr(), 0)
		got2 := dyn.Extract(S, ty, rv2)
		if d := aval.Diff(want, got2, ""); d != "" {
			msg = fmt.Sprintf("mutating the default-populated containers of one decoded instance changed another instance: %s\n type=%s reader=%s document=%s", d, c.Type, c.Reader, hx.Q(doc))
		}
	}); p {
		return fmt.Sprintf("decoding the same document a second time / mutating the first instance panicked: %v\n%s\n type=%s reader=%s document=%s", pv, st, c.Type, c.Reader, hx.Q(doc)), ""
	}
	return msg, ""
}

// omissionTypes: the records with defaults plus the complex keys whose key record or parameter record declares defaults
// (a complex key is decoded like a record: its key's fields, and $params).
var omissionTypesCache []schema.Type

func omissionTypes() []schema.Type {
	if omissionTypesCache == nil {
		omissionTypesCache = append(omissionTypesCache, getDefaultRecords()...)
		for _, n := range S.Types {
			if n.Kind == "complexkey" && (hasDefaults(S.Lookup(*n.Key)) || hasDefaults(S.Lookup(*n.Params))) {
				omissionTypesCache = append(omissionTypesCache, schema.RI(n.Ident))
			}
		}
	}
	return omissionTypesCache
}

func TestC13Omission(t *testing.T) {
	g := &aval.Gen{S: S, MaxDepth: 3, PlainKeys: true}
	rec := stats.For("C13")
	if c, ok := hx.Replay[omitCase]("C13", "omission"); ok {
		if msg, _ := checkOmission(rec, c); msg != "" {
			rec.Violation("omission", msg, c)
			t.Fatal(msg)
		}
		return
	} else if hx.Replaying() {
		t.Skip()
	}
	rapid.Check(t, func(rt *rapid.T) {
		var c omitCase
		ty := drawType(rt, omissionTypes())
		c.Reader = rapid.SampledFrom([]string{"json", "ror2", "any"}).Draw(rt, "reader")
		c.Mask = rapid.IntRange(0, 1<<16-1).Draw(rt, "mask")
		c.valCase = valCase{CorpusSeed: corpusSeed, Type: ty.String(), Format: c.Reader, Value: g.Value(rt, ty, 0)}
		msg, known := checkOmission(rec, c)
		if known != "" {
			rec.Known(known, kf.What(known), c)
			return
		}
		if msg != "" {
			rec.Violation("omission", msg, c)
			rt.Fatalf("property violated (details in the replay file)")
		}
	})
}
