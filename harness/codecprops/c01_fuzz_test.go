package codecprops

// C01 - coverage-guided part (thorough tier). Bytes are decoded as (type, format); whenever the library accepts
// them, the decoded value is a value of the schema-derived type, so the round-trip property applies to it: it is
// handed to the same oracle as the generated values (checkRoundTrip: encode, decode, abstract equality, own Equals).
// This reaches values only a decoder can produce (alternative spellings, unknown fields dropped, defaults filled).

import (
	"testing"

	"pgregory.net/rapid"

	"verif/HARNESS/dyn"
	"verif/core/aval"
	"verif/core/hx"
	"verif/core/schema"
	"verif/core/stats"
)

var c01FuzzFormats = []string{"json", "header", "query"}

func FuzzC01Reencode(f *testing.F) {
	rec := stats.For("C01")
	g := &aval.Gen{S: S, MaxDepth: 3, InvalidUTF8: true}
	seed := func(ti int, t schema.Type, v *aval.V) {
		rv := dyn.Build(S, t, v, dyn.BuildOpts{})
		for fi, format := range c01FuzzFormats {
			if doc, err := encode(t, rv, format, nil); err == nil {
				f.Add([]byte(doc), uint16(ti), uint8(fi))
			}
		}
	}
	for ti, t := range records {
		for k := 0; k < 2; k++ {
			var v *aval.V
			if p, _, _ := hx.Try(func() {
				v = rapid.Custom(func(rt *rapid.T) *aval.V { rapid.Bool().Draw(rt, "x"); return g.Value(rt, t, 0) }).Example(k + 1)
			}); p {
				continue
			}
			seed(ti, t, v)
			// the same value with every float leaf set to a special value (one per variant), so that the reserved spellings
			// are in the corpus for every float position of every type
			for _, special := range []string{"NaN", "+Inf", "-Inf", "-0", "1e+21", "1e-07"} {
				w := v.Clone()
				any := false
				w.Walk(func(x *aval.V) {
					if x.Kind == "float32" || x.Kind == "float64" {
						x.F, any = special, true
					}
				})
				if any {
					seed(ti, t, w)
				}
			}
		}
	}
	f.Fuzz(func(t *testing.T, data []byte, typeSel uint16, formatSel uint8) {
		if len(data) > 4096 {
			return
		}
		ty := records[int(typeSel)%len(records)]
		format := c01FuzzFormats[int(formatSel)%len(c01FuzzFormats)]
		doc := string(data)
		var rv = dyn.Build(S, ty, aval.Valid(S, ty), dyn.BuildOpts{})
		var err error
		if p, _, _ := hx.Try(func() { rv, err = decode(ty, doc, format) }); p || err != nil {
			rec.Case("fuzz_rejected")
			return // robustness of decoders is C04's subject
		}
		v := dyn.Extract(S, ty, rv)
		if why := aval.IsValid(S, ty, v); why != "" {
			// lenient decoding (an unknown enum symbol becomes the "unknown" constant) gives values that are not values of
			// the schema type and cannot be encoded: outside C01's domain
			rec.Case("fuzz_accepted_invalid_value")
			return
		}
		rec.Case("fuzz_accepted")
		// the decoded value is a value of the type: it must round-trip in every wire format, not only the one it came in
		for _, out := range []string{"json", "pretty", "header", "path", "query"} {
			c := valCase{CorpusSeed: corpusSeed, Type: ty.String(), Format: out, Value: v, Extra: "decoded from " + format + " " + hx.Q(doc)}
			msg, known := checkRoundTrip(rec, c)
			if known != "" || msg == "" {
				continue
			}
			rec.Violation("roundtrip-fuzz", msg+"\n the value was decoded from "+format+" "+hx.Q(doc), c)
			stats.FlushAll()
			t.Fatal(msg)
		}
	})
}
