package codecprops

// C07 (batch envelopes) - the exclusion paths of create / update are relative to each entity of a batch body:
// {"entities":{key: entity}} (batch_update) and {"elements":[entity]} (batch_create) written the way the
// library's own batch methods write them (one SetScope() writer per entity) must omit, in every entity, exactly
// the values at matching paths, and must not lose or alter any other entity.

import (
	"fmt"
	"reflect"
	"sort"
	"strings"
	"testing"

	"github.com/PapaCharlie/go-restli/v2/restlicodec"
	"pgregory.net/rapid"

	"verif/HARNESS/dyn"
	"verif/core/aval"
	"verif/core/hx"
	"verif/core/model/pathmodel"
	"verif/core/refcodec"
	"verif/core/stats"
)

type envCase struct {
	CorpusSeed int64     `json:"corpus_seed"`
	Type       string    `json:"type"`
	Format     string    `json:"format"` // json header
	Envelope   string    `json:"envelope"`
	Keys       []string  `json:"keys"`
	Values     []*aval.V `json:"values"`
	Spec       []string  `json:"spec"`
}

func checkEnvelope(rec *stats.Recorder, c envCase) string {
	t := typeByName(c.Type)
	spec := pathmodel.Parse(c.Spec)
	ror2 := c.Format == "header"
	var want []*refcodec.Tree
	removedAny, lastExcluded := 0, false
	for _, v := range c.Values {
		full := refcodec.TreeOf(S, t, v, refcodec.Opts{Bytes: refcodec.RawUTF8, ROR2: ror2})
		if !ror2 && !refcodec.ValidForJSON(full) {
			return ""
		}
		pruned := full.Clone()
		removed, visited := 0, 0
		prune(pruned, spec, nil, &removed, &visited)
		removedAny += removed
		if n := len(full.Obj); n > 0 && len(pruned.Obj) > 0 {
			// the field a generated marshaler writes last (alphabetical order)
			last := ""
			for _, kv := range full.Obj {
				if kv.K > last {
					last = kv.K
				}
			}
			has := false
			for _, kv := range pruned.Obj {
				if kv.K == last {
					has = true
				}
			}
			lastExcluded = lastExcluded || !has
		}
		want = append(want, pruned)
	}
	labels := []string{"mode=envelope", "envelope=" + c.Envelope, "format=" + c.Format, fmt.Sprintf("entities=%d", len(c.Values))}
	if lastExcluded {
		labels = append(labels, "last_written_field_excluded")
	}
	rec.Case(labels...)
	if removedAny > 0 && len(c.Values) >= 2 {
		rec.NonTrivial("envelope/"+c.Envelope, hx.J(c), func() any { return c })
	}
	ps := restlicodec.NewPathSpec(c.Spec...)
	var w restlicodec.Writer
	var fin func() string
	if ror2 {
		x := restlicodec.NewRor2HeaderWriterWithExcludedFields(ps)
		w, fin = x, x.Finalize
	} else {
		x := restlicodec.NewCompactJsonWriterWithExcludedFields(ps)
		w, fin = x, x.Finalize
	}
	var rvs []reflect.Value
	for _, v := range c.Values {
		rvs = append(rvs, dyn.Build(S, t, v, dyn.BuildOpts{}))
	}
	var err error
	if p, pv, st := hx.Try(func() {
		err = w.WriteMap(func(keyWriter func(string) restlicodec.Writer) error {
			if c.Envelope == "entities" {
				return keyWriter("entities").WriteMap(func(kw func(string) restlicodec.Writer) error {
					for i, rv := range rvs {
						if e := dyn.Marshal(S, t, rv, kw(c.Keys[i]).SetScope()); e != nil {
							return e
						}
					}
					return nil
				})
			}
			return keyWriter("elements").WriteArray(func(iw func() restlicodec.Writer) error {
				for _, rv := range rvs {
					if e := dyn.Marshal(S, t, rv, iw().SetScope()); e != nil {
						return e
					}
				}
				return nil
			})
		})
	}); p {
		return fmt.Sprintf("encoder panicked: %v\n%s", pv, st)
	}
	fail := func(what, doc string) string {
		return fmt.Sprintf("%s\n type=%s envelope=%s format=%s spec=%q keys=%q\n document=%s", what, c.Type, c.Envelope, c.Format, c.Spec, c.Keys, hx.Q(doc))
	}
	if err != nil {
		return fail("writing a batch envelope with an exclusion spec failed: "+err.Error(), "")
	}
	doc := fin()
	var got *refcodec.Tree
	if ror2 {
		got, err = refcodec.ParseROR2(doc)
	} else {
		got, err = refcodec.ParseJSON([]byte(doc))
	}
	if err != nil {
		return fail("batch envelope is not well-formed: "+err.Error(), doc)
	}
	if got.Kind != "obj" || len(got.Obj) != 1 || got.Obj[0].K != c.Envelope {
		return fail("batch envelope does not consist of the single key "+c.Envelope, doc)
	}
	inner := got.Obj[0].V
	var items []*refcodec.Tree
	if c.Envelope == "entities" {
		if inner.Kind != "obj" {
			return fail("entities is not a map", doc)
		}
		byKey := map[string]*refcodec.Tree{}
		for _, kv := range inner.Obj {
			byKey[kv.K] = kv.V
		}
		if len(inner.Obj) != len(c.Keys) {
			return fail(fmt.Sprintf("%d entities written, %d transmitted", len(c.Keys), len(inner.Obj)), doc)
		}
		for _, k := range c.Keys {
			if byKey[k] == nil {
				return fail(fmt.Sprintf("entity %q is missing from the envelope", k), doc)
			}
			items = append(items, byKey[k])
		}
	} else {
		if inner.Kind != "arr" || len(inner.Arr) != len(c.Values) {
			return fail(fmt.Sprintf("%d elements written, %d transmitted", len(c.Values), len(inner.Arr)), doc)
		}
		items = inner.Arr
	}
	for i := range items {
		gv, e1 := refcodec.FromTree(S, t, items[i], refcodec.Opts{Bytes: refcodec.RawUTF8, ROR2: ror2})
		wv, e2 := refcodec.FromTree(S, t, want[i], refcodec.Opts{Bytes: refcodec.RawUTF8, ROR2: ror2})
		if e2 != nil {
			panic("harness: pruned tree does not parse: " + e2.Error())
		}
		if e1 != nil {
			return fail(fmt.Sprintf("entity %d does not denote a value of the type: %v", i, e1), doc)
		}
		if d := aval.Diff(wv, gv, ""); d != "" {
			return fail(fmt.Sprintf("entity %d: the encoder did not omit exactly the matching values: %s\n expected entity=%s", i, d, want[i].String()), doc)
		}
	}
	return ""
}

func TestC07Envelope(t *testing.T) {
	g := &aval.Gen{S: S, MaxDepth: 3, PlainKeys: true, ExtraKeys: []string{"[system]", "[0]", "[x", "a[1]", "[]"}}
	rec := stats.For("C07")
	if c, ok := hx.Replay[envCase]("C07", "envelope"); ok {
		if msg := checkEnvelope(rec, c); msg != "" {
			rec.Violation("envelope", msg, c)
			t.Fatal(msg)
		}
		return
	} else if hx.Replaying() {
		t.Skip()
	}
	rapid.Check(t, func(rt *rapid.T) {
		ty := drawType(rt, records)
		c := envCase{CorpusSeed: corpusSeed, Type: ty.String()}
		c.Format = rapid.SampledFrom([]string{"json", "header"}).Draw(rt, "fmt")
		c.Envelope = rapid.SampledFrom([]string{"entities", "entities", "elements"}).Draw(rt, "env")
		n := rapid.IntRange(1, 4).Draw(rt, "n")
		for i := 0; i < n; i++ {
			c.Values = append(c.Values, g.Value(rt, ty, 0))
			c.Keys = append(c.Keys, fmt.Sprintf("k%d", i))
		}
		// the spec is drawn for one of the values; half of the time it names a top-level field of the value (the
		// fields generated marshalers write last matter: the per-entity scope is a copy of the envelope's)
		at := c.Values[pick(rt, n, "spec_for")]
		c.Spec = genSpec(rt, ty, at)
		if rapid.Bool().Draw(rt, "top") {
			var names []string
			for name := range at.Flds {
				if !strings.Contains(name, "/") {
					names = append(names, name)
				}
			}
			if len(names) > 0 {
				// (sorted: map iteration order must not reach the generator)
				sort.Strings(names)
				k := pick(rt, 2*len(names), "topfield")
				if k >= len(names) {
					k = len(names) - 1 // bias towards the last field in alphabetical order
				}
				c.Spec = append(c.Spec, names[k])
			}
		}
		if msg := checkEnvelope(rec, c); msg != "" {
			rec.Violation("envelope", msg, c)
			rt.Fatalf("property violated (details in the replay file)")
		}
	})
}
