//verif:v2only exported MarshalFields / UnmarshalField / RequiredFields exist only in v2 bindings

package codecprops

import (
	"reflect"

	"github.com/PapaCharlie/go-restli/v2/restlicodec"

	"verif/HARNESS/dyn"
	"verif/core/schema"
)

// decodeQueryFields reads a query string as the fields of a record, the way generated DecodeQueryParams does.
func decodeQueryFields(t schema.Type, doc string) (reflect.Value, error) {
	q, err := restlicodec.ParseQueryParams(doc)
	if err != nil {
		return reflect.Value{}, err
	}
	p := reflect.New(dyn.GoType(S, t))
	uf := p.MethodByName("UnmarshalField")
	err = q.ReadRecord(dyn.RequiredOf(t.Ref.Full()), func(reader restlicodec.Reader, field string) error {
		res := uf.Call([]reflect.Value{reflect.ValueOf(reader), reflect.ValueOf(field)})
		if e := res[1].Interface(); e != nil {
			return e.(error)
		}
		if !res[0].Bool() {
			return reader.Skip()
		}
		return nil
	})
	return p.Elem(), err
}

func buildQuery(f restlicodec.MapWriter) (string, error) { return restlicodec.BuildQueryParams(f) }

// requiredFieldsOf builds the required-field set a hand-written ReadRecord call passes.
func requiredFieldsOf(names ...string) *restlicodec.RequiredFields {
	return restlicodec.NewRequiredFields().Add(names...)
}
