package codecprops

// C09 - deterministic, canonical serialization (v2): the same abstract value always serialises to
// the same bytes, object keys and query parameters ascend in byte order, batch ids ascend in encoded
// order, and Equal values (not differing in the sign of a zero) have identical encodings.

import (
	"crypto/sha256"
	"encoding/hex"
	"fmt"
	"os"
	"os/exec"
	"sort"
	"strings"
	"testing"

	"github.com/PapaCharlie/go-restli/v2/restli/batchkeyset"
	"github.com/PapaCharlie/go-restli/v2/restlicodec"
	"github.com/PapaCharlie/go-restli/v2/restlidata"
	"pgregory.net/rapid"

	"verif/HARNESS/dyn"
	"verif/core/aval"
	"verif/core/hx"
	"verif/core/kf"
	"verif/core/refcodec"
	"verif/core/schema"
	"verif/core/stats"
)

var mapRecords []schema.Type

func typeHasMap(t schema.Type, seen map[string]bool) bool {
	switch {
	case t.Prim != "":
		return false
	case t.Map != nil:
		return true
	case t.Array != nil:
		return typeHasMap(*t.Array, seen)
	}
	if seen[t.Ref.Full()] {
		return false
	}
	seen[t.Ref.Full()] = true
	n := S.Lookup(*t.Ref)
	switch n.Kind {
	case "record", "complexkey":
		for _, f := range S.AllFields(n) {
			if typeHasMap(f.Type, seen) {
				return true
			}
		}
	case "union":
		for _, m := range n.Members {
			if typeHasMap(m.Type, seen) {
				return true
			}
		}
	}
	return false
}

// getMapRecords: records whose type tree holds a map (computed lazily: file init order is alphabetical).
func getMapRecords() []schema.Type {
	if mapRecords == nil {
		for _, r := range records {
			if typeHasMap(r, map[string]bool{}) {
				mapRecords = append(mapRecords, r)
			}
		}
	}
	return mapRecords
}

func maxMapSize(v *aval.V) int {
	m := 0
	v.Walk(func(x *aval.V) {
		if x.Kind == "map" && len(x.Ent) > m {
			m = len(x.Ent)
		}
	})
	return m
}

// keysAscending checks that at every object of a parsed document the keys are in ascending byte order.
func keysAscending(tr *refcodec.Tree, path string) string {
	for i := 1; i < len(tr.Obj); i++ {
		if !(tr.Obj[i-1].K < tr.Obj[i].K) {
			return fmt.Sprintf("keys %q and %q at %s are not in ascending byte order", tr.Obj[i-1].K, tr.Obj[i].K, path)
		}
	}
	for _, kv := range tr.Obj {
		if m := keysAscending(kv.V, path+"/"+kv.K); m != "" {
			return m
		}
	}
	for i, x := range tr.Arr {
		if m := keysAscending(x, fmt.Sprintf("%s[%d]", path, i)); m != "" {
			return m
		}
	}
	return ""
}

func checkDeterminism(rec *stats.Recorder, c valCase) (msg string, known string) {
	t := typeByName(c.Type)
	v := c.Value
	labels := []string{"format=" + c.Format, fmt.Sprintf("max_map_size=%d", min3(maxMapSize(v)))}
	if c.AfterFailure > 0 {
		labels = append(labels, "after_failed_marshal")
	}
	rec.Case(labels...)
	if maxMapSize(v) >= 2 || (c.Format == "query-fields" && len(v.Flds) >= 2) {
		rec.NonTrivial(c.Format, c.Type+"|"+c.Format+"|"+v.Canon(), func() any { return c })
	}
	variants := []dyn.BuildOpts{{}, {ReverseMaps: true}, {EmptyAsNil: true}, {ReverseMaps: true, EmptyAsNil: true}}
	var first string
	for i, o := range variants {
		for rep := 0; rep < 3; rep++ {
			rv := dyn.Build(S, t, v, o)
			if rep == 2 {
				// "earlier use of the library": the third repetition follows marshals that failed midway
				failedMarshal(c.AfterFailure)
			}
			doc, err := encode(t, rv, c.Format, nil)
			if err != nil {
				return fmt.Sprintf("encoding a valid value failed: %v", err), ""
			}
			if i == 0 && rep == 0 {
				first = doc
				continue
			}
			if doc != first {
				return fmt.Sprintf("the same abstract value serialised to different bytes (build variant %+v, repetition %d)\n type=%s format=%s\n first =%s\n second=%s\n value=%s",
					o, rep, c.Type, c.Format, hx.Q(first), hx.Q(doc), v.Canon()), ""
			}
		}
	}
	// a decoded copy is Equal to the original (C01) and must therefore serialise identically
	if !hasInvalidUTF8(v) {
		if dv, err := decode(t, first, c.Format); err == nil && c.Format != "query-fields" {
			again, err := encode(t, dv, c.Format, nil)
			if err == nil && again != first && aval.Equal(fillDefaults(t, v), dyn.Extract(S, t, dv)) {
				// the decoded copy has defaults filled: compare against the encoding of the filled original instead
				filled := dyn.Build(S, t, fillDefaults(t, v), dyn.BuildOpts{})
				ref, _ := encode(t, filled, c.Format, nil)
				if again != ref {
					return fmt.Sprintf("a decoded copy (Equal to the original) serialises differently\n type=%s format=%s\n original=%s\n copy    =%s", c.Type, c.Format, hx.Q(ref), hx.Q(again)), ""
				}
			}
		}
	}
	// canonical order
	tr, err := refParse(first, c.Format)
	if err != nil {
		if hasInvalidUTF8(v) || hasHighBytes(v) {
			return "", "" // judged by C03
		}
		return fmt.Sprintf("output is not well-formed: %v\n document=%s", err, hx.Q(first)), ""
	}
	if m := keysAscending(tr, ""); m != "" {
		return fmt.Sprintf("%s\n type=%s format=%s\n document=%s", m, c.Type, c.Format, hx.Q(first)), ""
	}
	return "", ""
}

func TestC09Determinism(t *testing.T) {
	// (extra keys: code points beyond the BMP next to U+E000..U+FFFF sort differently by bytes and by UTF-16 code units)
	g := &aval.Gen{S: S, MaxDepth: 4, ExtraKeys: []string{"\U00010000", "\U0001F600", "\ue000", "\uffff", "\uff5ea", "\U00010000z"}}
	runValueProperty(t, "C09", "determinism", func(rt *rapid.T) valCase {
		format := formats[pick(rt, len(formats), "format")]
		ty := drawType(rt, getMapRecords())
		if format != "query-fields" && rapid.IntRange(0, 4).Draw(rt, "anyroot") == 0 {
			ty = drawType(rt, roots)
		}
		return valCase{CorpusSeed: corpusSeed, Type: ty.String(), Format: format, Value: g.Value(rt, ty, 0), AfterFailure: rapid.IntRange(0, 3).Draw(rt, "failed_entries")}
	}, checkDeterminism)
}

// ---------------------------------------------------------------------------------------------
// batch key sets

type keysCase struct {
	Kind string   `json:"kind"` // string int64 bytes
	Keys []string `json:"keys"` // hex for bytes, decimal for int64
	Perm []int    `json:"perm"`
	// EncodeAt: numbers of keys already added at which the set is encoded before going on
	EncodeAt []int `json:"encode_at,omitempty"`
}

// addAndEncode adds the keys one by one; before adding key i an intermediate EncodeQueryParams call is made when
// encodeAt[i] (earlier use of the set must not influence what it encodes to later).
func addAndEncode[K any](s batchkeyset.BatchKeySet[K], keys []K, encodeAt map[int]bool) (string, error) {
	for i, k := range keys {
		if encodeAt[i] {
			if _, err := s.EncodeQueryParams(); err != nil {
				return "", err
			}
		}
		if err := s.AddKey(k); err != nil {
			return "", err
		}
	}
	if encodeAt[len(keys)] {
		if _, err := s.EncodeQueryParams(); err != nil {
			return "", err
		}
	}
	return s.EncodeQueryParams()
}

func encodeKeySet(kind string, keys []string, encodeAt map[int]bool) (string, error) {
	switch kind {
	case "string":
		return addAndEncode(batchkeyset.NewBatchKeySet[string](), keys, encodeAt)
	case "int64":
		var ks []int64
		for _, k := range keys {
			var i int64
			fmt.Sscan(k, &i)
			ks = append(ks, i)
		}
		return addAndEncode(batchkeyset.NewBatchKeySet[int64](), ks, encodeAt)
	case "bytes":
		var ks [][]byte
		for _, k := range keys {
			b, _ := hex.DecodeString(k)
			ks = append(ks, b)
		}
		return addAndEncode(batchkeyset.NewBatchKeySet[[]byte](), ks, encodeAt)
	}
	panic("kind " + kind)
}

func checkKeySet(rec *stats.Recorder, c keysCase) string {
	rec.Case("keyset="+c.Kind, fmt.Sprintf("keys=%d", min3(len(c.Keys))))
	if len(c.Keys) >= 2 {
		rec.NonTrivial("keyset", c.Kind+"|"+strings.Join(c.Keys, ","), func() any { return c })
	}
	first, err := encodeKeySet(c.Kind, c.Keys, nil)
	if err != nil {
		return fmt.Sprintf("distinct keys rejected: %v (keys %q)", err, c.Keys)
	}
	perm := append([]string(nil), c.Keys...)
	for i := len(perm) - 1; i > 0; i-- {
		j := c.Perm[i%len(c.Perm)] % (i + 1)
		perm[i], perm[j] = perm[j], perm[i]
	}
	for rep := 0; rep < 3; rep++ {
		second, err := encodeKeySet(c.Kind, perm, nil)
		if err != nil {
			return fmt.Sprintf("distinct keys rejected: %v", err)
		}
		if second != first {
			return fmt.Sprintf("batch ids depend on the order keys were supplied in: %s vs %s (keys %q)", hx.Q(first), hx.Q(second), c.Keys)
		}
	}
	if len(c.EncodeAt) > 0 {
		at := map[int]bool{}
		for _, i := range c.EncodeAt {
			at[i] = true
		}
		rec.Case("keyset_encoded_while_filling")
		for _, ks := range [][]string{c.Keys, perm} {
			third, err := encodeKeySet(c.Kind, ks, at)
			if err != nil {
				return fmt.Sprintf("distinct keys rejected (with intermediate encodes at %v): %v", c.EncodeAt, err)
			}
			if third != first {
				return fmt.Sprintf("batch ids depend on earlier use of the key set (encoded after %v keys while filling): %s vs %s (keys %q)", c.EncodeAt, hx.Q(first), hx.Q(third), ks)
			}
		}
	}
	if !strings.HasPrefix(first, "ids=") {
		return "ids parameter missing: " + hx.Q(first)
	}
	tr, err := refcodec.ParseROR2(first[4:])
	if err != nil || tr.Kind != "arr" {
		return fmt.Sprintf("ids is not a well-formed ROR2 list: %v in %s", err, hx.Q(first))
	}
	if len(tr.Arr) != len(c.Keys) {
		return fmt.Sprintf("ids holds %d entries for %d keys: %s", len(tr.Arr), len(c.Keys), hx.Q(first))
	}
	// ascending encoded order: compare the raw encoded items
	inner := strings.TrimSuffix(strings.TrimPrefix(first[4:], "List("), ")")
	if inner != "" {
		items := strings.Split(inner, ",")
		if !sort.StringsAreSorted(items) {
			return fmt.Sprintf("batch ids are not in ascending encoded order: %s", hx.Q(first))
		}
	}
	return ""
}

func TestC09KeySets(t *testing.T) {
	rec := stats.For("C09")
	g := &aval.Gen{}
	if c, ok := hx.Replay[keysCase]("C09", "keyset"); ok {
		if msg := checkKeySet(rec, c); msg != "" {
			rec.Violation("keyset", msg, c)
			t.Fatal(msg)
		}
		return
	} else if hx.Replaying() {
		t.Skip()
	}
	rapid.Check(t, func(rt *rapid.T) {
		var c keysCase
		c.Kind = rapid.SampledFrom([]string{"string", "int64", "bytes"}).Draw(rt, "kind")
		n := rapid.IntRange(0, 6).Draw(rt, "n")
		seen := map[string]bool{}
		for i := 0; i < n; i++ {
			var k string
			switch c.Kind {
			case "string":
				k = g.String(rt, "k")
			case "int64":
				k = fmt.Sprint(g.Prim(rt, "int64", "k").I)
			default:
				k = hex.EncodeToString(g.RawBytes(rt, "k", -1))
			}
			if !seen[k] {
				seen[k] = true
				c.Keys = append(c.Keys, k)
			}
		}
		c.Perm = rapid.SliceOfN(rapid.IntRange(0, 1000), 1, 8).Draw(rt, "perm")
		if rapid.Bool().Draw(rt, "intermediate") {
			c.EncodeAt = rapid.SliceOfNDistinct(rapid.IntRange(0, len(c.Keys)), 1, 3, rapid.ID[int]).Draw(rt, "encode_at")
		}
		if msg := checkKeySet(rec, c); msg != "" {
			if c.Kind == "string" && kf.Open("KF-none") {
				return
			}
			rec.Violation("keyset", msg, c)
			rt.Fatalf("property violated (details in the replay file)")
		}
	})
}

// ---------------------------------------------------------------------------------------------
// fresh processes: every process has its own map hash seed

func digestOfFixedCases() string {
	// (extra keys: code points beyond the BMP next to U+E000..U+FFFF sort differently by bytes and by UTF-16 code units)
	g := &aval.Gen{S: S, MaxDepth: 4, ExtraKeys: []string{"\U00010000", "\U0001F600", "\ue000", "\uffff", "\uff5ea", "\U00010000z"}}
	h := sha256.New()
	n := 0
	for i := 0; i < 400; i++ {
		ty := getMapRecords()[i%len(getMapRecords())]
		// rapid's Example(seed) is a pure function of the seed
		v := rapid.Custom(func(t *rapid.T) *aval.V { return g.Value(t, ty, 0) }).Example(i + 1)
		for _, f := range formats {
			rv := dyn.Build(S, ty, v, dyn.BuildOpts{})
			doc, err := encode(ty, rv, f, nil)
			if err != nil {
				doc = "ERR:" + err.Error()
			}
			fmt.Fprintf(h, "%d|%s|%s\n", i, f, doc)
			n++
		}
	}
	return fmt.Sprintf("%d:%s", n, hex.EncodeToString(h.Sum(nil)))
}

func TestC09ProcessChild(t *testing.T) {
	if os.Getenv("VERIF_C09_CHILD") == "" {
		t.Skip()
	}
	fmt.Printf("C09DIGEST=%s\n", digestOfFixedCases())
}

func TestC09Processes(t *testing.T) {
	rec := stats.For("C09")
	if hx.Replaying() {
		t.Skip()
	}
	if _, n := hx.ShardIndex(); n > 1 {
		if i, _ := hx.ShardIndex(); i != 0 {
			t.Skip()
		}
	}
	mine := digestOfFixedCases()
	digests := map[string]int{mine: 1}
	for i := 0; i < 3; i++ {
		cmd := exec.Command(os.Args[0], "-test.run", "^TestC09ProcessChild$", "-test.count", "1")
		cmd.Env = append(os.Environ(), "VERIF_C09_CHILD=1", "VERIF_STATS_DIR=")
		out, err := cmd.CombinedOutput()
		if err != nil {
			panic(fmt.Sprintf("child process failed: %v\n%s", err, out))
		}
		d := ""
		for _, line := range strings.Split(string(out), "\n") {
			if strings.HasPrefix(line, "C09DIGEST=") {
				d = strings.TrimPrefix(line, "C09DIGEST=")
			}
		}
		if d == "" {
			panic("child printed no digest:\n" + string(out))
		}
		digests[d]++
	}
	rec.Case("fresh_processes")
	rec.Label("process_encodings", int64(2400*4))
	if len(digests) != 1 {
		msg := fmt.Sprintf("the same 2400 (value, format) cases serialise differently in different processes: digests %v", digests)
		rec.Violation("processes", msg, map[string]any{"digests": digests})
		t.Fatal(msg)
	}
}

// ---------------------------------------------------------------------------------------------
// RawRecord: hand-built untyped records (incl. statically typed maps at any depth) serialise canonically

type rawCase struct {
	Keys   []string `json:"keys"`   // keys of the typed maps (insertion order A)
	Perm   []int    `json:"perm"`   // drives insertion order B
	Shape  string   `json:"shape"`  // where the typed maps sit
	Format string   `json:"format"` // json header
}

func buildRaw(keys []string, shape string) restlidata.RawRecord {
	ms := map[string]string{}
	mi := map[string]int64{}
	ma := map[string]any{}
	for _, k := range keys {
		ms[k], mi[k], ma[k] = k+"v", int64(len(k)*7), []any{k}
	}
	switch shape {
	case "top":
		return restlidata.RawRecord{"strings": ms, "ints": mi, "anys": ma}
	case "nested":
		return restlidata.RawRecord{"a": map[string]any{"strings": ms, "z": restlidata.RawRecord{"ints": mi}}, "list": []any{ma, ms}}
	default: // pointer
		return restlidata.RawRecord{"p": &ms, "q": []any{&mi}}
	}
}

func checkRaw(rec *stats.Recorder, c rawCase) string {
	rec.Case("rawrecord", "shape="+c.Shape, "format="+c.Format)
	if len(c.Keys) >= 2 {
		rec.NonTrivial("rawrecord", hx.J(c), func() any { return c })
	}
	enc := func(r restlidata.RawRecord) (string, error) {
		if c.Format == "json" {
			w := restlicodec.NewCompactJsonWriter()
			err := r.MarshalRestLi(w)
			return w.Finalize(), err
		}
		w := restlicodec.NewRor2HeaderWriter()
		err := r.MarshalRestLi(w)
		return w.Finalize(), err
	}
	perm := append([]string(nil), c.Keys...)
	for i := len(perm) - 1; i > 0; i-- {
		j := c.Perm[i%len(c.Perm)] % (i + 1)
		perm[i], perm[j] = perm[j], perm[i]
	}
	var first string
	for rep := 0; rep < 6; rep++ {
		ks := c.Keys
		if rep%2 == 1 {
			ks = perm
		}
		doc, err := enc(buildRaw(ks, c.Shape))
		if err != nil {
			return fmt.Sprintf("marshaling a hand-built RawRecord failed: %v", err)
		}
		if rep == 0 {
			first = doc
		} else if doc != first {
			return fmt.Sprintf("the same RawRecord serialised to different bytes (repetition %d)\n first =%s\n second=%s", rep, hx.Q(first), hx.Q(doc))
		}
	}
	tr, err := refParse(first, c.Format)
	if err != nil {
		return fmt.Sprintf("RawRecord output is not well-formed: %v\n document=%s", err, hx.Q(first))
	}
	if m := keysAscending(tr, ""); m != "" {
		return fmt.Sprintf("%s\n document=%s", m, hx.Q(first))
	}
	return ""
}

func TestC09RawRecord(t *testing.T) {
	rec := stats.For("C09")
	if c, ok := hx.Replay[rawCase]("C09", "rawrecord"); ok {
		if msg := checkRaw(rec, c); msg != "" {
			rec.Violation("rawrecord", msg, c)
			t.Fatal(msg)
		}
		return
	} else if hx.Replaying() {
		t.Skip()
	}
	rapid.Check(t, func(rt *rapid.T) {
		var c rawCase
		c.Keys = rapid.SliceOfNDistinct(rapid.SampledFrom([]string{"a", "b", "c", "k1", "k10", "k2", "Z", "é", "", "a b", "x.y", "$set"}), 0, 8, rapid.ID[string]).Draw(rt, "keys")
		c.Perm = rapid.SliceOfN(rapid.IntRange(0, 1000), 1, 8).Draw(rt, "perm")
		c.Shape = rapid.SampledFrom([]string{"top", "nested", "pointer"}).Draw(rt, "shape")
		c.Format = rapid.SampledFrom([]string{"json", "header"}).Draw(rt, "format")
		if msg := checkRaw(rec, c); msg != "" {
			rec.Violation("rawrecord", msg, c)
			rt.Fatalf("property violated (details in the replay file)")
		}
	})
}
