package codecprops

// C10 - Equals / hash contract of generated types.

import (
	"fmt"
	"reflect"
	"strings"
	"testing"

	"pgregory.net/rapid"

	"verif/HARNESS/dyn"
	"verif/core/aval"
	"verif/core/hx"
	"verif/core/kf"
	"verif/core/schema"
	"verif/core/stats"
)

type eqCase struct {
	valCase
	Mutants []*aval.V `json:"mutants"`
	Kinds   []string  `json:"mutation_kinds"`
}

var eqRoots []schema.Type

func getEqRoots() []schema.Type {
	if eqRoots == nil {
		for _, n := range S.Types {
			eqRoots = append(eqRoots, schema.RI(n.Ident))
		}
	}
	return eqRoots
}

// mutate returns a copy of v (type t) changed at exactly one position, and the kind of change.
func mutate(rt *rapid.T, g *aval.Gen, t schema.Type, v *aval.V, depth int) (*aval.V, string) {
	out := v.Clone()
	kind := mutateIn(rt, g, t, out, depth)
	return out, kind
}

func differentPrim(rt *rapid.T, g *aval.Gen, p string, v *aval.V) (*aval.V, string) {
	if (p == "float32" || p == "float64") && (v.F == "0" || v.F == "" || v.F == "-0") && rapid.Bool().Draw(rt, "zerosign") {
		n := v.Clone()
		if v.F == "-0" {
			n.F = "0"
		} else {
			n.F = "-0"
		}
		return n, "zero_sign"
	}
	for i := 0; i < 20; i++ {
		n := g.Prim(rt, p, "mp")
		if n.Canon() != v.Canon() {
			if (p == "float32" || p == "float64") && n.Float() == v.Float() {
				continue // +0 / -0 pair, handled above
			}
			return n, "leaf_" + p
		}
	}
	// fall back to a deterministic change
	n := v.Clone()
	switch p {
	case "int32", "int64":
		n.I ^= 1
	case "bool":
		n.B = !n.B
	case "string":
		*n = *aval.Str(v.Str() + "x")
	case "bytes":
		*n = *aval.Bytes(append(v.Bytes(), 1))
	default:
		*n = *g.Prim(rt, p, "mp2")
		n.F = "12345.5"
	}
	return n, "leaf_" + p
}

func mutateIn(rt *rapid.T, g *aval.Gen, t schema.Type, v *aval.V, depth int) string {
	switch {
	case t.Prim != "":
		n, k := differentPrim(rt, g, t.Prim, v)
		*v = *n
		return k
	case t.Array != nil:
		switch op := rapid.IntRange(0, 3).Draw(rt, "aop"); {
		case op == 0 && len(v.Arr) > 0:
			i := rapid.IntRange(0, len(v.Arr)-1).Draw(rt, "ai")
			return "array_item/" + mutateIn(rt, g, *t.Array, v.Arr[i], depth+1)
		case op == 1 && len(v.Arr) > 0:
			i := rapid.IntRange(0, len(v.Arr)-1).Draw(rt, "ai")
			v.Arr = append(v.Arr[:i:i], v.Arr[i+1:]...)
			return "array_remove"
		case op == 2 && len(v.Arr) >= 2 && v.Arr[0].Canon() != v.Arr[len(v.Arr)-1].Canon():
			v.Arr[0], v.Arr[len(v.Arr)-1] = v.Arr[len(v.Arr)-1], v.Arr[0]
			return "array_swap"
		default:
			v.Arr = append(v.Arr, g.Value(rt, *t.Array, depth+2))
			return "array_append"
		}
	case t.Map != nil:
		keys := v.Keys()
		switch op := rapid.IntRange(0, 3).Draw(rt, "mop"); {
		case op == 0 && len(keys) > 0:
			k := keys[rapid.IntRange(0, len(keys)-1).Draw(rt, "mi")]
			return "map_value/" + mutateIn(rt, g, *t.Map, v.Get(k), depth+1)
		case op == 1 && len(keys) > 0:
			k := keys[rapid.IntRange(0, len(keys)-1).Draw(rt, "mi")]
			delete(v.Ent, hexKey(k))
			return "map_remove"
		case op == 2 && len(keys) > 0:
			k := keys[rapid.IntRange(0, len(keys)-1).Draw(rt, "mi")]
			nk := k + "'"
			if v.Get(nk) == nil {
				x := v.Get(k)
				delete(v.Ent, hexKey(k))
				v.Put(nk, x)
				return "map_rename_key"
			}
			fallthrough
		default:
			for i := 0; i < 10; i++ {
				k := g.Key(rt, "mk")
				if v.Get(k) == nil {
					v.Put(k, g.Value(rt, *t.Map, depth+2))
					return "map_add"
				}
			}
			v.Put(fmt.Sprintf("k%d", len(keys)), g.Value(rt, *t.Map, depth+2))
			return "map_add"
		}
	}
	n := S.Lookup(*t.Ref)
	switch n.Kind {
	case "record", "complexkey":
		fs := S.AllFields(n)
		if len(fs) == 0 {
			return ""
		}
		f := fs[rapid.IntRange(0, len(fs)-1).Draw(rt, "fi")]
		x, present := v.Flds[f.Name]
		switch {
		case !present:
			if zeroIsValid(f.Type) && rapid.Bool().Draw(rt, "setzero") {
				v.Flds[f.Name] = aval.Zero(S, f.Type)
				return "optional_set_to_zero_value"
			}
			v.Flds[f.Name] = g.Value(rt, f.Type, depth+2)
			return "optional_set"
		case !f.Required() && rapid.IntRange(0, 2).Draw(rt, "unset") == 0:
			delete(v.Flds, f.Name)
			return "optional_unset"
		default:
			return "field/" + mutateIn(rt, g, f.Type, x, depth+1)
		}
	case "enum":
		for _, s := range n.Symbols {
			if s != v.S {
				v.S = s
				return "enum_symbol"
			}
		}
		return ""
	case "fixed":
		b := v.Bytes()
		if len(b) == 0 {
			return ""
		}
		b[rapid.IntRange(0, len(b)-1).Draw(rt, "bi")] ^= byte(rapid.IntRange(1, 255).Draw(rt, "bx"))
		*v = *aval.Fixed(b)
		return "fixed_byte"
	case "typeref":
		nv, k := differentPrim(rt, g, n.Prim, v)
		*v = *nv
		return k
	case "union":
		switch {
		case v.Mem == "":
			m := n.Members[rapid.IntRange(0, len(n.Members)-1).Draw(rt, "um")]
			*v = *aval.Union(m.Alias, g.Value(rt, m.Type, depth+2))
			return "union_set"
		case n.HasNull && rapid.IntRange(0, 3).Draw(rt, "unull") == 0:
			*v = *aval.Union("", nil)
			return "union_unset"
		case len(n.Members) > 1 && rapid.Bool().Draw(rt, "uswitch"):
			for i := 0; i < 10; i++ {
				m := n.Members[rapid.IntRange(0, len(n.Members)-1).Draw(rt, "um")]
				if m.Alias != v.Mem {
					*v = *aval.Union(m.Alias, g.Value(rt, m.Type, depth+2))
					return "union_member_switch"
				}
			}
			fallthrough
		default:
			for _, m := range n.Members {
				if m.Alias == v.Mem {
					return "union_value/" + mutateIn(rt, g, m.Type, v.Val, depth+1)
				}
			}
		}
	}
	return ""
}

// zeroIsValid: the Go zero value of the type is a valid value (no unknown enum constant, no unset non-nullable union).
func zeroIsValid(t schema.Type) bool {
	if t.Ref == nil {
		return true
	}
	n := S.Lookup(*t.Ref)
	switch n.Kind {
	case "enum":
		return false
	case "union":
		return n.HasNull
	case "record", "complexkey":
		for _, f := range S.AllFields(n) {
			if f.Required() && !zeroIsValid(f.Type) {
				return false
			}
		}
	}
	return true
}

func hexKey(k string) string { return fmt.Sprintf("%x", k) }

// onlyZeroSigns reports whether a and b differ at most in the sign of floating-point zeros.
func onlyZeroSigns(a, b *aval.V) bool {
	na, nb := a.Clone(), b.Clone()
	norm := func(x *aval.V) {
		if (x.Kind == "float32" || x.Kind == "float64") && x.F == "-0" {
			x.F = "0"
		}
	}
	na.Walk(norm)
	nb.Walk(norm)
	return aval.Equal(na, nb)
}

// aliasPrefix returns a shallow copy of the record rv (a struct or a pointer to one) in which the first non-empty slice
// found (depth first through record-typed fields) is replaced by a one-shorter prefix over the same backing array; the
// records on the way are copied, everything else is shared with rv.
func aliasPrefix(rv reflect.Value, depth int) (reflect.Value, bool) {
	if rv.Kind() == reflect.Ptr {
		if rv.IsNil() || rv.Elem().Kind() != reflect.Struct {
			return rv, false
		}
		cp, ok := aliasPrefix(rv.Elem(), depth)
		if !ok {
			return rv, false
		}
		return cp.Addr(), true
	}
	if depth > 3 || rv.Kind() != reflect.Struct {
		return rv, false
	}
	st := reflect.New(rv.Type()).Elem()
	st.Set(rv)
	for i := 0; i < st.NumField(); i++ {
		f := st.Field(i)
		if !f.CanSet() {
			continue
		}
		switch {
		case f.Kind() == reflect.Slice && f.Len() >= 1:
			f.Set(f.Slice(0, f.Len()-1))
			return st, true
		case f.Kind() == reflect.Ptr && !f.IsNil() && f.Elem().Kind() == reflect.Slice && f.Elem().Len() >= 1:
			np := reflect.New(f.Elem().Type())
			np.Elem().Set(f.Elem().Slice(0, f.Elem().Len()-1))
			f.Set(np)
			return st, true
		}
	}
	for i := 0; i < st.NumField(); i++ {
		f := st.Field(i)
		if !f.CanSet() || (f.Kind() != reflect.Ptr && f.Kind() != reflect.Struct) {
			continue
		}
		if sub, ok := aliasPrefix(f, depth+1); ok {
			f.Set(sub)
			return st, true
		}
	}
	return rv, false
}

func checkEquals(rec *stats.Recorder, c eqCase) (msg string, known string) {
	t := typeByName(c.Type)
	v := c.Value
	type member struct {
		abs  *aval.V
		rv   reflect.Value
		desc string
	}
	var pool []member
	add := func(a *aval.V, o dyn.BuildOpts, desc string) {
		pool = append(pool, member{a, dyn.Build(S, t, a, o), desc})
	}
	add(v, dyn.BuildOpts{}, "original")
	add(v, dyn.BuildOpts{}, "copy")
	add(v, dyn.BuildOpts{ReverseMaps: true}, "maps inserted in reverse order")
	add(v, dyn.BuildOpts{EmptyAsNil: true}, "empty collections as nil")
	nEquiv := len(pool)
	if !hasInvalidUTF8(v) {
		if doc, err := encode(t, pool[0].rv, "json", nil); err == nil {
			if dv, err := decode(t, doc, "json"); err == nil {
				abs := dyn.Extract(S, t, dv)
				pool = append(pool, member{abs, dv, "round-tripped through JSON (defaults filled)"})
			}
		}
	}
	for i, m := range c.Mutants {
		add(m, dyn.BuildOpts{}, "mutant:"+c.Kinds[i])
	}
	// a value that shares memory with the original: the first non-empty array reachable through records is re-sliced
	// to one element less over the same backing array (what `b.Items = a.Items[:n-1]` gives a caller)
	if al, ok := aliasPrefix(pool[0].rv, 0); ok {
		rec.Label("pool_with_aliased_array", 1)
		pool = append(pool, member{dyn.Extract(S, t, al), al, "original with one array re-sliced to a shorter prefix of the same backing array"})
	}
	isComplexKey := t.Ref != nil && S.Lookup(*t.Ref).Kind == "complexkey"
	if isComplexKey {
		// the same key part with the parameters removed / replaced: equal under key equality
		n := S.Lookup(*t.Ref)
		bare := v.Clone()
		delete(bare.Flds, "$params")
		add(bare, dyn.BuildOpts{}, "key part only (no $params)")
		other := v.Clone()
		other.Flds["$params"] = aval.Valid(S, schema.RI(*n.Params))
		add(other, dyn.BuildOpts{}, "key part with other $params")
	}
	labels := []string{}
	for _, k := range c.Kinds {
		labels = append(labels, "mutation="+k[strings.LastIndex(k, "/")+1:])
	}
	if t.Ref != nil {
		labels = append(labels, "root="+S.Lookup(*t.Ref).Kind)
	}
	rec.Case(labels...)
	rec.NonTrivial("pool", c.Type+"|"+v.Canon()+"|"+fmt.Sprint(c.Kinds), func() any { return c })
	nan := v.HasNaN()
	fail := func(format string, a ...any) (string, string) {
		return fmt.Sprintf(format, a...) + fmt.Sprintf("\n type=%s value=%s", c.Type, v.Canon()), ""
	}
	eq := make([][]bool, len(pool))
	hash := make([]uint32, len(pool))
	var perr string
	if p, pv, st := hx.Try(func() {
		for i := range pool {
			eq[i] = make([]bool, len(pool))
			for j := range pool {
				eq[i][j] = dyn.Equals(pool[i].rv, pool[j].rv)
			}
			hash[i] = dyn.Hash(pool[i].rv)
			if h2 := dyn.Hash(pool[i].rv); h2 != hash[i] {
				perr = fmt.Sprintf("hash of the same value changed between two computations (%08x vs %08x): %s", hash[i], h2, pool[i].desc)
			}
		}
	}); p {
		return fmt.Sprintf("Equals / ComputeHash panicked: %v\n%s", pv, st), ""
	}
	if perr != "" {
		return fail("%s", perr)
	}
	for i := range pool {
		if !pool[i].abs.HasNaN() && !eq[i][i] {
			return fail("Equals is not reflexive on %s (%s)", pool[i].desc, pool[i].abs.Canon())
		}
		for j := range pool {
			if eq[i][j] != eq[j][i] {
				return fail("Equals is not symmetric between %q and %q: %v vs %v", pool[i].desc, pool[j].desc, eq[i][j], eq[j][i])
			}
			if eq[i][j] && hash[i] != hash[j] {
				if onlyZeroSigns(pool[i].abs, pool[j].abs) && !aval.Equal(pool[i].abs, pool[j].abs) && kf.Open("KF-C10-zero-sign-hash") {
					return "", "KF-C10-zero-sign-hash"
				}
				return fail("two Equal values hash differently (%08x vs %08x): %q [%s] and %q [%s]", hash[i], hash[j], pool[i].desc, pool[i].abs.Canon(), pool[j].desc, pool[j].abs.Canon())
			}
			same := aval.Equal(pool[i].abs, pool[j].abs)
			switch {
			case same && !pool[i].abs.HasNaN() && !eq[i][j]:
				return fail("equal abstract values are not Equal: %q and %q (%s)", pool[i].desc, pool[j].desc, pool[i].abs.Canon())
			case !same && eq[i][j] && !onlyZeroSigns(pool[i].abs, pool[j].abs):
				return fail("Equals does not distinguish %q [%s] from %q [%s]", pool[i].desc, pool[i].abs.Canon(), pool[j].desc, pool[j].abs.Canon())
			case same && hash[i] != hash[j]:
				return fail("the hash is not a pure function of the value: %q hashes to %08x, %q to %08x (%s)", pool[i].desc, hash[i], pool[j].desc, hash[j], pool[i].abs.Canon())
			}
			for k := range pool {
				if eq[i][j] && eq[j][k] && !eq[i][k] {
					return fail("Equals is not transitive over %q, %q, %q", pool[i].desc, pool[j].desc, pool[k].desc)
				}
			}
		}
	}
	if isComplexKey && dyn.HasMethod(pool[0].rv, "ComplexKeyEquals") {
		// key equality (ComplexKeyEquals / ComputeComplexKeyHash): the key part decides, parameters are ignored
		keyPart := func(a *aval.V) *aval.V {
			c := a.Clone()
			delete(c.Flds, "$params")
			return c
		}
		keq := make([][]bool, len(pool))
		khash := make([]uint32, len(pool))
		if p, pv, st := hx.Try(func() {
			for i := range pool {
				keq[i] = make([]bool, len(pool))
				for j := range pool {
					keq[i][j] = dyn.CallBool(pool[i].rv, "ComplexKeyEquals", pool[j].rv)
				}
				khash[i] = dyn.CallHash(pool[i].rv, "ComputeComplexKeyHash")
			}
		}); p {
			return fmt.Sprintf("ComplexKeyEquals / ComputeComplexKeyHash panicked: %v\n%s", pv, st), ""
		}
		for i := range pool {
			for j := range pool {
				same := aval.Equal(keyPart(pool[i].abs), keyPart(pool[j].abs))
				if pool[i].abs.HasNaN() || pool[j].abs.HasNaN() {
					continue
				}
				if same != keq[i][j] && !(keq[i][j] && onlyZeroSigns(keyPart(pool[i].abs), keyPart(pool[j].abs))) {
					return fail("ComplexKeyEquals(%q, %q) = %v, but the key parts are equal = %v", pool[i].desc, pool[j].desc, keq[i][j], same)
				}
				if keq[i][j] && khash[i] != khash[j] && (same || !onlyZeroSigns(keyPart(pool[i].abs), keyPart(pool[j].abs))) {
					return fail("two keys equal under key equality have different key hashes (%08x vs %08x): %q [%s] and %q [%s]", khash[i], khash[j], pool[i].desc, pool[i].abs.Canon(), pool[j].desc, pool[j].abs.Canon())
				}
			}
		}
	}
	_ = nan
	_ = nEquiv
	return "", ""
}

func TestC10Equals(t *testing.T) {
	g := &aval.Gen{S: S, MaxDepth: 3}
	rec := stats.For("C10")
	if c, ok := hx.Replay[eqCase]("C10", "equals"); ok {
		if msg, _ := checkEquals(rec, c); msg != "" {
			rec.Violation("equals", msg, c)
			t.Fatal(msg)
		}
		return
	} else if hx.Replaying() {
		t.Skip()
	}
	rapid.Check(t, func(rt *rapid.T) {
		var c eqCase
		ty := drawType(rt, getEqRoots())
		v := g.Value(rt, ty, 0)
		c.valCase = valCase{CorpusSeed: corpusSeed, Type: ty.String(), Format: "-", Value: v}
		n := rapid.IntRange(1, 3).Draw(rt, "nmut")
		for i := 0; i < n; i++ {
			base := v
			if i > 0 && rapid.Bool().Draw(rt, "chain") {
				base = c.Mutants[i-1]
			}
			m, k := mutate(rt, g, ty, base, 0)
			if k == "" {
				continue
			}
			c.Mutants = append(c.Mutants, m)
			c.Kinds = append(c.Kinds, k)
		}
		msg, known := checkEquals(rec, c)
		if known != "" {
			rec.Known(known, kf.What(known), c)
			return
		}
		if msg != "" {
			rec.Violation("equals", msg, c)
			rt.Fatalf("property violated (details in the replay file)")
		}
	})
}
