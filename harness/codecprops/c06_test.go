package codecprops

// C06 - required-field accounting and unknown-field tolerance when decoding.
//
// A valid value is rendered to its wire tree by the reference encoder; an edit script deletes any
// subset of record fields (required or not, at any depth), nulls some (JSON), permutes keys and
// injects unknown fields; the edited tree is fed to the JSON, ROR2, query-parameter and untyped-value
// readers. Oracle: model of the missing-required-field set written from the property text.

import (
	"errors"
	"fmt"
	"reflect"
	"sort"
	"strings"
	"testing"

	"github.com/PapaCharlie/go-restli/v2/restlicodec"
	"pgregory.net/rapid"

	"verif/HARNESS/dyn"
	"verif/core/aval"
	"verif/core/hx"
	"verif/core/kf"
	"verif/core/refcodec"
	"verif/core/schema"
	"verif/core/stats"
)

type editCase struct {
	valCase
	Reader  string `json:"reader"` // json ror2 query-fields any any-strings
	Deletes []int  `json:"deletes"`
	Nulls   []int  `json:"nulls"`
	Perm    []int  `json:"perm"`
	Unknown int    `json:"unknown"`
	Doc     string `json:"doc,omitempty"`
}

type fieldSite struct {
	obj   *refcodec.Tree
	field schema.Field
	depth int
	inCol bool // below an array / map
}

func collectSites(t schema.Type, tr *refcodec.Tree, depth int, inCol bool, out *[]fieldSite) {
	switch {
	case t.Prim != "":
		return
	case t.Array != nil:
		for _, x := range tr.Arr {
			collectSites(*t.Array, x, depth+1, true, out)
		}
		return
	case t.Map != nil:
		for _, kv := range tr.Obj {
			collectSites(*t.Map, kv.V, depth+1, true, out)
		}
		return
	}
	n := S.Lookup(*t.Ref)
	switch n.Kind {
	case "record", "complexkey":
		for _, f := range S.AllFields(n) {
			if x := tr.Get(f.Name); x != nil {
				*out = append(*out, fieldSite{tr, f, depth, inCol})
				collectSites(f.Type, x, depth+1, inCol, out)
			}
		}
	case "union":
		if len(tr.Obj) == 1 {
			for _, m := range n.Members {
				if m.Alias == tr.Obj[0].K {
					collectSites(m.Type, tr.Obj[0].V, depth+1, inCol, out)
				}
			}
		}
	}
}

// missingModel computes the expected missing-required-field paths of an edited tree, in the path
// syntax of the library's error (a.b[0].c; map keys and union member aliases as segments).
func missingModel(t schema.Type, tr *refcodec.Tree, path string, out *[]string) {
	join := func(seg string) string {
		if path == "" {
			return seg
		}
		return path + "." + seg
	}
	switch {
	case t.Prim != "":
		return
	case t.Array != nil:
		for i, x := range tr.Arr {
			missingModel(*t.Array, x, fmt.Sprintf("%s[%d]", path, i), out)
		}
		return
	case t.Map != nil:
		for _, kv := range tr.Obj {
			if kv.V.Kind == "null" {
				continue
			}
			missingModel(*t.Map, kv.V, join(kv.K), out)
		}
		return
	}
	n := S.Lookup(*t.Ref)
	switch n.Kind {
	case "record", "complexkey":
		for _, f := range S.AllFields(n) {
			x := tr.Get(f.Name)
			if x == nil || x.Kind == "null" {
				if f.Required() {
					*out = append(*out, join(f.Name))
				}
				continue
			}
			missingModel(f.Type, x, join(f.Name), out)
		}
	case "union":
		if len(tr.Obj) == 1 {
			for _, m := range n.Members {
				if m.Alias == tr.Obj[0].K {
					missingModel(m.Type, tr.Obj[0].V, join(m.Alias), out)
				}
			}
		}
	}
}

// fillZeros puts the zero value into every required record field that is absent (what a Go struct holds).
func fillZeros(t schema.Type, v *aval.V) {
	switch {
	case t.Prim != "":
		return
	case t.Array != nil:
		for _, x := range v.Arr {
			fillZeros(*t.Array, x)
		}
		return
	case t.Map != nil:
		for _, x := range v.Ent {
			fillZeros(*t.Map, x)
		}
		return
	}
	n := S.Lookup(*t.Ref)
	switch n.Kind {
	case "record", "complexkey":
		for _, f := range S.AllFields(n) {
			if x, ok := v.Flds[f.Name]; ok {
				fillZeros(f.Type, x)
			} else if f.Required() {
				v.Flds[f.Name] = aval.Zero(S, f.Type)
			}
		}
	case "union":
		if v.Mem != "" {
			for _, m := range n.Members {
				if m.Alias == v.Mem {
					fillZeros(m.Type, v.Val)
				}
			}
		}
	}
}

func stripNulls(tr *refcodec.Tree) {
	kept := tr.Obj[:0]
	for _, kv := range tr.Obj {
		if kv.V.Kind != "null" {
			stripNulls(kv.V)
			kept = append(kept, kv)
		}
	}
	tr.Obj = kept
	for _, x := range tr.Arr {
		stripNulls(x)
	}
}

func applyEdits(c editCase, t schema.Type) (tr *refcodec.Tree, deletedDeep, deletedInCol bool) {
	ror2 := c.Reader == "ror2" || c.Reader == "query-fields"
	tr = refcodec.TreeOf(S, t, c.Value, refcodec.Opts{Bytes: refcodec.RawUTF8, ROR2: ror2})
	var sites []fieldSite
	collectSites(t, tr, 0, false, &sites)
	if len(sites) > 0 {
		// deepest first so that deleting a parent does not invalidate a child site
		chosen := map[int]bool{}
		for _, d := range c.Deletes {
			chosen[d%len(sites)] = true
		}
		nulls := map[int]bool{}
		if c.Reader == "json" {
			for _, d := range c.Nulls {
				nulls[d%len(sites)] = true
			}
		}
		idx := make([]int, 0, len(sites))
		for i := range sites {
			idx = append(idx, i)
		}
		sort.SliceStable(idx, func(a, b int) bool { return sites[idx[a]].depth > sites[idx[b]].depth })
		for _, i := range idx {
			s := sites[i]
			switch {
			case chosen[i]:
				if s.obj.Del(s.field.Name) {
					if s.depth >= 1 {
						deletedDeep = true
					}
					if s.inCol {
						deletedInCol = true
					}
				}
			case nulls[i]:
				if s.obj.Get(s.field.Name) != nil {
					s.obj.Set(s.field.Name, refcodec.Null())
				}
			}
		}
	}
	unknown := c.Unknown
	pi := 0
	mutateTree(t, tr, c.Perm, &unknown, false, ror2, &pi)
	return tr, deletedDeep, deletedInCol
}

func checkMissing(rec *stats.Recorder, c editCase) (msg string, known string) {
	t := typeByName(c.Type)
	failedDecode(c.AfterFailure) // (earlier aborted decodes must not influence this one)
	tr, deep, inCol := applyEdits(c, t)
	if c.Reader == "json" && !refcodec.ValidForJSON(tr) {
		return "", "" // bytes that are not valid UTF-8 cannot be written into a JSON document (see KF-C01-json-non-utf8)
	}
	var want []string
	missingModel(t, tr, "", &want)
	sort.Strings(want)

	var doc string
	var r restlicodec.Reader
	var err error
	var rv reflect.Value
	decodeIt := func() {
		switch c.Reader {
		case "json":
			doc = refcodec.RenderJSON(tr, refcodec.JSONOpts{})
			r, err = restlicodec.NewJsonReader([]byte(doc))
		case "ror2":
			stripNulls(tr)
			doc = refcodec.RenderROR2(tr, refcodec.ROR2Opts{Flavour: refcodec.Header})
			r, err = restlicodec.NewRor2Reader(doc)
		case "query-fields":
			stripNulls(tr)
			var parts []string
			for _, kv := range tr.Obj {
				parts = append(parts, kv.K+"="+refcodec.RenderROR2(kv.V, refcodec.ROR2Opts{Flavour: refcodec.Query}))
			}
			doc = strings.Join(parts, "&")
			rv, err = decode(t, doc, "query-fields")
			return
		case "any", "any-strings":
			stripNulls(tr)
			doc = refcodec.RenderJSON(tr, refcodec.JSONOpts{})
			r = restlicodec.NewInterfaceReader(refcodec.ToAny(tr, c.Reader == "any-strings"))
		default:
			panic("reader " + c.Reader)
		}
		if err == nil {
			rv, err = dyn.Unmarshal(S, t, r)
		}
	}
	labels := []string{"reader=" + c.Reader, fmt.Sprintf("missing=%d", min3(len(want)))}
	if c.Unknown > 0 {
		labels = append(labels, "unknown_fields")
	}
	if deep {
		labels = append(labels, "deleted_below_depth1")
	}
	if inCol {
		labels = append(labels, "deleted_inside_collection")
	}
	rec.Case(labels...)
	if deep || inCol || (c.Unknown > 0 && len(want) > 0) {
		rec.NonTrivial(c.Reader, c.Reader+"|"+c.Type+"|"+tr.String(), func() any { c.Doc = tr.String(); return c })
	}
	if p, pv, st := hx.Try(decodeIt); p {
		return fmt.Sprintf("decoder panicked: %v\n%s\n reader=%s document=%s", pv, st, c.Reader, hx.Q(doc)), ""
	}
	fail := func(what string) (string, string) {
		if (c.Reader == "any" || c.Reader == "any-strings") && kf.Open("KF-C06-any-reader-scope") {
			return "", "KF-C06-any-reader-scope"
		}
		return fmt.Sprintf("%s\n type=%s reader=%s\n document=%s\n expected missing=%v", what, c.Type, c.Reader, hx.Q(doc), want), ""
	}
	var mfe *restlicodec.MissingRequiredFieldsError
	switch {
	case err == nil:
		if len(want) != 0 {
			return fail("no error although required fields are missing")
		}
	case errors.As(err, &mfe):
		got := append([]string(nil), mfe.Fields...)
		sort.Strings(got)
		if !reflect.DeepEqual(got, want) {
			return fail(fmt.Sprintf("missing-required-fields error lists %v", got))
		}
		if len(want) == 0 {
			return fail("missing-required-fields error with an empty field list")
		}
	default:
		return fail(fmt.Sprintf("decoding failed with another error (%T): %v", err, err))
	}
	// every field that was present is still returned (plus defaults; absent required fields hold the zero value)
	parsed, perr := refcodec.FromTree(S, t, tr, refcodec.Opts{Bytes: refcodec.RawUTF8, ROR2: c.Reader == "ror2" || c.Reader == "query-fields"})
	if perr != nil {
		panic("harness: edited tree does not parse under the reference: " + perr.Error())
	}
	exp := fillDefaults(t, parsed)
	if c.Reader == "query-fields" {
		for _, f := range S.AllFields(S.Lookup(*t.Ref)) {
			if _, set := parsed.Flds[f.Name]; !set && f.Default != nil {
				delete(exp.Flds, f.Name)
			}
		}
	}
	fillZeros(t, exp)
	got := dyn.Extract(S, t, rv)
	if len(want) > 0 && aval.Diff(exp, got, "") != "" {
		// when the missing-fields error is raised the outermost record's own defaults need not have been populated
		// (the property only promises "every field that was present"); nested records are complete
		alt := exp.Clone()
		if n := S.Lookup(*t.Ref); true {
			for _, f := range S.AllFields(n) {
				if _, set := parsed.Flds[f.Name]; !set && f.Default != nil {
					delete(alt.Flds, f.Name)
				}
			}
		}
		if aval.Equal(alt, got) {
			return "", ""
		}
	}
	if d := aval.Diff(exp, got, ""); d != "" {
		return fail("the partially decoded value differs from the fields that were present: " + d + "\n got=" + got.Canon() + "\n exp=" + exp.Canon())
	}
	return "", ""
}


func TestC06Missing(t *testing.T) {
	g := &aval.Gen{S: S, MaxDepth: 4, PlainKeys: true}
	rec := stats.For("C06")
	if c, ok := hx.Replay[editCase]("C06", "missing"); ok {
		if msg, _ := checkMissing(rec, c); msg != "" {
			rec.Violation("missing", msg, c)
			t.Fatal(msg)
		}
		return
	} else if hx.Replaying() {
		t.Skip()
	}
	readers := []string{"json", "ror2", "query-fields", "any", "any-strings"}
	rapid.Check(t, func(rt *rapid.T) {
		var c editCase
		c.Reader = readers[pick(rt, len(readers), "reader")]
		ty := drawType(rt, records)
		c.valCase = valCase{CorpusSeed: corpusSeed, Type: ty.String(), Format: c.Reader, Value: g.Value(rt, ty, 0)}
		c.Deletes = rapid.SliceOfN(rapid.IntRange(0, 1000), 0, 4).Draw(rt, "deletes")
		c.Nulls = rapid.SliceOfN(rapid.IntRange(0, 1000), 0, 2).Draw(rt, "nulls")
		c.Perm = rapid.SliceOfN(rapid.IntRange(0, 1000), 1, 16).Draw(rt, "perm")
		c.Unknown = rapid.IntRange(0, 2).Draw(rt, "unknown")
		if rapid.IntRange(0, 3).Draw(rt, "after_failed_decode") == 0 {
			c.AfterFailure = 1
		}
		msg, known := checkMissing(rec, c)
		if known != "" {
			rec.Known(known, kf.What(known), c)
			return
		}
		if msg != "" {
			rec.Violation("missing", msg, c)
			rt.Fatalf("property violated (details in the replay file)")
		}
	})
}
