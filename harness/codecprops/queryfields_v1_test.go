//verif:v1only root-module bindings have no exported per-field (un)marshalers: the query-fields format is not generated

package codecprops

import (
	"reflect"

	"github.com/PapaCharlie/go-restli/v2/restlicodec"

	"verif/core/schema"
)

// buildQuery: the root module builds a query string with a params writer (no sorting of parameters there).
func buildQuery(f restlicodec.MapWriter) (string, error) {
	w := restlicodec.NewRestLiQueryParamsWriter()
	err := w.WriteParams(f)
	return w.Finalize(), err
}

func decodeQueryFields(t schema.Type, doc string) (reflect.Value, error) {
	panic("query-fields is a v2-only format")
}
