//verif:v1only root-module bindings have no exported per-field (un)marshalers: the query-fields format is not generated for encoding

package codecprops

import (
	"fmt"
	"reflect"

	"github.com/PapaCharlie/go-restli/v2/restlicodec"

	"verif/HARNESS/dyn"
	"verif/core/schema"
)

// buildQuery: the root module builds a query string with a params writer (no sorting of parameters there).
func buildQuery(f restlicodec.MapWriter) (string, error) {
	w := restlicodec.NewRestLiQueryParamsWriter()
	err := w.WriteParams(f)
	return w.Finalize(), err
}

// requiredFieldsOf builds the required-field set a hand-written ReadRecord call passes (root module: a plain slice).
func requiredFieldsOf(names ...string) restlicodec.RequiredFields {
	return restlicodec.RequiredFields(names)
}

// decodeQueryFields reads a query string as the fields of a record through the root module's
// QueryParamsReader.ReadRecord. Root-module records have no exported UnmarshalField / RequiredFields (the generator
// emits that dispatch inline, and only into the DecodeQueryParams of params structs), so the per-field dispatch is
// written here the way the root generator writes it: required = the record's required field names (includes
// flattened), named types through their UnmarshalRestLi, primitives through Read<Prim>, containers through the
// reader's ReadArray / ReadMap, optional fields allocated before they are read, unknown fields skipped. Everything
// the checks judge (parsing, scope tracking, the missing-field set, the error) is the library's.
func decodeQueryFields(t schema.Type, doc string) (reflect.Value, error) {
	q, err := restlicodec.ParseQueryParams(doc)
	if err != nil {
		return reflect.Value{}, err
	}
	n := S.Lookup(*t.Ref)
	var required restlicodec.RequiredFields
	fields := map[string]schema.Field{}
	for _, f := range S.AllFields(n) {
		fields[f.Name] = f
		if f.Required() {
			required = append(required, f.Name)
		}
	}
	p := reflect.New(dyn.GoType(S, t))
	err = q.ReadRecord(required, func(reader restlicodec.Reader, field string) error {
		f, ok := fields[field]
		if !ok {
			return reader.Skip()
		}
		dst := p.Elem().FieldByName(schema.Exported(f.Name))
		if !dst.IsValid() {
			panic(fmt.Sprintf("harness: %s has no Go field for schema field %q", p.Elem().Type(), f.Name))
		}
		return readFieldInto(dst, f.Type, reader)
	})
	return p.Elem(), err
}

// readFieldInto decodes one value of schema type t from r into dst (the Go field, array element or map value slot).
func readFieldInto(dst reflect.Value, t schema.Type, r restlicodec.Reader) error {
	if dst.Kind() == reflect.Ptr {
		// optional / defaulted fields and record-like elements are pointers: allocated, then filled
		dst.Set(reflect.New(dst.Type().Elem()))
		dst = dst.Elem()
	}
	switch {
	case t.Array != nil:
		sl := reflect.Zero(dst.Type())
		err := r.ReadArray(func(r restlicodec.Reader) error {
			e := reflect.New(dst.Type().Elem()).Elem()
			if err := readFieldInto(e, *t.Array, r); err != nil {
				return err
			}
			sl = reflect.Append(sl, e)
			return nil
		})
		if err != nil {
			return err
		}
		dst.Set(sl)
		return nil
	case t.Map != nil:
		m := reflect.MakeMap(dst.Type())
		err := r.ReadMap(func(r restlicodec.Reader, key string) error {
			e := reflect.New(dst.Type().Elem()).Elem()
			if err := readFieldInto(e, *t.Map, r); err != nil {
				return err
			}
			m.SetMapIndex(reflect.ValueOf(key), e)
			return nil
		})
		if err != nil {
			return err
		}
		dst.Set(m)
		return nil
	}
	rv, err := dyn.Unmarshal(S, t, r)
	dst.Set(rv)
	return err
}
