package codecprops

// C07 (codec level) - field exclusion is exact on both encode and decode.

import (
	"sort"
	"errors"
	"fmt"
	"reflect"
	"strings"
	"testing"

	"github.com/PapaCharlie/go-restli/v2/restlicodec"
	"pgregory.net/rapid"

	"verif/HARNESS/dyn"
	"verif/core/aval"
	"verif/core/hx"
	"verif/core/kf"
	"verif/core/model/pathmodel"
	"verif/core/refcodec"
	"verif/core/schema"
	"verif/core/stats"
)

type exclCase struct {
	valCase
	Spec []string `json:"spec"`
	Wrap string   `json:"wrap"` // none elements entities
	Mode string   `json:"mode"` // encode decode-offending decode-clean decode-missing
	Drop []int    `json:"drop,omitempty"` // decode-missing: picks of required fields removed from the clean document
}

// treePaths lists every path below a record value's wire tree (array items as "*"), with the kind of
// container the last segment lives in.
type sitePath struct {
	path []string
	last string // field mapkey item
}

func treePaths(t schema.Type, tr *refcodec.Tree, prefix []string, depth int, out *[]sitePath) {
	if depth > 4 {
		return
	}
	cp := func(seg string) []string { return append(append([]string(nil), prefix...), seg) }
	switch {
	case t.Prim != "":
		return
	case t.Array != nil:
		if len(tr.Arr) > 0 {
			p := cp("*")
			*out = append(*out, sitePath{p, "item"})
			for _, x := range tr.Arr {
				treePaths(*t.Array, x, p, depth+1, out)
			}
		}
		return
	case t.Map != nil:
		for _, kv := range tr.Obj {
			p := cp(kv.K)
			*out = append(*out, sitePath{p, "mapkey"})
			treePaths(*t.Map, kv.V, p, depth+1, out)
		}
		return
	}
	n := S.Lookup(*t.Ref)
	switch n.Kind {
	case "record", "complexkey":
		for _, f := range S.AllFields(n) {
			if x := tr.Get(f.Name); x != nil {
				p := cp(f.Name)
				*out = append(*out, sitePath{p, "field"})
				treePaths(f.Type, x, p, depth+1, out)
			}
		}
	case "union":
		if len(tr.Obj) == 1 {
			for _, m := range n.Members {
				if m.Alias == tr.Obj[0].K {
					p := cp(m.Alias)
					*out = append(*out, sitePath{p, "member"})
					treePaths(m.Type, tr.Obj[0].V, p, depth+1, out)
				}
			}
		}
	}
}

// prune removes excluded subtrees from a wire tree (record fields, map entries, union members).
// Returns how many subtrees were removed and how many keyed values were visited.
func prune(tr *refcodec.Tree, spec pathmodel.Spec, prefix []string, removed, visited *int) {
	switch tr.Kind {
	case "obj":
		kept := tr.Obj[:0]
		for _, kv := range tr.Obj {
			p := append(append([]string(nil), prefix...), kv.K)
			*visited++
			if spec.Excluded(p) {
				*removed++
				continue
			}
			prune(kv.V, spec, p, removed, visited)
			kept = append(kept, kv)
		}
		tr.Obj = kept
	case "arr":
		p := append(append([]string(nil), prefix...), "*")
		for _, x := range tr.Arr {
			prune(x, spec, p, removed, visited)
		}
	}
}

// missingNotExcluded lists (in the library's path syntax) the required fields absent from the tree whose path the spec does
// not exclude: exactly what a decoder configured with the spec must report.
func missingNotExcluded(t schema.Type, tr *refcodec.Tree, path string, segs []string, spec pathmodel.Spec, out *[]string) {
	join := func(seg string) string {
		if path == "" {
			return seg
		}
		return path + "." + seg
	}
	add := func(seg string) []string { return append(append([]string(nil), segs...), seg) }
	switch {
	case t.Prim != "":
		return
	case t.Array != nil:
		for i, x := range tr.Arr {
			missingNotExcluded(*t.Array, x, fmt.Sprintf("%s[%d]", path, i), add("*"), spec, out)
		}
		return
	case t.Map != nil:
		for _, kv := range tr.Obj {
			missingNotExcluded(*t.Map, kv.V, join(kv.K), add(kv.K), spec, out)
		}
		return
	}
	n := S.Lookup(*t.Ref)
	switch n.Kind {
	case "record", "complexkey":
		for _, f := range S.AllFields(n) {
			x := tr.Get(f.Name)
			if x == nil {
				if f.Required() && !spec.Excluded(add(f.Name)) {
					*out = append(*out, join(f.Name))
				}
				continue
			}
			missingNotExcluded(f.Type, x, join(f.Name), add(f.Name), spec, out)
		}
	case "union":
		if len(tr.Obj) == 1 {
			for _, m := range n.Members {
				if m.Alias == tr.Obj[0].K {
					missingNotExcluded(m.Type, tr.Obj[0].V, join(m.Alias), add(m.Alias), spec, out)
				}
			}
		}
	}
}

// dropRequired removes up to two required record fields (chosen by the picks) from the tree, at any depth.
func dropRequired(t schema.Type, tr *refcodec.Tree, picks []int) int {
	var sites []fieldSite
	collectSites(t, tr, 0, false, &sites)
	var req []fieldSite
	for _, s := range sites {
		if s.field.Required() {
			req = append(req, s)
		}
	}
	n := 0
	for _, p := range picks {
		if len(req) == 0 {
			break
		}
		s := req[p%len(req)]
		kept := s.obj.Obj[:0]
		for _, kv := range s.obj.Obj {
			if kv.K != s.field.Name {
				kept = append(kept, kv)
			} else {
				n++
			}
		}
		s.obj.Obj = kept
	}
	return n
}

func wrapTree(tr *refcodec.Tree, wrap string) (*refcodec.Tree, int) {
	switch wrap {
	case "elements":
		return refcodec.Obj(refcodec.KV{K: "elements", V: refcodec.Arr(tr)}), 2
	case "entities":
		return refcodec.Obj(refcodec.KV{K: "entities", V: refcodec.Obj(refcodec.KV{K: "k1", V: tr})}), 2
	}
	return tr, 0
}

// readWrapped decodes a record of type t from under the wrap with the library's reader.
func readWrapped(t schema.Type, r restlicodec.Reader, wrap string) (rv reflect.Value, err error) {
	switch wrap {
	case "elements":
		err = r.ReadMap(func(r restlicodec.Reader, field string) error {
			return r.ReadArray(func(r restlicodec.Reader) (e error) {
				rv, e = dyn.Unmarshal(S, t, r)
				return e
			})
		})
		return
	case "entities":
		err = r.ReadMap(func(r restlicodec.Reader, field string) error {
			return r.ReadMap(func(r restlicodec.Reader, key string) (e error) {
				rv, e = dyn.Unmarshal(S, t, r)
				return e
			})
		})
		return
	}
	return dyn.Unmarshal(S, t, r)
}

func checkExclusion(rec *stats.Recorder, c exclCase) (msg string, known string) {
	t := typeByName(c.Type)
	v := c.Value
	spec := pathmodel.Parse(c.Spec)
	ror2 := c.Format == "header"
	full := refcodec.TreeOf(S, t, v, refcodec.Opts{Bytes: refcodec.RawUTF8, ROR2: ror2})
	if !ror2 && !refcodec.ValidForJSON(full) {
		return "", ""
	}
	pruned := full.Clone()
	removed, visited := 0, 0
	prune(pruned, spec, nil, &removed, &visited)
	labels := []string{"mode=" + c.Mode, "format=" + c.Format, "wrap=" + c.Wrap, fmt.Sprintf("spec_paths=%d", len(c.Spec))}
	wild := false
	for _, d := range c.Spec {
		if strings.Contains(d, "*") {
			wild = true
		}
	}
	if wild {
		labels = append(labels, "wildcard")
	}
	if removed > 0 {
		labels = append(labels, "matches_some")
	}
	rec.Case(labels...)
	if (removed > 0 && removed < visited) || wild {
		rec.NonTrivial(c.Mode+"/"+c.Format, c.Mode+"|"+c.Format+"|"+c.Wrap+"|"+strings.Join(c.Spec, ",")+"|"+full.String(), func() any { return c })
	}
	ps := restlicodec.NewPathSpec(c.Spec...)
	fail := func(what string, doc string) (string, string) {
		return fmt.Sprintf("%s\n type=%s mode=%s format=%s wrap=%s spec=%q\n document=%s\n value=%s", what, c.Type, c.Mode, c.Format, c.Wrap, c.Spec, hx.Q(doc), v.Canon()), ""
	}
	switch c.Mode {
	case "encode":
		rv := dyn.Build(S, t, v, dyn.BuildOpts{})
		var doc string
		var err error
		if p, pv, st := hx.Try(func() { doc, err = encode(t, rv, c.Format, ps) }); p {
			return fmt.Sprintf("encoder panicked: %v\n%s", pv, st), ""
		}
		if err != nil {
			return fail("encoding with an exclusion spec failed: "+err.Error(), doc)
		}
		var got *refcodec.Tree
		if ror2 {
			got, err = refcodec.ParseROR2(doc)
		} else {
			got, err = refcodec.ParseJSON([]byte(doc))
		}
		if err != nil {
			return fail("output with exclusions is not well-formed: "+err.Error(), doc)
		}
		// compare as typed values so that number spellings do not matter; both sides without defaults
		gv, e1 := refcodec.FromTree(S, t, got, refcodec.Opts{Bytes: refcodec.RawUTF8, ROR2: ror2})
		wv, e2 := refcodec.FromTree(S, t, pruned, refcodec.Opts{Bytes: refcodec.RawUTF8, ROR2: ror2})
		if e2 != nil {
			panic("harness: pruned tree does not parse: " + e2.Error())
		}
		if e1 != nil {
			return fail("output with exclusions does not denote a value of the type: "+e1.Error(), doc)
		}
		if d := aval.Diff(wv, gv, ""); d != "" {
			return fail("encoder did not omit exactly the matching values: "+d+"\n expected document="+pruned.String(), doc)
		}
	case "decode-offending", "decode-clean", "decode-missing":
		src := full
		if c.Mode == "decode-clean" {
			src = pruned
		}
		var wantMissing []string
		if c.Mode == "decode-missing" {
			// a clean document from which required fields were removed: exactly the ones the spec does not exclude are missing
			src = pruned.Clone()
			dropRequired(t, src, c.Drop)
			missingNotExcluded(t, src, "", nil, spec, &wantMissing)
			sort.Strings(wantMissing)
		}
		wrapped, ignore := wrapTree(src.Clone(), c.Wrap)
		var doc string
		var r restlicodec.Reader
		var err error
		var rv reflect.Value
		if p, pv, st := hx.Try(func() {
			if ror2 {
				doc = refcodec.RenderROR2(wrapped, refcodec.ROR2Opts{Flavour: refcodec.Header})
				r, err = restlicodec.NewRor2ReaderWithExcludedFields(doc, ps, ignore)
			} else if c.Format == "any" {
				doc = wrapped.String()
				r = restlicodec.NewInterfaceReaderWithExcludedFields(refcodec.ToAny(wrapped, false), ps, ignore)
			} else {
				doc = refcodec.RenderJSON(wrapped, refcodec.JSONOpts{})
				r, err = restlicodec.NewJsonReaderWithExcludedFields([]byte(doc), ps, ignore)
			}
			if err == nil {
				rv, err = readWrapped(t, r, c.Wrap)
			}
		}); p {
			return fmt.Sprintf("decoder panicked: %v\n%s\n document=%s", pv, st, hx.Q(doc)), ""
		}
		offending := c.Mode == "decode-offending" && removed > 0
		var ex restlicodec.ExcludedFieldError
		if c.Mode == "decode-missing" && len(wantMissing) > 0 {
			var miss *restlicodec.MissingRequiredFieldsError
			if err == nil {
				return fail(fmt.Sprintf("required fields %v are absent (and not excluded) but the document was accepted", wantMissing), doc)
			}
			if !errors.As(err, &miss) {
				return fail(fmt.Sprintf("required fields %v are absent but the error is of another kind (%T): %v", wantMissing, err, err), doc)
			}
			got := append([]string(nil), miss.Fields...)
			sort.Strings(got)
			if strings.Join(got, ",") != strings.Join(wantMissing, ",") {
				return fail(fmt.Sprintf("missing-required-fields error lists %v, want %v (absent, required and not excluded by the spec)", got, wantMissing), doc)
			}
			return "", ""
		}
		switch {
		case offending && err == nil:
			return fail("a document carrying a value at an excluded path was accepted", doc)
		case offending && !errors.As(err, &ex):
			return fail(fmt.Sprintf("a document carrying an excluded value was rejected with an unrelated error (%T): %v", err, err), doc)
		case !offending && err != nil:
			return fail(fmt.Sprintf("a document without any excluded value was rejected (%T): %v", err, err), doc)
		case !offending:
			parsed, perr := refcodec.FromTree(S, t, src, refcodec.Opts{Bytes: refcodec.RawUTF8, ROR2: ror2})
			if perr != nil {
				panic("harness: " + perr.Error())
			}
			exp := fillDefaults(t, parsed)
			fillZeros(t, exp)
			if d := aval.Diff(exp, dyn.Extract(S, t, rv), ""); d != "" {
				return fail("decoding with an exclusion spec altered the value: "+d, doc)
			}
		}
	}
	return "", ""
}

func genSpec(rt *rapid.T, t schema.Type, v *aval.V) []string {
	tr := refcodec.TreeOf(S, t, v, refcodec.Opts{Bytes: refcodec.RawUTF8})
	var sites []sitePath
	treePaths(t, tr, nil, 0, &sites)
	// candidate spec paths: paths of the value whose last segment is a field, map key or union member (a trailing
	// wildcard for array items is not generated: the property's wildcard stands for the item level of a longer path)
	var cands [][]string
	for _, s := range sites {
		if s.last == "item" || s.last == "member" {
			continue // (excluding a union's only member would leave an invalid union: specs address fields and map keys)
		}
		ok := true
		for _, seg := range s.path {
			if strings.Contains(seg, "/") || seg == "" {
				ok = false // not expressible in the slash-separated syntax
			}
		}
		if ok {
			cands = append(cands, s.path)
		}
	}
	n := rapid.IntRange(1, 4).Draw(rt, "nspec")
	var spec []string
	for i := 0; i < n; i++ {
		var p []string
		if len(cands) > 0 && rapid.IntRange(0, 9).Draw(rt, "absent") > 1 {
			p = append([]string(nil), cands[pick(rt, len(cands), "cand")]...)
			// generalise map-key segments to the wildcard sometimes
			if rapid.IntRange(0, 3).Draw(rt, "gen") == 0 {
				q := append([]string(nil), p...)
				walkKinds(t, q, func(i int, kind string) {
					if kind == "mapkey" && rapid.Bool().Draw(rt, "star") {
						q[i] = "*"
					}
				})
				p = q
			}
		} else {
			// a path that names nothing in the value
			p = []string{rapid.SampledFrom([]string{"nosuch", "req", "opt", "tail", "s", "i", "leaf", "n"}).Draw(rt, "seg")}
			if rapid.Bool().Draw(rt, "deeper") {
				p = append(p, rapid.SampledFrom([]string{"*", "s", "x", "leaf"}).Draw(rt, "seg2"))
				// like above: no trailing array-item wildcard / union member (an array of unions would be left with
				// invalid empty unions)
				last := ""
				walkKinds(t, p, func(i int, kind string) {
					if i == len(p)-1 {
						last = kind
					}
				})
				if last == "item" || last == "member" {
					p = p[:len(p)-1]
				}
			}
		}
		d := strings.Join(p, "/")
		if rapid.Bool().Draw(rt, "slash") {
			d = "/" + d
		}
		spec = append(spec, d)
	}
	// a wildcard entry and a named entry at the same map level (`m/*/x` next to `m/key/y`): both apply to `m/key`
	if len(cands) > 0 && rapid.IntRange(0, 3).Draw(rt, "wild_and_named") == 0 {
		a := cands[pick(rt, len(cands), "wn_a")]
		star := -1
		walkKinds(t, a, func(i int, kind string) {
			if kind == "mapkey" && star < 0 && i < len(a)-1 {
				star = i
			}
		})
		if star >= 0 {
			wild := append([]string(nil), a...)
			wild[star] = "*"
			spec = append(spec, strings.Join(wild, "/"))
			// a named sibling below the same key with another continuation (or one that names nothing)
			named := append(append([]string(nil), a[:star+1]...), "nosuch")
			for _, b := range cands {
				if len(b) > star+1 && strings.Join(b[:star+1], "/") == strings.Join(a[:star+1], "/") && strings.Join(b, "/") != strings.Join(a, "/") {
					named = append([]string(nil), b...)
					break
				}
			}
			spec = append(spec, strings.Join(named, "/"))
		}
	}
	return spec
}

// walkKinds reports for each segment of a value path what kind of container level it addresses.
func walkKinds(t schema.Type, path []string, f func(i int, kind string)) {
	cur := t
	for i := 0; i < len(path); i++ {
		switch {
		case cur.Prim != "":
			return
		case cur.Array != nil:
			f(i, "item")
			cur = *cur.Array
		case cur.Map != nil:
			f(i, "mapkey")
			cur = *cur.Map
		default:
			n := S.Lookup(*cur.Ref)
			switch n.Kind {
			case "record", "complexkey":
				found := false
				for _, fl := range S.AllFields(n) {
					if fl.Name == path[i] {
						f(i, "field")
						cur = fl.Type
						found = true
					}
				}
				if !found {
					return
				}
			case "union":
				if path[i] == "*" {
					f(i, "member") // the wildcard would match whichever member is set
					return
				}
				found := false
				for _, m := range n.Members {
					if m.Alias == path[i] {
						f(i, "member")
						cur = m.Type
						found = true
					}
				}
				if !found {
					return
				}
			default:
				return
			}
		}
	}
}

func TestC07Codec(t *testing.T) {
	g := &aval.Gen{S: S, MaxDepth: 4, PlainKeys: true, SlashSiblings: true, ExtraKeys: []string{"[system]", "[0]", "[x", "a[1]", "[]"}}
	rec := stats.For("C07")
	if c, ok := hx.Replay[exclCase]("C07", "exclusion"); ok {
		if msg, _ := checkExclusion(rec, c); msg != "" {
			rec.Violation("exclusion", msg, c)
			t.Fatal(msg)
		}
		return
	} else if hx.Replaying() {
		t.Skip()
	}
	rapid.Check(t, func(rt *rapid.T) {
		var c exclCase
		ty := drawType(rt, records)
		c.Mode = rapid.SampledFrom([]string{"encode", "decode-offending", "decode-clean", "decode-missing"}).Draw(rt, "mode")
		if c.Mode == "encode" {
			c.Format = rapid.SampledFrom([]string{"json", "pretty", "header"}).Draw(rt, "fmt")
			c.Wrap = "none"
		} else {
			c.Format = rapid.SampledFrom([]string{"json", "header", "any"}).Draw(rt, "fmt")
			c.Wrap = rapid.SampledFrom([]string{"none", "elements", "entities"}).Draw(rt, "wrap")
		}
		if c.Mode == "decode-missing" {
			c.Wrap = "none"
			c.Drop = rapid.SliceOfN(rapid.IntRange(0, 1000), 1, 2).Draw(rt, "drop")
		}
		v := g.Value(rt, ty, 0)
		c.valCase = valCase{CorpusSeed: corpusSeed, Type: ty.String(), Format: c.Format, Value: v}
		c.Spec = genSpec(rt, ty, v)
		msg, known := checkExclusion(rec, c)
		if known != "" {
			rec.Known(known, kf.What(known), c)
			return
		}
		if msg != "" {
			rec.Violation("exclusion", msg, c)
			rt.Fatalf("property violated (details in the replay file)")
		}
	})
}

// TestC07PatchOperatorKeys is the witness of the open known finding KF-C07-patch-operator-map-keys: a map key that is
// literally "$set" or "$delete" is taken for a partial-update operator by the exclusion matcher, so the value below it
// is matched against the wrong spec level.
func TestC07PatchOperatorKeys(t *testing.T) {
	rec := stats.For("C07")
	if hx.Replaying() {
		t.Skip()
	}
	if i, _ := hx.ShardIndex(); i != 0 {
		t.Skip()
	}
	ty := typeByName("vt.Sys57") // map<Leaf> fields
	for _, n := range S.Types {
		if n.Kind == "record" && len(n.Fields) > 0 && n.Fields[0].Type.Map != nil && n.Fields[0].Type.Map.Ref != nil && n.Fields[0].Type.Map.Ref.Name == "Leaf" {
			ty = schema.RI(n.Ident)
			break
		}
	}
	for _, key := range []string{"$delete", "$set"} {
		v := aval.Record().Set("req", aval.Map().Put(key, aval.Record().Set("s", aval.Str("x")))).Set("tail", aval.Int32(0))
		c := exclCase{valCase: valCase{CorpusSeed: corpusSeed, Type: ty.String(), Format: "json", Value: v}, Spec: []string{"req/*/s"}, Wrap: "none", Mode: "encode"}
		msg, _ := checkExclusion(rec, c)
		if msg == "" {
			continue // fixed: no finding to report
		}
		if kf.Open("KF-C07-patch-operator-map-keys") {
			rec.Known("KF-C07-patch-operator-map-keys", kf.What("KF-C07-patch-operator-map-keys"), c)
			continue
		}
		rec.Violation("patch-operator-key", msg, c)
		t.Error(msg)
	}
}

// TestC06Excluded is C06's "excluded fields are never reported": the decode-missing mode of the exclusion check, run under
// C06 - required fields are removed from a document that is clean for a generated spec, and the missing-required-fields
// error must list exactly the absent required fields the spec does not exclude (a field below a spec path's inner
// segments is not excluded by it).
func TestC06Excluded(t *testing.T) {
	g := &aval.Gen{S: S, MaxDepth: 4, PlainKeys: true}
	rec := stats.For("C06")
	if c, ok := hx.Replay[exclCase]("C06", "excluded"); ok {
		if msg, _ := checkExclusion(rec, c); msg != "" {
			rec.Violation("excluded", msg, c)
			t.Fatal(msg)
		}
		return
	} else if hx.Replaying() {
		t.Skip()
	}
	rapid.Check(t, func(rt *rapid.T) {
		var c exclCase
		ty := drawType(rt, records)
		c.Mode = "decode-missing"
		c.Format = rapid.SampledFrom([]string{"json", "header", "any"}).Draw(rt, "fmt")
		c.Wrap = "none"
		c.Drop = rapid.SliceOfN(rapid.IntRange(0, 1000), 1, 3).Draw(rt, "drop")
		v := g.Value(rt, ty, 0)
		c.valCase = valCase{CorpusSeed: corpusSeed, Type: ty.String(), Format: c.Format, Value: v}
		c.Spec = genSpec(rt, ty, v)
		msg, known := checkExclusion(rec, c)
		if known != "" {
			rec.Known(known, kf.What(known), c)
			return
		}
		if msg != "" {
			rec.Violation("excluded", msg, c)
			rt.Fatalf("property violated (details in the replay file)")
		}
	})
}
