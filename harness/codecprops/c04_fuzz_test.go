package codecprops

// C04 - coverage-guided part (thorough tier): native Go fuzzing over (bytes, entry point, shape). The oracle is
// the one of the enumerated / mutated checks (decodeHostile: no panic, no hang, no index outside the input); the
// seed corpus holds the hostile constants and valid encodings of corpus values for every entry point.

import (
	"fmt"
	"testing"

	"pgregory.net/rapid"

	"verif/HARNESS/dyn"
	"verif/core/aval"
	"verif/core/hx"
	"verif/core/stats"
)

var c04Entries = []string{"ror2", "json", "query"}

func c04AllShapes() []string { return append(append([]string(nil), c04Shapes...), c04Generic...) }

func FuzzC04Decode(f *testing.F) {
	rec := stats.For("C04")
	shapes := c04AllShapes()
	stop := startWatchdog(rec)
	defer stop()
	// seed corpus: hostile constants for every entry, valid encodings of generated values for the typed shapes
	for _, h := range aval.HostileStrings {
		for e := range c04Entries {
			f.Add([]byte(h), uint8(e), uint8(0))
			f.Add([]byte("("+h+":"+h+")"), uint8(e), uint8(5))
		}
	}
	g := &aval.Gen{S: S, MaxDepth: 3}
	for si, sh := range c04Shapes {
		t := typeOrNil(sh)
		if t == nil {
			continue
		}
		for k := 0; k < 3; k++ {
			var v *aval.V
			if p, _, _ := hx.Try(func() {
				v = rapid.Custom(func(rt *rapid.T) *aval.V { rapid.Bool().Draw(rt, "x"); return g.Value(rt, *t, 0) }).Example(k + 1)
			}); p {
				continue
			}
			rv := dyn.Build(S, *t, v, dyn.BuildOpts{})
			if doc, err := encode(*t, rv, "json", nil); err == nil {
				f.Add([]byte(doc), uint8(1), uint8(si))
			}
			if doc, err := encode(*t, rv, "header", nil); err == nil {
				f.Add([]byte(doc), uint8(0), uint8(si))
				f.Add([]byte("p="+doc), uint8(2), uint8(si))
			}
			if doc, err := encode(*t, rv, "query", nil); err == nil {
				f.Add([]byte(doc), uint8(2), uint8(si))
			}
		}
	}
	f.Fuzz(func(t *testing.T, data []byte, entry, shape uint8) {
		if len(data) > 4096 {
			return
		}
		c := c04Case{Entry: c04Entries[int(entry)%len(c04Entries)], Shape: shapes[int(shape)%len(shapes)]}
		input := string(data)
		rec.Case("fuzz", "entry="+c.Entry)
		rec.NonTrivial("fuzz/"+c.Entry, "fz|"+c.Entry+"|"+c.Shape+"|"+input, func() any {
			return map[string]any{"entry": c.Entry, "shape": c.Shape, "input": hx.Q(input)}
		})
		if msg := decodeHostile(c, input); msg != "" {
			c.Input = fmt.Sprintf("%x", input)
			rec.Violation("fuzz-decode", msg, c)
			stats.FlushAll()
			t.Fatal(msg)
		}
	})
}
