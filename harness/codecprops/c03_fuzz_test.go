package codecprops

// C03 - coverage-guided part (thorough tier), converse direction: "every conforming document that denotes a valid
// value of the schema is accepted and yields that value". Bytes are first read by the independent reference (strict
// JSON tokenizer / hand-written ROR2 parser + typed reading). Only when the reference reads a VALID value of the type
// out of a document that is conforming beyond doubt (see the exclusions below) does the oracle apply: the library must
// accept the same bytes and yield that value (defaults filled). Everything else is counted and skipped, so the check
// can only err on the quiet side.

import (
	"math"
	"strings"
	"testing"

	"pgregory.net/rapid"

	"verif/HARNESS/dyn"
	"verif/core/aval"
	"verif/core/hx"
	"verif/core/kf"
	"verif/core/refcodec"
	"verif/core/schema"
	"verif/core/stats"
)

var c03FuzzFormats = []string{"json", "header"}

// doubtful reports document features whose conformance is debatable (the property does not settle them): duplicate
// object keys, non-canonical number spellings, numbers outside the range of their type.
func doubtful(tr *refcodec.Tree, ror2 bool) string {
	switch tr.Kind {
	case "obj":
		seen := map[string]bool{}
		for _, kv := range tr.Obj {
			if seen[kv.K] {
				return "duplicate key"
			}
			seen[kv.K] = true
			if r := doubtful(kv.V, ror2); r != "" {
				return r
			}
		}
	case "arr":
		for _, x := range tr.Arr {
			if r := doubtful(x, ror2); r != "" {
				return r
			}
		}
	case "num":
		if strings.ContainsAny(tr.Str, "eE") && !strings.ContainsAny(tr.Str, ".") {
			return "" // exponent spellings are what the encoders emit for large / small floats
		}
	}
	return ""
}

// plainNumbers: every numeric leaf of the value is spelled in the document the way a typical encoder would spell it
// (no leading '+', no hex, no underscores, no "inf"/"nan" words in ROR2, integers without fraction or exponent).
func plainNumberText(s string, float bool) bool {
	if s == "" {
		return false
	}
	for i, c := range s {
		switch {
		case c >= '0' && c <= '9':
		case c == '-' && (i == 0 || s[i-1] == 'e' || s[i-1] == 'E'):
		case float && (c == '.' || c == 'e' || c == 'E'):
		case float && c == '+' && i > 0 && (s[i-1] == 'e' || s[i-1] == 'E'):
		default:
			return false
		}
	}
	return true
}

func numbersPlain(t schema.Type, tr *refcodec.Tree, ror2 bool) bool {
	switch {
	case t.Prim != "":
		switch t.Prim {
		case "int32", "int64":
			return plainNumberText(tr.Str, false) && !(len(tr.Str) > 1 && tr.Str[0] == '0') && !strings.HasPrefix(tr.Str, "-0")
		case "float32", "float64":
			if tr.Kind == "str" && (tr.Str == "NaN" || tr.Str == "Infinity" || tr.Str == "-Infinity") {
				return true
			}
			if !plainNumberText(tr.Str, true) {
				return false
			}
			if t.Prim == "float32" {
				// (a literal beyond the float32 range: unsettled whether it denotes a value)
				v, _ := refcodec.FromTree(S, t, tr, refcodec.Opts{ROR2: ror2})
				return v != nil && !math.IsInf(v.Float(), 0)
			}
			v, _ := refcodec.FromTree(S, t, tr, refcodec.Opts{ROR2: ror2})
			return v != nil && !math.IsInf(v.Float(), 0)
		}
		return true
	case t.Array != nil:
		for _, x := range tr.Arr {
			if !numbersPlain(*t.Array, x, ror2) {
				return false
			}
		}
		return true
	case t.Map != nil:
		for _, kv := range tr.Obj {
			if !numbersPlain(*t.Map, kv.V, ror2) {
				return false
			}
		}
		return true
	}
	n := S.Lookup(*t.Ref)
	switch n.Kind {
	case "record", "complexkey":
		for _, f := range S.AllFields(n) {
			if x := tr.Get(f.Name); x != nil && x.Kind != "null" && !numbersPlain(f.Type, x, ror2) {
				return false
			}
		}
	case "typeref":
		return numbersPlain(schema.P(n.Prim), tr, ror2)
	case "union":
		if tr.Kind == "obj" && len(tr.Obj) == 1 {
			for _, m := range n.Members {
				if m.Alias == tr.Obj[0].K {
					return numbersPlain(m.Type, tr.Obj[0].V, ror2)
				}
			}
		}
	}
	return true
}

func FuzzC03Accept(f *testing.F) {
	rec := stats.For("C03")
	g := &aval.Gen{S: S, MaxDepth: 3}
	for ti, t := range records {
		for k := 0; k < 2; k++ {
			var v *aval.V
			if p, _, _ := hx.Try(func() {
				v = rapid.Custom(func(rt *rapid.T) *aval.V { rapid.Bool().Draw(rt, "x"); return g.Value(rt, t, 0) }).Example(k + 1)
			}); p {
				continue
			}
			// seeds rendered by the REFERENCE encoder in several conforming variations
			for _, variation := range []string{"plain", "pretty", "escape-all", "escape-slash", "nulls"} {
				for fi, format := range c03FuzzFormats {
					c := acceptCase{valCase: valCase{CorpusSeed: corpusSeed, Type: t.String(), Format: format, Value: v}, Variation: variation, Unknown: k, Perm: []int{3, 1, 2}}
					if doc, ok := renderAccept(c, t, refcodec.Protocol); ok {
						f.Add([]byte(doc), uint16(ti), uint8(fi))
					}
				}
			}
		}
	}
	f.Fuzz(func(t *testing.T, data []byte, typeSel uint16, formatSel uint8) {
		if len(data) > 4096 {
			return
		}
		ty := records[int(typeSel)%len(records)]
		format := c03FuzzFormats[int(formatSel)%len(c03FuzzFormats)]
		ror2 := format == "header"
		doc := string(data)
		tree, err := refParse(doc, format)
		if err != nil {
			rec.Case("fuzz_not_conforming")
			return
		}
		v, err := refcodec.FromTree(S, ty, tree, refcodec.Opts{Bytes: refcodec.Protocol, ROR2: ror2})
		if err != nil || aval.IsValid(S, ty, v) != "" {
			rec.Case("fuzz_not_a_valid_value")
			return
		}
		if doubtful(tree, ror2) != "" || !numbersPlain(ty, tree, ror2) {
			rec.Case("fuzz_conformance_unsettled")
			return
		}
		if hasHighBytes(v) && kf.Open("KF-C03-bytes-utf8") {
			rec.Case("fuzz_known_finding_domain")
			return
		}
		rec.Case("fuzz_conforming_valid")
		rec.NonTrivial("accept-fuzz/"+format, "af|"+ty.String()+"|"+format+"|"+doc, func() any {
			return map[string]any{"type": ty.String(), "format": format, "document": hx.Q(doc)}
		})
		want := fillDefaults(ty, v)
		var rv = dyn.Build(S, ty, aval.Valid(S, ty), dyn.BuildOpts{})
		c := acceptCase{valCase: valCase{CorpusSeed: corpusSeed, Type: ty.String(), Format: format, Value: v}, Variation: "fuzz", Doc: doc}
		fail := func(msg string) {
			msg += "\n type=" + ty.String() + " format=" + format + "\n document=" + hx.Q(doc) + "\n reference reading=" + want.Canon()
			rec.Violation("accept-fuzz", msg, c)
			stats.FlushAll()
			t.Fatal(msg)
		}
		if p, pv, _ := hx.Try(func() { rv, err = decode(ty, doc, format) }); p {
			fail("decoder panicked on a conforming document: " + hx.J(pv))
			return
		}
		if err != nil {
			fail("a conforming document that denotes a valid value was rejected: " + err.Error())
			return
		}
		if d := aval.Diff(want, dyn.Extract(S, ty, rv), ""); d != "" {
			fail("a conforming document was decoded to a different value: " + d)
		}
	})
}
