package codecprops

// C10 - the hash is a pure function of the value: a Hash handed out by the library is the caller's own accumulator
// (callers extend it to build composite keys); extending one must not change what any other value hashes to.

import (
	"fmt"
	"testing"

	"github.com/PapaCharlie/go-restli/v2/fnv1a"
	"pgregory.net/rapid"

	"verif/HARNESS/dyn"
	"verif/core/aval"
	"verif/core/hx"
	"verif/core/stats"
)

type hashPurityCase struct {
	CorpusSeed int64   `json:"corpus_seed"`
	Type       string  `json:"type"`
	Value      *aval.V `json:"value"`
	Ext        string  `json:"extension"`
}

func checkHashPurity(rec *stats.Recorder, c hashPurityCase) string {
	t := typeByName(c.Type)
	rec.Case("hash_purity")
	rec.NonTrivial("hash-purity", c.Type+"|"+c.Value.Canon()+"|"+c.Ext, func() any { return c })
	rv := dyn.Build(S, t, c.Value, dyn.BuildOpts{})
	zero0, new0 := fnv1a.ZeroHash().MapKey(), fnv1a.NewHash().MapKey()
	before := dyn.Hash(rv)
	// a caller takes hashes the library hands out and extends them (composite keys)
	for _, h := range []fnv1a.Hash{fnv1a.ZeroHash(), fnv1a.NewHash(), fnv1a.HashString(c.Ext), dyn.HashObject(rv)} {
		h.AddString(c.Ext)
		h.AddInt64(int64(len(c.Ext)))
		h.Add(fnv1a.HashBool(true))
	}
	if z := fnv1a.ZeroHash().MapKey(); z != zero0 {
		return fmt.Sprintf("ZeroHash() changed after a caller extended a hash it had been handed: %08x -> %08x", uint32(zero0), uint32(z))
	}
	if n := fnv1a.NewHash().MapKey(); n != new0 {
		return fmt.Sprintf("NewHash() changed after a caller extended a hash it had been handed: %08x -> %08x", uint32(new0), uint32(n))
	}
	if after := dyn.Hash(rv); after != before {
		return fmt.Sprintf("the hash of a value changed after a caller extended a hash it had been handed: %08x -> %08x\n type=%s value=%s", before, after, c.Type, c.Value.Canon())
	}
	return ""
}

func TestC10HashPurity(t *testing.T) {
	g := &aval.Gen{S: S, MaxDepth: 2}
	rec := stats.For("C10")
	if c, ok := hx.Replay[hashPurityCase]("C10", "hash-purity"); ok {
		if msg := checkHashPurity(rec, c); msg != "" {
			rec.Violation("hash-purity", msg, c)
			t.Fatal(msg)
		}
		return
	} else if hx.Replaying() {
		t.Skip()
	}
	rapid.Check(t, func(rt *rapid.T) {
		ty := drawType(rt, records)
		c := hashPurityCase{CorpusSeed: corpusSeed, Type: ty.String(), Value: g.Value(rt, ty, 0), Ext: rapid.SampledFrom([]string{"", "x", "composite-key"}).Draw(rt, "ext")}
		if msg := checkHashPurity(rec, c); msg != "" {
			rec.Violation("hash-purity", msg, c)
			rt.Fatalf("property violated (details in the replay file)")
		}
	})
}
