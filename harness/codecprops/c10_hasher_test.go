package codecprops

// C10 - the hash is a pure function of the value: a Hash handed out by the library is the caller's own accumulator
// (callers extend it to build composite keys); extending one must not change what any other value hashes to.

import (
	"fmt"
	"os"
	"os/exec"
	"strings"
	"testing"

	"github.com/PapaCharlie/go-restli/v2/fnv1a"
	"pgregory.net/rapid"

	"verif/HARNESS/dyn"
	"verif/core/aval"
	"verif/core/hx"
	"verif/core/stats"
)

type hashPurityCase struct {
	CorpusSeed int64   `json:"corpus_seed"`
	Type       string  `json:"type"`
	Value      *aval.V `json:"value"`
	Ext        string  `json:"extension"`
}

func checkHashPurity(rec *stats.Recorder, c hashPurityCase) string {
	t := typeByName(c.Type)
	rec.Case("hash_purity")
	rec.NonTrivial("hash-purity", c.Type+"|"+c.Value.Canon()+"|"+c.Ext, func() any { return c })
	rv := dyn.Build(S, t, c.Value, dyn.BuildOpts{})
	zero0, new0 := fnv1a.ZeroHash().MapKey(), fnv1a.NewHash().MapKey()
	before := dyn.Hash(rv)
	// a caller takes hashes the library hands out and extends them (composite keys)
	for _, h := range []fnv1a.Hash{fnv1a.ZeroHash(), fnv1a.NewHash(), fnv1a.HashString(c.Ext), dyn.HashObject(rv)} {
		h.AddString(c.Ext)
		h.AddInt64(int64(len(c.Ext)))
		h.Add(fnv1a.HashBool(true))
	}
	if z := fnv1a.ZeroHash().MapKey(); z != zero0 {
		return fmt.Sprintf("ZeroHash() changed after a caller extended a hash it had been handed: %08x -> %08x", uint32(zero0), uint32(z))
	}
	if n := fnv1a.NewHash().MapKey(); n != new0 {
		return fmt.Sprintf("NewHash() changed after a caller extended a hash it had been handed: %08x -> %08x", uint32(new0), uint32(n))
	}
	if after := dyn.Hash(rv); after != before {
		return fmt.Sprintf("the hash of a value changed after a caller extended a hash it had been handed: %08x -> %08x\n type=%s value=%s", before, after, c.Type, c.Value.Canon())
	}
	return ""
}

func TestC10HashPurity(t *testing.T) {
	g := &aval.Gen{S: S, MaxDepth: 2}
	rec := stats.For("C10")
	if c, ok := hx.Replay[hashPurityCase]("C10", "hash-purity"); ok {
		if msg := checkHashPurity(rec, c); msg != "" {
			rec.Violation("hash-purity", msg, c)
			t.Fatal(msg)
		}
		return
	} else if hx.Replaying() {
		t.Skip()
	}
	rapid.Check(t, func(rt *rapid.T) {
		ty := drawType(rt, records)
		c := hashPurityCase{CorpusSeed: corpusSeed, Type: ty.String(), Value: g.Value(rt, ty, 0), Ext: rapid.SampledFrom([]string{"", "x", "composite-key"}).Draw(rt, "ext")}
		if msg := checkHashPurity(rec, c); msg != "" {
			rec.Violation("hash-purity", msg, c)
			rt.Fatalf("property violated (details in the replay file)")
		}
	})
}

// ---------------------------------------------------------------------------------------------
// "... independent of ... process": the hashes of a fixed list of values (long strings and byte strings included) and of
// corpus values drawn from a fixed seed are the same in fresh processes (different map hash seeds, different maphash
// seeds, different addresses).

func hashDigestOfFixedCases() string {
	var b []byte
	add := func(h uint32) { b = append(b, byte(h), byte(h>>8), byte(h>>16), byte(h>>24)) }
	for _, n := range []int{0, 1, 15, 63, 64, 65, 200, 5000} {
		s := ""
		for len(s) < n {
			s += "0123456789abcdefé"
		}
		s = s[:n]
		add(uint32(fnv1a.HashString(s).MapKey()))
		add(uint32(fnv1a.HashBytes([]byte(s)).MapKey()))
		h := fnv1a.NewHash()
		h.AddString(s)
		h.AddInt64(int64(n))
		add(uint32(h.MapKey()))
	}
	g := &aval.Gen{S: S, MaxDepth: 3}
	for i, t := range records {
		v := rapid.Custom(func(rt *rapid.T) *aval.V { rapid.Bool().Draw(rt, "x"); return g.Value(rt, t, 0) }).Example(i + 1)
		add(dyn.Hash(dyn.Build(S, t, v, dyn.BuildOpts{})))
	}
	sum := uint64(14695981039346656037)
	for _, x := range b {
		sum = (sum ^ uint64(x)) * 1099511628211
	}
	return fmt.Sprintf("%016x/%d", sum, len(b)/4)
}

func TestC10ProcessChild(t *testing.T) {
	if os.Getenv("VERIF_C10_CHILD") == "" {
		t.Skip()
	}
	fmt.Println("C10DIGEST=" + hashDigestOfFixedCases())
}

func TestC10Processes(t *testing.T) {
	rec := stats.For("C10")
	if hx.Replaying() {
		t.Skip()
	}
	if i, _ := hx.ShardIndex(); i != 0 {
		t.Skip()
	}
	digests := map[string]int{hashDigestOfFixedCases(): 1}
	for i := 0; i < 3; i++ {
		cmd := exec.Command(os.Args[0], "-test.run", "^TestC10ProcessChild$", "-test.count", "1")
		cmd.Env = append(os.Environ(), "VERIF_C10_CHILD=1", "VERIF_STATS_DIR=")
		out, err := cmd.CombinedOutput()
		if err != nil {
			panic(fmt.Sprintf("child process failed: %v\n%s", err, out))
		}
		d := ""
		for _, line := range strings.Split(string(out), "\n") {
			if strings.HasPrefix(line, "C10DIGEST=") {
				d = strings.TrimPrefix(line, "C10DIGEST=")
			}
		}
		if d == "" {
			panic("child printed no digest:\n" + string(out))
		}
		digests[d]++
	}
	rec.Case("hash_fresh_processes")
	rec.NonTrivial("hash-processes", "hash-processes", func() any { return "hashes of fixed strings (0-5000 bytes) and seed-fixed corpus values in 4 processes" })
	if len(digests) != 1 {
		msg := fmt.Sprintf("the same values hash differently in different processes: digests %v", digests)
		rec.Violation("hash-processes", msg, map[string]any{"digests": digests})
		t.Fatal(msg)
	}
}
