package codecprops

// C11 - schema validity constraints are enforced when encoding and when decoding.
// Small finite spaces enumerated completely per schema: union member subsets, fixed lengths, enum
// constants and symbol strings, partial-update assignments.

import (
	"fmt"
	"reflect"
	"sort"
	"strings"
	"testing"

	"github.com/PapaCharlie/go-restli/v2/restlicodec"

	"verif/HARNESS/dyn"
	"verif/core/aval"
	"verif/core/hx"
	"verif/core/refcodec"
	"verif/core/schema"
	"verif/core/stats"
)

type c11Case struct {
	Kind   string   `json:"kind"` // union-encode union-decode fixed enum-encode enum-decode patch
	Type   string   `json:"type"`
	Format string   `json:"format"`
	Subset []string `json:"subset,omitempty"`
	N      int      `json:"n,omitempty"`
	Text   string   `json:"text,omitempty"`
	Patch  *dyn.PatchM  `json:"patch,omitempty"`
	Excl   []string `json:"excluded,omitempty"`
}

type c11Tally struct {
	rec   *stats.Recorder
	count map[string]int
	first map[string]c11Case
	msg   map[string]string
}

func (tl *c11Tally) fail(check string, c c11Case, format string, a ...any) {
	if tl.count[check] == 0 {
		tl.first[check] = c
		tl.msg[check] = fmt.Sprintf(format, a...)
	}
	tl.count[check]++
}

func (tl *c11Tally) flush(t *testing.T) {
	names := make([]string, 0, len(tl.count))
	for n := range tl.count {
		names = append(names, n)
	}
	sort.Strings(names)
	for _, n := range names {
		msg := fmt.Sprintf("[%d failing cases in this enumeration; first shown] %s", tl.count[n], tl.msg[n])
		tl.rec.Violation(n, msg, tl.first[n])
		t.Errorf("%s: %s", n, msg)
	}
}

// simple valid value of a type (used to populate union members / set fields)
func sampleValue(t schema.Type, alt bool) *aval.V {
	switch {
	case t.Prim != "":
		switch t.Prim {
		case "int32":
			return aval.Int32(7)
		case "int64":
			return aval.Int64(-7)
		case "float32":
			return aval.Float32(1.5)
		case "float64":
			return aval.Float64(2.25)
		case "bool":
			return aval.Bool(true)
		case "string":
			if alt {
				return aval.Str("a(b),c:'%")
			}
			return aval.Str("s")
		case "bytes":
			return aval.Bytes([]byte("by"))
		}
	case t.Array != nil:
		return aval.Array(sampleValue(*t.Array, alt))
	case t.Map != nil:
		return aval.Map().Put("k", sampleValue(*t.Map, alt))
	}
	n := S.Lookup(*t.Ref)
	switch n.Kind {
	case "record", "complexkey":
		r := aval.Record()
		for _, f := range S.AllFields(n) {
			if f.Required() {
				r.Flds[f.Name] = sampleValue(f.Type, alt)
			}
		}
		return r
	case "enum":
		return aval.Enum(n.Symbols[0])
	case "fixed":
		return aval.Fixed([]byte(strings.Repeat("f", n.Size)))
	case "typeref":
		return sampleValue(schema.P(n.Prim), alt)
	case "union":
		m := n.Members[0]
		return aval.Union(m.Alias, sampleValue(m.Type, alt))
	}
	panic("sample " + t.String())
}

func legalUnion(n *schema.Named, k int) bool { return k == 1 || (k == 0 && n.HasNull) }

func TestC11Unions(t *testing.T) {
	// (a replay of a C11 file re-runs the complete enumeration: it is seconds long and deterministic)
	if i, _ := hx.ShardIndex(); i != 0 {
		t.Skip() // small spaces: enumerated once, by shard 0
	}
	rec := stats.For("C11")
	tl := &c11Tally{rec, map[string]int{}, map[string]c11Case{}, map[string]string{}}
	var evaluated int64
	for _, n := range S.ByKind("union") {
		ty := schema.RI(n.Ident)
		k := len(n.Members)
		for mask := 0; mask < 1<<k; mask++ {
			var subset []string
			rv := reflect.New(dyn.GoType(S, ty)).Elem()
			tree := refcodec.Obj()
			for i, m := range n.Members {
				if mask&(1<<i) == 0 {
					continue
				}
				subset = append(subset, m.Alias)
				mv := sampleValue(m.Type, false)
				fv := rv.FieldByName(schema.MemberField(m.Alias))
				built := dyn.Build(S, m.Type, mv, dyn.BuildOpts{})
				p := reflect.New(fv.Type().Elem())
				p.Elem().Set(built)
				fv.Set(p)
				tree.Obj = append(tree.Obj, refcodec.KV{K: m.Alias, V: refcodec.TreeOf(S, m.Type, mv, refcodec.Opts{Bytes: refcodec.RawUTF8})})
			}
			legal := legalUnion(n, len(subset))
			for _, format := range []string{"json", "header", "validate"} {
				c := c11Case{Kind: "union-encode", Type: n.Full(), Format: format, Subset: subset}
				evaluated++
				rec.Case("union-encode", fmt.Sprintf("members_set=%d", min3(len(subset))))
				rec.NonTrivial("union-encode", hx.J(c), func() any { return c })
				var err error
				if p, pv, st := hx.Try(func() {
					if format == "validate" {
						res := rv.Addr().MethodByName("ValidateUnionFields").Call(nil)
						if e := res[0].Interface(); e != nil {
							err = e.(error)
						}
					} else {
						_, err = encode(ty, rv, format, nil)
					}
				}); p {
					tl.fail("union-encode", c, "panic: %v\n%s", pv, st)
					continue
				}
				if legal && err != nil {
					tl.fail("union-encode", c, "a union of %s with the legal member set %v was rejected (%s): %v", n.Full(), subset, format, err)
				}
				if !legal && err == nil {
					tl.fail("union-encode", c, "a union of %s with the illegal member set %v was emitted / validated (%s)", n.Full(), subset, format)
				}
			}
			// decode the equivalent document
			for _, format := range []string{"json", "header", "json/reversed", "header/reversed"} {
				// (members in declaration order and in the opposite order on the wire: key order carries no meaning)
				wire := tree
				if strings.HasSuffix(format, "/reversed") {
					if len(tree.Obj) < 2 {
						continue
					}
					wire = refcodec.Obj()
					for i := len(tree.Obj) - 1; i >= 0; i-- {
						wire.Obj = append(wire.Obj, tree.Obj[i])
					}
					format = strings.TrimSuffix(format, "/reversed")
				}
				c := c11Case{Kind: "union-decode", Type: n.Full(), Format: format, Subset: subset}
				evaluated++
				rec.Case("union-decode", fmt.Sprintf("members_set=%d", min3(len(subset))))
				var doc string
				if format == "json" {
					doc = refcodec.RenderJSON(wire, refcodec.JSONOpts{})
				} else {
					doc = refcodec.RenderROR2(wire, refcodec.ROR2Opts{Flavour: refcodec.Header})
				}
				c.Text = doc
				rec.NonTrivial("union-decode", hx.J(c), func() any { return c })
				var err error
				var dv reflect.Value
				if p, pv, st := hx.Try(func() { dv, err = decode(ty, doc, format) }); p {
					tl.fail("union-decode", c, "panic: %v\n%s", pv, st)
					continue
				}
				if legal && err != nil {
					tl.fail("union-decode", c, "a legal %s document %s was rejected: %v", n.Full(), hx.Q(doc), err)
				}
				if !legal && err == nil {
					tl.fail("union-decode", c, "an illegal %s document %s (members %v) was accepted as %s", n.Full(), hx.Q(doc), subset, dyn.Extract(S, ty, dv).Canon())
				}
			}
		}
		// a document naming no declared member
		for _, format := range []string{"json", "header"} {
			doc := `{"noSuchMember":1}`
			if format == "header" {
				doc = "(noSuchMember:1)"
			}
			c := c11Case{Kind: "union-unknown-member", Type: n.Full(), Format: format, Text: doc}
			evaluated++
			rec.Case("union-unknown-member")
			rec.NonTrivial("union-unknown-member", hx.J(c), func() any { return c })
			var err error
			var dv reflect.Value
			if p, pv, st := hx.Try(func() { dv, err = decode(ty, doc, format) }); p {
				tl.fail("union-unknown-member", c, "panic: %v\n%s", pv, st)
				continue
			}
			if err == nil && !n.HasNull {
				got := dyn.Extract(S, ty, dv)
				if got.Mem == "" {
					tl.fail("union-unknown-member", c, "document %s names no member of the non-nullable union %s but was accepted, yielding a union without any member", hx.Q(doc), n.Full())
				}
			}
		}
	}
	rec.Exhaustive("union member subsets x {json, ror2, validate} + equivalent documents", evaluated)
	tl.flush(t)
}

func TestC11FixedAndEnums(t *testing.T) {
	// (a replay of a C11 file re-runs the complete enumeration: it is seconds long and deterministic)
	if i, _ := hx.ShardIndex(); i != 0 {
		t.Skip() // small spaces: enumerated once, by shard 0
	}
	rec := stats.For("C11")
	tl := &c11Tally{rec, map[string]int{}, map[string]c11Case{}, map[string]string{}}
	var evaluated int64
	for _, n := range S.ByKind("fixed") {
		ty := schema.RI(n.Ident)
		for l := 0; l <= n.Size+2; l++ {
			for _, fill := range []string{"a", "é", "\x00"} {
				text := strings.Repeat(fill, l)
				for _, format := range []string{"json", "header"} {
					c := c11Case{Kind: "fixed", Type: n.Full(), Format: format, N: l, Text: text}
					evaluated++
					rec.Case("fixed", fmt.Sprintf("fixed_len_delta=%d", l-n.Size))
					rec.NonTrivial("fixed", hx.J(c), func() any { return c })
					doc := refcodec.RenderJSON(refcodec.Str(text), refcodec.JSONOpts{})
					if format == "header" {
						doc = refcodec.RenderROR2(refcodec.Str(text), refcodec.ROR2Opts{Flavour: refcodec.Header})
					}
					var err error
					var dv reflect.Value
					if p, pv, st := hx.Try(func() { dv, err = decode(ty, doc, format) }); p {
						tl.fail("fixed", c, "panic: %v\n%s", pv, st)
						continue
					}
					wireBytes := len(text) // the library reads bytes as the UTF-8 text
					if wireBytes == n.Size && err != nil {
						tl.fail("fixed", c, "%s document %s of exactly %d bytes rejected: %v", n.Full(), hx.Q(doc), n.Size, err)
					}
					if wireBytes != n.Size && err == nil {
						tl.fail("fixed", c, "%s (size %d) accepted document %s of %d bytes as %s", n.Full(), n.Size, hx.Q(doc), wireBytes, dyn.Extract(S, ty, dv).Canon())
					}
				}
			}
		}
	}
	for _, n := range S.ByKind("enum") {
		ty := schema.RI(n.Ident)
		for ord := -1; ord <= len(n.Symbols)+2; ord++ {
			for _, format := range []string{"json", "header", "path"} {
				c := c11Case{Kind: "enum-encode", Type: n.Full(), Format: format, N: ord}
				evaluated++
				rec.Case("enum-encode")
				rec.NonTrivial("enum-encode", hx.J(c), func() any { return c })
				rv := reflect.New(dyn.GoType(S, ty)).Elem()
				rv.SetInt(int64(ord))
				var err error
				var doc string
				if p, pv, st := hx.Try(func() { doc, err = encode(ty, rv, format, nil) }); p {
					tl.fail("enum-encode", c, "panic: %v\n%s", pv, st)
					continue
				}
				valid := ord >= 1 && ord <= len(n.Symbols)
				if valid && (err != nil || !strings.Contains(doc, n.Symbols[ord-1])) {
					tl.fail("enum-encode", c, "declared constant %d of %s not written as its symbol: %q err=%v", ord, n.Full(), doc, err)
				}
				if !valid && err == nil {
					tl.fail("enum-encode", c, "undeclared constant %d of %s was written as %q", ord, n.Full(), doc)
				}
			}
		}
		var texts []string
		for _, s := range n.Symbols {
			texts = append(texts, s, strings.ToLower(s), strings.ToUpper(s), s+" ", " "+s, s+"x", s[:len(s)-1])
		}
		texts = append(texts, "", "$UNKNOWN$", "0", "1", "null", "unknown", "_unknown")
		for _, text := range texts {
			for _, format := range []string{"json", "header"} {
				c := c11Case{Kind: "enum-decode", Type: n.Full(), Format: format, Text: text}
				evaluated++
				rec.Case("enum-decode")
				rec.NonTrivial("enum-decode", hx.J(c), func() any { return c })
				doc := refcodec.RenderJSON(refcodec.Str(text), refcodec.JSONOpts{})
				if format == "header" {
					doc = refcodec.RenderROR2(refcodec.Str(text), refcodec.ROR2Opts{Flavour: refcodec.Header})
				}
				var err error
				var dv reflect.Value
				if p, pv, st := hx.Try(func() { dv, err = decode(ty, doc, format) }); p {
					tl.fail("enum-decode", c, "panic: %v\n%s", pv, st)
					continue
				}
				want := 0
				for i, s := range n.Symbols {
					if s == text {
						want = i + 1
					}
				}
				if err != nil {
					if want != 0 {
						tl.fail("enum-decode", c, "declared symbol %q of %s rejected: %v", text, n.Full(), err)
					}
					if want == 0 {
						// "an unknown symbol read from the wire becomes the distinguished unknown value": a well-formed string that is
						// no declared symbol is not an error (peers may know newer symbols)
						tl.fail("enum-decode", c, "the unknown symbol %q of %s was rejected instead of becoming the unknown value: %v", text, n.Full(), err)
					}
					continue
				}
				if got := int(dv.Int()); got != want {
					tl.fail("enum-decode", c, "symbol text %q of %s decoded to constant %d, want %d (0 = the unknown value)", text, n.Full(), got, want)
				}
				// the same document decoded into a variable that already holds each declared symbol (a reused receiver)
				for prev := 1; prev <= len(n.Symbols); prev++ {
					dst := reflect.New(dyn.GoType(S, ty))
					dst.Elem().SetInt(int64(prev))
					var r restlicodec.Reader
					if format == "header" {
						r, _ = restlicodec.NewRor2Reader(doc)
					} else {
						r, _ = restlicodec.NewJsonReader([]byte(doc))
					}
					evaluated++
					var rerr error
					if p, pv, st := hx.Try(func() { rerr = dyn.UnmarshalInto(dst, r) }); p {
						tl.fail("enum-decode", c, "panic: %v\n%s", pv, st)
						break
					}
					if rerr == nil && int(dst.Elem().Int()) != want {
						tl.fail("enum-decode", c, "symbol text %q of %s decoded into a variable holding %s gives constant %d, want %d (0 = the unknown value)", text, n.Full(), n.Symbols[prev-1], dst.Elem().Int(), want)
						break
					}
				}
			}
		}
	}
	rec.Exhaustive("fixed wire lengths 0..size+2 and enum constants -1..N+2 / symbol spellings", evaluated)
	tl.flush(t)
}

// ---------------------------------------------------------------------------------------------
// partial updates

// enumeratePatches lists every assignment of a subset of {delete, set, nested patch} to each field of n (nested
// patches one level deep use the nested record's own single-slot assignments).
func enumeratePatches(n *schema.Named, depth int) []*dyn.PatchM {
	fields := S.AllFields(n)
	if len(fields) > 5 {
		fields = fields[:5]
	}
	out := []*dyn.PatchM{{Sets: map[string]*aval.V{}, Nested: map[string]*dyn.PatchM{}}}
	for _, f := range fields {
		var opts [][3]any // delete?, set value, nested patch
		canDelete := !f.Required()
		var nestedOpts []*dyn.PatchM
		if f.Type.Ref != nil && S.Lookup(*f.Type.Ref).Kind == "record" && depth == 0 {
			sub := S.Lookup(*f.Type.Ref)
			for _, sf := range S.AllFields(sub) {
				nestedOpts = append(nestedOpts, &dyn.PatchM{Sets: map[string]*aval.V{sf.Name: sampleValue(sf.Type, true)}, Nested: map[string]*dyn.PatchM{}})
				if !sf.Required() {
					nestedOpts = append(nestedOpts, &dyn.PatchM{Deletes: []string{sf.Name}, Sets: map[string]*aval.V{}, Nested: map[string]*dyn.PatchM{}})
					// an illegal nested patch: set and delete of the same nested field
					nestedOpts = append(nestedOpts, &dyn.PatchM{Deletes: []string{sf.Name}, Sets: map[string]*aval.V{sf.Name: sampleValue(sf.Type, false)}, Nested: map[string]*dyn.PatchM{}})
				}
				if len(nestedOpts) >= 4 {
					break
				}
			}
		}
		for _, del := range []bool{false, true} {
			if del && !canDelete {
				continue
			}
			for _, set := range []bool{false, true} {
				nests := append([]*dyn.PatchM{nil}, nestedOpts...)
				for _, np := range nests {
					var sv any
					if set {
						sv = sampleValue(f.Type, true)
					}
					opts = append(opts, [3]any{del, sv, np})
				}
			}
		}
		var next []*dyn.PatchM
		for _, base := range out {
			for _, o := range opts {
				p := &dyn.PatchM{Deletes: append([]string(nil), base.Deletes...), Sets: map[string]*aval.V{}, Nested: map[string]*dyn.PatchM{}}
				for k, v := range base.Sets {
					p.Sets[k] = v
				}
				for k, v := range base.Nested {
					p.Nested[k] = v
				}
				if o[0].(bool) {
					p.Deletes = append(p.Deletes, f.Name)
				}
				if o[1] != nil {
					p.Sets[f.Name] = o[1].(*aval.V)
				}
				if o[2].(*dyn.PatchM) != nil {
					p.Nested[f.Name] = o[2].(*dyn.PatchM)
				}
				next = append(next, p)
			}
		}
		out = next
		if len(out) > 6000 {
			out = out[:6000]
		}
	}
	return out
}

var patchRecords = []string{"vt.Leaf", "vt.Inner", "vt.WithDefaults", "vt.IncA", "vt.Tree", "vt.KeyParams", "vt.sub.Other"}

// nullify puts a member with a null value in front of the members of a patch object and of the objects nested in it.
func nullify(tr *refcodec.Tree, depth int) {
	if tr == nil || tr.Kind != "obj" || depth > 3 {
		return
	}
	for _, kv := range tr.Obj {
		nullify(kv.V, depth+1)
	}
	tr.Obj = append([]refcodec.KV{{K: "aNull", V: refcodec.Null()}}, tr.Obj...)
}

func TestC11PartialUpdates(t *testing.T) {
	// (a replay of a C11 file re-runs the complete enumeration: it is seconds long and deterministic)
	rec := stats.For("C11")
	tl := &c11Tally{rec, map[string]int{}, map[string]c11Case{}, map[string]string{}}
	var evaluated int64
	si, sn := hx.ShardIndex()
	idx := 0
	for _, full := range patchRecords {
		n := S.Lookup(*typeByName(full).Ref)
		all := enumeratePatches(n, 0)
		// exclusion specs: none, each top-level field, and one nested path
		specs := [][]string{nil}
		for _, f := range S.AllFields(n) {
			specs = append(specs, []string{f.Name})
			if f.Type.Ref != nil && S.Lookup(*f.Type.Ref).Kind == "record" {
				for _, sf := range S.AllFields(S.Lookup(*f.Type.Ref)) {
					specs = append(specs, []string{f.Name + "/" + sf.Name})
					break
				}
			}
		}
		for _, p := range all {
			for si2, spec := range specs {
				if si2 > 0 && len(all) > 800 && (idx+si2)%7 != 0 {
					continue // large spaces: every patch with no spec, a deterministic seventh of the (patch, spec) pairs
				}
				idx++
				if idx%sn != si {
					continue
				}
				evaluated++
				c := c11Case{Kind: "patch", Type: full, Patch: p, Excl: spec}
				legal := p.Legal()
				var parsed [][]string
				for _, d := range spec {
					parsed = append(parsed, strings.Split(d, "/"))
				}
				touches := p.Touches(parsed, nil)
				// a nested-path spec combined with a wholesale set of the parent is left unasserted (see DESIGN)
				unspecified := false
				for _, q := range parsed {
					if len(q) == 2 {
						if _, ok := p.Sets[q[0]]; ok {
							unspecified = true
						}
						for _, d := range p.Deletes {
							if d == q[0] {
								unspecified = true
							}
						}
					}
				}
				labels := []string{"patch", fmt.Sprintf("legal=%v", legal), fmt.Sprintf("touches_excluded=%v", touches)}
				if len(p.Nested) > 0 {
					labels = append(labels, "nested_patch")
				}
				rec.Case(labels...)
				rec.NonTrivial("patch", full+"|"+p.Canon()+"|"+strings.Join(spec, ","), func() any { return c })
				pv := dyn.BuildPatch(S, n, p)
				var doc string
				var err error
				if pn, pvv, st := hx.Try(func() {
					w := restlicodec.NewCompactJsonWriterWithExcludedFields(restlicodec.NewPathSpec(spec...))
					err = pv.Addr().Interface().(restlicodec.Marshaler).MarshalRestLi(w)
					doc = w.Finalize()
				}); pn {
					tl.fail("patch-encode", c, "panic: %v\n%s", pvv, st)
					continue
				}
				if unspecified {
					continue
				}
				shouldFail := !legal || touches
				switch {
				case shouldFail && err == nil:
					tl.fail("patch-encode", c, "an illegal partial update of %s was emitted (legal=%v touchesExcluded=%v spec=%q): %s -> %s", full, legal, touches, spec, p.Canon(), hx.Q(doc))
				case !shouldFail && err != nil:
					tl.fail("patch-encode", c, "a legal partial update of %s was rejected (spec=%q): %s: %v", full, spec, p.Canon(), err)
				case !shouldFail:
					got, perr := refcodec.ParseJSON([]byte(doc))
					want := refcodec.Obj(refcodec.KV{K: "patch", V: dyn.PatchTree(S, n, p)})
					if perr != nil {
						tl.fail("patch-shape", c, "emitted patch is not well-formed JSON: %v: %s", perr, hx.Q(doc))
					} else if !dyn.SameTree(want, got, false) {
						tl.fail("patch-shape", c, "emitted patch does not have the protocol's patch/$set/$delete shape:\n got =%s\n want=%s", doc, want.String())
					}
				}
				if len(spec) > 0 {
					// "... or touch an excluded field: decoding an equivalent document returns an error": the reference rendering of a
					// legal patch is decoded through a reader carrying the exclusion spec (leading scope 1: the "patch" member, as the
					// server does) - rejected exactly when the patch touches a matching path
					if !legal {
						continue
					}
					for _, withNulls := range []bool{false, true} {
						want := refcodec.Obj(refcodec.KV{K: "patch", V: dyn.PatchTree(S, n, p)})
						if withNulls {
							// the same document with members whose value is null (readers treat them as absent) in front of
							// the others, in the patch object and in every object below it that is not a $delete list
							nullify(want.Get("patch"), 0)
						}
						ref := refcodec.RenderJSON(want, refcodec.JSONOpts{})
						dvp := reflect.New(dyn.PatchTypeOf(full))
						var derr error
						if pn, pvv, st := hx.Try(func() {
							r, e := restlicodec.NewJsonReaderWithExcludedFields([]byte(ref), restlicodec.NewPathSpec(spec...), 1)
							if e != nil {
								derr = e
								return
							}
							derr = dvp.Interface().(restlicodec.Unmarshaler).UnmarshalRestLi(r)
						}); pn {
							tl.fail("patch-decode-excluded", c, "panic: %v\n%s", pvv, st)
							continue
						}
						rec.Label("patch_decoded_with_exclusions", 1)
						switch {
						case touches && derr == nil:
							tl.fail("patch-decode-excluded", c, "a partial update document of %s touching an excluded field was accepted (spec=%q): %s", full, spec, ref)
						case !touches && derr != nil:
							tl.fail("patch-decode-excluded", c, "a partial update document of %s touching no excluded field was rejected (spec=%q): %s: %v", full, spec, ref, derr)
						case !touches:
							if got := dyn.ExtractPatch(S, dvp.Elem(), n); got.Canon() != p.WithDefaults(S, n).Canon() {
								tl.fail("patch-decode-excluded", c, "partial update did not round trip through a reader with exclusions (spec=%q):\n got =%s\n want=%s\n doc=%s", spec, got.Canon(), p.Canon(), ref)
							}
						}
					}
					continue
				}
				// decode the reference rendering of the same patch (no exclusions)
				want := refcodec.Obj(refcodec.KV{K: "patch", V: dyn.PatchTree(S, n, p)})
				ref := refcodec.RenderJSON(want, refcodec.JSONOpts{})
				dvp := reflect.New(dyn.PatchTypeOf(full))
				var derr error
				if pn, pvv, st := hx.Try(func() {
					r, e := restlicodec.NewJsonReader([]byte(ref))
					if e != nil {
						derr = e
						return
					}
					derr = dvp.Interface().(restlicodec.Unmarshaler).UnmarshalRestLi(r)
				}); pn {
					tl.fail("patch-decode", c, "panic: %v\n%s", pvv, st)
					continue
				}
				switch {
				case !legal && derr == nil:
					tl.fail("patch-decode", c, "an illegal partial update document of %s was accepted: %s", full, ref)
				case legal && derr != nil:
					tl.fail("patch-decode", c, "a legal partial update document of %s was rejected: %s: %v", full, ref, derr)
				case legal:
					if got := dyn.ExtractPatch(S, dvp.Elem(), n); got.Canon() != p.WithDefaults(S, n).Canon() {
						tl.fail("patch-decode", c, "partial update did not round trip:\n got =%s\n want=%s\n doc=%s", got.Canon(), p.Canon(), ref)
					}
				}
			}
		}
	}
	rec.Exhaustive("partial-update assignments {delete,set,nested}^fields x exclusion specs", evaluated)
	tl.flush(t)
}

// TestC11PatchDeleteRequired: a partial update document whose $delete list names a required field is rejected
// (its own test function so that a job can select it separately; enumerated once, by shard 0).
func TestC11PatchDeleteRequired(t *testing.T) {
	if i, _ := hx.ShardIndex(); i != 0 {
		t.Skip()
	}
	rec := stats.For("C11")
	tl := &c11Tally{rec, map[string]int{}, map[string]c11Case{}, map[string]string{}}
	var evaluated int64
	for _, full := range patchRecords {
		n := S.Lookup(*typeByName(full).Ref)
		// deleting a required field, and unknown names in $delete
		for _, f := range S.AllFields(n) {
			if !f.Required() {
				continue
			}
			ref := `{"patch":{"$delete":["` + f.Name + `"]}}`
			c := c11Case{Kind: "patch-delete-required", Type: full, Text: ref}
			evaluated++
			rec.Case("patch-delete-required")
			rec.NonTrivial("patch-delete-required", full+"|"+ref, func() any { return c })
			dvp := reflect.New(dyn.PatchTypeOf(full))
			var derr error
			if pn, pvv, st := hx.Try(func() {
				r, _ := restlicodec.NewJsonReader([]byte(ref))
				derr = dvp.Interface().(restlicodec.Unmarshaler).UnmarshalRestLi(r)
			}); pn {
				tl.fail("patch-delete-required", c, "panic: %v\n%s", pvv, st)
				continue
			}
			if derr == nil {
				tl.fail("patch-delete-required", c, "a partial update deleting the required field %s of %s was accepted: %s", f.Name, full, ref)
			}
		}
	}
	rec.Exhaustive("partial updates deleting one required field", evaluated)
	tl.flush(t)
}
