package codecprops

// C04 (codec level) - decoder robustness: no byte sequence or untyped Go value makes a reader, a
// generated unmarshaler or the raw-record decoder panic, hang or index outside its input.

import (
	"encoding/json"
	"fmt"
	"os"
	"reflect"
	"strings"
	"sync/atomic"
	"testing"
	"time"

	"github.com/PapaCharlie/go-restli/v2/restlicodec"
	"github.com/PapaCharlie/go-restli/v2/restlidata"
	"pgregory.net/rapid"

	"verif/HARNESS/dyn"
	"verif/core/aval"
	"verif/core/hx"
	"verif/core/refcodec"
	"verif/core/schema"
	"verif/core/stats"
)

type c04Case struct {
	Entry string `json:"entry"` // ror2 | query | json | any
	Shape string `json:"shape"` // schema type or generic reader operation
	Input string `json:"input"` // hex
}

var c04Shapes = []string{"int32", "string", "bytes", "float64", "bool", "vt.Leaf", "vt.Inner", "vt.Deep", "vt.U", "vt.UNull", "vt.Color", "vt.Fix4",
	"vt.Things_ComplexKey", "vt.Sys24", "vt.Sys47", "vt.Tree", "vt.WithDefaults"}

var c04Generic = []string{"ReadInterface", "Skip", "ReadRawBytes", "ReadMap+Skip", "ReadArray+Skip", "ReadMap+ReadInterface", "RawRecord", "ReadRecord+ReadRawBytes"}

// the watchdog turns a hang into a violation (reported with the input being processed)
var (
	c04Current  atomic.Value // c04Case
	c04Ticks    atomic.Int64
	c04InFlight atomic.Bool // a decode call is running (an idle process - e.g. the coordinator of a fuzz campaign - is not a hang)
)

func startWatchdog(rec *stats.Recorder) func() {
	done := make(chan struct{})
	go func() {
		last := int64(-1)
		stuck := 0
		for {
			select {
			case <-done:
				return
			case <-time.After(5 * time.Second):
			}
			cur := c04Ticks.Load()
			if cur == last && c04InFlight.Load() {
				stuck++
			} else {
				stuck = 0
			}
			last = cur
			if stuck >= 6 { // 30 s without finishing a single decode call
				c, _ := c04Current.Load().(c04Case)
				rec.Violation("hang", "a decoder call did not return within 30 s (process aborted by the watchdog)", c)
				stats.FlushAll()
				os.Exit(1)
			}
		}
	}()
	return func() { close(done) }
}

func genericOp(r restlicodec.Reader, op string) {
	switch op {
	case "ReadInterface":
		_, _ = r.ReadInterface()
	case "Skip":
		_ = r.Skip()
	case "ReadRawBytes":
		_, _ = r.ReadRawBytes()
	case "ReadMap+Skip":
		_ = r.ReadMap(func(r restlicodec.Reader, k string) error { return r.Skip() })
	case "ReadArray+Skip":
		_ = r.ReadArray(func(r restlicodec.Reader) error { return r.Skip() })
	case "ReadMap+ReadInterface":
		_ = r.ReadMap(func(r restlicodec.Reader, k string) error { _, e := r.ReadInterface(); return e })
	case "ReadRecord+ReadRawBytes":
		_ = r.ReadRecord(requiredFieldsOf("a"), func(r restlicodec.Reader, k string) error { _, e := r.ReadRawBytes(); return e })
	case "RawRecord":
		var rr restlidata.RawRecord
		if err := rr.UnmarshalRestLi(r); err == nil {
			var leaf = reflect.New(dyn.TypeOf("vt.Leaf")).Interface().(restlicodec.Unmarshaler)
			_ = rr.UnmarshalTo(leaf)
		}
	default:
		panic("op " + op)
	}
}

// decodeHostile feeds input to one entry point / shape. Returns a violation message or "".
func decodeHostile(c c04Case, input string) (msg string) {
	c04Current.Store(c)
	c04InFlight.Store(true)
	defer func() { c04InFlight.Store(false); c04Ticks.Add(1) }()
	run := func(r restlicodec.Reader) {
		if strings.Contains(c.Shape, "+") || c.Shape == "ReadInterface" || c.Shape == "Skip" || c.Shape == "ReadRawBytes" || c.Shape == "RawRecord" {
			genericOp(r, c.Shape)
			return
		}
		_, _ = dyn.Unmarshal(S, typeByName(c.Shape), r)
	}
	p, pv, st := hx.Try(func() {
		switch c.Entry {
		case "ror2":
			r, err := restlicodec.NewRor2Reader(input)
			if err == nil {
				run(r)
			}
		case "json":
			r, err := restlicodec.NewJsonReader([]byte(input))
			if err == nil {
				run(r)
			}
		case "query":
			q, err := restlicodec.ParseQueryParams(input)
			if err != nil {
				return
			}
			// every parameter through the shape, and the whole query as the fields of a record
			for _, k := range sortedKeys(q) {
				run(q[k])
			}
			if t := typeOrNil(c.Shape); t != nil && isRecord(*t) {
				_, _ = decode(*t, input, "query-fields")
			}
		default:
			panic("entry " + c.Entry)
		}
	})
	if p {
		return fmt.Sprintf("%s decoder (%s) panicked on input %s: %v\n%s", c.Entry, c.Shape, hx.Q(input), pv, firstFrames(st))
	}
	return ""
}

func firstFrames(st string) string {
	lines := strings.Split(st, "\n")
	var keep []string
	for _, l := range lines {
		if strings.HasPrefix(l, "\t") {
			continue // file:line +offset lines
		}
		if strings.Contains(l, "go-restli") || strings.Contains(l, "gen/codec") {
			if i := strings.LastIndex(l, "("); i > 0 {
				l = l[:i] // drop the argument words (addresses)
			}
			keep = append(keep, strings.TrimSpace(l))
		}
		if len(keep) >= 5 {
			break
		}
	}
	return strings.Join(keep, "\n")
}

// lastLine picks the innermost go-restli frame of a violation message (its second line) as the grouping key.
func lastLine(parts []string) string {
	if len(parts) >= 2 {
		return parts[1]
	}
	return parts[0]
}

func sortedKeys(q restlicodec.QueryParamsReader) []string {
	ks := make([]string, 0, len(q))
	for k := range q {
		ks = append(ks, k)
	}
	for i := 1; i < len(ks); i++ {
		for j := i; j > 0 && ks[j] < ks[j-1]; j-- {
			ks[j], ks[j-1] = ks[j-1], ks[j]
		}
	}
	return ks
}

func typeOrNil(name string) *schema.Type {
	for _, t := range roots {
		if t.String() == name {
			return &t
		}
	}
	return nil
}

var ror2Tokens = []string{"(", ")", ",", ":", "'", "List(", "a", "1", "%"}

func TestC04ShortStrings(t *testing.T) {
	rec := stats.For("C04")
	if hx.Replaying() {
		t.Skip()
	}
	stop := startWatchdog(rec)
	defer stop()
	maxLen := stats.Scale(5, 6)
	si, sn := hx.ShardIndex()
	shapes := append(append([]string(nil), c04Shapes...), c04Generic...)
	type fail struct {
		c   c04Case
		msg string
		n   int
	}
	fails := map[string]*fail{}
	var n int64
	var gen func(prefix string, depth int, idx *int)
	gen = func(prefix string, depth int, idx *int) {
		*idx++
		if *idx%sn == si {
			nontrivial := prefix != "" && (strings.ContainsAny(prefix[:1], "(L") || strings.ContainsAny(prefix, "(),:'"))
			for _, entry := range []string{"ror2", "query"} {
				input := prefix
				if entry == "query" {
					input = "p=" + prefix
				}
				for _, sh := range shapes {
					c := c04Case{Entry: entry, Shape: sh, Input: fmt.Sprintf("%x", input)}
					n++
					if msg := decodeHostile(c, input); msg != "" {
						key := entry + "/" + lastLine(strings.SplitN(msg, "\n", 3))
						if f := fails[key]; f == nil || len(input) < len(f.c.Input)/2 {
							cnt := 0
							if f != nil {
								cnt = f.n
							}
							fails[key] = &fail{c, msg, cnt + 1}
						} else {
							f.n++
						}
					}
				}
			}
			rec.Case("short_string", fmt.Sprintf("len_tokens=%d", depth))
			if nontrivial {
				rec.NonTrivial("short_string", "s|"+prefix, func() any { return map[string]any{"input": prefix} })
			}
		}
		if depth == maxLen {
			return
		}
		for _, tk := range ror2Tokens {
			gen(prefix+tk, depth+1, idx)
		}
	}
	idx := 0
	gen("", 0, &idx)
	rec.Exhaustive(fmt.Sprintf("all strings of <= %d tokens over %v x {ror2, query} x %d shapes", maxLen, ror2Tokens, len(shapes)), n)
	i := 0
	for _, f := range fails {
		msg := fmt.Sprintf("[%d failing inputs with this stack; shortest shown] %s", f.n, f.msg)
		rec.Violation(fmt.Sprintf("short-string-%d", i), msg, f.c)
		t.Error(msg)
		i++
	}
}

// ---------------------------------------------------------------------------------------------
// mutations of valid encodings

type mutCase struct {
	valCase
	Entry string `json:"entry"`
	Doc   string `json:"doc"` // hex of the mutated document
	Op    string `json:"op"`
}

var mutChars = []string{"(", ")", ",", ":", "'", "%", "&", "=", "+", "\"", "\\", "{", "}", "[", "]", "List(", "''", "%2", "%zz", "\x00", "\xff", "null", "e", "-", ".", " ", "\\u", "\\ud800", "1e999", "$set", "$delete", "$params"}

func mutateDoc(rt *rapid.T, doc string) (string, string) {
	if len(doc) == 0 {
		return rapid.SampledFrom(mutChars).Draw(rt, "ins"), "insert"
	}
	switch rapid.IntRange(0, 5).Draw(rt, "mop") {
	case 0:
		n := rapid.IntRange(0, len(doc)-1).Draw(rt, "cut")
		return doc[:n], "truncate"
	case 1:
		i := rapid.IntRange(0, len(doc)-1).Draw(rt, "del")
		return doc[:i] + doc[i+1:], "delete"
	case 2:
		i := rapid.IntRange(0, len(doc)).Draw(rt, "at")
		return doc[:i] + rapid.SampledFrom(mutChars).Draw(rt, "ins") + doc[i:], "insert"
	case 3:
		i := rapid.IntRange(0, len(doc)-1).Draw(rt, "at")
		return doc[:i] + rapid.SampledFrom(mutChars).Draw(rt, "rep") + doc[i+1:], "replace"
	case 4:
		i := rapid.IntRange(0, len(doc)-1).Draw(rt, "from")
		return doc[i:], "drop_prefix"
	default:
		i := rapid.IntRange(0, len(doc)-1).Draw(rt, "a")
		j := rapid.IntRange(0, len(doc)-1).Draw(rt, "b")
		if i > j {
			i, j = j, i
		}
		return doc[:i] + doc[j:] + doc[i:j], "rotate"
	}
}

func TestC04Mutations(t *testing.T) {
	rec := stats.For("C04")
	g := &aval.Gen{S: S, MaxDepth: 3}
	if c, ok := hx.Replay[c04Case]("C04", ""); ok {
		var in []byte
		fmt.Sscanf(c.Input, "%x", &in)
		if msg := decodeHostile(c, string(in)); msg != "" {
			rec.Violation("replay", msg, c)
			t.Fatal(msg)
		}
		return
	}
	stop := startWatchdog(rec)
	defer stop()
	rapid.Check(t, func(rt *rapid.T) {
		format := rapid.SampledFrom([]string{"json", "pretty", "header", "path", "query"}).Draw(rt, "format")
		ty := drawType(rt, roots)
		v := g.Value(rt, ty, 0)
		rv := dyn.Build(S, ty, v, dyn.BuildOpts{})
		doc, err := encode(ty, rv, format, nil)
		if err != nil {
			rt.Skip()
		}
		mutated, op := doc, "none"
		if format != "query" && rapid.IntRange(0, 3).Draw(rt, "structural") == 0 {
			// a structural mutation first: one member of some object of the document occurs twice (same key, its own value
			// again or a sibling's), rendered by the reference encoder
			ror2 := format != "json" && format != "pretty"
			tr := refcodec.TreeOf(S, ty, v, refcodec.Opts{Bytes: refcodec.RawUTF8, ROR2: ror2})
			var objs []*refcodec.Tree
			var walk func(x *refcodec.Tree)
			walk = func(x *refcodec.Tree) {
				if x == nil {
					return
				}
				if x.Kind == "obj" && len(x.Obj) > 0 {
					objs = append(objs, x)
				}
				for _, kv := range x.Obj {
					walk(kv.V)
				}
				for _, y := range x.Arr {
					walk(y)
				}
			}
			walk(tr)
			if len(objs) > 0 {
				o := objs[rapid.IntRange(0, len(objs)-1).Draw(rt, "dupobj")]
				m := o.Obj[rapid.IntRange(0, len(o.Obj)-1).Draw(rt, "dupmember")]
				val := o.Obj[rapid.IntRange(0, len(o.Obj)-1).Draw(rt, "dupvalue")].V.Clone()
				at := rapid.IntRange(0, len(o.Obj)).Draw(rt, "dupat")
				o.Obj = append(o.Obj[:at:at], append([]refcodec.KV{{K: m.K, V: val}}, o.Obj[at:]...)...)
				if ror2 {
					mutated = refcodec.RenderROR2(tr, refcodec.ROR2Opts{Flavour: flavourOf(format)})
				} else {
					mutated = refcodec.RenderJSON(tr, refcodec.JSONOpts{})
				}
				op = "duplicate_member"
			}
		}
		for i := rapid.IntRange(0, 2).Draw(rt, "nmut"); i > 0 || op == "none"; i-- {
			var bop string
			mutated, bop = mutateDoc(rt, mutated)
			if op == "duplicate_member" {
				op = "duplicate_member+" + bop
			} else {
				op = bop
			}
			if i <= 0 {
				break
			}
		}
		entry := map[string]string{"json": "json", "pretty": "json", "header": "ror2", "path": "ror2", "query": "query"}[format]
		shape := ty.String()
		if rapid.IntRange(0, 4).Draw(rt, "generic") == 0 {
			shape = rapid.SampledFrom(c04Generic).Draw(rt, "gop")
		} else if rapid.IntRange(0, 5).Draw(rt, "othershape") == 0 {
			shape = rapid.SampledFrom(c04Shapes).Draw(rt, "shape") // a document of one type read as another
		}
		c := c04Case{Entry: entry, Shape: shape, Input: fmt.Sprintf("%x", mutated)}
		rec.Case("mutation", "op="+op, "entry="+entry)
		if mutated != doc {
			rec.NonTrivial("mutation/"+entry, entry+"|"+shape+"|"+mutated, func() any { return map[string]any{"entry": entry, "shape": shape, "input": hx.Q(mutated), "op": op} })
		}
		if msg := decodeHostile(c, mutated); msg != "" {
			rec.Violation("mutation", msg, c)
			rt.Fatalf("property violated (details in the replay file)")
		}
	})
}

// ---------------------------------------------------------------------------------------------
// untyped Go values

type anyCase struct {
	Desc  string `json:"value"`
	Shape string `json:"shape"`
}

type namedArray [2]byte
type namedBytes []byte

func genAny(rt *rapid.T, depth int) (any, string) {
	k := rapid.IntRange(0, 29).Draw(rt, "anykind")
	if depth >= 3 && k >= 14 && k <= 22 {
		k = k % 14
	}
	switch k {
	case 23:
		return [4]byte{'f', 'i', 'x', '4'}, "[4]byte"
	case 24:
		return namedArray{1, 2}, "named [2]byte"
	case 25:
		a := [3]byte{7, 8, 9}
		return &a, "*[3]byte"
	case 26:
		return [][2]byte{{1, 2}, {3, 4}}, "[][2]byte"
	case 27:
		return map[string][1]byte{"s": {65}, "k": {66}}, "map[string][1]byte"
	case 28:
		return namedBytes("named"), "named []byte"
	case 29:
		return json.RawMessage(`{"s":"x"}`), "json.RawMessage"
	case 0:
		return nil, "nil"
	case 1:
		return rapid.SampledFrom(aval.HostileStrings).Draw(rt, "s"), "string"
	case 2:
		return rapid.Int64().Draw(rt, "i"), "int64"
	case 3:
		return rapid.Float64().Draw(rt, "f"), "float64"
	case 4:
		return rapid.Bool().Draw(rt, "b"), "bool"
	case 5:
		return []byte(rapid.SampledFrom(aval.HostileStrings).Draw(rt, "bs")), "[]byte"
	case 6:
		var p *int
		return p, "(*int)(nil)"
	case 7:
		x := rapid.Int32().Draw(rt, "pi")
		return &x, "*int32"
	case 8:
		return make(chan int), "chan"
	case 9:
		return func() {}, "func"
	case 10:
		return struct{ A int }{1}, "struct"
	case 11:
		return map[int]string{1: "a"}, "map[int]string"
	case 12:
		var m map[string]any
		return m, "nil map"
	case 13:
		return uint8(rapid.IntRange(0, 255).Draw(rt, "u8")), "uint8"
	case 14, 15, 16, 17:
		n := rapid.IntRange(0, 3).Draw(rt, "mlen")
		m := map[string]any{}
		desc := "map{"
		for i := 0; i < n; i++ {
			key := rapid.SampledFrom([]string{"s", "i", "leaf", "n", "leaves", "byName", "req", "opt", "", "$set", "a.b", "x"}).Draw(rt, "mk")
			v, d := genAny(rt, depth+1)
			m[key] = v
			desc += key + ":" + d + ","
		}
		return m, desc + "}"
	case 18, 19, 20:
		n := rapid.IntRange(0, 3).Draw(rt, "alen")
		a := make([]any, 0, n)
		desc := "[]any{"
		for i := 0; i < n; i++ {
			v, d := genAny(rt, depth+1)
			a = append(a, v)
			desc += d + ","
		}
		return a, desc + "}"
	case 21:
		v, d := genAny(rt, depth+1)
		return &v, "*any(" + d + ")"
	default:
		return []string{"a", "b"}, "[]string"
	}
}

func TestC04Untyped(t *testing.T) {
	rec := stats.For("C04")
	if hx.Replaying() {
		t.Skip()
	}
	defer startWatchdog(rec)()
	rapid.Check(t, func(rt *rapid.T) {
		v, desc := genAny(rt, 0)
		shape := rapid.SampledFrom(append(append([]string(nil), c04Shapes...), "ReadInterface", "Skip", "ReadMap+Skip", "ReadArray+Skip", "RawRecord", "ReadRecord+ReadRawBytes")).Draw(rt, "shape")
		rec.Case("untyped", "shape_kind="+strings.SplitN(desc, "{", 2)[0])
		rec.NonTrivial("untyped", shape+"|"+desc, func() any { return anyCase{desc, shape} })
		c04Current.Store(c04Case{Entry: "any", Shape: shape, Input: desc})
		c04InFlight.Store(true)
		p, pv, st := hx.Try(func() {
			defer func() { c04InFlight.Store(false); c04Ticks.Add(1) }()
			r := restlicodec.NewInterfaceReader(v)
			if ty := typeOrNil(shape); ty != nil {
				_, _ = dyn.Unmarshal(S, *ty, r)
			} else {
				genericOp(r, shape)
			}
		})
		if p {
			msg := fmt.Sprintf("untyped-value reader (%s) panicked on %s: %v\n%s", shape, desc, pv, firstFrames(st))
			rec.Violation("untyped", msg, anyCase{desc, shape})
			rt.Fatalf("property violated (details in the replay file)")
		}
	})
}

var _ = refcodec.Str
