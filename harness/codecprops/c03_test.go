package codecprops

// C03 - wire-format conformance against the independent reference codec (verif/core/refcodec).
//
// emit:   every document the library writes must be accepted by the strict reference parser, be safe in
//         its context (URL path / query), and denote exactly the value that was serialised.
// accept: every conforming document denoting a valid value - any key order, unknown extra fields, JSON
//         nulls for absent optionals, insignificant whitespace, alternative legal escapes and number
//         spellings, full percent-encoding - must be accepted and yield that value.

import (
	"fmt"
	"strings"
	"testing"

	"pgregory.net/rapid"

	"verif/HARNESS/dyn"
	"verif/core/aval"
	"verif/core/hx"
	"verif/core/kf"
	"verif/core/refcodec"
	"verif/core/schema"
	"verif/core/stats"
)

func hasHighBytes(v *aval.V) bool {
	found := false
	v.Walk(func(x *aval.V) {
		if x.Kind == "bytes" || x.Kind == "fixed" {
			for _, c := range x.Bytes() {
				if c >= 0x80 {
					found = true
				}
			}
		}
	})
	return found
}

func flavourOf(format string) refcodec.Flavour {
	switch format {
	case "path":
		return refcodec.Path
	case "query", "query-fields":
		return refcodec.Query
	}
	return refcodec.Header
}

// refParse parses a library-emitted document with the reference parser into a tree.
func refParse(doc, format string) (*refcodec.Tree, error) {
	switch format {
	case "json", "pretty":
		return refcodec.ParseJSON([]byte(doc))
	case "header", "path":
		if err := refcodec.CheckROR2Context(doc, flavourOf(format)); err != nil {
			return nil, err
		}
		return refcodec.ParseROR2(doc)
	case "query":
		if !strings.HasPrefix(doc, "p=") {
			return nil, fmt.Errorf("query %q does not consist of the parameter p", doc)
		}
		if err := refcodec.CheckROR2Context(doc[2:], refcodec.Query); err != nil {
			return nil, err
		}
		return refcodec.ParseROR2(doc[2:])
	case "query-fields":
		obj := refcodec.Obj()
		if doc == "" {
			return obj, nil
		}
		prev := ""
		for _, part := range strings.Split(doc, "&") {
			k, v, ok := strings.Cut(part, "=")
			if !ok {
				return nil, fmt.Errorf("query part %q has no '='", part)
			}
			if prev != "" && k <= prev {
				return nil, fmt.Errorf("query parameters not in ascending order / duplicated: %q after %q", k, prev)
			}
			prev = k
			if err := refcodec.CheckROR2Context(v, refcodec.Query); err != nil {
				return nil, err
			}
			t, err := refcodec.ParseROR2(v)
			if err != nil {
				return nil, fmt.Errorf("parameter %s: %w", k, err)
			}
			obj.Obj = append(obj.Obj, refcodec.KV{K: k, V: t})
		}
		return obj, nil
	}
	panic("format " + format)
}

func checkEmit(rec *stats.Recorder, c valCase) (msg string, known string) {
	t := typeByName(c.Type)
	v := c.Value
	rv := dyn.Build(S, t, v, dyn.BuildOpts{EmptyAsNil: c.NilEmpty})
	classes := append(labelsOf(t, v, c.Format), "direction=emit")
	if c.NilEmpty {
		classes = append(classes, "encoder_given_nil_collections")
	}
	if c.AfterFailure > 0 {
		classes = append(classes, "after_failed_marshal")
		failedMarshal(c.AfterFailure)
	}
	rec.Case(classes...)
	if nonTrivial(classes) {
		rec.NonTrivial("emit/"+c.Format, "emit|"+c.Type+"|"+c.Format+"|"+v.Canon(), func() any { return c })
	}
	var doc string
	var err error
	if p, pv, st := hx.Try(func() { doc, err = encode(t, rv, c.Format, nil) }); p {
		return fmt.Sprintf("encoder panicked: %v\n%s", pv, st), ""
	}
	if err != nil {
		return fmt.Sprintf("encoding a valid value failed: %v", err), ""
	}
	ror2 := c.Format != "json" && c.Format != "pretty"
	fail := func(what string) (string, string) {
		return fmt.Sprintf("%s\n type=%s format=%s\n document=%s\n value=%s", what, c.Type, c.Format, hx.Q(doc), v.Canon()), ""
	}
	tree, err := refParse(doc, c.Format)
	if err != nil {
		return fail("the reference parser rejects the emitted document: " + err.Error())
	}
	got, err := refcodec.FromTree(S, t, tree, refcodec.Opts{Bytes: refcodec.Protocol, ROR2: ror2, Strict: true})
	if err == nil {
		if d := aval.Diff(v, got, ""); d == "" {
			return "", ""
		} else {
			err = fmt.Errorf("it denotes a different value: %s (reference reading: %s)", d, got.Canon())
		}
	}
	// signature of KF-C03-bytes-utf8: some bytes/fixed leaf holds a byte >= 0x80 and the document is the UTF-8 reading
	if hasHighBytes(v) && kf.Open("KF-C03-bytes-utf8") {
		if got2, err2 := refcodec.FromTree(S, t, tree, refcodec.Opts{Bytes: refcodec.RawUTF8, ROR2: ror2, LenientFixed: true, Strict: true}); err2 == nil {
			sv, _, _ := sanitizeUTF8(v)
			if aval.Equal(v, got2) || (!ror2 && aval.Equal(sv, got2)) {
				return "", "KF-C03-bytes-utf8"
			}
		}
	}
	return fail("the emitted document does not denote the serialised value under the reference reading: " + err.Error())
}

// acceptCase adds the document variation to a value case.
type acceptCase struct {
	valCase
	Perm      []int    `json:"perm"`      // drives key permutations
	Unknown   int      `json:"unknown"`   // number of unknown fields to inject
	Variation string   `json:"variation"` // compact pretty escape-all escape-slash alt-numbers nulls
	Doc       string   `json:"doc,omitempty"`
}

var unknownValues = []func() *refcodec.Tree{
	func() *refcodec.Tree { return refcodec.Str("x(y),z:'%") },
	func() *refcodec.Tree { return refcodec.Num("12") },
	func() *refcodec.Tree { return refcodec.Bool(true) },
	func() *refcodec.Tree { return refcodec.Obj() },
	func() *refcodec.Tree { return refcodec.Arr() },
	func() *refcodec.Tree {
		return refcodec.Obj(refcodec.KV{K: "a", V: refcodec.Arr(refcodec.Obj(refcodec.KV{K: "b", V: refcodec.Str("")}), refcodec.Arr())}, refcodec.KV{K: "s", V: refcodec.Str("List(")})
	},
	func() *refcodec.Tree { return refcodec.Arr(refcodec.Num("1"), refcodec.Arr(refcodec.Str("a,b")), refcodec.Obj(refcodec.KV{K: "k", V: refcodec.Num("2")})) },
}

// mutateTree applies key permutation, unknown-field injection and (JSON only) null members for absent
// optional fields to the wire tree of a value of type t. Only record objects get unknown / null members.
func mutateTree(t schema.Type, tr *refcodec.Tree, perm []int, unknown *int, nulls bool, ror2 bool, pi *int) {
	next := func(n int) int {
		if n <= 0 || len(perm) == 0 {
			return 0
		}
		x := perm[*pi%len(perm)]
		*pi++
		if x < 0 {
			x = -x
		}
		return x % n
	}
	shuffle := func(kvs []refcodec.KV) {
		for i := len(kvs) - 1; i > 0; i-- {
			j := next(i + 1)
			kvs[i], kvs[j] = kvs[j], kvs[i]
		}
	}
	switch {
	case t.Prim != "":
		return
	case t.Array != nil:
		for _, x := range tr.Arr {
			mutateTree(*t.Array, x, perm, unknown, nulls, ror2, pi)
		}
		return
	case t.Map != nil:
		for _, kv := range tr.Obj {
			mutateTree(*t.Map, kv.V, perm, unknown, nulls, ror2, pi)
		}
		shuffle(tr.Obj)
		return
	}
	n := S.Lookup(*t.Ref)
	switch n.Kind {
	case "record", "complexkey":
		for _, f := range S.AllFields(n) {
			if x := tr.Get(f.Name); x != nil {
				mutateTree(f.Type, x, perm, unknown, nulls, ror2, pi)
			} else if nulls && !ror2 && !f.Required() && next(2) == 0 {
				tr.Obj = append(tr.Obj, refcodec.KV{K: f.Name, V: refcodec.Null()})
			}
		}
		for *unknown > 0 && next(3) != 0 {
			*unknown--
			name := []string{"zzUnknown", "$unknown", "unknown field", "aaa", "Unknown_2"}[next(5)]
			if tr.Get(name) == nil {
				tr.Obj = append(tr.Obj, refcodec.KV{K: name, V: unknownValues[next(len(unknownValues))]()})
			}
		}
		shuffle(tr.Obj)
	case "union":
		if len(tr.Obj) == 1 {
			for _, m := range n.Members {
				if m.Alias == tr.Obj[0].K {
					mutateTree(m.Type, tr.Obj[0].V, perm, unknown, nulls, ror2, pi)
				}
			}
		}
	}
}

func renderAccept(c acceptCase, t schema.Type, bytesMode refcodec.BytesMode) (doc string, ok bool) {
	ror2 := c.Format != "json" && c.Format != "pretty"
	tr := refcodec.TreeOf(S, t, c.Value, refcodec.Opts{Bytes: bytesMode, ROR2: ror2, AltNumbers: c.Variation == "alt-numbers"})
	unknown := c.Unknown
	pi := 0
	mutateTree(t, tr, c.Perm, &unknown, c.Variation == "nulls", ror2, &pi)
	if !ror2 {
		if !refcodec.ValidForJSON(tr) {
			return "", false
		}
		return refcodec.RenderJSON(tr, refcodec.JSONOpts{Pretty: c.Variation == "pretty", EscapeAll: c.Variation == "escape-all", EscapeSlash: c.Variation == "escape-slash"}), true
	}
	o := refcodec.ROR2Opts{Flavour: flavourOf(c.Format), EscapeAll: c.Variation == "escape-all"}
	switch c.Format {
	case "query":
		return "p=" + refcodec.RenderROR2(tr, o), true
	case "query-fields":
		var parts []string
		for _, kv := range tr.Obj {
			parts = append(parts, kv.K+"="+refcodec.RenderROR2(kv.V, o))
		}
		return strings.Join(parts, "&"), true
	}
	return refcodec.RenderROR2(tr, o), true
}

func checkAccept(rec *stats.Recorder, c acceptCase) (msg string, known string) {
	t := typeByName(c.Type)
	v := c.Value
	doc, ok := renderAccept(c, t, refcodec.Protocol)
	if c.Variation == "fuzz" {
		doc, ok = c.Doc, true // a document found by the native fuzz job (replay)
	}
	if !ok {
		return "", "" // not denotable in JSON (generator does not produce these)
	}
	classes := append(labelsOf(t, v, c.Format), "direction=accept", "variation="+c.Variation)
	if c.Unknown > 0 {
		classes = append(classes, "unknown_fields")
	}
	rec.Case(classes...)
	rec.NonTrivial("accept/"+c.Format+"/"+c.Variation, "accept|"+c.Format+"|"+doc, func() any { c.Doc = doc; return c })
	wantOf := func(v *aval.V) *aval.V {
		want := fillDefaults(t, v)
		if c.Format == "query-fields" {
			for _, f := range S.AllFields(S.Lookup(*t.Ref)) {
				if _, set := v.Flds[f.Name]; !set && f.Default != nil {
					delete(want.Flds, f.Name)
				}
			}
		}
		return want
	}
	want := wantOf(v)
	fail := func(what string, got *aval.V) (string, string) {
		// signature of KF-C03-bytes-utf8 in this direction: the document spells a byte >= 0x80 as the code point of that value,
		// the library takes the UTF-8 bytes of that code point - the value it arrives at is v with every such byte doubled
		// into its UTF-8 form; a fixed leaf that grew that way is rejected for its size
		if hasHighBytes(v) && kf.Open("KF-C03-bytes-utf8") {
			ev, fixedGrew := utf8ReadingOfBytes(v)
			if (got == nil && fixedGrew) || (got != nil && !fixedGrew && aval.Equal(wantOf(ev), got)) {
				return "", "KF-C03-bytes-utf8"
			}
		}
		return fmt.Sprintf("%s\n type=%s format=%s variation=%s\n document=%s\n value=%s", what, c.Type, c.Format, c.Variation, hx.Q(doc), want.Canon()), ""
	}
	rv := dyn.Build(S, t, v, dyn.BuildOpts{})
	var err error
	if p, pv, st := hx.Try(func() { rv, err = decode(t, doc, c.Format) }); p {
		return fmt.Sprintf("decoder panicked on a conforming document: %v\n%s\n document=%s", pv, st, hx.Q(doc)), ""
	}
	if err != nil {
		return fail("a conforming document was rejected: "+err.Error(), nil)
	}
	got := dyn.Extract(S, t, rv)
	if d := aval.Diff(want, got, ""); d != "" {
		return fail("a conforming document was decoded to a different value: "+d+"\n got="+got.Canon(), got)
	}
	return "", ""
}

// utf8ReadingOfBytes is v with every bytes / fixed leaf replaced by the UTF-8 encoding of its bytes taken as code points
// U+0000-U+00FF; fixedGrew: a fixed leaf changed its length that way.
func utf8ReadingOfBytes(v *aval.V) (out *aval.V, fixedGrew bool) {
	out = v.Clone()
	out.Walk(func(x *aval.V) {
		if x.Kind == "bytes" || x.Kind == "fixed" {
			b := x.Bytes()
			rs := make([]rune, len(b))
			for i, c := range b {
				rs[i] = rune(c)
			}
			nb := []byte(string(rs))
			if len(nb) != len(b) {
				k := x.Kind
				if k == "fixed" {
					fixedGrew = true
				}
				*x = *aval.Bytes(nb)
				x.Kind = k
			}
		}
	})
	return
}

func TestC03Emit(t *testing.T) {
	g := &aval.Gen{S: S, MaxDepth: 4}
	runValueProperty(t, "C03", "emit", func(rt *rapid.T) valCase { return genValCase(rt, g, true) }, checkEmit)
}

func TestC03Accept(t *testing.T) {
	g := &aval.Gen{S: S, MaxDepth: 4}
	rec := stats.For("C03")
	if c, ok := hx.Replay[acceptCase]("C03", "accept"); ok {
		if msg, _ := checkAccept(rec, c); msg != "" {
			rec.Violation("accept", msg, c)
			t.Fatal(msg)
		}
		return
	} else if hx.Replaying() {
		t.Skip()
	}
	rapid.Check(t, func(rt *rapid.T) {
		c := acceptCase{valCase: genValCase(rt, g, true)}
		c.Perm = rapid.SliceOfN(rapid.IntRange(0, 1000), 1, 24).Draw(rt, "perm")
		c.Unknown = rapid.IntRange(0, 3).Draw(rt, "unknown")
		vars := []string{"compact", "pretty", "escape-all", "escape-slash", "alt-numbers", "nulls"}
		if c.Format != "json" && c.Format != "pretty" {
			vars = []string{"compact", "escape-all"}
		}
		c.Variation = rapid.SampledFrom(vars).Draw(rt, "variation")
		msg, known := checkAccept(rec, c)
		if known != "" {
			rec.Known(known, kf.What(known), c)
			return
		}
		if msg != "" {
			rec.Violation("accept", msg, c)
			rt.Fatalf("property violated (details in the replay file)")
		}
	})
}
