package codecprops

// C11 below the root: the constraint violations of TestC11Unions / TestC11Fixed / TestC11Enums placed inside a record -
// directly in a field, as an item of an array field, as a value of a map field - for every record of the corpus that has
// such a field. Encoding a Go value that holds an unset union or an illegal enum constant at that position must fail;
// decoding a document that holds a union with no or two members, or a fixed of the wrong size, there must fail.

import (
	"fmt"
	"strings"
	"testing"

	"verif/HARNESS/dyn"
	"verif/core/aval"
	"verif/core/hx"
	"verif/core/refcodec"
	"verif/core/schema"
	"verif/core/stats"
)

func TestC11Nested(t *testing.T) {
	if i, _ := hx.ShardIndex(); i != 0 {
		t.Skip() // small space: enumerated once, by shard 0
	}
	rec := stats.For("C11")
	tl := &c11Tally{rec, map[string]int{}, map[string]c11Case{}, map[string]string{}}
	var evaluated int64
	for _, rn := range S.ByKind("record") {
		rty := schema.RI(rn.Ident)
		for _, f := range S.AllFields(rn) {
			elem, via := f.Type, "field"
			switch {
			case f.Type.Array != nil:
				elem, via = *f.Type.Array, "array item"
			case f.Type.Map != nil:
				elem, via = *f.Type.Map, "map value"
			}
			if elem.Ref == nil {
				continue
			}
			en := S.Lookup(*elem.Ref)
			if en.Kind != "union" && en.Kind != "enum" && en.Kind != "fixed" {
				continue
			}
			wrapV := func(x *aval.V) *aval.V {
				switch via {
				case "array item":
					return aval.Array(sampleValue(elem, false), x)
				case "map value":
					return aval.Map().Put("k", sampleValue(elem, false)).Put("bad", x)
				}
				return x
			}
			wrapT := func(x *refcodec.Tree, ror2 bool) *refcodec.Tree {
				good := refcodec.TreeOf(S, elem, sampleValue(elem, false), refcodec.Opts{Bytes: refcodec.RawUTF8, ROR2: ror2})
				switch via {
				case "array item":
					return refcodec.Arr(good, x)
				case "map value":
					return refcodec.Obj(refcodec.KV{K: "k", V: good}, refcodec.KV{K: "bad", V: x})
				}
				return x
			}
			base := sampleValue(rty, false)
			// ---- encode: an abstract value can hold an unset union and the unknown enum constant ----
			var badV *aval.V
			switch {
			case en.Kind == "union" && !en.HasNull:
				badV = &aval.V{Kind: "union"}
			case en.Kind == "enum":
				badV = aval.Enum("")
			}
			if badV != nil {
				v := base.Clone()
				v.Flds[f.Name] = wrapV(badV)
				for _, format := range []string{"json", "header"} {
					c := c11Case{Kind: "nested-encode", Type: rn.Full(), Format: format, Text: f.Name + " (" + via + " of " + en.Full() + ")"}
					evaluated++
					rec.Case("nested-encode", "via="+strings.ReplaceAll(via, " ", "_"), "constraint="+en.Kind)
					rec.NonTrivial("nested-encode", hx.J(c), func() any { return c })
					var err error
					var doc string
					if p, pv, st := hx.Try(func() {
						rv := dyn.Build(S, rty, v, dyn.BuildOpts{})
						doc, err = encode(rty, rv, format, nil)
					}); p {
						tl.fail("nested-encode", c, "panic: %v\n%s", pv, st)
						continue
					}
					if err == nil {
						tl.fail("nested-encode", c, "a %s holding an illegal %s (%s) as %s of field %s was emitted: %s", rn.Full(), en.Kind, en.Full(), via, f.Name, hx.Q(doc))
					}
				}
			}
			// ---- decode: documents can also hold a union with two members and a fixed of the wrong size ----
			for _, format := range []string{"json", "header"} {
				ror2 := format == "header"
				var bads []*refcodec.Tree
				switch en.Kind {
				case "union":
					if !en.HasNull {
						bads = append(bads, refcodec.Obj())
					}
					if len(en.Members) >= 2 {
						two := refcodec.Obj()
						for _, m := range en.Members[:2] {
							two.Obj = append(two.Obj, refcodec.KV{K: m.Alias, V: refcodec.TreeOf(S, m.Type, sampleValue(m.Type, false), refcodec.Opts{Bytes: refcodec.RawUTF8, ROR2: ror2})})
						}
						bads = append(bads, two)
					}
				case "fixed":
					bads = append(bads, refcodec.Str(strings.Repeat("f", en.Size+1)), refcodec.Str(strings.Repeat("f", en.Size-1)))
				}
				for bi, bad := range bads {
					tr := refcodec.TreeOf(S, rty, base, refcodec.Opts{Bytes: refcodec.RawUTF8, ROR2: ror2})
					tr.Del(f.Name)
					tr.Obj = append(tr.Obj, refcodec.KV{K: f.Name, V: wrapT(bad, ror2)})
					var doc string
					if ror2 {
						doc = refcodec.RenderROR2(tr, refcodec.ROR2Opts{Flavour: refcodec.Header})
					} else {
						doc = refcodec.RenderJSON(tr, refcodec.JSONOpts{})
					}
					c := c11Case{Kind: "nested-decode", Type: rn.Full(), Format: format, N: bi, Text: doc}
					evaluated++
					rec.Case("nested-decode", "via="+strings.ReplaceAll(via, " ", "_"), "constraint="+en.Kind)
					rec.NonTrivial("nested-decode", hx.J(c), func() any { return c })
					var err error
					if p, pv, st := hx.Try(func() { _, err = decode(rty, doc, format) }); p {
						tl.fail("nested-decode", c, "panic: %v\n%s", pv, st)
						continue
					}
					if err == nil {
						tl.fail("nested-decode", c, "a %s document holding an illegal %s (%s) as %s of field %s was accepted: %s", rn.Full(), en.Kind, en.Full(), via, f.Name, hx.Q(doc))
					}
				}
			}
		}
	}
	rec.Exhaustive("constraint violations one level below every record field of union / enum / fixed type (direct, array item, map value)", evaluated)
	tl.flush(t)
	_ = fmt.Sprint
}
