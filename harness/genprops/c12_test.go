package genprops

// C12 - code generation is total, deterministic and yields compilable bindings.

import (
	"bytes"
	"fmt"
	"go/ast"
	"go/parser"
	"go/printer"
	"go/token"
	"os"
	"os/exec"
	"path/filepath"
	"sort"
	"strings"
	"testing"

	"pgregory.net/rapid"

	"verif/core/hx"
	"verif/core/kf"
	"verif/core/schema"
	"verif/core/stats"
)

func TestMain(m *testing.M) {
	// every compiled manifest leaves its one-off packages in the Go build cache: each test process compiles into a cache of
	// its own (below the private cache directory the driver hands in and removes afterwards) and empties it every
	// trimEvery compilations, so that the disk use of a run stays bounded (a thorough run filled 60 GB before)
	if gc := os.Getenv("GOCACHE"); gc != "" {
		own := filepath.Join(gc, fmt.Sprintf("p%d", os.Getpid()))
		if os.MkdirAll(own, 0o755) == nil {
			os.Setenv("GOCACHE", own)
			ownCache = own
		}
	}
	code := m.Run()
	if ownCache != "" {
		os.RemoveAll(ownCache)
	}
	stats.FlushAll()
	if scratchRoot != "" {
		chmodAll(scratchRoot)
		os.RemoveAll(scratchRoot)
	}
	os.Exit(code)
}

const trimEvery = 40

var (
	ownCache string
	compiled int
)

// trimCache empties this process' build cache every trimEvery compilations (nothing else compiles into it).
func trimCache(mod string) {
	compiled++
	if ownCache != "" && compiled%trimEvery == 0 {
		run(mod, "go", "clean", "-cache")
	}
}

var (
	gendrv      = os.Getenv("VERIF_GENDRV")
	repo        = os.Getenv("VERIF_REPO")
	scratchRoot string
	caseNo      int
)

func chmodAll(dir string) {
	filepath.Walk(dir, func(p string, info os.FileInfo, err error) error {
		if err == nil {
			os.Chmod(p, 0o755)
		}
		return nil
	})
}

// scratch returns the module directory generated code is compiled in (outside /repo and /verif).
func scratch() string {
	if scratchRoot == "" {
		d, err := os.MkdirTemp("", fmt.Sprintf("verif-c12-%d-", os.Getpid()))
		if err != nil {
			panic(err)
		}
		scratchRoot = d
		// genModulePath / genModuleVersion / genModuleDir: the go-restli module of this generation (gen_v1_test.go, gen_v2_test.go)
		mod := "module verifgen\n\ngo 1.18\n\nrequire " + genModulePath + " " + genModuleVersion + "\n\nreplace " + genModulePath + " => " + genModuleDir() + "\n"
		must(os.WriteFile(filepath.Join(d, "go.mod"), []byte(mod), 0o644))
		sum, err := os.ReadFile(filepath.Join(genModuleDir(), "go.sum"))
		must(err)
		must(os.WriteFile(filepath.Join(d, "go.sum"), sum, 0o644))
	}
	return scratchRoot
}

func must(err error) {
	if err != nil {
		panic(err)
	}
}

type genCase struct {
	Stress   bool           `json:"identifier_stress"`
	Schema   *schema.Schema `json:"schema"`
	Manifest string         `json:"manifest,omitempty"`
}

func run(dir string, name string, args ...string) (string, error) {
	cmd := exec.Command(name, args...)
	cmd.Dir = dir
	out, err := cmd.CombinedOutput()
	return string(out), err
}

func readTree(dir string) map[string]string {
	m := map[string]string{}
	filepath.Walk(dir, func(p string, info os.FileInfo, err error) error {
		if err == nil && !info.IsDir() {
			b, _ := os.ReadFile(p)
			rel, _ := filepath.Rel(dir, p)
			m[rel] = string(b)
		}
		return nil
	})
	return m
}

func diffTrees(a, b map[string]string) string {
	var names []string
	for k := range a {
		names = append(names, k)
	}
	for k := range b {
		if _, ok := a[k]; !ok {
			names = append(names, k)
		}
	}
	sort.Strings(names)
	for _, n := range names {
		x, okx := a[n]
		y, oky := b[n]
		switch {
		case !okx:
			return "file " + n + " only in the second run"
		case !oky:
			return "file " + n + " only in the first run"
		case x != y:
			la, lb := strings.Split(x, "\n"), strings.Split(y, "\n")
			for i := 0; i < len(la) && i < len(lb); i++ {
				if la[i] != lb[i] {
					return fmt.Sprintf("file %s differs at line %d:\n  run 1: %s\n  run 2: %s", n, i+1, la[i], lb[i])
				}
			}
			return "file " + n + " differs in length"
		}
	}
	return ""
}

func lastLines(s string, n int) string {
	l := strings.Split(strings.TrimSpace(s), "\n")
	if len(l) > n {
		l = l[len(l)-n:]
	}
	return strings.Join(l, "\n")
}

// compileErrors keeps the compiler's own messages (file:line: message), normalised for grouping.
func compileErrors(out string) string {
	var keep []string
	for _, l := range strings.Split(out, "\n") {
		if strings.Contains(l, ".go:") {
			if i := strings.Index(l, "/c"); i >= 0 {
				l = l[i:]
			}
			keep = append(keep, strings.TrimSpace(l))
		}
		if len(keep) >= 8 {
			break
		}
	}
	if len(keep) == 0 {
		return lastLines(out, 8)
	}
	return strings.Join(keep, "\n")
}

func checkGen(rec *stats.Recorder, c genCase) (msg string, known string) {
	mod := scratch()
	caseNo++
	root := fmt.Sprintf("verifgen/c%d", caseNo)
	s := c.Schema
	s.PackageRoot = root
	s.Reindex()
	work := filepath.Join(mod, fmt.Sprintf("c%d.work", caseNo))
	must(os.MkdirAll(work, 0o755))
	defer func() { chmodAll(work); os.RemoveAll(work) }()
	manifest := filepath.Join(work, genSpecFile)
	must(os.WriteFile(manifest, renderSpec(s), 0o644))
	out0 := filepath.Join(mod, fmt.Sprintf("c%d", caseNo))
	defer func() { chmodAll(out0); os.RemoveAll(out0) }()

	nss := map[string]bool{}
	kinds := map[string]bool{}
	defaults := false
	for _, n := range s.Types {
		nss[n.Namespace] = true
		kinds[n.Kind] = true
		for _, f := range n.Fields {
			if f.Default != nil {
				defaults = true
			}
		}
	}
	labels := []string{fmt.Sprintf("namespaces=%d", min3(len(nss))), fmt.Sprintf("resources=%d", min3(len(s.Resources)))}
	for k := range kinds {
		labels = append(labels, "has_"+k)
	}
	if c.Stress {
		labels = append(labels, "identifier_stress")
	}
	rec.Case(labels...)
	if len(nss) >= 2 || len(s.Resources) > 0 || defaults {
		rec.NonTrivial("manifest", string(s.Describe()), func() any { return c })
	}
	fail := func(format string, a ...any) (string, string) {
		return fmt.Sprintf(format, a...), ""
	}
	// hand-written implementations of the custom typerefs, placed where the generator looks for them (beside the code it
	// generates for the namespace); they are user files: every run finds them and must leave them alone
	customs := 0
	placeCustoms := func(out string) {
		for _, n := range s.Types {
			if n.Kind == "typeref" && n.Custom {
				dir := filepath.Join(out, filepath.FromSlash(schema.NamespaceDir(n.Namespace)))
				must(os.MkdirAll(dir, 0o755))
				must(os.WriteFile(filepath.Join(dir, n.Name+".go"), []byte(schema.CustomTyperefSource(s.PackageRoot, n, fnv1aImport)), 0o644))
				customs++
			}
		}
	}
	placeCustoms(out0)
	if customs > 0 {
		rec.Label("manifests_with_custom_typerefs", 1)
	}
	// 1. total: the generator succeeds
	o, err := run(mod, gendrv, drvArgs(manifest, out0, root)...)
	if err != nil {
		if strings.Contains(o, "GENERATOR-ERROR") && !strings.Contains(o, "panic") && !strings.Contains(o, "goroutine ") {
			return fail("the generator rejected a well-formed schema set: %s", lastLines(o, 6))
		}
		return fail("the generator crashed on a well-formed schema set: %s", lastLines(o, 14))
	}
	t0 := readTree(out0)
	// 2. deterministic: fresh processes give byte-identical trees
	for k := 1; k < 3; k++ {
		outk := filepath.Join(work, fmt.Sprintf("out%d", k))
		if k == 2 {
			// the third run regenerates into a directory that already holds generated code: the previous output plus stale
			// generated files of types that no longer exist, next to the current ones and in packages of their own
			// (also under an escaped `_internal` directory, where the generator puts namespaces with an `internal` segment)
			dirs := map[string]bool{"g/_internal/zzgone": true, "zzgone/sub": true}
			for rel, content := range t0 {
				must(os.MkdirAll(filepath.Join(outk, filepath.Dir(rel)), 0o755))
				must(os.WriteFile(filepath.Join(outk, rel), []byte(content), 0o644))
				if d := filepath.Dir(rel); d != "." {
					dirs[d] = true
				}
			}
			for d := range dirs {
				must(os.MkdirAll(filepath.Join(outk, d), 0o755))
				must(os.WriteFile(filepath.Join(outk, d, "ZzGone.gr.go"), []byte("package gone\n\nvar Broken = undefinedIdentifier\n"), 0o444))
			}
		}
		placeCustoms(outk)
		if o, err := run(mod, gendrv, drvArgs(manifest, outk, root)...); err != nil {
			return fail("the generator failed on run %d of the same manifest: %s", k+1, lastLines(o, 8))
		}
		if d := diffTrees(t0, readTree(outk)); d != "" {
			if k == 2 {
				return fail("regenerating into a directory that holds earlier generated code does not give the output of a fresh generation: %s", d)
			}
			return fail("two runs of the generator on the same manifest differ: %s", d)
		}
	}
	// 3. compilable: library packages with go build, the all-imports package the way upstream compiles it
	defer trimCache(mod)
	pkgs, err := run(mod, "go", "list", "./"+filepath.Base(out0)+"/...")
	if err != nil {
		return failCompile(c, "go list failed on the generated tree", pkgs)
	}
	var libs []string
	for _, p := range strings.Fields(pkgs) {
		if p != root {
			libs = append(libs, p)
		}
	}
	if len(libs) > 0 {
		if o, err := run(mod, "go", append([]string{"build"}, libs...)...); err != nil {
			return failCompile(c, "generated bindings do not compile", o)
		}
	}
	if o, err := run(mod, "go", "test", "-count=1", "-run", "^$", "-vet=off", "./"+filepath.Base(out0)); err != nil {
		return failCompile(c, "the generated all-imports package does not compile", o)
	}
	return "", ""
}

func failCompile(c genCase, what, out string) (string, string) {
	return what + ":\n" + compileErrors(out), ""
}

func min3(n int) int {
	if n > 3 {
		return 3
	}
	return n
}

func runGenProperty(t *testing.T, stress bool, check string) {
	rec := stats.For("C12")
	if gendrv == "" || repo == "" {
		panic("VERIF_GENDRV / VERIF_REPO not set (run through ./check)")
	}
	if c, ok := hx.Replay[genCase]("C12", check); ok {
		if msg, _ := checkGen(rec, c); msg != "" {
			rec.Violation(check, msg, c)
			t.Fatal(msg)
		}
		return
	} else if hx.Replaying() {
		t.Skip()
	}
	rapid.Check(t, func(rt *rapid.T) {
		c := genCase{Stress: stress}
		c.Schema = schema.RandomManifest(rt, "verifgen/x", schema.ManifestOpts{IdentifierStress: stress})
		restrictForGen(c.Schema) // no-op for v2; for the root module the documented filter of gen_v1_test.go
		msg, known := checkGen(rec, c)
		if known != "" {
			rec.Known(known, kf.What(known), c)
			return
		}
		if msg != "" {
			c.Manifest = string(renderSpec(c.Schema))
			rec.Violation(check, msg, c)
			rt.Fatalf("property violated (details in the replay file)")
		}
	})
}

func TestC12Generate(t *testing.T) { runGenProperty(t, false, "generate") }

// TestC12Stress: the same grammar with legal-but-awkward identifiers (Go keywords and predeclared names, names of
// generated methods and helper types, leading underscores) for fields, types and enum symbols.
func TestC12Stress(t *testing.T) { runGenProperty(t, true, "stress") }

// ---------------------------------------------------------------------------------------------
// checked-in bindings

func stripped(src string) (string, error) {
	fset := token.NewFileSet()
	f, err := parser.ParseFile(fset, "x.go", src, 0) // comments dropped
	if err != nil {
		return "", err
	}
	ast.SortImports(fset, f)
	var b bytes.Buffer
	if err := printer.Fprint(&b, fset, f); err != nil {
		return "", err
	}
	return b.String(), nil
}

// TestC12CheckedIn: the bindings checked into the repository are what the current generator produces (the comparison
// itself is generation-specific: checkedInBindings in gen_v2_test.go / gen_v1_test.go).
func TestC12CheckedIn(t *testing.T) {
	rec := stats.For("C12")
	if hx.Replaying() {
		t.Skip()
	}
	if i, _ := hx.ShardIndex(); i != 0 {
		t.Skip()
	}
	checkedInBindings(t, rec)
}

// compareCheckedIn compares the checked-in generated files (name -> text) with a fresh generation: bytes first, then
// the AST without comments.
func compareCheckedIn(t *testing.T, rec *stats.Recorder, checked, fresh map[string]string, from string) {
	n := 0
	for name, want := range checked {
		if !strings.HasSuffix(name, ".gr.go") {
			continue
		}
		n++
		got, ok := fresh[name]
		if !ok {
			msg := "checked-in generated file " + name + " is not produced by the current generator"
			rec.Violation("checked-in", msg, name)
			t.Error(msg)
			continue
		}
		if got == want {
			rec.Label("checked_in_byte_identical", 1)
			continue
		}
		a, e1 := stripped(want)
		b, e2 := stripped(got)
		if e1 != nil || e2 != nil || a != b {
			msg := fmt.Sprintf("checked-in %s is not what the current generator produces from %s: %s", name, from, diffTrees(map[string]string{name: a}, map[string]string{name: b}))
			rec.Violation("checked-in", msg, name)
			t.Error(msg)
			continue
		}
		rec.Label("checked_in_identical_modulo_comments", 1)
	}
	for name := range fresh {
		if strings.HasSuffix(name, ".gr.go") && name != "all_imports_test.gr.go" {
			if _, ok := checked[name]; !ok {
				msg := "the current generator produces " + name + " which is not checked in"
				rec.Violation("checked-in", msg, name)
				t.Error(msg)
			}
		}
	}
	rec.Exhaustive("checked-in generated files compared with a fresh generation", int64(n))
}

// ---------------------------------------------------------------------------------------------
// witnesses of the open known findings (kept out of the random grammar so that the search goes on)

func witnessBytesKey() *schema.Schema {
	s := &schema.Schema{}
	s.Add(&schema.Named{Ident: schema.Ident{Name: "Rec", Namespace: "w"}, Kind: "record", Fields: []schema.Field{{Name: "a", Type: schema.P("string")}}})
	key := schema.P("bytes")
	ent := schema.R("w", "Rec")
	s.Resources = append(s.Resources, &schema.Resource{Namespace: "w.bins", Segments: []schema.PathSeg{{Name: "bins", KeyName: "key", Key: &key}}, Schema: &ent,
		Methods: []schema.Method{{Kind: "REST_METHOD", Name: "get", OnEntity: true}}})
	return s
}

func witnessIncludeClash() *schema.Schema {
	s := &schema.Schema{}
	s.Add(&schema.Named{Ident: schema.Ident{Name: "Metadata", Namespace: "w"}, Kind: "record", Fields: []schema.Field{{Name: "a", Type: schema.P("string")}}})
	s.Add(&schema.Named{Ident: schema.Ident{Name: "Doc", Namespace: "w"}, Kind: "record", Includes: []schema.Ident{{Name: "Metadata", Namespace: "w"}},
		Fields: []schema.Field{{Name: "metadata", Type: schema.P("string")}}})
	return s
}

func witnessFieldMethodClash() *schema.Schema {
	s := &schema.Schema{}
	s.Add(&schema.Named{Ident: schema.Ident{Name: "Cmp", Namespace: "w"}, Kind: "record", Fields: []schema.Field{
		{Name: "equals", Type: schema.P("bool")}, {Name: "computeHash", Type: schema.P("int64"), Optional: true}}})
	return s
}

func witnessReceiverPackageClash() *schema.Schema {
	s := &schema.Schema{}
	s.Add(&schema.Named{Ident: schema.Ident{Name: "Item", Namespace: "w.x"}, Kind: "record", Fields: []schema.Field{{Name: "a", Type: schema.P("string")}}})
	s.Add(&schema.Named{Ident: schema.Ident{Name: "Xray", Namespace: "w"}, Kind: "record", Fields: []schema.Field{{Name: "item", Type: schema.R("w.x", "Item")}}})
	return s
}

func witnessDerivedNameClash() *schema.Schema {
	s := &schema.Schema{}
	s.Add(&schema.Named{Ident: schema.Ident{Name: "Node", Namespace: "w"}, Kind: "record", Fields: []schema.Field{{Name: "a", Type: schema.P("string")}}})
	s.Add(&schema.Named{Ident: schema.Ident{Name: "Node_PartialUpdate", Namespace: "w"}, Kind: "record", Fields: []schema.Field{{Name: "b", Type: schema.P("int32")}}})
	return s
}

// kfWitness is a fixed schema set showing an open known finding; the classes they stand for are kept out of the random
// grammar. The tables are generation-specific (knownWitnesses in gen_v2_test.go / gen_v1_test.go).
type kfWitness struct {
	id      string
	s       *schema.Schema
	symptom string // the witness only counts as the known finding when it fails this way
}

func TestC12KnownFindings(t *testing.T) {
	rec := stats.For("C12")
	if hx.Replaying() {
		t.Skip()
	}
	if i, _ := hx.ShardIndex(); i != 0 {
		t.Skip()
	}
	for _, w := range knownWitnesses() {
		c := genCase{Schema: w.s}
		msg, _ := checkGen(rec, c)
		if msg == "" {
			continue // compiles: the finding is gone
		}
		if kf.Open(w.id) && strings.Contains(msg, w.symptom) {
			rec.Known(w.id, kf.What(w.id), map[string]any{"witness": w.id, "compiler": msg})
			continue
		}
		c.Manifest = string(renderSpec(w.s))
		rec.Violation("witness-"+w.id, msg, c)
		t.Error(msg)
	}
}
