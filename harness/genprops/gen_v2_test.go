//verif:v2only the v2 generator: manifest JSON (ManifestV2), gendrv <manifest> <outdir>, bindings checked in under v2/restlidata/generated

package genprops

import (
	"fmt"
	"os"
	"strings"
	"path/filepath"
	"testing"

	"verif/core/hx"
	"verif/core/schema"
	"verif/core/stats"
)

const (
	genModulePath    = "github.com/PapaCharlie/go-restli/v2"
	genModuleVersion = "v2.0.0"
	genSpecFile      = "manifest.json"
)

func genModuleDir() string { return filepath.Join(repo, "v2") }

func renderSpec(s *schema.Schema) []byte { return s.ManifestV2() }

// import path of the hash package the hand-written custom typerefs of a manifest refer to
const fnv1aImport = "github.com/PapaCharlie/go-restli/v2/fnv1a"

func drvArgs(spec, out, root string) []string { return []string{spec, out} }

// restrictForGen: the v2 generation takes the whole grammar, except that a custom typeref which the generator may move to
// conflictResolution is generated as an ordinary typeref (open finding KF-C12-custom-typeref-moved, witness below).
func restrictForGen(s *schema.Schema) { s.KeepCustomTyperefsInPlace() }

// witnessCustomTyperefMoved: records of two namespaces referring to each other, one of them with a field of a custom
// typeref type.
func witnessCustomTyperefMoved() *schema.Schema {
	s := &schema.Schema{}
	s.Add(&schema.Named{Ident: schema.Ident{Name: "Celsius", Namespace: "w.a"}, Kind: "typeref", Prim: "int32", Custom: true})
	s.Add(&schema.Named{Ident: schema.Ident{Name: "Left", Namespace: "w.a"}, Kind: "record", Fields: []schema.Field{
		{Name: "t", Type: schema.R("w.a", "Celsius")}, {Name: "r", Type: schema.R("w.b", "Right"), Optional: true}}})
	s.Add(&schema.Named{Ident: schema.Ident{Name: "Right", Namespace: "w.b"}, Kind: "record", Fields: []schema.Field{
		{Name: "l", Type: schema.R("w.a", "Left"), Optional: true}}})
	return s
}

func checkedInBindings(t *testing.T, rec *stats.Recorder) {
	checked := filepath.Join(repo, "v2", "restlidata", "generated")
	mod := scratch()
	out := filepath.Join(mod, "checkedin")
	defer func() { chmodAll(out); os.RemoveAll(out) }()
	o, err := run(mod, gendrv, filepath.Join(checked, "go-restli-manifest.gr.json"), out)
	rec.Case("checked_in_bindings")
	rec.NonTrivial("checked-in", "checked-in", func() any { return "v2/restlidata/generated regenerated from its own manifest" })
	if err != nil {
		msg := "the generator fails on the checked-in manifest: " + lastLines(o, 10)
		rec.Violation("checked-in", msg, nil)
		t.Fatal(msg)
	}
	compareCheckedIn(t, rec, readTree(checked), readTree(out), "the checked-in manifest")
}

func knownWitnesses() []kfWitness {
	return []kfWitness{
		{"KF-C12-bytes-key", witnessBytesKey(), "[]byte"},
		{"KF-C12-include-field-clash", witnessIncludeClash(), "redeclared"},
		{"KF-C12-field-method-clash", witnessFieldMethodClash(), "field and method with the same name"},
		{"KF-C12-receiver-package-clash", witnessReceiverPackageClash(), "x.Item"},
		{"KF-C12-derived-type-name-clash", witnessDerivedNameClash(), "Node_PartialUpdate redeclared"},
		{"KF-C12-custom-typeref-moved", witnessCustomTyperefMoved(), "undefined: Celsius"},
	}
}

// ---------------------------------------------------------------------------------------------
// dependency manifests: a schema set split over two libraries and an application, each generated from its own
// manifest that lists the other libraries' types as dependency types (in both orders of the dependency manifests)

type depCase struct {
	AOnB   bool `json:"liba_depends_on_libb"` // else libb depends on liba
	AFirst bool `json:"liba_listed_first"`
	NA     int  `json:"types_in_liba"`
	NB     int  `json:"types_in_libb"`
}

func depSchema(c depCase) *schema.Schema {
	s := &schema.Schema{}
	lower, upper, nl, nu := "liba", "libb", c.NA, c.NB // upper depends on lower
	if c.AOnB {
		lower, upper, nl, nu = "libb", "liba", c.NB, c.NA
	}
	for i := 0; i < nl; i++ {
		s.Add(&schema.Named{Ident: schema.Ident{Name: fmt.Sprintf("Low%d", i), Namespace: lower}, Kind: "record", Fields: []schema.Field{{Name: "a", Type: schema.P("string")}}})
	}
	s.Add(&schema.Named{Ident: schema.Ident{Name: "Tag", Namespace: lower}, Kind: "enum", Symbols: []string{"X", "Y"}})
	for i := 0; i < nu; i++ {
		s.Add(&schema.Named{Ident: schema.Ident{Name: fmt.Sprintf("Up%d", i), Namespace: upper}, Kind: "record", Fields: []schema.Field{
			{Name: "low", Type: schema.R(lower, fmt.Sprintf("Low%d", i%nl))}, {Name: "tags", Type: schema.A(schema.R(lower, "Tag")), Optional: true}}})
	}
	s.Add(&schema.Named{Ident: schema.Ident{Name: "App", Namespace: "app"}, Kind: "record", Includes: []schema.Ident{{Name: "Up0", Namespace: upper}}, Fields: []schema.Field{
		{Name: "lows", Type: schema.M(schema.R(lower, "Low0"))}, {Name: "tag", Type: schema.R(lower, "Tag"), Default: strp(`"Y"`)}}})
	return s
}

func strp(s string) *string { return &s }

func checkDependencies(rec *stats.Recorder, c depCase) string {
	mod := scratch()
	caseNo++
	base := fmt.Sprintf("d%d", caseNo)
	work := filepath.Join(mod, base)
	must(os.MkdirAll(work, 0o755))
	defer func() { chmodAll(work); os.RemoveAll(work) }()
	s := depSchema(c)
	rec.Case("dependency_manifests", fmt.Sprintf("liba_first=%v", c.AFirst), fmt.Sprintf("liba_on_libb=%v", c.AOnB))
	rec.NonTrivial("dependencies", hx.J(c), func() any { return c })
	lower, upper := "liba", "libb"
	if c.AOnB {
		lower, upper = "libb", "liba"
	}
	in := func(ns string) func(*schema.Named) bool {
		return func(n *schema.Named) bool { return n.Namespace == ns }
	}
	root := func(lib string) string { return "verifgen/" + base + "/" + lib }
	files := map[string]string{}
	write := func(lib string, b []byte) {
		files[lib] = filepath.Join(work, lib+".manifest.json")
		must(os.WriteFile(files[lib], b, 0o644))
	}
	none := func(*schema.Named) bool { return false }
	write(lower, s.ManifestV2Split(root(lower), in(lower), none))
	write(upper, s.ManifestV2Split(root(upper), in(upper), in(lower)))
	write("app", s.ManifestV2Split(root("app"), in("app"), func(n *schema.Named) bool { return n.Namespace != "app" }))
	// each library is generated from its own manifest, preceded by the manifests it depends on
	gen := func(lib string, deps ...string) string {
		args := []string{}
		for _, d := range deps {
			args = append(args, files[d])
		}
		args = append(args, files[lib], filepath.Join(work, lib))
		if o, err := run(mod, gendrv, args...); err != nil {
			return fmt.Sprintf("generating %s (dependency manifests in the order %v) failed: %s", lib, deps, lastLines(o, 8))
		}
		return ""
	}
	order := []string{"liba", "libb"}
	if !c.AFirst {
		order = []string{"libb", "liba"}
	}
	for _, step := range [][]string{{lower}, {upper, lower}, append([]string{"app"}, order...)} {
		if m := gen(step[0], step[1:]...); m != "" {
			return m
		}
	}
	// the application again with the dependency manifests in the other order: same output
	t0 := readTree(filepath.Join(work, "app"))
	must(os.Rename(filepath.Join(work, "app"), filepath.Join(work, "app.first")))
	if m := gen("app", order[1], order[0]); m != "" {
		return m
	}
	if d := diffTrees(t0, readTree(filepath.Join(work, "app"))); d != "" {
		return "the generated code depends on the order in which the dependency manifests are given: " + d
	}
	chmodAll(filepath.Join(work, "app.first"))
	must(os.RemoveAll(filepath.Join(work, "app.first")))
	// compile: library packages with go build, the three generated all-imports packages the way upstream compiles them
	defer trimCache(mod)
	pkgs, err := run(mod, "go", "list", "./"+base+"/...")
	if err != nil {
		return "go list failed on the generated trees:\n" + compileErrors(pkgs)
	}
	var libs, roots []string
	for _, p := range strings.Fields(pkgs) {
		if p == root("liba") || p == root("libb") || p == root("app") {
			roots = append(roots, p)
		} else {
			libs = append(libs, p)
		}
	}
	if o, err := run(mod, "go", append([]string{"build"}, libs...)...); err != nil {
		return "bindings generated from manifests with dependencies do not compile:\n" + compileErrors(o)
	}
	if o, err := run(mod, "go", append([]string{"test", "-run", "^$", "-vet=off"}, roots...)...); err != nil {
		return "the all-imports packages generated from manifests with dependencies do not compile:\n" + compileErrors(o)
	}
	return ""
}

func TestC12Dependencies(t *testing.T) {
	rec := stats.For("C12")
	if c, ok := hx.Replay[depCase]("C12", "dependencies"); ok {
		if msg := checkDependencies(rec, c); msg != "" {
			rec.Violation("dependencies", msg, c)
			t.Fatal(msg)
		}
		return
	} else if hx.Replaying() {
		t.Skip()
	}
	if i, _ := hx.ShardIndex(); i != 0 {
		t.Skip()
	}
	for _, aOnB := range []bool{false, true} {
		for _, aFirst := range []bool{false, true} {
			c := depCase{AOnB: aOnB, AFirst: aFirst, NA: 2, NB: 3}
			if msg := checkDependencies(rec, c); msg != "" {
				rec.Violation("dependencies", msg, c)
				t.Fatal(msg)
			}
		}
	}
}
