//verif:v2only the v2 generator: manifest JSON (ManifestV2), gendrv <manifest> <outdir>, bindings checked in under v2/restlidata/generated

package genprops

import (
	"os"
	"path/filepath"
	"testing"

	"verif/core/schema"
	"verif/core/stats"
)

const (
	genModulePath    = "github.com/PapaCharlie/go-restli/v2"
	genModuleVersion = "v2.0.0"
	genSpecFile      = "manifest.json"
)

func genModuleDir() string { return filepath.Join(repo, "v2") }

func renderSpec(s *schema.Schema) []byte { return s.ManifestV2() }

func drvArgs(spec, out, root string) []string { return []string{spec, out} }

// restrictForGen: the v2 generation takes the whole grammar.
func restrictForGen(s *schema.Schema) {}

func checkedInBindings(t *testing.T, rec *stats.Recorder) {
	checked := filepath.Join(repo, "v2", "restlidata", "generated")
	mod := scratch()
	out := filepath.Join(mod, "checkedin")
	defer func() { chmodAll(out); os.RemoveAll(out) }()
	o, err := run(mod, gendrv, filepath.Join(checked, "go-restli-manifest.gr.json"), out)
	rec.Case("checked_in_bindings")
	rec.NonTrivial("checked-in", "checked-in", func() any { return "v2/restlidata/generated regenerated from its own manifest" })
	if err != nil {
		msg := "the generator fails on the checked-in manifest: " + lastLines(o, 10)
		rec.Violation("checked-in", msg, nil)
		t.Fatal(msg)
	}
	compareCheckedIn(t, rec, readTree(checked), readTree(out), "the checked-in manifest")
}

func knownWitnesses() []kfWitness {
	return []kfWitness{
		{"KF-C12-bytes-key", witnessBytesKey(), "[]byte"},
		{"KF-C12-include-field-clash", witnessIncludeClash(), "redeclared"},
		{"KF-C12-field-method-clash", witnessFieldMethodClash(), "field and method with the same name"},
		{"KF-C12-receiver-package-clash", witnessReceiverPackageClash(), "x.Item"},
		{"KF-C12-derived-type-name-clash", witnessDerivedNameClash(), "Node_PartialUpdate redeclared"},
	}
}
