package lazyprops

// C18 - the lazy map publishes each key's value once under every interleaving.
//
// Subject: the working tree's d2/lazymap/lazymap.go, copied by the driver (prepare_c18) into the
// sub-package lazyshim with its `sync` import rewritten to verif/core/vsync and nothing else. Every
// sync.Map / WaitGroup operation of that copy is a scheduling point owned by vsync's controller, so
// a (program, schedule) pair is one deterministic execution.
//
// Domain: programs of up to 3 threads x up to 2 operations {LoadOrStore(k, f), Load(k), Store(k, v)}
// over keys {0,1}; f returns a value unique to its (thread, operation) and records its invocation;
// Store values are unique too. Schedules: every one of them (vsync.Explore) for the shapes with at
// most 2 threads and for 3 threads x 1 operation; rapid-drawn schedules for the 3-thread shapes with
// up to 2 operations each.
//
// Oracle (judge): no panic; no deadlock (a thread parked forever); no returned value that was not
// handed to the map by the program (an in-flight placeholder); the compute function of one
// operation runs at most once and at most one compute function runs per key; and - the authority
// for everything about values and order - the history of call/return events plus a final Load of
// every key after quiescence is linearizable w.r.t. core/model/lazymodel (porcupine).
//
// Call events are stamped when the first shim operation of an operation executes (the latest sound
// moment), return events when the operation returns; both in schedule order on one logical clock.

import (
	"fmt"
	"strings"
	"testing"

	"pgregory.net/rapid"

	"verif/core/hx"
	"verif/core/model/lazymodel"
	"verif/core/stats"
	"verif/core/vsync"

	lazyshim "verif/HARNESS/lazyprops/lazyshim"
)

func TestMain(m *testing.M) { hx.Main(m) }

const nKeys = 2

type opSpec struct {
	Op  string `json:"op"` // LoadOrStore | Load | Store
	Key int    `json:"key"`
}

var opNames = []string{"LoadOrStore", "Load", "Store"}

func (o opSpec) kind() lazymodel.Kind {
	switch o.Op {
	case "LoadOrStore":
		return lazymodel.LoadOrCompute
	case "Load":
		return lazymodel.Load
	case "Store":
		return lazymodel.Store
	}
	panic("bad op name " + o.Op)
}

type schedCase struct {
	Program  [][]opSpec `json:"program"`
	Schedule []int      `json:"schedule"` // decision i runs runnable[Schedule[i] mod len(runnable)]; beyond the list: lowest runnable thread
	// ComputeReturnPoint adds a second scheduling point when the compute function returns (the first is
	// when it starts). It is redundant for the interleavings of shim operations - nothing visible to
	// another thread happens between it and the scheduling point in front of the next shim operation -
	// and roughly doubles the number of schedules, so the exhaustive part leaves it off; the sampled
	// part draws it.
	ComputeReturnPoint bool `json:"compute_return_point,omitempty"`
	// filled in by the evaluation, for the reader of a replay file / evidence sample (not inputs)
	Trace   string   `json:"trace,omitempty"`
	History []string `json:"history,omitempty"`
}

func (c schedCase) programText() string {
	var ts []string
	for i, th := range c.Program {
		var os []string
		for _, o := range th {
			os = append(os, fmt.Sprintf("%s(k%d)", o.Op, o.Key))
		}
		ts = append(ts, fmt.Sprintf("T%d: %s", i, strings.Join(os, "; ")))
	}
	return strings.Join(ts, " | ")
}

func (c schedCase) shape() string {
	var s []string
	for _, th := range c.Program {
		s = append(s, fmt.Sprint(len(th)))
	}
	return strings.Join(s, "+")
}

// value the compute function of (thread, op) returns / value (thread, op) stores
func fnVal(t, o int) int    { return 100*(t+1) + 10*(o+1) + 1 }
func storeVal(t, o int) int { return 100*(t+1) + 10*(o+1) + 2 }

type opState struct {
	in       lazymodel.In
	out      lazymodel.Out
	call     int64
	ret      int64
	called   bool
	returned bool
}

type execution struct {
	c        *schedCase
	m        lazyshim.LazySyncMap
	clock    int64
	ops      [][]opState
	inflight []bool
	computes [nKeys]int
	// evidence
	prev             int
	switchInFlight   bool
	computesReturned int
}

func (x *execution) tick() int64 { x.clock++; return x.clock }

func setVal(out *lazymodel.Out, v any) {
	if i, ok := v.(int); ok {
		out.Val = i
	} else {
		out.Foreign = fmt.Sprintf("%T", v)
	}
}

func (x *execution) body(ti int) func() {
	return func() {
		for oi := range x.c.Program[ti] {
			spec := x.c.Program[ti][oi]
			st := &x.ops[ti][oi]
			vsync.OnNextResume(func() { st.call, st.called, x.inflight[ti] = x.tick(), true, true })
			switch st.in.Kind {
			case lazymodel.LoadOrCompute:
				v := x.m.LoadOrStore(spec.Key, func() interface{} {
					vsync.Point("compute")
					st.out.Invoked++
					x.computes[spec.Key]++
					if x.c.ComputeReturnPoint {
						vsync.Point("compute-return")
					}
					x.computesReturned++
					return st.in.Val
				})
				setVal(&st.out, v)
			case lazymodel.Load:
				v, ok := x.m.Load(spec.Key)
				st.out.Ok = ok
				if ok {
					setVal(&st.out, v)
				} else if v != nil {
					st.out.Foreign = fmt.Sprintf("(%T, false)", v)
				}
			case lazymodel.Store:
				x.m.Store(spec.Key, st.in.Val)
			}
			vsync.FlushResumeHook()
			st.ret, st.returned, x.inflight[ti] = x.tick(), true, false
		}
	}
}

type outcome struct {
	res       *vsync.Result
	final     *vsync.Result
	history   []lazymodel.Op
	x         *execution
	nontriv   bool
	traceText string
}

// execute runs the case once, from scratch, under the given chooser.
func execute(c *schedCase, choose vsync.Chooser) *outcome {
	for _, th := range c.Program {
		for _, o := range th {
			if o.Key < 0 || o.Key >= nKeys {
				panic(fmt.Sprintf("case has key %d outside [0,%d)", o.Key, nKeys))
			}
		}
	}
	x := &execution{c: c, prev: -1}
	x.ops = make([][]opState, len(c.Program))
	x.inflight = make([]bool, len(c.Program))
	bodies := make([]func(), len(c.Program))
	for ti, th := range c.Program {
		x.ops[ti] = make([]opState, len(th))
		for oi, o := range th {
			in := lazymodel.In{Kind: o.kind(), Key: o.Key}
			switch in.Kind {
			case lazymodel.LoadOrCompute:
				in.Val = fnVal(ti, oi)
			case lazymodel.Store:
				in.Val = storeVal(ti, oi)
			}
			x.ops[ti][oi].in = in
		}
		bodies[ti] = x.body(ti)
	}
	out := &outcome{x: x}
	out.res = vsync.Run(bodies, func(runnable []int) int {
		k := choose(runnable)
		if k >= 0 && k < len(runnable) {
			t := runnable[k]
			if x.prev >= 0 && x.prev != t && x.inflight[x.prev] {
				x.switchInFlight = true
			}
			x.prev = t
		}
		return k
	}, vsync.Options{MaxSteps: 10000})
	for ti := range x.ops {
		for oi := range x.ops[ti] {
			if st := &x.ops[ti][oi]; st.returned {
				out.history = append(out.history, lazymodel.Op{Client: ti, In: st.in, Out: st.out, Call: st.call, Ret: st.ret})
			}
		}
	}
	// quiescence: one more controlled run on the same map with a single thread that loads every key
	if !out.res.Deadlock && !out.res.StepLimit && len(out.res.Panics) == 0 {
		finals := make([]opState, nKeys)
		out.final = vsync.Run([]func(){func() {
			for k := 0; k < nKeys; k++ {
				st := &finals[k]
				st.in = lazymodel.In{Kind: lazymodel.Load, Key: k}
				st.call = x.tick()
				v, ok := x.m.Load(k)
				st.out.Ok = ok
				if ok {
					setVal(&st.out, v)
				}
				st.ret, st.returned = x.tick(), true
			}
		}}, func([]int) int { return 0 }, vsync.Options{MaxSteps: 1000})
		for k := range finals {
			if st := &finals[k]; st.returned {
				out.history = append(out.history, lazymodel.Op{Client: len(c.Program), In: st.in, Out: st.out, Call: st.call, Ret: st.ret})
			}
		}
	}
	return out
}

func historyLines(h []lazymodel.Op) []string {
	return strings.Split(strings.TrimSuffix(lazymodel.Format(h), "\n"), "\n")
}

func traceText(r *vsync.Result) string {
	var b strings.Builder
	for i, s := range r.Trace {
		if i > 0 {
			b.WriteByte(' ')
		}
		fmt.Fprintf(&b, "T%d:%s", s.Thread, s.Op)
	}
	return b.String()
}

func traceKey(r *vsync.Result) string {
	b := make([]byte, len(r.Trace))
	for i, s := range r.Trace {
		b[i] = byte('0' + s.Thread)
	}
	return string(b)
}

var linCache = map[string]bool{}

func linearizable(h []lazymodel.Op) bool {
	sig := lazymodel.Signature(h)
	if v, ok := linCache[sig]; ok {
		return v
	}
	v := lazymodel.Linearizable(h)
	if len(linCache) > 1<<20 {
		linCache = map[string]bool{}
	}
	linCache[sig] = v
	return v
}

// judge returns "" when the execution satisfies the property, else the violation.
func judge(c *schedCase, o *outcome) string {
	x := o.x
	opText := func(ti, oi int) string {
		return fmt.Sprintf("T%d op%d %s(k%d)", ti, oi, c.Program[ti][oi].Op, c.Program[ti][oi].Key)
	}
	current := func(ti int) string {
		for oi := range x.ops[ti] {
			if !x.ops[ti][oi].returned {
				return opText(ti, oi)
			}
		}
		return fmt.Sprintf("T%d (finished)", ti)
	}
	if o.res.StepLimit {
		// unbounded spinning cannot be explored statelessly: not a verdict
		panic(fmt.Sprintf("C18 harness: step limit hit for %s (code under test spins?)\n%s", c.programText(), traceText(o.res)))
	}
	if len(o.res.Panics) > 0 {
		p := o.res.Panics[0]
		return fmt.Sprintf("operation panicked instead of returning: %s during %s: %s\n%s", current(p.Thread), p.Op, p.Value, p.Stack)
	}
	if o.res.Deadlock {
		var ps []string
		for _, p := range o.res.Parked {
			ps = append(ps, fmt.Sprintf("%s parked in %s", current(p.Thread), p.Op))
		}
		started := 0
		for k := range x.computes {
			started += x.computes[k]
		}
		return fmt.Sprintf("deadlock: no runnable thread, %s; compute functions started %d, returned %d", strings.Join(ps, ", "), started, x.computesReturned)
	}
	if o.final == nil {
		panic("C18 harness: no final run")
	}
	if o.final.Deadlock || len(o.final.Panics) > 0 || o.final.StepLimit {
		return fmt.Sprintf("after all threads finished, a Load of every key does not complete (deadlock=%v panics=%v)", o.final.Deadlock, o.final.Panics)
	}
	for ti := range x.ops {
		for oi := range x.ops[ti] {
			st := &x.ops[ti][oi]
			if st.out.Foreign != "" {
				return fmt.Sprintf("%s returned a value of type %s, which the program never handed to the map (in-flight placeholder?)", opText(ti, oi), st.out.Foreign)
			}
			if st.out.Invoked > 1 {
				return fmt.Sprintf("the compute function of %s ran %d times", opText(ti, oi), st.out.Invoked)
			}
		}
	}
	for _, h := range o.history[len(o.history)-nKeys:] {
		if h.Out.Foreign != "" {
			return fmt.Sprintf("final Load(k%d) returned a value of type %s", h.In.Key, h.Out.Foreign)
		}
	}
	for k, n := range x.computes {
		if n > 1 {
			return fmt.Sprintf("compute functions ran %d times for key k%d (nothing removes a key, so at most one may run)", n, k)
		}
	}
	if !linearizable(o.history) {
		return "history (with a final Load of every key) is not linearizable w.r.t. a map with compute-if-absent"
	}
	return ""
}

// sameKeyThreads: at least two threads touch the same key.
func sameKeyThreads(c *schedCase) bool {
	var seen [nKeys]int // bitmask of threads
	for ti, th := range c.Program {
		for _, o := range th {
			seen[o.Key] |= 1 << ti
		}
	}
	for _, m := range seen {
		if m&(m-1) != 0 {
			return true
		}
	}
	return false
}

// checkSched evaluates one (program, schedule) pair. choose == nil: follow c.Schedule.
func checkSched(rec *stats.Recorder, c *schedCase, choose vsync.Chooser, class string) string {
	if choose == nil {
		choose = vsync.FromList(c.Schedule)
	}
	o := execute(c, choose)
	msg := judge(c, o)
	labels := []string{class + ":shape=" + c.shape()}
	if o.res.Blocked > 0 {
		labels = append(labels, "some_thread_parked")
	}
	if o.x.switchInFlight {
		labels = append(labels, "switch_while_in_flight")
	}
	for _, n := range o.x.computes {
		if n > 0 {
			labels = append(labels, "compute_ran")
			break
		}
	}
	rec.Case(labels...)
	filled := func() schedCase {
		s := *c
		s.Schedule = append([]int(nil), o.res.Choices...)
		s.Trace = traceText(o.res)
		s.History = historyLines(o.history)
		return s
	}
	if sameKeyThreads(c) && o.x.switchInFlight {
		rec.NonTrivial(class+":"+c.shape(), c.programText()+"|"+fmt.Sprint(c.ComputeReturnPoint)+"|"+traceKey(o.res), func() any { return filled() })
	}
	if msg != "" {
		*c = filled()
		msg = fmt.Sprintf("%s\n program: %s\n schedule (thread per step): %s\n steps: %s\n history:\n%s", msg, c.programText(), traceKey(o.res), c.Trace, lazymodel.Format(o.history))
	}
	return msg
}

// --------------------------------------------------------------------------------------- regress

func prog(ths ...[]opSpec) [][]opSpec { return ths }
func pLOS(k int) opSpec               { return opSpec{"LoadOrStore", k} }
func pLoad(k int) opSpec              { return opSpec{"Load", k} }
func pStore(k int) opSpec             { return opSpec{"Store", k} }

// hand-written interleavings of the mechanisms the property names; evaluated first in every tier
var regressionCases = []schedCase{
	// Store ordered after an in-flight computation determines the final value: T0 publishes its placeholder and
	// computes, T1's Store meets the placeholder and parks, T0 finishes, T1 overwrites
	{Program: prog([]opSpec{pLOS(0)}, []opSpec{pStore(0)}), Schedule: []int{0, 0, 0, 1, 1, 1}},
	// Load meets the placeholder and must wait for the value
	{Program: prog([]opSpec{pLOS(0)}, []opSpec{pLoad(0)}), Schedule: []int{0, 0, 0, 1, 1}},
	// three racing LoadOrStore callers: one compute, one value
	{Program: prog([]opSpec{pLOS(0)}, []opSpec{pLOS(0)}, []opSpec{pLOS(0)}), Schedule: []int{0, 1, 2, 0, 1, 2, 0, 1, 2}},
	// Store finishing between another thread's completed computation and its waiters' wake-up
	{Program: prog([]opSpec{pLOS(0), pLoad(0)}, []opSpec{pLoad(0), pStore(0)}, []opSpec{pStore(0), pLOS(0)}), Schedule: []int{0, 0, 1, 2, 2, 0, 0, 2, 1, 0}},
	// the value must be in the map before the waiters are released: T1's Store wakes up as soon as T0 signals and must
	// not be overwritten by T0 afterwards (on the unchanged code the 7th decision has only T0 runnable)
	{Program: prog([]opSpec{pLOS(0)}, []opSpec{pStore(0)}), Schedule: []int{0, 0, 1, 1, 0, 0, 1, 1, 0}},
	// different keys do not wait for each other
	{Program: prog([]opSpec{pLOS(0), pLOS(1)}, []opSpec{pLOS(1), pLOS(0)}), Schedule: []int{0, 1, 0, 1, 0, 1, 0, 1}},
}

func TestC18SchedRegress(t *testing.T) {
	rec := stats.For("C18")
	if si, _ := hx.ShardIndex(); hx.Replaying() || si != 0 {
		t.Skip()
	}
	for i := range regressionCases {
		for _, crp := range []bool{false, true} {
			c := regressionCases[i]
			c.ComputeReturnPoint = crp
			if msg := checkSched(rec, &c, nil, "regress"); msg != "" {
				rec.Violation(fmt.Sprintf("sched-regress%d", i), msg, c)
				t.Error(msg)
			}
		}
	}
}

// ------------------------------------------------------------------------------------ exhaustive

var exhaustiveShapes = [][]int{{1}, {2}, {1, 1}, {1, 2}, {2, 1}, {2, 2}, {1, 1, 1}}

// enumPrograms calls f with every program of the shape over keys [0,keys).
func enumPrograms(shape []int, keys int, f func(p [][]opSpec)) {
	total := 0
	for _, n := range shape {
		total += n
	}
	alpha := len(opNames) * keys
	idx := make([]int, total)
	for {
		p := make([][]opSpec, len(shape))
		k := 0
		for ti, n := range shape {
			for j := 0; j < n; j++ {
				p[ti] = append(p[ti], opSpec{Op: opNames[idx[k]/keys], Key: idx[k] % keys})
				k++
			}
		}
		f(p)
		i := total - 1
		for i >= 0 {
			idx[i]++
			if idx[i] < alpha {
				break
			}
			idx[i] = 0
			i--
		}
		if i < 0 {
			return
		}
	}
}

func TestC18SchedExhaustive(t *testing.T) {
	rec := stats.For("C18")
	if hx.Replaying() {
		t.Skip() // replays of either sched test are evaluated by TestC18SchedSampled
	}
	keys := 1
	if stats.Thorough() {
		keys = nKeys
	}
	// the second scheduling point of the compute callback (at its return) adds no behaviour (see schedCase) but
	// multiplies the schedules; the thorough tier enumerates that variant as well
	variants := []bool{false}
	if stats.Thorough() {
		variants = append(variants, true)
	}
	si, sn := hx.ShardIndex()
	n := 0
	for _, crp := range variants {
		for _, shape := range exhaustiveShapes {
			space := fmt.Sprintf("%s shape=%s keys=%d", hx.Gen(), strings.Trim(strings.Join(strings.Fields(fmt.Sprint(shape)), "+"), "[]"), keys)
			if crp {
				space += " +compute-return point"
			}
			enumPrograms(shape, keys, func(p [][]opSpec) {
				n++
				if n%sn != si || t.Failed() {
					return
				}
				c := &schedCase{Program: p, ComputeReturnPoint: crp}
				var first string
				var firstCase schedCase
				nsched := vsync.Explore(func(choose vsync.Chooser) bool {
					cc := *c
					if msg := checkSched(rec, &cc, choose, "exhaustive"); msg != "" {
						first, firstCase = msg, cc
						return false
					}
					return true
				})
				rec.Exhaustive("schedules: "+space, nsched)
				rec.Exhaustive("programs: "+space, 1)
				if first != "" {
					rec.Violation("sched-exhaustive", first, firstCase)
					t.Errorf("%s", first)
				}
			})
		}
	}
}

// --------------------------------------------------------------------------------------- sampled

func genSampled(rt *rapid.T) *schedCase {
	c := &schedCase{}
	for ti := 0; ti < 3; ti++ {
		n := rapid.IntRange(1, 2).Draw(rt, "nops")
		var th []opSpec
		for j := 0; j < n; j++ {
			th = append(th, opSpec{Op: rapid.SampledFrom(opNames).Draw(rt, "op"), Key: rapid.IntRange(0, nKeys-1).Draw(rt, "key")})
		}
		c.Program = append(c.Program, th)
	}
	c.ComputeReturnPoint = rapid.Bool().Draw(rt, "compute_return_point")
	c.Schedule = rapid.SliceOfN(rapid.IntRange(0, 2), 0, 48).Draw(rt, "schedule")
	return c
}

func TestC18SchedSampled(t *testing.T) {
	rec := stats.For("C18")
	if c, ok := hx.Replay[schedCase]("C18", "sched"); ok {
		c.Trace, c.History = "", nil
		if msg := checkSched(rec, &c, nil, "replay"); msg != "" {
			rec.Violation("sched-replay", msg, c)
			t.Fatal(msg)
		}
		return
	} else if hx.Replaying() {
		t.Skip()
	}
	rapid.Check(t, func(rt *rapid.T) {
		c := genSampled(rt)
		if msg := checkSched(rec, c, nil, "sampled"); msg != "" {
			rec.Violation("sched-sampled", msg, *c)
			rt.Fatalf("%s", msg)
		}
	})
}
