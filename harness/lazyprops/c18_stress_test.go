package lazyprops

// C18 cross-check: the UNMODIFIED package d2/lazymap with real goroutines under the race detector.
// rapid draws a program (2-8 goroutines x 1-5 operations over keys {0,1}), GOMAXPROCS and how often
// each compute function yields the processor; the goroutines are released together; every operation
// is stamped before its call and after its return on one atomic logical clock (so "A returned before
// B was called" in the history is a real happens-before); the history plus final Loads is judged by
// the same model as the schedule-controlled runs. The Go scheduler is not owned here: this samples
// schedules, it exists to show that rewriting `sync` to the shim did not change what the code does,
// and to put the real sync.Map / WaitGroup publication under happens-before instrumentation.
// A failing run is not deterministic; its replay re-runs the program repeatedly.

import (
	"fmt"
	"os"
	"runtime"
	"sort"
	"strings"
	"sync"
	"sync/atomic"
	"testing"
	"time"

	"github.com/PapaCharlie/go-restli/v2/d2/lazymap"
	"pgregory.net/rapid"

	"verif/core/hx"
	"verif/core/model/lazymodel"
	"verif/core/stats"
)

type stressCase struct {
	Procs   int        `json:"gomaxprocs"`
	Program [][]opSpec `json:"program"`
	Yields  []int      `json:"compute_yields"` // per goroutine: Gosched calls inside its compute functions
	History []string   `json:"history,omitempty"`
}

func (c stressCase) programText() string { return schedCase{Program: c.Program}.programText() }

func genStress(rt *rapid.T) *stressCase {
	c := &stressCase{Procs: rapid.SampledFrom([]int{1, 2, 4, 8}).Draw(rt, "gomaxprocs")}
	n := rapid.IntRange(2, 8).Draw(rt, "goroutines")
	for g := 0; g < n; g++ {
		k := rapid.IntRange(1, 5).Draw(rt, "nops")
		var th []opSpec
		for j := 0; j < k; j++ {
			th = append(th, opSpec{Op: rapid.SampledFrom(opNames).Draw(rt, "op"), Key: rapid.IntRange(0, nKeys-1).Draw(rt, "key")})
		}
		c.Program = append(c.Program, th)
		c.Yields = append(c.Yields, rapid.IntRange(0, 3).Draw(rt, "yields"))
	}
	return c
}

// harnessFail reports trouble of the harness itself (never a verdict) without looking like a crash of
// the code under test.
func harnessFail(format string, a ...any) {
	fmt.Fprintf(os.Stderr, "C18 stress harness error: "+format+"\n", a...)
	os.Exit(3)
}

// parkedProgramGoroutines inspects the goroutines running the program's operations (frames of runStress.func1): the
// states and top frames of those that have not finished, and whether all of them are parked on a synchronisation
// primitive (channel, semaphore / WaitGroup / Mutex / Cond).
func parkedProgramGoroutines() (desc string, allParked bool) {
	buf := make([]byte, 1<<20)
	buf = buf[:runtime.Stack(buf, true)]
	allParked = true
	var out []string
	for _, g := range strings.Split(string(buf), "\n\n") {
		if !strings.Contains(g, "lazyprops.runStress.func1(") {
			continue
		}
		head := g[:strings.Index(g+"\n", "\n")]
		state := head[strings.Index(head, "[")+1:]
		parked := false
		for _, w := range []string{"chan receive", "chan send", "semacquire", "sync.WaitGroup.Wait", "sync.Mutex.Lock", "sync.RWMutex", "sync.Cond.Wait", "select"} {
			if strings.HasPrefix(state, w) {
				parked = true
			}
		}
		if !parked {
			allParked = false
		}
		lines := strings.Split(g, "\n")
		top := ""
		for _, l := range lines[1:] {
			if strings.Contains(l, "lazymap") {
				top = strings.TrimSpace(l)
				break
			}
		}
		out = append(out, "   ["+strings.TrimSuffix(strings.SplitN(state, ",", 2)[0], "]:")+"] "+top)
	}
	sort.Strings(out)
	return strings.Join(out, "\n"), allParked && len(out) > 0
}

// runStress executes the program once with real goroutines and returns the history (with final
// loads) and per-key compute counts.
func runStress(c *stressCase) (h []lazymodel.Op, computes [nKeys]int64, invokedTwice string, deadlocked string) {
	var m lazymap.LazySyncMap
	var clock atomic.Int64
	per := make([][]lazymodel.Op, len(c.Program))
	var start, done sync.WaitGroup
	start.Add(1)
	for g := range c.Program {
		done.Add(1)
		per[g] = make([]lazymodel.Op, len(c.Program[g]))
		go func(g int) {
			defer done.Done()
			start.Wait()
			for oi, spec := range c.Program[g] {
				op := &per[g][oi]
				op.Client = g
				op.In = lazymodel.In{Kind: spec.kind(), Key: spec.Key}
				switch op.In.Kind {
				case lazymodel.LoadOrCompute:
					op.In.Val = fnVal(g, oi)
					op.Call = clock.Add(1)
					v := m.LoadOrStore(spec.Key, func() interface{} {
						op.Out.Invoked++
						atomic.AddInt64(&computes[spec.Key], 1)
						for y := 0; y < c.Yields[g]; y++ {
							runtime.Gosched()
						}
						return op.In.Val
					})
					op.Ret = clock.Add(1)
					setVal(&op.Out, v)
				case lazymodel.Load:
					op.Call = clock.Add(1)
					v, ok := m.Load(spec.Key)
					op.Ret = clock.Add(1)
					op.Out.Ok = ok
					if ok {
						setVal(&op.Out, v)
					}
				case lazymodel.Store:
					op.In.Val = storeVal(g, oi)
					op.Call = clock.Add(1)
					m.Store(spec.Key, op.In.Val)
					op.Ret = clock.Add(1)
				}
			}
		}(g)
	}
	fin := make(chan struct{})
	go func() { done.Wait(); close(fin) }()
	start.Done()
	// A deadlock cannot be told from a slow machine by the clock alone. It can be told from the goroutine states:
	// the code under test waits on nothing but other callers of the map (no I/O, no timers), so when every unfinished
	// program goroutine is parked on a synchronisation primitive, and still is a while later with nothing else of the
	// program runnable, nobody is left to wake them.
	deadline := time.After(60 * time.Second)
	tick := time.NewTicker(3 * time.Second)
	defer tick.Stop()
	prev := ""
wait:
	for {
		select {
		case <-fin:
			break wait
		case <-tick.C:
			blocked, all := parkedProgramGoroutines()
			if all && blocked != "" && blocked == prev {
				deadlocked = fmt.Sprintf("callers never return: every unfinished goroutine of the program is parked on a synchronisation primitive and nothing is left to wake it\n%s", blocked)
				return
			}
			prev = blocked
			if !all {
				prev = ""
			}
		case <-deadline:
			buf := make([]byte, 1<<18)
			harnessFail("goroutines did not finish within 60s for %s\n%s", c.programText(), buf[:runtime.Stack(buf, true)])
		}
	}
	for g := range per {
		for oi := range per[g] {
			if per[g][oi].Out.Invoked > 1 {
				invokedTwice = fmt.Sprintf("goroutine %d op %d", g, oi)
			}
		}
		h = append(h, per[g]...)
	}
	for k := 0; k < nKeys; k++ {
		op := lazymodel.Op{Client: len(c.Program), In: lazymodel.In{Kind: lazymodel.Load, Key: k}}
		op.Call = clock.Add(1)
		v, ok := m.Load(k)
		op.Ret = clock.Add(1)
		op.Out.Ok = ok
		if ok {
			setVal(&op.Out, v)
		}
		h = append(h, op)
	}
	return
}

// overlapOnKey: two operations of different goroutines on the same key overlap in time.
func overlapOnKey(h []lazymodel.Op) bool {
	for i := range h {
		for j := i + 1; j < len(h); j++ {
			a, b := h[i], h[j]
			if a.Client != b.Client && a.In.Key == b.In.Key && a.Call < b.Ret && b.Call < a.Ret {
				return true
			}
		}
	}
	return false
}

func checkStress(rec *stats.Recorder, c *stressCase) string {
	old := runtime.GOMAXPROCS(c.Procs)
	defer runtime.GOMAXPROCS(old)
	h, computes, twice, deadlocked := runStress(c)
	if deadlocked != "" {
		return deadlocked + "\n program: " + c.programText()
	}
	c.History = historyLines(h)
	overlap := overlapOnKey(h)
	labels := []string{fmt.Sprintf("stress:gomaxprocs=%d", c.Procs), fmt.Sprintf("stress:goroutines=%d", len(c.Program))}
	if overlap {
		labels = append(labels, "stress:overlapping_ops_on_a_key")
	}
	rec.Case(labels...)
	if overlap {
		rec.NonTrivial("stress", c.programText()+fmt.Sprint(c.Procs, c.Yields)+lazymodel.Signature(h), func() any { return *c })
	}
	fail := func(m string) string {
		return fmt.Sprintf("%s\n program: %s\n GOMAXPROCS=%d compute yields=%v\n history:\n%s", m, c.programText(), c.Procs, c.Yields, lazymodel.Format(h))
	}
	for _, o := range h {
		if o.Out.Foreign != "" {
			return fail(fmt.Sprintf("an operation returned a value of type %s, which the program never handed to the map (in-flight placeholder?): %s", o.Out.Foreign, o))
		}
	}
	if twice != "" {
		return fail("the compute function of " + twice + " ran more than once")
	}
	for k, n := range computes {
		if n > 1 {
			return fail(fmt.Sprintf("compute functions ran %d times for key k%d", n, k))
		}
	}
	if !lazymodel.Linearizable(h) {
		return fail("history (with a final Load of every key) is not linearizable w.r.t. a map with compute-if-absent")
	}
	return ""
}

func TestC18Stress(t *testing.T) {
	rec := stats.For("C18")
	if c, ok := hx.Replay[stressCase]("C18", "stress"); ok {
		// not deterministic: try the same program many times
		for i := 0; i < 2000; i++ {
			cc := c
			cc.History = nil
			if msg := checkStress(rec, &cc); msg != "" {
				rec.Violation("stress-replay", msg, cc)
				t.Fatal(msg)
			}
		}
		return
	} else if hx.Replaying() {
		t.Skip()
	}
	rapid.Check(t, func(rt *rapid.T) {
		c := genStress(rt)
		if msg := checkStress(rec, c); msg != "" {
			rec.Violation("stress", msg, *c)
			rt.Fatalf("%s", strings.TrimSpace(msg))
		}
	})
}
