package cleanprops

// C20, regeneration part: the real generator (GenerateCode, which cleans the output directory first)
// is run into a directory pre-populated with user files - among them a hand-written custom typeref
// implementation right where generated code lands - and stale generated files. User files must be
// byte-identical afterwards, stale generated files must be gone, and clean + regenerate must reproduce
// byte-identical generated files.
//
// utils.TypeRegistry is a process global that rejects registering a type twice, so every GenerateCode
// call happens in a fresh process: this test binary re-executed with -test.run ^TestHelperGenerate$.
// The entry point is called through reflection because its signature differs between the module
// generations (v2: GenerateCode(outputDir, []*GoRestliManifest, bool); root: GenerateCode(spec, outputDir)).

import (
	"bytes"
	"encoding/json"
	"fmt"
	"os"
	"os/exec"
	"path/filepath"
	"reflect"
	"sort"
	"strings"
	"testing"

	"github.com/PapaCharlie/go-restli/v2/cmd"
	"github.com/PapaCharlie/go-restli/v2/codegen/utils"
	"pgregory.net/rapid"

	"verif/core/hx"
	"verif/core/model/cleanmodel"
	"verif/core/stats"
)

const (
	regenNamespace = "verif.c20"
	regenPkgDir    = "verif/c20" // where generated code of the namespace lands below the output directory
	regenTyperef   = "MyTyperef"
	v2PackageRoot  = "example.com/gen"
)

// specJSON is the generator input: one record and one int64 typeref in namespace verif.c20.
func specJSON(gen string) []byte {
	record := map[string]any{"name": "Rec", "namespace": regenNamespace, "sourceFile": "", "doc": "", "includes": []any{},
		"fields": []any{
			map[string]any{"name": "f", "doc": "", "type": map[string]any{"primitive": "int32"}, "isOptional": false},
			map[string]any{"name": "t", "doc": "", "type": map[string]any{"reference": map[string]any{"name": regenTyperef, "namespace": regenNamespace}}, "isOptional": true},
		}}
	typeref := map[string]any{"name": regenTyperef, "namespace": regenNamespace, "sourceFile": "", "doc": "", "type": "int64"}
	types := []any{map[string]any{"typeref": typeref}, map[string]any{"record": record}}
	var doc map[string]any
	if gen == "v1" {
		doc = map[string]any{"dataTypes": types, "resources": []any{}}
	} else {
		doc = map[string]any{"packageRoot": v2PackageRoot, "inputDataTypes": types, "dependencyDataTypes": []any{}, "resources": []any{}}
	}
	b, err := json.Marshal(doc)
	must(err)
	return b
}

// callGenerateCode invokes the generator entry point of whichever module generation this binary is built against.
func callGenerateCode(spec []byte, outDir string) error {
	fn := reflect.ValueOf(cmd.GenerateCode)
	ft := fn.Type()
	var res []reflect.Value
	switch {
	case ft.NumIn() == 3 && ft.In(0).Kind() == reflect.String && ft.In(1).Kind() == reflect.Slice && ft.In(2).Kind() == reflect.Bool:
		m := reflect.New(ft.In(1).Elem().Elem()) // *GoRestliManifest
		if err := json.Unmarshal(spec, m.Interface()); err != nil {
			return fmt.Errorf("harness: manifest does not decode: %w", err)
		}
		ms := reflect.Append(reflect.MakeSlice(ft.In(1), 0, 1), m)
		res = fn.Call([]reflect.Value{reflect.ValueOf(outDir), ms, reflect.ValueOf(os.Getenv("VERIF_C20_PKGROOT") == "1")})
	case ft.NumIn() == 2 && ft.In(0).Kind() == reflect.Slice && ft.In(1).Kind() == reflect.String:
		res = fn.Call([]reflect.Value{reflect.ValueOf(spec), reflect.ValueOf(outDir)})
	default:
		return fmt.Errorf("harness: unknown GenerateCode signature %s", ft)
	}
	if e := res[0].Interface(); e != nil {
		return e.(error)
	}
	return nil
}

func TestHelperGenerate(t *testing.T) {
	if os.Getenv(helperEnv) != "generate" {
		t.Skip("helper")
	}
	spec, err := os.ReadFile(os.Getenv("VERIF_C20_SPEC"))
	must(err)
	if err := callGenerateCode(spec, os.Getenv("VERIF_C20_OUT")); err != nil {
		fmt.Fprintf(os.Stderr, "GENERATE-FAILED: %+v\n", err)
		os.Exit(3)
	}
}

// generate runs the generator in a fresh process with working directory cwd and output directory out.
func generate(specFile, cwd, out string, withPackageRoot ...bool) (failure string) {
	c := exec.Command(selfExe(), "-test.run", "^TestHelperGenerate$", "-test.count", "1")
	c.Env = append(helperEnviron("generate"), "VERIF_C20_SPEC="+specFile, "VERIF_C20_OUT="+out)
	if len(withPackageRoot) > 0 && withPackageRoot[0] {
		c.Env = append(c.Env, "VERIF_C20_PKGROOT=1")
	}
	c.Dir = cwd
	var buf bytes.Buffer
	c.Stdout, c.Stderr = &buf, &buf
	if err := c.Run(); err != nil {
		return fmt.Sprintf("%v\n%s", err, buf.String())
	}
	return ""
}

var noted = map[string]bool{}

func noteOnce(rec *stats.Recorder, n string) {
	if !noted[n] {
		noted[n] = true
		rec.Note("%s", n)
	}
}

type regenCase struct {
	User            *cleanmodel.Node `json:"user"`              // pre-existing content of the output directory (nil: the directory does not exist)
	WithTyperefImpl bool             `json:"with_typeref_impl"` // hand-written MyTyperef.go beside the generated code
	Dot             bool             `json:"dot"`               // generator runs inside the output directory with output dir "."
	// NoUserFiles: the output directory holds nothing but (stale) generator-owned files, so cleaning empties it
	NoUserFiles bool `json:"no_user_files,omitempty"`
	// PackageRoot (v2 only): the generator runs with generateWithPackageRoot, so everything lands below
	// <out>/<package root of the manifest>/ - also the hand-written custom typeref it has to locate there
	PackageRoot bool `json:"generate_with_package_root,omitempty"`
	// DirAtGeneratedPath: a user directory (holding a user file) sits exactly where the generator wants to write a file
	// (verif/c20/Rec.gr.go/): the generator may fail, the directory and its content must survive
	DirAtGeneratedPath bool `json:"dir_at_generated_path,omitempty"`
}

// populate builds the initial content of the output directory: the sampled user tree plus, below
// verif/c20, the optional custom typeref implementation, a notes file and stale generated files.
func populate(c regenCase) *cleanmodel.Node {
	if c.User == nil {
		return nil
	}
	r := rules()
	root := &cleanmodel.Node{Dir: true, Mode: 0o755}
	if c.NoUserFiles {
		root.Children = append(root.Children, d("verif", d("c20", f("Stale.gr.go", "package c20\n// stale\n", 0o444)), d("old", f("Gone.gr.go", "package old\n", 0o444))),
			f(r.Manifest, "stale manifest, not even JSON", 0o444))
		must(root.Valid())
		return root
	}
	for _, ch := range c.User.Children {
		root.Children = append(root.Children, ch)
	}
	pkg := d("c20", f("notes.txt", "hand written notes\x00\xff", 0o600), f("Stale.gr.go", "package c20\n// stale\n", 0o444), f("Rec.gr.go", "package c20\n// stale Rec\n", 0o444))
	if c.DirAtGeneratedPath {
		pkg = d("c20", f("notes.txt", "hand written notes\x00\xff", 0o600), f("Stale.gr.go", "package c20\n// stale\n", 0o444),
			d("Rec.gr.go", f("keep.txt", "a user file in a directory named like a generated file\n", 0o644), d("deeper", f("more.go", "package deeper\n", 0o600))))
	}
	if c.WithTyperefImpl {
		pkg.Children = append(pkg.Children, f(regenTyperef+".go", "package c20\n\n// hand-written custom typeref\ntype MyTyperef int64\n", 0o644))
	}
	verifDir := d("verif", pkg, d("old", f("Gone.gr.go", "package old\n", 0o444)))
	if c.PackageRoot {
		verifDir = d("example.com", d("gen", verifDir, f(r.Manifest, "stale manifest below the package root", 0o444)))
	}
	root.Children = append(root.Children, verifDir)
	hasManifest := false
	for _, ch := range root.Children {
		if ch.Name == r.Manifest {
			hasManifest = true
		}
	}
	if !hasManifest {
		root.Children = append(root.Children, f(r.Manifest, "stale manifest, not even JSON", 0o444))
	}
	must(root.Valid())
	return root
}

func generatedSet(s cleanmodel.Snapshot, survive map[string]cleanmodel.Entry) map[string]cleanmodel.Entry {
	g := map[string]cleanmodel.Entry{}
	for p, e := range s.Entries {
		if _, user := survive[p]; !user && !e.Dir {
			g[p] = e
		}
	}
	return g
}

func keys(m map[string]cleanmodel.Entry) []string {
	ks := make([]string, 0, len(m))
	for k := range m {
		ks = append(ks, k)
	}
	sort.Strings(ks)
	return ks
}

// checkRegen evaluates one regeneration scenario; "" when the property holds (harness trouble panics).
func checkRegen(rec *stats.Recorder, c regenCase) (msg string) {
	r := rules()
	scratch := newScratch()
	defer removeScratch(scratch)
	specFile := filepath.Join(scratch, "spec.json")
	must(os.WriteFile(specFile, specJSON(hx.Gen()), 0o644))
	out := filepath.Join(scratch, "out")
	initial := populate(c)
	labels := []string{"regen"}
	var exp *cleanmodel.Expectation
	if initial != nil {
		materialise(out, initial)
		exp = cleanmodel.Expect(initial, r, c.Dot)
		for _, l := range exp.Labels {
			labels = append(labels, "regen_"+l)
		}
	} else {
		labels = append(labels, "regen_output_dir_missing")
		exp = cleanmodel.Expect(&cleanmodel.Node{Dir: true}, r, false)
	}
	if c.WithTyperefImpl {
		labels = append(labels, "regen_custom_typeref_impl_present")
	}
	if c.Dot {
		labels = append(labels, "regen_output_dir_dot")
	}
	if c.NoUserFiles {
		labels = append(labels, "regen_only_generator_owned_files")
	}
	if c.PackageRoot {
		labels = append(labels, "regen_generate_with_package_root")
	}
	if c.DirAtGeneratedPath {
		labels = append(labels, "regen_user_dir_at_generated_path")
	}
	rec.Case(labels...)
	key := fmt.Sprint(c.WithTyperefImpl, c.Dot)
	if initial != nil {
		key += initial.Canonical()
	}
	rec.NonTrivial("regen", key, func() any { return c })

	gen := func(step string) string {
		cwd, arg := scratch, out
		var before os.FileInfo
		if c.Dot {
			must(os.MkdirAll(out, 0o755))
			cwd, arg = out, "."
			before, _ = os.Stat(out)
		}
		if fail := generate(specFile, cwd, arg, c.PackageRoot); fail != "" {
			if c.DirAtGeneratedPath {
				return "" // the generator cannot write its file over a user directory: failing is fine, destroying is not
			}
			if strings.Contains(fail, "Could not clean up output dir") {
				return fmt.Sprintf("G6: %s: the generator could not clean its output directory: %s", step, fail)
			}
			panic(fmt.Sprintf("C20 harness: generator failed for a reason unrelated to cleaning (%s): %s", step, fail))
		}
		if c.Dot {
			// the target "." is the working directory of the generator (and of whatever launched it): it must still be the
			// same directory afterwards, not one that was removed and created anew under the same name
			after, err := os.Stat(out)
			if err != nil || before == nil || !os.SameFile(before, after) {
				return fmt.Sprintf("G3: %s: the generator removed its own working directory (target \".\") and re-created it: processes standing in it are left in a deleted directory (%v)", step, err)
			}
		}
		return ""
	}
	describe := func(s cleanmodel.Snapshot) string {
		init := "<output directory absent>"
		if initial != nil {
			init = initial.Canonical()
		}
		return fmt.Sprintf("\n initial=%s\n typeref_impl=%v dot=%v\n now: %v", init, c.WithTyperefImpl, c.Dot, s.Paths())
	}
	userIntact := func(step string, s cleanmodel.Snapshot) string {
		for _, p := range keys(exp.Survive) {
			want := exp.Survive[p]
			got, ok := s.Entries[p]
			switch {
			case !ok || got.Dir:
				return fmt.Sprintf("G1: %s: user file %q is gone", step, p) + describe(s)
			case !bytes.Equal(got.Content, want.Content):
				return fmt.Sprintf("G1: %s: user file %q changed content", step, p) + describe(s)
			case got.Mode != want.Mode:
				return fmt.Sprintf("G1: %s: user file %q changed mode %o -> %o", step, p, want.Mode, got.Mode) + describe(s)
			}
		}
		return ""
	}

	// first generation into the pre-populated directory
	if m := gen("first generation"); m != "" {
		return m
	}
	s1 := snapshot(out, "")
	if m := userIntact("first generation", s1); m != "" {
		return m
	}
	if c.DirAtGeneratedPath {
		return "" // (the generator stopped at the obstacle: there is no complete generated set to compare)
	}
	for _, p := range exp.Gone {
		if got, ok := s1.Entries[p]; ok && bytes.Equal(got.Content, exp.Original.Entries[p].Content) {
			return fmt.Sprintf("G2: first generation: stale generator-owned file %q survived regeneration", p) + describe(s1)
		}
	}
	g1 := generatedSet(s1, exp.Survive)
	pfx := ""
	if c.PackageRoot {
		pfx = v2PackageRoot + "/"
	}
	if _, ok := g1[pfx+r.Manifest]; !ok || len(g1) < 2 {
		panic(fmt.Sprintf("C20 harness: the generator did not produce a manifest and code: %v", keys(g1)))
	}
	for _, p := range keys(g1) {
		if !r.OwnedName(p[strings.LastIndex(p, "/")+1:]) {
			panic(fmt.Sprintf("C20 harness: the generator wrote %q, which the model does not recognise as generator-owned", p))
		}
	}
	noteOnce(rec, fmt.Sprintf("%s generator output with custom typeref implementation present=%v: %v", hx.Gen(), c.WithTyperefImpl, keys(g1)))
	if _, ok := g1[pfx+regenPkgDir+"/"+regenTyperef+".gr.go"]; ok && c.WithTyperefImpl && hx.Gen() == "v2" {
		// (v2: a hand-written <Typeref>.go beside the generated code is located and the typeref is NOT generated; the root
		// generator has no notion of custom typerefs and always generates it)
		return fmt.Sprintf("G7: first generation: the custom typeref implementation %s.go was not located: %s.gr.go was generated beside it", regenTyperef, regenTyperef) + describe(s1)
	}

	// explicit clean: generated files disappear, user files stay
	var cerr error
	if p, v, st := hx.Try(func() { cerr = utils.CleanTargetDir(out) }); p {
		return fmt.Sprintf("clean after generation panicked: %v\n%s", v, st) + describe(s1)
	}
	sc := snapshot(out, "")
	if cerr != nil {
		return fmt.Sprintf("G6: clean after generation returned an error: %v", cerr) + describe(sc)
	}
	if m := userIntact("clean after generation", sc); m != "" {
		return m
	}
	for _, p := range keys(g1) {
		if _, ok := sc.Entries[p]; ok {
			return fmt.Sprintf("G2: clean after generation left the generated file %q", p) + describe(sc)
		}
	}

	// regenerate after cleaning, then once more on top of the existing output (GenerateCode cleans itself)
	for _, step := range []string{"regeneration after clean", "regeneration over existing output"} {
		if m := gen(step); m != "" {
			return m
		}
		s2 := snapshot(out, "")
		if m := userIntact(step, s2); m != "" {
			return m
		}
		g2 := generatedSet(s2, exp.Survive)
		if diff := cleanmodel.Diff(cleanmodel.Snapshot{Exists: true, Entries: g1}, cleanmodel.Snapshot{Exists: true, Entries: g2}); diff != "" {
			return fmt.Sprintf("%s does not reproduce the generated files of the first generation: %s", step, diff) + describe(s2)
		}
	}
	return ""
}

func genRegenCase(t *rapid.T) regenCase {
	var c regenCase
	c.WithTyperefImpl = rapid.Bool().Draw(t, "typeref_impl")
	c.Dot = rapid.Bool().Draw(t, "dot")
	c.PackageRoot = hx.Gen() == "v2" && rapid.IntRange(0, 3).Draw(t, "package_root") == 0
	if rapid.IntRange(0, 7).Draw(t, "no_user_files") == 0 {
		c.WithTyperefImpl, c.NoUserFiles = false, true
		c.User = &cleanmodel.Node{Dir: true, Mode: 0o755}
		return c
	}
	if rapid.IntRange(0, 9).Draw(t, "dir_at_generated_path") == 0 {
		c.DirAtGeneratedPath = true
	}
	if !c.DirAtGeneratedPath && !c.Dot && !c.WithTyperefImpl && rapid.IntRange(0, 5).Draw(t, "out_missing") == 0 {
		return c // output directory does not exist
	}
	r := rules()
	tree := &cleanmodel.Node{Dir: true, Mode: 0o755, Children: genChildren(t, r, 3, false)}
	// names the fixed part of the population uses are reserved
	var kept []*cleanmodel.Node
	for _, ch := range tree.Children {
		if ch.Name != "verif" {
			kept = append(kept, ch)
		}
	}
	tree.Children = kept
	c.User = tree
	return c
}

func TestC20Regen(t *testing.T) {
	rec := stats.For("C20")
	sweepStale()
	if c, ok := hx.Replay[regenCase]("C20", "regen"); ok {
		if msg := checkRegen(rec, c); msg != "" {
			rec.Violation("regen-replay", msg, c)
			t.Fatal(msg)
		}
		return
	} else if hx.Replaying() {
		t.Skip()
	}
	// fixed scenarios first
	empty := &cleanmodel.Node{Dir: true, Mode: 0o755}
	fixed := []regenCase{
		{User: empty, WithTyperefImpl: true},
		{User: empty, WithTyperefImpl: false},
		{User: empty, WithTyperefImpl: true, Dot: true},
		{User: empty, NoUserFiles: true, Dot: true},
		{User: empty, NoUserFiles: true},
		{User: empty, WithTyperefImpl: true, PackageRoot: hx.Gen() == "v2"},
		{User: empty, WithTyperefImpl: true, PackageRoot: hx.Gen() == "v2", Dot: true},
		{User: empty, DirAtGeneratedPath: true},
		{User: empty, DirAtGeneratedPath: true, Dot: true},
		{User: nil},
		{User: d("", f("README.md", "# mine\n", 0o644), d("emptydir"), d("other", f("keep.go", "package other\n", 0o600)), f("all_imports_test.gr.go", "stale", 0o444)), WithTyperefImpl: true, Dot: true},
	}
	if si, _ := hx.ShardIndex(); si != 0 {
		fixed = nil // fixed table: one shard is enough
	}
	for i, c := range fixed {
		if msg := checkRegen(rec, c); msg != "" {
			rec.Violation(fmt.Sprintf("regen-fixed%d", i), msg, c)
			t.Fatalf("%s", msg)
		}
	}
	rapid.Check(t, func(rt *rapid.T) {
		c := genRegenCase(rt)
		if msg := checkRegen(rec, c); msg != "" {
			rec.Violation("regen-rapid", msg, c)
			rt.Fatalf("%s", msg)
		}
	})
}
