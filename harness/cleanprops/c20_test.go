package cleanprops

// C20 - regeneration never touches files the generator does not own.
//
// Domain: directory trees over {generated file, manifest, user .go file, other file, empty dir,
// nested dir}: (a) every tree of depth <= 2 with <= 3 entries per level and every tree of depth <= 3
// with <= 2 entries per level, up to entry order; (b) rapid-sampled trees of depth <= 3 with <= 3
// entries per level with adversarial names, modes and binary contents; (c) targets that do not
// exist; (d) the target given as ".", as a relative path and as an absolute path.
// Oracle: verif/core/model/cleanmodel (guarantees G1-G7 written from the property text); the
// regeneration part of the property is in regen_test.go.

import (
	"fmt"
	"os"
	"strings"
	"testing"

	"pgregory.net/rapid"

	"verif/core/hx"
	"verif/core/model/cleanmodel"
	"verif/core/stats"
)

func TestMain(m *testing.M) { hx.Main(m) }

func rules() cleanmodel.Rules { return cleanmodel.RulesFor(hx.Gen()) }

var sentinelSnapshot = cleanmodel.Flatten(sentinels)

// checkClean evaluates one case; "" when the property holds.
func checkClean(rec *stats.Recorder, ex *executor, c cleanCase) string {
	r := rules()
	if c.Missing == "" {
		if c.Tree == nil {
			panic("C20 harness: case without tree")
		}
		must(c.Tree.Valid())
	}
	obs := ex.run(c)
	class := c.Origin
	if i := strings.IndexAny(class, ":#"); i >= 0 {
		class = class[:i]
	}
	fail := func(format string, a ...any) string {
		m := fmt.Sprintf(format, a...)
		if c.Missing != "" {
			return m + fmt.Sprintf("\n target: non-existent path %q (mode %s)", c.Missing, c.Mode)
		}
		return m + fmt.Sprintf("\n mode=%s tree=%s\n after first clean: %v (target exists: %v)", c.Mode, c.Tree.Canonical(), obs.After1.Paths(), obs.After1.Exists)
	}
	outside := func() string {
		if d := cleanmodel.Diff(sentinelSnapshot, obs.Outside); d != "" {
			return fail("G1/G7: the directory holding the target changed (sentinel files beside the target): %s", d)
		}
		return ""
	}

	if c.Missing != "" {
		rec.Case("missing_target", "mode="+c.Mode)
		rec.NonTrivial("missing", c.Mode+"|"+c.Missing, func() any { return c })
		switch {
		case obs.Panic != "":
			return fail("cleaning a non-existent target panicked: %s", obs.Panic)
		case obs.Err1 != "" || obs.Err2 != "":
			return fail("G6: cleaning a non-existent target returned an error: %q / %q", obs.Err1, obs.Err2)
		case obs.After1.Exists || obs.After2.Exists:
			return fail("G7: cleaning a non-existent target created something at the sibling path %q", targetName)
		}
		return outside()
	}

	if obs.Built.Exists {
		if d := cleanmodel.Diff(cleanmodel.Flatten(c.Tree), obs.Built); d != "" {
			panic("C20 harness: the materialised tree differs from the model tree: " + d)
		}
	}
	// Report-only class: the current directory spelled "./" instead of ".". Everything about files and
	// sub-directories is asserted as for "."; an error return is only labelled and noted (whether the
	// quantifier's "current directory" covers this spelling is left to the reader of the evidence).
	dotslash := c.Mode == "dotslash"
	exp := cleanmodel.Expect(c.Tree, r, c.Mode == "dot" || dotslash)
	labels := append([]string{"mode=" + c.Mode, "origin=" + class}, exp.Labels...)
	if obs.Err1 != "" {
		switch {
		case len(exp.Unspecified) > 0:
			labels = append(labels, "unspecified_clean_returned_error")
			if strings.HasSuffix(obs.Err1, r.Manifest+": directory not empty") {
				noteOnce(rec, hx.Gen()+" report-only (outside the alphabet): a non-empty DIRECTORY named like the manifest makes CleanTargetDir return \"remove <dir>/"+r.Manifest+": directory not empty\" before anything in <dir> is cleaned")
			} else {
				noteOnce(rec, hx.Gen()+" report-only (outside the alphabet, directory with a generator-owned name): CleanTargetDir returned "+errShape(obs.Err1))
			}
		case dotslash:
			labels = append(labels, "reportonly_dotslash_clean_returned_error")
			noteOnce(rec, fmt.Sprintf("%s report-only: CleanTargetDir(\"./\") with cwd = target returned %q (seen when the directory is empty or holds nothing but generator-owned files and file-free directories, i.e. ends up empty)", hx.Gen(), obs.Err1))
		default:
			labels = append(labels, "first_clean_returned_error")
		}
	}
	rec.Case(labels...)
	if exp.NonTrivial {
		rec.NonTrivial(class, c.Mode+"|"+c.Tree.Canonical(), func() any { return c })
	}

	if obs.Panic != "" {
		return fail("CleanTargetDir panicked: %s", obs.Panic)
	}
	if v := exp.Check(obs.After1); len(v) > 0 {
		return fail("%s\n model: %s", strings.Join(v, "\n"), exp.Describe())
	}
	if m := outside(); m != "" {
		return m
	}
	if len(exp.Unspecified) > 0 {
		// outside the property's alphabet: only "no panic" and "no foreign file lost" (also on the second run)
		if v := exp.Check(obs.After2); len(v) > 0 {
			return fail("second clean: %s", strings.Join(v, "\n"))
		}
		return ""
	}
	if obs.Err1 != "" && !dotslash {
		return fail("G6: first clean returned an error: %s", obs.Err1)
	}
	if obs.Err2 != "" && !dotslash {
		return fail("G5: second clean returned an error: %s", obs.Err2)
	}
	if d := cleanmodel.Diff(obs.After1, obs.After2); d != "" {
		return fail("G5: second clean changed the tree: %s", d)
	}
	return ""
}

// errShape strips the scratch path from an error message so that equal errors give equal notes.
func errShape(e string) string {
	if i := strings.Index(e, "/"+targetName+"/"); i >= 0 {
		if j := strings.LastIndex(e[:i], " "); j >= 0 {
			return e[:j+1] + "<target>" + e[i+len(targetName)+1:]
		}
	}
	return e
}

// ---------------------------------------------------------------------------------------------
// (a) exhaustive enumeration

type enumSpace struct {
	name              string
	depth, maxEntries int
	// every tree runs in mode abs; every dotStride-th tree additionally in modes dot, rel and dotslash
	dotStride int
}

// dotStride is deliberately not subject to VERIF_SCALE (a smaller stride means more work)
func dotStride() int {
	if stats.Thorough() {
		return 1
	}
	return 8
}

func enumSpaces() []enumSpace {
	g := hx.Gen() + ": "
	if !stats.Thorough() && os.Getenv("VERIF_C20_QUICK_SPACE") == "small" {
		// quick tier of the root-module job (its CleanTargetDir differs from v2's only in the manifest name)
		return []enumSpace{{g + "trees depth<=2, <=2 entries/level, up to entry order", 2, 2, 1}, {g + "trees depth<=3, <=1 entry/level", 3, 1, 1}}
	}
	sp := []enumSpace{
		{g + "trees depth<=2, <=3 entries/level, up to entry order", 2, 3, dotStride()},
		{g + "trees depth<=3, <=1 entry/level", 3, 1, 1},
	}
	if stats.Thorough() {
		sp = append(sp, enumSpace{g + "trees depth<=3, <=2 entries/level, up to entry order", 3, 2, 1})
	}
	return sp
}

func TestC20Enum(t *testing.T) {
	rec := stats.For("C20")
	if hx.Replaying() {
		t.Skip()
	}
	sweepStale()
	ex := &executor{}
	defer ex.close()
	si, sn := hx.ShardIndex()
	for _, sp := range enumSpaces() {
		shapes := cleanmodel.Shapes(sp.depth, sp.maxEntries)
		var n, nd int64
		for i, sh := range shapes {
			if i%sn != si {
				continue
			}
			tree := cleanmodel.Materialise(sh, rules(), i)
			modes := []string{"abs"}
			if (i/sn)%sp.dotStride == 0 {
				modes = append(modes, "dot", "rel", "dotslash")
				nd++
			}
			for _, mode := range modes {
				c := cleanCase{Tree: tree, Mode: mode, Origin: fmt.Sprintf("enum:d%dx%d#%d", sp.depth, sp.maxEntries, i)}
				if msg := checkClean(rec, ex, c); msg != "" {
					rec.Violation(fmt.Sprintf("clean-enum-d%dx%d-%s", sp.depth, sp.maxEntries, mode), msg, c)
					t.Fatalf("%s", msg)
				}
			}
			n++
		}
		rec.Exhaustive(sp.name+" (absolute target path)", n)
		rec.Exhaustive(sp.name+" (target '.', relative target path, and './' as report-only class)", nd)
	}
}

// ---------------------------------------------------------------------------------------------
// (c) targets that do not exist

func TestC20Missing(t *testing.T) {
	rec := stats.For("C20")
	if hx.Replaying() {
		t.Skip()
	}
	sweepStale()
	ex := &executor{}
	defer ex.close()
	if si, _ := hx.ShardIndex(); si != 0 {
		return // fixed table: one shard is enough
	}
	for _, mode := range []string{"abs", "rel"} {
		for _, missing := range []string{"nope", "nope/", "nope/deeper", "nope/a.gr.go", "x.gr.go", rules().Manifest, "sib/nope", "./nope", "nope/../nope2"} {
			c := cleanCase{Mode: mode, Missing: missing, Origin: "missing"}
			if msg := checkClean(rec, ex, c); msg != "" {
				rec.Violation("clean-missing-"+mode, msg, c)
				t.Errorf("%s", msg)
			}
		}
	}
}

// ---------------------------------------------------------------------------------------------
// (b) rapid-sampled trees

var (
	dirNames       = []string{"sub", "pkg", "com", "a.b", ".git", "vendor", "dir with space", "ünï", "gr.go", "x.go", "internal", "A.GR.GO", "-", "..."}
	userGoNames    = []string{"MyTyperef.go", "custom.go", "x_test.go", "agr.go", "a.gr.go.go", "gr.go", "a.gr..go", "a_gr.go", ".go", "a.gr.go_test.go", "ünï.go", "with space.go", "a.Gr.go"}
	otherNames     = []string{"README", "data.json", "x.gr.go.bak", "a.gr.go.txt", "a.gr.gox", "A.GR.GO", "a.GR.go", "a.gr.Go", ".gr.goo", "a.gr.go~", "a.gr.go ", ".gr.go.swp", "gr", ".gitignore", "日本語.txt", "a b c.txt", "-rf", "*", "a\nb", "Makefile", ".gr.json", "a.gr.json", "manifest.gr.json"}
	generatedNames = []string{"a.gr.go", "b.gr.go", ".gr.go", "x y.gr.go", "é.gr.go", ".hidden.gr.go", "a.gr.go.gr.go", "A.gr.go", "all_imports_test.gr.go", "-.gr.go", "a.GR.GO.gr.go", " .gr.go"}
	contents       = [][]byte{nil, []byte("package x\n"), []byte("// Code generated by \"github.com/PapaCharlie/go-restli/v2\"; DO NOT EDIT.\npackage x\n"), {0}, {0xff, 0xfe, 0x00, '\n', '\r'}, []byte("{}")}
)

// names that look like a manifest but are not this generation's manifest
func manifestLookalikes(r cleanmodel.Rules) []string {
	other := cleanmodel.RulesFor("v1").Manifest
	if other == r.Manifest {
		other = cleanmodel.RulesFor("v2").Manifest
	}
	return []string{other, r.Manifest + ".bak", "x" + r.Manifest, strings.ToUpper(r.Manifest), strings.TrimSuffix(r.Manifest, ".json"), "." + r.Manifest, r.Manifest + " "}
}

func genContent(t *rapid.T) []byte {
	if rapid.IntRange(0, 2).Draw(t, "content_kind") == 0 {
		return rapid.SliceOfN(rapid.Byte(), 0, 48).Draw(t, "content_bytes")
	}
	return rapid.SampledFrom(contents).Draw(t, "content")
}

// entry kinds of genChildren, weighted; index 0 (what shrinking converges to) is the plainest one
var kindWeights = []int{5, 5, 3, 3, 0, 0, 2, 7, 8, 9, 9, 10, 10, 11, 11, 9, 10, 11}

func genChildren(t *rapid.T, r cleanmodel.Rules, depthLeft int, unspecified bool) []*cleanmodel.Node {
	// rapid favours small draws; the sum of two keeps "fewer entries" as the shrink direction while making full levels common
	n := rapid.IntRange(0, 3).Draw(t, "entries_a") + rapid.IntRange(0, 2).Draw(t, "entries_b")
	if n > 3 {
		n = 3
	}
	var out []*cleanmodel.Node
	used := map[string]bool{}
	for i := 0; i < n; i++ {
		var c *cleanmodel.Node
		fileMode := func() uint32 { return rapid.SampledFrom([]uint32{0o444, 0o644, 0o600}).Draw(t, "file_mode") }
		dirMode := func() uint32 { return rapid.SampledFrom([]uint32{0o755, 0o755, 0o700}).Draw(t, "dir_mode") }
		kind := rapid.SampledFrom(kindWeights).Draw(t, "kind")
		switch {
		case kind <= 1: // generated file
			c = &cleanmodel.Node{Name: rapid.SampledFrom(generatedNames).Draw(t, "gen_name"), Content: genContent(t), Mode: fileMode()}
		case kind == 2: // manifest
			c = &cleanmodel.Node{Name: r.Manifest, Content: genContent(t), Mode: fileMode()}
		case kind <= 4: // user .go file
			c = &cleanmodel.Node{Name: rapid.SampledFrom(userGoNames).Draw(t, "go_name"), Content: genContent(t), Mode: fileMode()}
		case kind <= 6: // other file
			c = &cleanmodel.Node{Name: rapid.SampledFrom(otherNames).Draw(t, "other_name"), Content: genContent(t), Mode: fileMode()}
		case kind == 7: // manifest lookalike
			c = &cleanmodel.Node{Name: rapid.SampledFrom(manifestLookalikes(r)).Draw(t, "lookalike_name"), Content: genContent(t), Mode: fileMode()}
		case kind == 8: // empty dir
			c = &cleanmodel.Node{Name: rapid.SampledFrom(dirNames).Draw(t, "dir_name"), Dir: true, Mode: dirMode()}
		default: // nested dir
			name := rapid.SampledFrom(dirNames).Draw(t, "dir_name")
			if unspecified && rapid.IntRange(0, 2).Draw(t, "owned_dir_name") == 0 {
				name = rapid.SampledFrom([]string{"x.gr.go", ".gr.go", r.Manifest}).Draw(t, "unspecified_dir_name")
			}
			c = &cleanmodel.Node{Name: name, Dir: true, Mode: dirMode()}
			if depthLeft > 1 {
				c.Children = genChildren(t, r, depthLeft-1, unspecified)
			}
		}
		if used[c.Name] {
			continue
		}
		used[c.Name] = true
		out = append(out, c)
	}
	return out
}

func genCase(t *rapid.T) cleanCase {
	r := rules()
	unspecified := rapid.IntRange(0, 9).Draw(t, "unspecified_class") == 0
	tree := &cleanmodel.Node{Dir: true, Mode: rapid.SampledFrom([]uint32{0o755, 0o755, 0o700}).Draw(t, "target_mode"), Children: genChildren(t, r, 3, unspecified)}
	mode := rapid.SampledFrom([]string{"abs", "abs", "abs", "abs", "dot", "dot", "rel", "dotslash"}).Draw(t, "mode")
	return cleanCase{Tree: tree, Mode: mode, Origin: "rapid"}
}

func TestC20Clean(t *testing.T) {
	rec := stats.For("C20")
	sweepStale()
	ex := &executor{}
	defer ex.close()
	if c, ok := hx.Replay[cleanCase]("C20", "clean"); ok {
		if msg := checkClean(rec, ex, c); msg != "" {
			rec.Violation("clean-replay", msg, c)
			t.Fatal(msg)
		}
		return
	} else if hx.Replaying() {
		t.Skip()
	}
	rapid.Check(t, func(rt *rapid.T) {
		c := genCase(rt)
		if msg := checkClean(rec, ex, c); msg != "" {
			rec.Violation("clean-rapid", msg, c)
			rt.Fatalf("%s", msg)
		}
	})
}

// ---------------------------------------------------------------------------------------------
// regression / hand-picked cases (evaluated in every tier, all target modes)

func f(name string, content string, mode uint32) *cleanmodel.Node {
	return &cleanmodel.Node{Name: name, Content: []byte(content), Mode: mode}
}

func d(name string, children ...*cleanmodel.Node) *cleanmodel.Node {
	return &cleanmodel.Node{Name: name, Dir: true, Mode: 0o755, Children: children}
}

func regressionTrees() []*cleanmodel.Node {
	m := rules().Manifest
	return []*cleanmodel.Node{
		// the six cases of the repository's own unit test
		d("", d("b", d("c", f("foo.gr.go", "", 0o444)))),
		d("", d("b", d("c", f("foo.gr.go", "", 0o444)), d("d", f("bar.gr.go", "", 0o444)))),
		d("", f("foo.go", "", 0o444), f("garbage.zip", "", 0o444)),
		d("", f("foo.gr.go", "", 0o444), f("garbage.zip", "", 0o444)),
		d(""),
		// custom typeref implementation beside generated code, manifest on top
		d("", f(m, "{}", 0o444), f("all_imports_test.gr.go", "package main\n", 0o444),
			d("com", d("ns", f("Rec.gr.go", "package ns\n", 0o444), f("MyTyperef.go", "package ns\n\ntype MyTyperef int64\n", 0o644), f("init_custom_typerefs.gr.go", "package ns\n", 0o444)))),
		// nested output directories: a manifest below the top level
		d("", f(m, "{}", 0o444), d("inner", f(m, "{\"inner\":true}", 0o444), f("A.gr.go", "x", 0o444)), d("keep", f(m+".bak", "{}", 0o644))),
		// look-alike names that are not owned
		d("", f("A.GR.GO", "upper", 0o644), f("a.gr.go.txt", "txt", 0o644), f("agr.go", "package a\n", 0o644), f(".gr.go", "owned", 0o444)),
		d("", d("only-empty", d("e1"), d("e2")), f("a.gr.go", "x", 0o444)),
		d("", d("x", f("a.gr.go", "x", 0o400), d("y", f("b.gr.go", "x", 0o400), d("z", f("c.gr.go", "", 0o400), f("keep", "k", 0o600))))),
	}
}

func TestC20Regress(t *testing.T) {
	rec := stats.For("C20")
	if hx.Replaying() {
		t.Skip()
	}
	sweepStale()
	ex := &executor{}
	defer ex.close()
	if si, _ := hx.ShardIndex(); si != 0 {
		return // fixed table: one shard is enough
	}
	for i, tree := range regressionTrees() {
		for _, mode := range []string{"abs", "dot", "rel", "dotslash"} {
			c := cleanCase{Tree: tree, Mode: mode, Origin: fmt.Sprintf("regress#%d", i)}
			if msg := checkClean(rec, ex, c); msg != "" {
				rec.Violation(fmt.Sprintf("clean-regress%d-%s", i, mode), msg, c)
				t.Errorf("%s", msg)
			}
		}
	}
}
