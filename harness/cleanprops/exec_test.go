package cleanprops

// Execution side of C20: materialise a model tree in a real scratch directory, run the real
// CleanTargetDir on it (twice), snapshot the result. Scratch directories live under os.TempDir()
// (outside /repo and /verif), are named verif-c20-<pid>-*, and are removed after every case, also when
// the case fails. Target modes that need a process-global chdir ("dot": clean "." from inside the
// target, "rel": clean a relative path) are executed in a re-exec'ed helper process of this test binary.

import (
	"bufio"
	"encoding/json"
	"fmt"
	"io"
	"io/fs"
	"os"
	"os/exec"
	"path/filepath"
	"strconv"
	"strings"
	"sync"
	"syscall"
	"testing"

	"github.com/PapaCharlie/go-restli/v2/codegen/utils"

	"verif/core/hx"
	"verif/core/model/cleanmodel"
)

const helperEnv = "VERIF_C20_HELPER"

// cleanCase is the JSON-serialisable case of the cleaning checks.
type cleanCase struct {
	Tree *cleanmodel.Node `json:"tree,omitempty"`
	// Mode: "abs" (absolute path of the target), "rel" (cwd = parent of the target, relative path),
	// "dot" (cwd = the target, path "."), "dotslash" (cwd = the target, path "./": report-only class, see checkClean).
	Mode string `json:"mode"`
	// Missing, when set, is a path below the parent directory that does not exist; Tree is ignored.
	Missing string `json:"missing,omitempty"`
	Origin  string `json:"origin,omitempty"`
}

type observation struct {
	Panic   string              `json:"panic,omitempty"`
	Err1    string              `json:"err1,omitempty"`
	Err2    string              `json:"err2,omitempty"`
	Built   cleanmodel.Snapshot `json:"built"`
	After1  cleanmodel.Snapshot `json:"after1"`
	After2  cleanmodel.Snapshot `json:"after2"`
	Outside cleanmodel.Snapshot `json:"outside"` // the parent directory without the target, after both cleans
}

// ---------------------------------------------------------------------------------------------
// scratch directories

var scratchPrefix = fmt.Sprintf("verif-c20-%d-", os.Getpid())

func newScratch() string {
	d, err := os.MkdirTemp("", scratchPrefix)
	if err != nil {
		panic(fmt.Sprintf("C20 harness: cannot create scratch directory: %v", err))
	}
	return d
}

func makeWritable(root string) {
	_ = filepath.WalkDir(root, func(p string, d fs.DirEntry, err error) error {
		if err != nil {
			return nil
		}
		if d.IsDir() {
			_ = os.Chmod(p, 0o755)
		}
		return nil
	})
}

// removeScratch deletes a scratch tree. Read-only files (the generator writes 0444) need no chmod to be
// unlinked; directories are made writable only if the plain removal fails.
func removeScratch(d string) {
	if err := os.RemoveAll(d); err != nil {
		makeWritable(d)
		if err := os.RemoveAll(d); err != nil {
			panic(fmt.Sprintf("C20 harness: cannot remove scratch directory %s: %v", d, err))
		}
	}
}

// arena: the scratch directory of this process for cleaning cases. The parent directory with its
// sentinel files is reused from case to case (it is verified after every clean and rebuilt whenever it
// was touched); only the target below it is built and removed per case.
type arena struct{ root, parent string }

var theArena *arena

func getArena() *arena {
	if theArena == nil {
		root := newScratch()
		theArena = &arena{root: root, parent: filepath.Join(root, "p")}
		materialise(theArena.parent, sentinels)
	}
	return theArena
}

func dropArena() {
	if theArena != nil {
		removeScratch(theArena.root)
		theArena = nil
	}
}

var umask = func() int {
	u := syscall.Umask(0)
	syscall.Umask(u)
	return u
}()

var sweepOnce sync.Once

// sweepStale removes scratch directories left behind by harness processes that no longer exist (a
// shard killed by the driver's timeout cannot clean up after itself).
func sweepStale() {
	sweepOnce.Do(func() {
		ents, err := os.ReadDir(os.TempDir())
		if err != nil {
			return
		}
		for _, e := range ents {
			rest, ok := strings.CutPrefix(e.Name(), "verif-c20-")
			if !ok || !e.IsDir() {
				continue
			}
			pidStr, _, ok := strings.Cut(rest, "-")
			pid, err := strconv.Atoi(pidStr)
			if !ok || err != nil || pid == os.Getpid() {
				continue
			}
			if _, err := os.Stat(fmt.Sprintf("/proc/%d", pid)); os.IsNotExist(err) {
				p := filepath.Join(os.TempDir(), e.Name())
				makeWritable(p)
				_ = os.RemoveAll(p)
			}
		}
	})
}

// ---------------------------------------------------------------------------------------------
// materialise / snapshot

func must(err error) {
	if err != nil {
		panic(fmt.Sprintf("C20 harness: %v", err))
	}
}

func materialise(dir string, n *cleanmodel.Node) {
	must(os.Mkdir(dir, 0o755))
	defer func() {
		if m := os.FileMode(n.FileMode()); m != 0o755&^os.FileMode(umask) {
			must(os.Chmod(dir, m))
		}
	}()
	for _, c := range n.Children {
		p := filepath.Join(dir, c.Name)
		if c.Dir {
			materialise(p, c)
		} else {
			m := os.FileMode(c.FileMode())
			must(os.WriteFile(p, c.Content, m))
			if m&^os.FileMode(umask) != m {
				must(os.Chmod(p, m))
			}
		}
	}
}

// snapshot reads the state of dir; skip (may be "") is the name of a top-level entry to leave out.
func snapshot(dir, skip string) cleanmodel.Snapshot {
	s := cleanmodel.Snapshot{Entries: map[string]cleanmodel.Entry{}}
	st, err := os.Lstat(dir)
	if os.IsNotExist(err) {
		return s
	}
	must(err)
	if !st.IsDir() {
		panic(fmt.Sprintf("C20 harness: %s is not a directory", dir))
	}
	s.Exists = true
	var walk func(abs, rel string)
	walk = func(abs, rel string) {
		ents, err := os.ReadDir(abs)
		must(err)
		for _, e := range ents {
			if rel == "" && skip != "" && e.Name() == skip {
				continue
			}
			r := e.Name()
			if rel != "" {
				r = rel + "/" + e.Name()
			}
			a := filepath.Join(abs, e.Name())
			info, err := os.Lstat(a)
			must(err)
			switch {
			case info.IsDir():
				s.Entries[r] = cleanmodel.Entry{Dir: true, Mode: uint32(info.Mode().Perm())}
				walk(a, r)
			case info.Mode().IsRegular():
				b, err := os.ReadFile(a)
				must(err)
				if b == nil {
					b = []byte{}
				}
				s.Entries[r] = cleanmodel.Entry{Content: b, Mode: uint32(info.Mode().Perm())}
			default:
				panic(fmt.Sprintf("C20 harness: unexpected file type at %s: %v", a, info.Mode()))
			}
		}
	}
	walk(dir, "")
	return s
}

// the files placed next to the target; nothing outside the target may ever change
var sentinels = &cleanmodel.Node{Dir: true, Children: []*cleanmodel.Node{
	{Name: "keep.txt", Content: []byte("outside the target\n"), Mode: 0o644},
	{Name: "sib", Dir: true, Mode: 0o755, Children: []*cleanmodel.Node{
		{Name: "Keep.go", Content: []byte("package sib\n"), Mode: 0o444},
	}},
}}

const targetName = "t"

var inHelper = os.Getenv(helperEnv) != ""

var builtChecks int

// executeLocal runs one case in this process.
func executeLocal(c cleanCase) (obs observation) {
	if c.Mode != "abs" && !inHelper {
		panic("C20 harness: chdir modes must run in the helper process")
	}
	parent := getArena().parent
	target := filepath.Join(parent, targetName)
	defer func() {
		// leave the arena as it was: no target, untouched sentinels (rebuild it if a clean damaged it)
		removeScratch(target)
		if cleanmodel.Diff(sentinelSnapshot, obs.Outside) != "" {
			dropArena()
		}
	}()
	var arg string
	chdir := ""
	if c.Missing != "" {
		switch c.Mode {
		case "abs":
			arg = parent + string(filepath.Separator) + c.Missing
		case "rel":
			chdir, arg = parent, c.Missing
		default:
			panic("C20 harness: missing target with mode " + c.Mode)
		}
	} else {
		materialise(target, c.Tree)
		if builtChecks++; builtChecks%8 == 1 {
			obs.Built = snapshot(target, "") // harness self-check on every 8th case
		}
		switch c.Mode {
		case "abs":
			arg = target
		case "rel":
			chdir, arg = parent, targetName
		case "dot":
			chdir, arg = target, "."
		case "dotslash":
			chdir, arg = target, "./"
		default:
			panic("C20 harness: unknown mode " + c.Mode)
		}
	}
	if chdir != "" {
		must(os.Chdir(chdir))
		defer func() { must(os.Chdir("/")) }()
	}
	run := func() string {
		var err error
		if p, v, st := hx.Try(func() { err = utils.CleanTargetDir(arg) }); p {
			obs.Panic = fmt.Sprintf("%v\n%s", v, st)
			return ""
		}
		if err != nil {
			return err.Error()
		}
		return ""
	}
	obs.Err1 = run()
	obs.After1 = snapshot(target, "")
	if obs.Panic == "" {
		obs.Err2 = run()
		obs.After2 = snapshot(target, "")
	}
	obs.Outside = snapshot(parent, targetName)
	return obs
}

// ---------------------------------------------------------------------------------------------
// helper process for the chdir modes: JSON lines over fd 3 (requests) and fd 4 (responses)

type dotServer struct {
	cmd   *exec.Cmd
	req   *os.File
	resp  *bufio.Reader
	respF *os.File
	enc   *json.Encoder
}

func startDotServer() *dotServer {
	reqR, reqW, err := os.Pipe()
	must(err)
	respR, respW, err := os.Pipe()
	must(err)
	cmd := exec.Command(selfExe(), "-test.run", "^TestHelperDotServer$", "-test.count", "1", "-test.timeout", "0")
	cmd.Env = helperEnviron("dotserver")
	cmd.Dir = "/"
	cmd.ExtraFiles = []*os.File{reqR, respW}
	cmd.Stdout = io.Discard
	cmd.Stderr = os.Stderr
	must(cmd.Start())
	_ = reqR.Close()
	_ = respW.Close()
	return &dotServer{cmd: cmd, req: reqW, resp: bufio.NewReaderSize(respR, 1<<20), respF: respR, enc: json.NewEncoder(reqW)}
}

// selfExe is the absolute path of this test binary (os.Args[0] may be relative to the original cwd).
func selfExe() string {
	p, err := os.Executable()
	must(err)
	return p
}

func helperEnviron(mode string) []string {
	var env []string
	for _, kv := range os.Environ() {
		if strings.HasPrefix(kv, "VERIF_STATS_DIR=") || strings.HasPrefix(kv, "VERIF_REPLAY=") || strings.HasPrefix(kv, helperEnv+"=") {
			continue
		}
		env = append(env, kv)
	}
	return append(env, helperEnv+"="+mode)
}

func (d *dotServer) execute(c cleanCase) observation {
	must(d.enc.Encode(c))
	line, err := d.resp.ReadBytes('\n')
	if err != nil {
		panic(fmt.Sprintf("C20 harness: helper process died: %v", err))
	}
	var obs observation
	must(json.Unmarshal(line, &obs))
	return obs
}

func (d *dotServer) stop() {
	_ = d.req.Close()
	_ = d.cmd.Wait()
	_ = d.respF.Close()
}

// executor runs cases, starting the helper on first use.
type executor struct {
	dot *dotServer
}

func (e *executor) run(c cleanCase) observation {
	if c.Mode == "abs" {
		return executeLocal(c)
	}
	if e.dot == nil {
		e.dot = startDotServer()
	}
	return e.dot.execute(c)
}

func (e *executor) close() {
	if e.dot != nil {
		e.dot.stop()
		e.dot = nil
	}
	dropArena()
}

func TestHelperDotServer(t *testing.T) {
	if os.Getenv(helperEnv) != "dotserver" {
		t.Skip("helper")
	}
	in := os.NewFile(3, "requests")
	out := os.NewFile(4, "responses")
	dec := json.NewDecoder(in)
	enc := json.NewEncoder(out)
	for {
		var c cleanCase
		if err := dec.Decode(&c); err != nil {
			if err == io.EOF {
				dropArena()
				return
			}
			panic(fmt.Sprintf("C20 helper: bad request: %v", err))
		}
		must(enc.Encode(executeLocal(c)))
	}
}
