package cleanprops

// C20, user symbolic links: a symbolic link inside the output tree is a file the generator does not own. Cleaning must
// leave the link itself untouched and must not reach through it: whatever lies behind it (a directory outside the output
// tree, with generator-suffixed files, a manifest-named file, user files, or nothing at all) stays byte for byte as it was.

import (
	"fmt"
	"os"
	"path/filepath"
	"testing"

	"github.com/PapaCharlie/go-restli/v2/codegen/utils"
	"pgregory.net/rapid"

	"verif/core/hx"
	"verif/core/model/cleanmodel"
	"verif/core/stats"
)

type symCase struct {
	Depth       int    `json:"link_depth"`
	LinkName    string `json:"link_name"`
	Relative    bool   `json:"relative_link"`
	ExtGen      bool   `json:"outside_generated_file"`
	ExtManifest bool   `json:"outside_manifest"`
	ExtUser     bool   `json:"outside_user_file"`
	ExtSubGen   bool   `json:"outside_subdir_generated_file"`
	SibGen      bool   `json:"sibling_generated_file"`
	SibUser     bool   `json:"sibling_user_file"`
	TopGen      bool   `json:"top_generated_file"`
}

func checkSymlink(rec *stats.Recorder, c symCase) string {
	r := rules()
	scratch := newScratch()
	defer removeScratch(scratch)
	target := filepath.Join(scratch, "out")
	ext := filepath.Join(scratch, "ext")
	must(os.MkdirAll(ext, 0o755))
	write := func(p, content string) {
		must(os.MkdirAll(filepath.Dir(p), 0o755))
		must(os.WriteFile(p, []byte(content), 0o644))
	}
	if c.ExtGen {
		write(filepath.Join(ext, "legacy.gr.go"), "package ext // not in the output tree\n")
	}
	if c.ExtManifest {
		write(filepath.Join(ext, r.Manifest), "{}")
	}
	if c.ExtUser {
		write(filepath.Join(ext, "keep.txt"), "user data")
	}
	if c.ExtSubGen {
		write(filepath.Join(ext, "pkg", "types.gr.go"), "package pkg\n")
	}
	dir := target
	for i := 0; i < c.Depth; i++ {
		dir = filepath.Join(dir, fmt.Sprintf("d%d", i))
	}
	must(os.MkdirAll(dir, 0o755))
	link := filepath.Join(dir, c.LinkName)
	dest := ext
	if c.Relative {
		rel, err := filepath.Rel(dir, ext)
		must(err)
		dest = rel
	}
	must(os.Symlink(dest, link))
	if c.SibGen {
		write(filepath.Join(dir, "sib.gr.go"), "package sib\n")
	}
	if c.SibUser {
		write(filepath.Join(dir, "mine.go"), "package sib\n")
	}
	if c.TopGen {
		write(filepath.Join(target, "top.gr.go"), "package top\n")
	}
	before := snapshot(ext, "")
	rec.Case("symlink", fmt.Sprintf("link_depth=%d", c.Depth), fmt.Sprintf("outside_empty=%v", len(before.Entries) == 0))
	if c.ExtGen || c.ExtManifest || c.ExtSubGen || len(before.Entries) == 0 {
		rec.NonTrivial("symlink", hx.J(c), func() any { return c })
	}
	fail := func(format string, a ...any) string {
		return fmt.Sprintf(format, a...) + "\n case=" + hx.J(c)
	}
	for round := 1; round <= 2; round++ {
		var err error
		if p, v, st := hx.Try(func() { err = utils.CleanTargetDir(target) }); p {
			return fail("CleanTargetDir panicked on a tree holding a symbolic link: %v\n%s", v, st)
		}
		if err != nil {
			return fail("G6: clean %d of a tree holding a symbolic link returned an error: %v", round, err)
		}
		if d := cleanmodel.Diff(before, snapshot(ext, "")); d != "" {
			return fail("G1: clean %d reached through the user's symbolic link %q and changed the directory it points to, outside the output tree: %s", round, c.LinkName, d)
		}
		st, err := os.Lstat(link)
		if err != nil || st.Mode()&os.ModeSymlink == 0 {
			return fail("G1: the user's symbolic link %q (a file the generator does not own) is gone or no longer a link after clean %d: %v", c.LinkName, round, err)
		}
		if got, _ := os.Readlink(link); got != dest {
			return fail("G1: the user's symbolic link %q points to %q after clean %d, was %q", c.LinkName, got, round, dest)
		}
		for _, p := range []string{filepath.Join(dir, "sib.gr.go"), filepath.Join(target, "top.gr.go")} {
			if _, err := os.Lstat(p); err == nil {
				return fail("G2: generator-owned file %q survived clean %d", p[len(target)+1:], round)
			}
		}
		if c.SibUser {
			if b, err := os.ReadFile(filepath.Join(dir, "mine.go")); err != nil || string(b) != "package sib\n" {
				return fail("G1: the user file beside the symbolic link changed in clean %d: %v", round, err)
			}
		}
	}
	return ""
}

func TestC20Symlinks(t *testing.T) {
	rec := stats.For("C20")
	sweepStale()
	if c, ok := hx.Replay[symCase]("C20", "symlink"); ok {
		if msg := checkSymlink(rec, c); msg != "" {
			rec.Violation("symlink", msg, c)
			t.Fatal(msg)
		}
		return
	} else if hx.Replaying() {
		t.Skip()
	}
	rapid.Check(t, func(rt *rapid.T) {
		c := symCase{
			Depth:       rapid.IntRange(0, 2).Draw(rt, "depth"),
			LinkName:    rapid.SampledFrom([]string{"shared", "link", "vendor.go", "data"}).Draw(rt, "name"),
			Relative:    rapid.Bool().Draw(rt, "relative"),
			ExtGen:      rapid.Bool().Draw(rt, "ext_gen"),
			ExtManifest: rapid.Bool().Draw(rt, "ext_manifest"),
			ExtUser:     rapid.Bool().Draw(rt, "ext_user"),
			ExtSubGen:   rapid.Bool().Draw(rt, "ext_sub_gen"),
			SibGen:      rapid.Bool().Draw(rt, "sib_gen"),
			SibUser:     rapid.Bool().Draw(rt, "sib_user"),
			TopGen:      rapid.Bool().Draw(rt, "top_gen"),
		}
		if msg := checkSymlink(rec, c); msg != "" {
			rec.Violation("symlink", msg, c)
			rt.Fatalf("property violated (details in the replay file)")
		}
	})
}
