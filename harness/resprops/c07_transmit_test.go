package resprops

// C07, client half for whole entities: "create never transmits read-only fields; update and batch update never transmit
// read-only or create-only fields". Every create / update / batch_create / batch_update on an annotated resource is made
// through the generated client with an entity that holds values at the annotated paths; the request body on the wire is read
// with the reference parser and must hold nothing at a path the method's exclusion matches, and the call must arrive at the
// resource with exactly the remaining fields (C02's oracle, run here under C07).

import (
	"fmt"
	"testing"

	"pgregory.net/rapid"

	"verif/HARNESS/dyn"
	"verif/core/aval"
	"verif/core/hx"
	"verif/core/refcodec"
	"verif/core/stats"
)

func checkTransmit(rec *stats.Recorder, c callCase) string {
	mi := dyn.FindMethod(S, c.Call.Resource, c.Call.Method)
	w := getWorld(c.Mount)
	spec := exclusionFor(mi)
	// does the caller's entity hold anything at an annotated path?
	holds := 0
	ents := append([]*aval.V(nil), c.Call.Entities...)
	if c.Call.Entity != nil {
		ents = append(ents, c.Call.Entity)
	}
	for _, kv := range c.Call.EntityMap {
		ents = append(ents, kv.V)
	}
	for _, e := range ents {
		p := e.Clone()
		pruneExcluded(*mi.Entity, p, spec, nil)
		if !aval.Equal(e, p) {
			holds++
		}
	}
	rec.Case("transmit", "method="+mi.Rest(), fmt.Sprintf("entities_holding_annotated_values=%d", min3(holds)))
	if holds > 0 {
		rec.NonTrivial("transmit", "tx|"+hx.J(c.Call)+hx.J(c.Config), func() any { return c })
	}
	var got *dyn.Outcome
	var err error
	var sl *slot
	if p, pv, st := hx.Try(func() { got, err, sl, _, _ = w.do(c.Config, &c.Call, &c.Outcome, nil) }); p {
		return fmt.Sprintf("client call panicked: %v\n%s", pv, st)
	}
	if sl != nil && len(sl.wire) == 1 {
		cp := sl.wire[0]
		body := cp.Body
		if cp.Header.Get("X-HTTP-Method-Override") == "" && body != "" {
			if tr, perr := refcodec.ParseJSON([]byte(body)); perr == nil {
				var trees []*refcodec.Tree
				switch mi.Rest() {
				case "create", "update":
					trees = []*refcodec.Tree{tr}
				case "batch_create":
					if el := tr.Get("elements"); el != nil {
						trees = el.Arr
					}
				case "batch_update":
					if en := tr.Get("entities"); en != nil {
						for _, kv := range en.Obj {
							trees = append(trees, kv.V)
						}
					}
				}
				for _, et := range trees {
					v, ferr := refcodec.FromTree(S, *mi.Entity, et, refcodec.Opts{Bytes: refcodec.RawUTF8})
					if ferr != nil {
						continue // (C03 judges the document)
					}
					p := v.Clone()
					pruneExcluded(*mi.Entity, p, spec, nil)
					if d := aval.Diff(p, v, ""); d != "" {
						return fmt.Sprintf("a %s request transmits a value at an annotated path (%s)\n %s.%s read-only=%v create-only=%v\n wire: %s %s body=%s", mi.Rest(), d,
							c.Call.Resource, c.Call.Method, mi.R.ReadOnly, mi.R.CreateOnly, cp.Method, cp.URI, hx.Q(body))
					}
				}
				rec.Label("transmit_bodies_read", 1)
			}
		}
	}
	return judgeCall(mi, &c, got, err, sl)
}

func TestC07Transmit(t *testing.T) {
	rec := stats.For("C07")
	g := keyGen()
	if c, ok := hx.Replay[callCase]("C07", "transmit"); ok {
		if msg := checkTransmit(rec, c); msg != "" {
			rec.Violation("transmit", msg, c)
			t.Fatal(msg)
		}
		return
	} else if hx.Replaying() {
		t.Skip()
	}
	var ms []*dyn.MethodInfo
	for _, mi := range annotatedMethods() {
		switch mi.Rest() {
		case "create", "update", "batch_create", "batch_update":
			if mi.M.Kind == "REST_METHOD" {
				ms = append(ms, mi)
			}
		}
	}
	if len(ms) == 0 {
		panic("corpus has no annotated resource with create / update methods")
	}
	rapid.Check(t, func(rt *rapid.T) {
		mi := ms[pick(rt, len(ms), "method")]
		c := callCase{CorpusSeed: corpusSeed, Mount: "bare"}
		c.Config.Threshold = 0
		c.Config.Transport = "inprocess"
		c.Call = genCall(rt, g, mi)
		c.Outcome = genOutcome(rt, g, mi, &c.Call)
		if msg := checkTransmit(rec, c); msg != "" {
			rec.Violation("transmit", msg, c)
			rt.Fatalf("property violated (details in the replay file)")
		}
	})
}
