package resprops

// C08 - error and status propagation from resource code to the calling client.

import (
	"errors"
	"fmt"
	"net/http"
	"strings"
	"sync"
	"testing"

	"github.com/PapaCharlie/go-restli/v2/restli"
	"github.com/PapaCharlie/go-restli/v2/restlidata/generated/com/linkedin/restli/common"
	"pgregory.net/rapid"

	"verif/HARNESS/dyn"
	"verif/core/aval"
	"verif/core/hx"
	"verif/core/kf"
	"verif/core/schema"
	"verif/core/stats"
)

type errCase struct {
	callCase
	Kind string `json:"kind"` // error-response plain-error panic nil-result status-override default-status
}

func sp(s string) *string { return &s }
func ip(i int32) *int32    { return &i }

func genErrM(rt *rapid.T) *dyn.ErrM {
	e := &dyn.ErrM{}
	text := func(label string) *string {
		return sp(rapid.SampledFrom([]string{"boom", "", "not found: é(x),y:'z'%", "line1\nline2", "\"quoted\"\\", "a very long message " + strings.Repeat("x", 300), "a message longer than a network read buffer " + strings.Repeat("0123456789abcdef", 600) + " END",
			"a text longer than 16 KiB " + strings.Repeat("at pkg.Func(file.go:12)\n\t", 1500) + "END"}).Draw(rt, label))
	}
	if rapid.IntRange(0, 3).Draw(rt, "hasStatus") > 0 {
		e.Status = ip(int32(rapid.SampledFrom([]int{400, 401, 403, 404, 409, 412, 422, 429, 500, 501, 503, 599}).Draw(rt, "status")))
	}
	if rapid.Bool().Draw(rt, "hasMsg") {
		e.Message = text("msg")
	}
	if rapid.Bool().Draw(rt, "hasCode") {
		e.Code = sp(rapid.SampledFrom([]string{"INPUT_VALIDATION_FAILED", "X", ""}).Draw(rt, "code"))
	}
	if rapid.Bool().Draw(rt, "hasSvc") {
		e.ServiceErrorCode = ip(rapid.Int32().Draw(rt, "svc"))
	}
	if rapid.Bool().Draw(rt, "hasExc") {
		e.ExceptionClass = sp("com.example.Boom$Inner")
	}
	if rapid.Bool().Draw(rt, "hasTrace") {
		e.StackTrace = text("trace")
	}
	if rapid.IntRange(0, 3).Draw(rt, "hasDoc") == 0 {
		e.DocUrl = sp("http://docs/err?a=b&c=d")
	}
	if rapid.IntRange(0, 3).Draw(rt, "hasReq") == 0 {
		e.RequestId = sp("req-1")
	}
	if rapid.IntRange(0, 3).Draw(rt, "hasDetType") == 0 {
		e.ErrorDetailType = sp("com.example.Details")
	}
	e.Details = rapid.IntRange(0, 3).Draw(rt, "hasDet") == 0
	// root module: its ErrorResponse has only status / message / exceptionClass / stackTrace; the other fields cannot
	// be returned by resource code there and are cleared (no-op for v2; the draws above stay the same)
	return e.Restrict()
}

// poison puts an unserialisable item (the "unknown" enum constant, a union without member) into the first array or
// map of enums / unions of the value; false when the type has no such position.
func poison(t schema.Type, v *aval.V) bool {
	bad := func(et schema.Type) *aval.V {
		if et.Ref == nil {
			return nil
		}
		switch n := S.Lookup(*et.Ref); {
		case n.Kind == "enum":
			return aval.Enum("")
		case n.Kind == "union" && !n.HasNull:
			return aval.Union("", nil)
		}
		return nil
	}
	switch {
	case t.Array != nil:
		if b := bad(*t.Array); b != nil {
			v.Arr = append(v.Arr, b)
			return true
		}
		if len(v.Arr) > 0 {
			return poison(*t.Array, v.Arr[0])
		}
	case t.Map != nil:
		if b := bad(*t.Map); b != nil {
			v.Put("zz", b)
			return true
		}
	case t.Ref != nil:
		if n := S.Lookup(*t.Ref); n.Kind == "record" {
			for _, f := range S.AllFields(n) {
				x, ok := v.Flds[f.Name]
				if !ok && ((f.Type.Array != nil && bad(*f.Type.Array) != nil) || (f.Type.Map != nil && bad(*f.Type.Map) != nil)) {
					// an absent optional container of enums / unions: add it
					if f.Type.Array != nil {
						x = aval.Array()
					} else {
						x = aval.Map()
					}
					v.Flds[f.Name], ok = x, true
				}
				if ok && poison(f.Type, x) {
					return true
				}
			}
		}
	}
	return false
}

var (
	poisonableOnce sync.Once
	poisonableList []*dyn.MethodInfo
)

func poisonableActions() []*dyn.MethodInfo {
	poisonableOnce.Do(func() {
		for _, mi := range methods {
			if mi.M.Kind != "ACTION" || mi.M.Return == nil {
				continue
			}
			rt := *mi.M.Return
			if (rt.Array != nil && rt.Array.Ref != nil) || (rt.Map != nil && rt.Map.Ref != nil) {
				et := rt.Array
				if et == nil {
					et = rt.Map
				}
				if n := S.Lookup(*et.Ref); n.Kind == "enum" || (n.Kind == "union" && !n.HasNull) {
					poisonableList = append(poisonableList, mi)
				}
			}
		}
	})
	return poisonableList
}

var (
	poisonableMOnce sync.Once
	poisonableMList []*dyn.MethodInfo
)

// poisonableMethods: the actions above plus every method returning (or creating with return of) an entity whose type
// has an array / map of enums or unions.
func poisonableMethods() []*dyn.MethodInfo {
	poisonableMOnce.Do(func() {
		poisonableMList = append(poisonableMList, poisonableActions()...)
		for _, mi := range methods {
			if mi.M.Kind == "ACTION" || mi.Entity == nil || !poison(*mi.Entity, validValue(*mi.Entity)) {
				continue
			}
			switch mi.Rest() {
			case "get", "get_all":
				poisonableMList = append(poisonableMList, mi)
			case "create", "partial_update":
				if mi.M.ReturnEntity {
					poisonableMList = append(poisonableMList, mi)
				}
			default:
				if mi.M.Kind == "FINDER" {
					poisonableMList = append(poisonableMList, mi)
				}
			}
		}
	})
	return poisonableMList
}

func defaultStatus(mi *dyn.MethodInfo) int {
	switch mi.Rest() {
	case "create":
		return http.StatusCreated
	case "update", "delete":
		return http.StatusNoContent
	case "partial_update":
		if mi.M.ReturnEntity {
			return http.StatusOK
		}
		return http.StatusNoContent
	}
	if mi.M.Kind == "ACTION" && mi.M.Return == nil {
		return http.StatusOK
	}
	return http.StatusOK
}

func checkErr(rec *stats.Recorder, c errCase) (msg string, known string) {
	mi := dyn.FindMethod(S, c.Call.Resource, c.Call.Method)
	if c.Mount == "" {
		c.Mount = "bare" // (replay files written before the mount was drawn)
	}
	w := getWorld(c.Mount)
	kind := mi.M.Kind
	if kind == "REST_METHOD" {
		kind = mi.M.Name
	}
	rec.Case("outcome="+c.Kind, "method="+strings.ToLower(kind))
	rec.NonTrivial(c.Kind, c.Kind+"|"+c.Call.Resource+"."+c.Call.Method+"|"+hx.J(c.Outcome.Err)+fmt.Sprint(c.Outcome.StatusOverride, c.Outcome.NilResult), func() any { return c })
	scripted := c.Outcome
	var errObj *common.ErrorResponse
	var snapshot *dyn.ErrM
	if c.Kind == "error-response" {
		errObj = scripted.Err.ToGo()
		snapshot = dyn.ErrFromGo(errObj)
		scripted.GoErr = errObj
	}
	var got *dyn.Outcome
	var err error
	var sl *slot
	cfg := c.Config
	cfg.Transport = "inprocess"
	if p, pv, st := hx.Try(func() { got, err, sl, _, _ = w.do(cfg, &c.Call, &scripted, nil) }); p {
		return fmt.Sprintf("the client call panicked in the caller's goroutine: %v\n%s", pv, st), ""
	}
	var cp *capture
	if sl != nil && len(sl.wire) > 0 {
		cp = sl.wire[len(sl.wire)-1]
	}
	fail := func(format string, a ...any) (string, string) {
		wire := ""
		if cp != nil {
			wire = fmt.Sprintf("\n wire: %s %s -> %d %v body=%s", cp.Method, cp.URI, cp.Status, cp.RespHdr, hx.Q(cp.RespBody))
		}
		return fmt.Sprintf(format, a...) + fmt.Sprintf("\n %s.%s kind=%s outcome=%s%s", c.Call.Resource, c.Call.Method, c.Kind, hx.J(c.Outcome), wire), ""
	}
	if cp == nil {
		return fail("no HTTP exchange was recorded (client error: %v)", err)
	}
	hasErrHeader := strings.EqualFold(cp.RespHdr.Get(restli.ErrorResponseHeader), "true")
	var rerr *restli.Error
	switch c.Kind {
	case "error-response":
		want := scripted.Err
		if err == nil {
			return fail("the resource returned an error response but the client call succeeded")
		}
		if !errors.As(err, &rerr) {
			return fail("the client error is not a Rest.li error (%T): %v", err, err)
		}
		wantStatus := http.StatusInternalServerError
		if want.Status != nil {
			wantStatus = int(*want.Status)
		}
		if cp.Status != wantStatus {
			return fail("HTTP status %d, want %d (the error response's status, 500 when unset)", cp.Status, wantStatus)
		}
		if !hasErrHeader {
			return fail("the error header is not set on an error response")
		}
		g := dyn.ErrFromGo(&rerr.ErrorResponse)
		// unset status may arrive as the HTTP status; unset message may stay unset or be defaulted
		exp := *want
		if exp.Status == nil {
			exp.Status = g.Status
			if g.Status != nil && int(*g.Status) != wantStatus {
				return fail("client error status %d, want the HTTP status %d", *g.Status, wantStatus)
			}
		}
		if exp.Message == nil {
			exp.Message = g.Message
		}
		if d := diffErr(&exp, g); d != "" {
			return fail("the client's error response differs from the one the resource returned: %s", d)
		}
		// the resource's error object must not have been modified
		if d := diffErr(snapshot, dyn.ErrFromGo(errObj)); d != "" {
			return fail("the error object returned by resource code was modified by the library: before/after %s", d)
		}
	case "unserialisable-result":
		// the property enumerates errors, panics and nil entities; an entity the library cannot serialise is none of them, so
		// only the floor is asserted here: the call fails with a failure status (the case is there for what follows it)
		if err == nil {
			return fail("the result could not be serialised but the client call succeeded with %s", hx.J(got))
		}
		if cp.Status < 400 {
			return fail("the result could not be serialised but the HTTP status is %d", cp.Status)
		}
	case "plain-error", "panic", "nil-result":
		if err == nil {
			return fail("resource code failed (%s) but the client call succeeded with %s", c.Kind, hx.J(got))
		}
		if cp.Status < 400 {
			return fail("resource code failed (%s) but the HTTP status is %d", c.Kind, cp.Status)
		}
		if !hasErrHeader {
			return fail("resource code failed (%s) but the response is not a Rest.li error response (no error header)", c.Kind)
		}
		if !errors.As(err, &rerr) {
			return fail("the client error is not a Rest.li error (%T): %v", err, err)
		}
		text := ""
		if c.Kind == "plain-error" {
			text = scripted.Err.Plain
		} else if c.Kind == "panic" {
			text = strings.TrimPrefix(scripted.Err.Panic, "error:")
			if text == "nil-deref" {
				text = "nil pointer dereference"
			}
		}
		if text != "" && (rerr.Message == nil || !strings.Contains(*rerr.Message, text)) {
			return fail("the error response does not carry the error's message %q: %s", text, hx.J(dyn.ErrFromGo(&rerr.ErrorResponse)))
		}
	case "status-override", "default-status":
		if err != nil {
			return fail("a successful call failed: %v", err)
		}
		if hasErrHeader {
			return fail("a successful response carries the error header")
		}
		want := defaultStatus(mi)
		if c.Outcome.StatusOverride != 0 {
			want = c.Outcome.StatusOverride
		}
		if c.Outcome.Created != nil && c.Outcome.Created.Status != 0 {
			want = c.Outcome.Created.Status
		}
		if cp.Status != want {
			return fail("HTTP status %d, want %d", cp.Status, want)
		}
	}
	// the connection / server must still be usable: a plain successful call right after
	probe := dyn.Call{Resource: "vr.acts", Method: "NoargsAction"}
	_, perr, prsl, _, _ := w.do(cfg, &probe, &dyn.Outcome{}, nil)
	if perr != nil {
		return fail("the server is not usable after the call: %v", perr)
	}
	if prsl != nil && len(prsl.wire) > 0 && prsl.wire[len(prsl.wire)-1].Status != 200 {
		return fail("a successful action right after the call was answered %d, want 200 (the protocol's default; nothing of the earlier exchange may leak into it)", prsl.wire[len(prsl.wire)-1].Status)
	}
	// ... and a call that returns an entity must return exactly that entity (nothing of the earlier exchange may leak
	// into a later response)
	if pmi := dyn.FindMethod(S, "vr.single", "Get"); pmi != nil {
		pcall := callCase{Call: dyn.Call{Resource: "vr.single", Method: "Get"}, Outcome: dyn.Outcome{Entity: validValue(*pmi.Entity)}, Mount: c.Mount, Config: cfg}
		if pmi.Params != nil {
			pcall.Call.Params = validValue(pmi.ParamsType())
		}
		pgot, perr, psl, _, _ := w.do(cfg, &pcall.Call, &pcall.Outcome, nil)
		if m := judgeCall(pmi, &pcall, pgot, perr, psl); m != "" {
			return fail("a get right after the call does not return its entity: %s", m)
		}
		if psl != nil && len(psl.wire) > 0 && psl.wire[len(psl.wire)-1].Status != 200 {
			return fail("a successful get right after the call was answered %d, want 200 (nothing of the earlier exchange may leak into it)", psl.wire[len(psl.wire)-1].Status)
		}
	}
	return "", ""
}

func TestC08Errors(t *testing.T) {
	rec := stats.For("C08")
	g := keyGen()
	if c, ok := hx.Replay[errCase]("C08", "propagation"); ok {
		if msg, _ := checkErr(rec, c); msg != "" {
			rec.Violation("propagation", msg, c)
			t.Fatal(msg)
		}
		return
	} else if hx.Replaying() {
		t.Skip()
	}
	kinds := []string{"error-response", "error-response", "plain-error", "panic", "nil-result", "status-override", "default-status", "unserialisable-result"}
	rapid.Check(t, func(rt *rapid.T) {
		mi := methods[pick(rt, len(methods), "method")]
		var c errCase
		c.CorpusSeed = corpusSeed
		// one case in three behind two filters whose PostRequest returns nil: what resource code reported must not be
		// replaced by what the filters report
		c.Mount = rapid.SampledFrom([]string{"bare", "bare", "filtered"}).Draw(rt, "mount")
		c.Config.Threshold = rapid.SampledFrom([]int{0, 1}).Draw(rt, "threshold")
		c.Kind = kinds[pick(rt, len(kinds), "kind")]
		c.Call = genCall(rt, g, mi)
		c.Outcome = genOutcome(rt, g, mi, &c.Call)
		switch c.Kind {
		case "error-response":
			c.Outcome = dyn.Outcome{Err: genErrM(rt)}
		case "plain-error":
			c.Outcome = dyn.Outcome{Err: &dyn.ErrM{Plain: rapid.SampledFrom([]string{"disk on fire", "x", "bad: é \"q\" \\ \n nl", "disk is 100% full", "key a%2Fb not found", "%d %s %v %!", "%"}).Draw(rt, "plain")}}
		case "panic":
			c.Outcome = dyn.Outcome{Err: &dyn.ErrM{Panic: rapid.SampledFrom([]string{"kaboom", "index out of range [1]", "50% done %s", "error:wrapped failure: 100% é", "nil-deref"}).Draw(rt, "panic")}}
		case "unserialisable-result":
			// a result that cannot be serialised (an illegal enum constant / a union without member inside an array or map
			// of an action result, an entity, a created entity or a finder element): the failure happens after part of
			// the response was written, and after the method wrapper chose its success status
			pms := poisonableMethods()
			if len(pms) == 0 {
				c.Kind = "default-status"
				break
			}
			mi = pms[pick(rt, len(pms), "pmethod")]
			c.Call = genCall(rt, g, mi)
			c.Outcome = genOutcome(rt, g, mi, &c.Call)
			switch {
			case mi.M.Kind == "ACTION":
				poison(*mi.M.Return, c.Outcome.Action)
			case c.Outcome.Created != nil && c.Outcome.Created.Entity != nil:
				poison(*mi.Entity, c.Outcome.Created.Entity)
			case c.Outcome.Entity != nil:
				poison(*mi.Entity, c.Outcome.Entity)
			case c.Outcome.HasElements:
				e := g.Value(rt, *mi.Entity, 1)
				poison(*mi.Entity, e)
				c.Outcome.Elements = append(c.Outcome.Elements, e)
			default:
				c.Kind = "default-status"
			}
		case "nil-result":
			// only methods that return something can return nil
			if mi.M.Kind == "ACTION" || mi.Rest() == "update" || mi.Rest() == "delete" || (mi.Rest() == "partial_update" && !mi.M.ReturnEntity) {
				c.Kind = "default-status"
			} else if mi.Rest() == "batch_create" {
				c.Kind = "default-status"
			} else {
				c.Outcome = dyn.Outcome{NilResult: true}
			}
		case "status-override":
			if mi.Rest() == "create" {
				c.Outcome.Created.Status = rapid.SampledFrom([]int{200, 201, 202}).Draw(rt, "cstatus")
			} else {
				c.Outcome.StatusOverride = rapid.SampledFrom([]int{200, 201, 202, 204, 206}).Draw(rt, "ostatus")
				if c.Outcome.StatusOverride == 204 || mi.M.Kind != "REST_METHOD" {
					// 204 forbids a body; keep the override to methods and codes where the exchange stays well-formed
					c.Outcome.StatusOverride = 0
					c.Kind = "default-status"
				}
			}
		}
		if c.Kind == "default-status" && c.Outcome.Created != nil {
			c.Outcome.Created.Status = 0
		}
		msg, known := checkErr(rec, c)
		if known != "" {
			rec.Known(known, kf.What(known), c)
			return
		}
		if msg != "" {
			rec.Violation("propagation", msg, c)
			rt.Fatalf("property violated (details in the replay file)")
		}
	})
}
