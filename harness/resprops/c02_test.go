package resprops

// C02 - end-to-end call fidelity: generated client -> HTTP -> generated server and back.

import (
	"fmt"
	"strings"
	"testing"

	"pgregory.net/rapid"

	"verif/HARNESS/dyn"
	"verif/core/aval"
	"verif/core/hx"
	"verif/core/kf"
	"verif/core/model/pathmodel"
	"verif/core/schema"
	"verif/core/stats"
)

type callCase struct {
	CorpusSeed int64        `json:"corpus_seed"`
	Mount      string       `json:"mount"`
	Config     clientConfig `json:"config"`
	Call       dyn.Call     `json:"call"`
	Outcome    dyn.Outcome  `json:"outcome"`
	// AfterFailedResponse: the call is preceded, on the same server, by an action call whose result cannot be serialised
	// (index into poisonableActions()+1; 0 = none): an earlier failed exchange must not leak into this one
	AfterFailedResponse int `json:"after_failed_response,omitempty"`
}

// ---------------------------------------------------------------------------------------------
// generation

func keyGen() *aval.Gen { return &aval.Gen{S: S, MaxDepth: 3, TextBytes: true, NoPatchOperatorKeys: true} }

func genKey(rt *rapid.T, g *aval.Gen, t schema.Type) *aval.V {
	for i := 0; i < 20; i++ {
		v := g.Value(rt, t, 1)
		if v.HasNaN() {
			continue // a NaN key never equals itself: not a usable key
		}
		return v
	}
	return g.Value(rt, t, 1)
}

func genDistinctKeys(rt *rapid.T, g *aval.Gen, t schema.Type, max int) []*aval.V {
	n := rapid.IntRange(0, max).Draw(rt, "nkeys")
	var out []*aval.V
	seen := map[string]bool{}
	for i := 0; i < n; i++ {
		k := genKey(rt, g, t)
		c := keyIdentity(t, k)
		if seen[c] {
			continue
		}
		seen[c] = true
		out = append(out, k)
	}
	// distinct keys whose 32-bit hashes collide (key types served by the generic key set): both must travel and come back
	if t.Ref != nil && t.Ref.Name == "TString" && len(fnvCollisions()) > 0 && rapid.IntRange(0, 2).Draw(rt, "colliding_keys") == 0 {
		pair := fnvCollisions()[rapid.IntRange(0, len(fnvCollisions())-1).Draw(rt, "collision")]
		for _, s := range pair {
			k := aval.Str(s)
			if c := keyIdentity(t, k); !seen[c] {
				seen[c] = true
				out = append(out, k)
			}
		}
	}
	return out
}

// keyIdentity is the canonical form of a key under key equality (complex keys: key part only; floats: -0 == +0).
func keyIdentity(t schema.Type, k *aval.V) string {
	c := k.Clone()
	if t.Ref != nil && S.Lookup(*t.Ref).Kind == "complexkey" {
		delete(c.Flds, "$params")
	}
	c.Walk(func(x *aval.V) {
		if (x.Kind == "float32" || x.Kind == "float64") && x.F == "-0" {
			x.F = "0"
		}
	})
	if isCaseInsensitiveKey(t) {
		// the corpus' custom typeref registers an equality that ignores case
		c = aval.Str(strings.ToLower(c.Str()))
	}
	return fillDefaults(t, c).Canon()
}

// isCaseInsensitiveKey: the key type is the custom typeref of the corpus whose registered equality ignores case (v2; the
// root generation treats it as an ordinary typeref, where == decides).
func isCaseInsensitiveKey(t schema.Type) bool {
	if t.Ref == nil || t.Ref.Name != schema.CaseInsensitiveTyperef {
		return false
	}
	n := S.Lookup(*t.Ref)
	return n.Kind == "typeref" && n.Custom
}

func genPatch(rt *rapid.T, g *aval.Gen, t schema.Type, avoid map[string]bool) *dyn.PatchM {
	n := S.Lookup(*t.Ref)
	p := &dyn.PatchM{Sets: map[string]*aval.V{}, Nested: map[string]*dyn.PatchM{}}
	for _, f := range S.AllFields(n) {
		if avoid[f.Name] {
			continue // fields under a read-only / create-only annotation: rejected by design, checked by C07
		}
		switch rapid.IntRange(0, 4).Draw(rt, "pop") {
		case 0:
			p.Sets[f.Name] = g.Value(rt, f.Type, 2)
		case 1:
			if !f.Required() {
				p.Deletes = append(p.Deletes, f.Name)
			}
		case 2:
			if f.Type.Ref != nil && S.Lookup(*f.Type.Ref).Kind == "record" {
				sub := S.Lookup(*f.Type.Ref)
				sp := &dyn.PatchM{Sets: map[string]*aval.V{}, Nested: map[string]*dyn.PatchM{}}
				for _, sf := range S.AllFields(sub) {
					if rapid.Bool().Draw(rt, "nset") {
						sp.Sets[sf.Name] = g.Value(rt, sf.Type, 3)
					}
				}
				if !sp.Empty() {
					p.Nested[f.Name] = sp
				}
			}
		}
	}
	return p
}

// annotatedTop: top-level fields that carry (or contain) a read-only / create-only annotation.
func annotatedTop(mi *dyn.MethodInfo) map[string]bool {
	m := map[string]bool{}
	for _, d := range append(append([]string(nil), mi.R.ReadOnly...), mi.R.CreateOnly...) {
		m[strings.Split(strings.TrimPrefix(d, "/"), "/")[0]] = true
	}
	return m
}

func genCall(rt *rapid.T, g *aval.Gen, mi *dyn.MethodInfo) dyn.Call {
	c := dyn.Call{Resource: mi.R.Namespace, Method: mi.Func}
	for _, kt := range mi.PathKeys {
		c.PathKeys = append(c.PathKeys, genKey(rt, g, kt))
	}
	switch mi.Rest() {
	case "batch_get", "batch_delete":
		c.Keys = genDistinctKeys(rt, g, *mi.KeyType, 4)
	case "create", "update":
		c.Entity = g.Value(rt, *mi.Entity, 1)
	case "partial_update":
		c.Patch = genPatch(rt, g, *mi.Entity, annotatedTop(mi))
	case "batch_create":
		n := rapid.IntRange(0, 3).Draw(rt, "nent")
		for i := 0; i < n; i++ {
			c.Entities = append(c.Entities, g.Value(rt, *mi.Entity, 1))
		}
	case "batch_update", "batch_partial_update":
		for _, k := range genDistinctKeys(rt, g, *mi.KeyType, 3) {
			kv := dyn.KV{K: k}
			if mi.Rest() == "batch_update" {
				kv.V = g.Value(rt, *mi.Entity, 1)
			} else {
				kv.P = genPatch(rt, g, *mi.Entity, annotatedTop(mi))
			}
			c.EntityMap = append(c.EntityMap, kv)
		}
	}
	if mi.Params != nil {
		c.Params = g.Value(rt, mi.ParamsType(), 1)
	}
	return c
}

func genOutcome(rt *rapid.T, g *aval.Gen, mi *dyn.MethodInfo, call *dyn.Call) dyn.Outcome {
	var o dyn.Outcome
	entity := func() *aval.V { return g.Value(rt, *mi.Entity, 1) }
	switch {
	case mi.M.Kind == "ACTION":
		if mi.M.Return != nil {
			o.Action = g.Value(rt, *mi.M.Return, 1)
		}
	case mi.M.Kind == "FINDER" || mi.Rest() == "get_all":
		o.HasElements = true
		et := *mi.Entity
		if mi.M.Return != nil {
			et = *mi.M.Return
		}
		n := rapid.IntRange(0, 3).Draw(rt, "nel")
		for i := 0; i < n; i++ {
			o.Elements = append(o.Elements, g.Value(rt, et, 1))
		}
		if rapid.Bool().Draw(rt, "paging") {
			o.Paging = &dyn.PagingM{Start: rapid.Int32Range(0, 1000).Draw(rt, "ps"), Count: rapid.Int32Range(0, 100).Draw(rt, "pc")}
			if rapid.Bool().Draw(rt, "ptotal") {
				tot := rapid.Int32Range(0, 100000).Draw(rt, "pt")
				o.Paging.Total = &tot
			}
		}
		if mi.M.Metadata != nil {
			o.Metadata = g.Value(rt, *mi.M.Metadata, 1)
		}
	case mi.Rest() == "get":
		o.Entity = entity()
	case mi.Rest() == "partial_update":
		if mi.M.ReturnEntity {
			o.Entity = entity()
		}
	case mi.Rest() == "create":
		o.Created = &dyn.CreatedM{Id: genKey(rt, g, *mi.KeyType), Status: rapid.SampledFrom([]int{0, 0, 201, 200, 202}).Draw(rt, "cstatus")}
		if mi.M.ReturnEntity {
			o.Created.Entity = entity()
		}
	case mi.Rest() == "batch_create":
		o.HasBatchCr = true
		for range call.Entities {
			c := &dyn.CreatedM{Id: genKey(rt, g, *mi.KeyType), Status: rapid.SampledFrom([]int{0, 201, 200}).Draw(rt, "bcstatus")}
			if mi.M.ReturnEntity {
				c.Entity = entity()
			}
			o.BatchCreated = append(o.BatchCreated, c)
		}
	case mi.Rest() == "batch_get" || mi.Rest() == "batch_delete" || mi.Rest() == "batch_update" || mi.Rest() == "batch_partial_update":
		o.HasBatch = true
		keys := call.Keys
		for _, kv := range call.EntityMap {
			keys = append(keys, kv.K)
		}
		for _, k := range keys {
			switch rapid.IntRange(0, 5).Draw(rt, "bkind") {
			case 0: // nothing for this key
			case 1:
				st := int32(rapid.SampledFrom([]int{400, 404, 500, 422}).Draw(rt, "bes"))
				msg := rapid.SampledFrom([]string{"boom", "", "é(x),y:'z'%"}).Draw(rt, "bem")
				o.Errors = append(o.Errors, dyn.KV{K: k, Err: &dyn.ErrM{Status: &st, Message: &msg}})
			default:
				kv := dyn.KV{K: k}
				if mi.Rest() == "batch_get" {
					kv.V = entity()
					if rapid.Bool().Draw(rt, "bstat") {
						o.Statuses = append(o.Statuses, dyn.KV{K: k, Status: rapid.SampledFrom([]int{200, 204, 404}).Draw(rt, "bst")})
					}
				} else {
					kv.Status = rapid.SampledFrom([]int{204, 200, 201, 404}).Draw(rt, "bus")
				}
				o.Results = append(o.Results, kv)
			}
		}
	}
	return o
}

// ---------------------------------------------------------------------------------------------
// oracle

// pruneExcluded removes the values at paths matched by the exclusion spec (record fields and map entries; array
// items are the path segment "*").
func pruneExcluded(t schema.Type, v *aval.V, spec pathmodel.Spec, prefix []string) {
	if v == nil || len(spec) == 0 {
		return
	}
	at := func(seg string) []string { return append(append([]string(nil), prefix...), seg) }
	switch {
	case t.Prim != "":
	case t.Array != nil:
		for _, x := range v.Arr {
			pruneExcluded(*t.Array, x, spec, at("*"))
		}
	case t.Map != nil:
		for _, k := range v.Keys() {
			if spec.Excluded(at(k)) {
				delete(v.Ent, fmt.Sprintf("%x", k))
				continue
			}
			pruneExcluded(*t.Map, v.Get(k), spec, at(k))
		}
	default:
		n := S.Lookup(*t.Ref)
		switch n.Kind {
		case "record", "complexkey":
			for _, f := range S.AllFields(n) {
				x, ok := v.Flds[f.Name]
				if !ok {
					continue
				}
				if spec.Excluded(at(f.Name)) {
					delete(v.Flds, f.Name)
					continue
				}
				pruneExcluded(f.Type, x, spec, at(f.Name))
			}
		case "union":
			if v.Mem != "" {
				for _, m := range n.Members {
					if m.Alias == v.Mem {
						pruneExcluded(m.Type, v.Val, spec, at(m.Alias))
					}
				}
			}
		}
	}
}

// exclusionFor: which fields the client must not transmit for a method (C07): read-only fields on create, read-only and
// create-only fields on update.
func exclusionFor(mi *dyn.MethodInfo) pathmodel.Spec {
	switch mi.Rest() {
	case "create", "batch_create":
		return pathmodel.Parse(mi.R.ReadOnly)
	case "update", "batch_update":
		return pathmodel.Parse(append(append([]string(nil), mi.R.ReadOnly...), mi.R.CreateOnly...))
	}
	return nil
}

func transmitted(mi *dyn.MethodInfo, v *aval.V) *aval.V {
	if v == nil {
		return nil
	}
	c := v.Clone()
	pruneExcluded(*mi.Entity, c, exclusionFor(mi), nil)
	c = fillDefaults(*mi.Entity, c)
	aval.FillZeros(S, *mi.Entity, c) // an excluded required field arrives as the zero value of its Go type
	return c
}

// expectedInvocation: what the resource method must observe for a call (defaults are filled by decoding; excluded
// fields are never transmitted).
func expectedInvocation(mi *dyn.MethodInfo, c *dyn.Call) *dyn.Call {
	e := dyn.Call{Resource: c.Resource, Method: c.Method}
	for i, k := range c.PathKeys {
		e.PathKeys = append(e.PathKeys, fillDefaults(mi.PathKeys[i], k))
	}
	for _, k := range c.Keys {
		e.Keys = append(e.Keys, fillDefaults(*mi.KeyType, k))
	}
	if c.Entity != nil {
		e.Entity = transmitted(mi, c.Entity)
	}
	if c.Patch != nil {
		e.Patch = c.Patch.WithDefaults(S, S.Lookup(*mi.Entity.Ref))
	}
	for _, x := range c.Entities {
		e.Entities = append(e.Entities, transmitted(mi, x))
	}
	for _, kv := range c.EntityMap {
		n := dyn.KV{K: fillDefaults(*mi.KeyType, kv.K)}
		if kv.V != nil {
			n.V = transmitted(mi, kv.V)
		}
		if kv.P != nil {
			n.P = kv.P.WithDefaults(S, S.Lookup(*mi.Entity.Ref))
		}
		e.EntityMap = append(e.EntityMap, n)
	}
	if mi.Params != nil {
		p := c.Params
		if p == nil {
			p = aval.Record()
		}
		e.Params = fillDefaults(mi.ParamsType(), p)
	}
	return &e
}

func diffCalls(mi *dyn.MethodInfo, want, got *dyn.Call) string {
	if len(want.PathKeys) != len(got.PathKeys) {
		return "number of path keys"
	}
	for i := range want.PathKeys {
		if d := aval.Diff(want.PathKeys[i], got.PathKeys[i], ""); d != "" {
			return fmt.Sprintf("path key %d: %s", i, d)
		}
	}
	if len(want.Keys) != len(got.Keys) {
		return fmt.Sprintf("batch keys: %d sent, %d received", len(want.Keys), len(got.Keys))
	}
	// batch keys are a set: compare sorted
	wk, gk := sortedCanon(want.Keys), sortedCanon(got.Keys)
	for i := range wk {
		if wk[i] != gk[i] {
			return fmt.Sprintf("batch keys differ: sent %v, received %v", wk, gk)
		}
	}
	if d := aval.Diff(want.Entity, got.Entity, "entity"); d != "" {
		return d
	}
	if (want.Patch == nil) != (got.Patch == nil) || (want.Patch != nil && want.Patch.Canon() != got.Patch.Canon()) {
		return fmt.Sprintf("patch: sent %s, received %s", patchCanon(want.Patch), patchCanon(got.Patch))
	}
	if len(want.Entities) != len(got.Entities) {
		return fmt.Sprintf("entities: %d sent, %d received", len(want.Entities), len(got.Entities))
	}
	for i := range want.Entities {
		if d := aval.Diff(want.Entities[i], got.Entities[i], fmt.Sprintf("entities[%d]", i)); d != "" {
			return d
		}
	}
	if len(want.EntityMap) != len(got.EntityMap) {
		return fmt.Sprintf("entity map: %d sent, %d received", len(want.EntityMap), len(got.EntityMap))
	}
	wm := map[string]dyn.KV{}
	for _, kv := range want.EntityMap {
		wm[kv.K.Canon()] = kv
	}
	for _, kv := range got.EntityMap {
		w, ok := wm[kv.K.Canon()]
		if !ok {
			return "entity map received under a key that was not sent: " + kv.K.Canon()
		}
		if d := aval.Diff(w.V, kv.V, "entity["+kv.K.Canon()+"]"); d != "" {
			return d
		}
		if (w.P == nil) != (kv.P == nil) || (w.P != nil && w.P.Canon() != kv.P.Canon()) {
			return fmt.Sprintf("patch[%s]: sent %s, received %s", kv.K.Canon(), patchCanon(w.P), patchCanon(kv.P))
		}
	}
	if d := aval.Diff(want.Params, got.Params, "params"); d != "" {
		return d
	}
	return ""
}

func patchCanon(p *dyn.PatchM) string {
	if p == nil {
		return "<nil>"
	}
	return p.Canon()
}

func sortedCanon(vs []*aval.V) []string {
	out := make([]string, len(vs))
	for i, v := range vs {
		out[i] = v.Canon()
	}
	for i := 1; i < len(out); i++ {
		for j := i; j > 0 && out[j] < out[j-1]; j-- {
			out[j], out[j-1] = out[j-1], out[j]
		}
	}
	return out
}

// expectedOutcome: what the client must return for a scripted (successful) outcome.
func expectedOutcome(mi *dyn.MethodInfo, o *dyn.Outcome) *dyn.Outcome {
	e := &dyn.Outcome{HasElements: o.HasElements, HasBatch: o.HasBatch, HasBatchCr: o.HasBatchCr}
	et := mi.Entity
	if mi.M.Return != nil && mi.M.Kind == "FINDER" {
		et = mi.M.Return
	}
	if o.Entity != nil {
		e.Entity = fillDefaults(*mi.Entity, o.Entity)
	}
	for _, x := range o.Elements {
		e.Elements = append(e.Elements, fillDefaults(*et, x))
	}
	if o.Paging != nil {
		p := *o.Paging
		if p.Total == nil {
			z := int32(0) // CollectionMetadata.total has the schema default 0
			p.Total = &z
		}
		e.Paging = &p
	}
	if o.Metadata != nil {
		e.Metadata = fillDefaults(*mi.M.Metadata, o.Metadata)
	}
	cr := func(c *dyn.CreatedM) *dyn.CreatedM {
		n := &dyn.CreatedM{Id: fillDefaults(*mi.KeyType, c.Id), Status: c.Status}
		if n.Status == 0 {
			n.Status = 201
		}
		if c.Entity != nil {
			n.Entity = fillDefaults(*mi.Entity, c.Entity)
		}
		return n
	}
	if o.Created != nil {
		e.Created = cr(o.Created)
	}
	for _, c := range o.BatchCreated {
		e.BatchCreated = append(e.BatchCreated, cr(c))
	}
	for _, kv := range o.Results {
		n := dyn.KV{K: kv.K, Status: kv.Status}
		if kv.V != nil {
			n.V = fillDefaults(*mi.Entity, kv.V)
		} else if n.Status == 0 {
			n.Status = 204
		}
		e.Results = append(e.Results, n)
	}
	e.Statuses = append(e.Statuses, o.Statuses...)
	e.Errors = append(e.Errors, o.Errors...)
	if o.Action != nil {
		e.Action = fillDefaults(*mi.M.Return, o.Action)
	}
	return e
}

func diffErr(a, b *dyn.ErrM) string {
	if a == nil || b == nil {
		if a == b {
			return ""
		}
		return "one side has no error"
	}
	ja, jb := hx.J(a), hx.J(b)
	if ja != jb {
		return ja + " vs " + jb
	}
	return ""
}

func diffKVs(kt schema.Type, what string, want, got []dyn.KV, withErr bool) string {
	if len(want) != len(got) {
		return fmt.Sprintf("%s: %d entries returned by the resource, %d received by the caller", what, len(want), len(got))
	}
	gm := map[string]dyn.KV{}
	for _, kv := range got {
		gm[keyIdentity(kt, kv.K)] = kv
	}
	for _, w := range want {
		g, ok := gm[keyIdentity(kt, w.K)]
		if !ok {
			return fmt.Sprintf("%s: no entry under key %s", what, w.K.Canon())
		}
		if d := aval.Diff(w.V, g.V, what+"["+w.K.Canon()+"]"); d != "" {
			return d
		}
		if w.Status != g.Status {
			return fmt.Sprintf("%s[%s]: status %d vs %d", what, w.K.Canon(), w.Status, g.Status)
		}
		if withErr {
			if d := diffErr(w.Err, g.Err); d != "" {
				return fmt.Sprintf("%s[%s]: %s", what, w.K.Canon(), d)
			}
		}
	}
	return ""
}

func diffOutcomes(mi *dyn.MethodInfo, want, got *dyn.Outcome) string {
	if d := aval.Diff(want.Entity, got.Entity, "entity"); d != "" {
		return d
	}
	if want.HasElements {
		if len(want.Elements) != len(got.Elements) {
			return fmt.Sprintf("elements: %d returned, %d received", len(want.Elements), len(got.Elements))
		}
		for i := range want.Elements {
			if d := aval.Diff(want.Elements[i], got.Elements[i], fmt.Sprintf("elements[%d]", i)); d != "" {
				return d
			}
		}
		if hx.J(want.Paging) != hx.J(got.Paging) {
			return fmt.Sprintf("paging: %s vs %s", hx.J(want.Paging), hx.J(got.Paging))
		}
		if d := aval.Diff(want.Metadata, got.Metadata, "metadata"); d != "" {
			return d
		}
	}
	cr := func(w, g *dyn.CreatedM, what string) string {
		if w == nil || g == nil {
			if w == g {
				return ""
			}
			return what + ": missing"
		}
		if d := aval.Diff(w.Id, g.Id, what+".id"); d != "" {
			return d
		}
		if w.Status != g.Status {
			return fmt.Sprintf("%s.status: %d vs %d", what, w.Status, g.Status)
		}
		return aval.Diff(w.Entity, g.Entity, what+".entity")
	}
	if d := cr(want.Created, got.Created, "created"); d != "" {
		return d
	}
	if want.HasBatchCr {
		if len(want.BatchCreated) != len(got.BatchCreated) {
			return fmt.Sprintf("batch create: %d returned, %d received", len(want.BatchCreated), len(got.BatchCreated))
		}
		for i := range want.BatchCreated {
			if d := cr(want.BatchCreated[i], got.BatchCreated[i], fmt.Sprintf("created[%d]", i)); d != "" {
				return d
			}
		}
	}
	if want.HasBatch {
		if d := diffKVs(*mi.KeyType, "results", want.Results, got.Results, false); d != "" {
			return d
		}
		if d := diffKVs(*mi.KeyType, "statuses", want.Statuses, got.Statuses, false); d != "" {
			return d
		}
		if d := diffKVs(*mi.KeyType, "errors", want.Errors, got.Errors, true); d != "" {
			return d
		}
	}
	return aval.Diff(want.Action, got.Action, "action result")
}

func callLabels(mi *dyn.MethodInfo, c *callCase) (labels []string, nontrivial bool) {
	kind := mi.M.Kind
	if kind == "REST_METHOD" {
		kind = mi.M.Name
	}
	labels = append(labels, "method="+strings.ToLower(kind), "mount="+c.Mount, "transport="+c.Config.Transport, fmt.Sprintf("threshold=%d", c.Config.Threshold))
	if c.AfterFailedResponse > 0 {
		labels = append(labels, "after_failed_response")
	}
	if c.Config.CtxRoot != "" {
		labels = append(labels, "context_path_ends_with_root")
	}
	if len(mi.R.Segments) > 1 {
		labels = append(labels, "sub_resource")
		nontrivial = true
	}
	if mi.KeyType != nil && mi.KeyType.Ref != nil && S.Lookup(*mi.KeyType.Ref).Kind == "complexkey" {
		labels = append(labels, "complex_key")
	}
	hostile := false
	chk := func(v *aval.V) {
		if v == nil {
			return
		}
		for _, cl := range aval.Classify(v) {
			if strings.Contains(cl, "metachar") || strings.Contains(cl, "nonascii") || strings.Contains(cl, "empty") || strings.Contains(cl, "ctl") || strings.Contains(cl, "reserved") {
				hostile = true
			}
		}
	}
	for _, k := range c.Call.PathKeys {
		chk(k)
	}
	for _, k := range c.Call.Keys {
		chk(k)
	}
	chk(c.Call.Params)
	if hostile {
		labels = append(labels, "hostile_key_or_param")
		nontrivial = true
	}
	if len(c.Call.Keys) >= 2 || len(c.Call.EntityMap) >= 2 {
		labels = append(labels, "batch>=2")
		nontrivial = true
	}
	if c.Config.Threshold > 0 {
		nontrivial = true
	}
	return
}

func muxUnsafe(c *dyn.Call) bool {
	for _, k := range c.PathKeys {
		if k.Kind == "string" {
			s := k.Str()
			if s == "." || s == ".." {
				return true // ServeMux redirects dot segments itself; not Rest.li routing
			}
		}
	}
	return false
}

func checkCall(rec *stats.Recorder, c callCase) (msg string, known string) {
	mi := dyn.FindMethod(S, c.Call.Resource, c.Call.Method)
	mount := c.Mount
	if strings.Contains(mount, "mux") && muxUnsafe(&c.Call) {
		mount = strings.TrimSuffix(strings.Replace(mount, "mux", "", 1), "-")
		if mount == "" {
			mount = "bare"
		}
	}
	w := getWorld(mount)
	labels, nontrivial := callLabels(mi, &c)
	rec.Case(labels...)
	if nontrivial {
		rec.NonTrivial(c.Call.Method, hx.J(c.Call)+hx.J(c.Config)+c.Mount, func() any { return c })
	}
	if pa := poisonableActions(); c.AfterFailedResponse > 0 && len(pa) > 0 {
		pmi := pa[(c.AfterFailedResponse-1)%len(pa)]
		bad := validValue(*pmi.M.Return)
		poison(*pmi.M.Return, bad)
		pc := dyn.Call{Resource: pmi.R.Namespace, Method: pmi.Func}
		if pmi.Params != nil {
			pc.Params = validValue(pmi.ParamsType())
		}
		pcfg := c.Config
		pcfg.CtxRoot = "" // (the precursor goes to another root resource)
		hx.Try(func() { _, _, _, _, _ = w.do(pcfg, &pc, &dyn.Outcome{Action: bad}, nil) })
	}
	var got *dyn.Outcome
	var err error
	var sl *slot
	if p, pv, st := hx.Try(func() { got, err, sl, _, _ = w.do(c.Config, &c.Call, &c.Outcome, nil) }); p {
		return fmt.Sprintf("client call panicked: %v\n%s", pv, st), ""
	}
	return judgeCall(mi, &c, got, err, sl), ""
}

// judgeCall compares what a call observed with what the serial model expects.
func judgeCall(mi *dyn.MethodInfo, c *callCase, got *dyn.Outcome, err error, sl *slot) string {
	fail := func(format string, a ...any) string {
		wire := ""
		if sl != nil && len(sl.wire) > 0 {
			cp := sl.wire[len(sl.wire)-1]
			wire = fmt.Sprintf("\n wire: %s %s  body=%s\n  -> %d %s", cp.Method, cp.URI, hx.Q(cp.Body), cp.Status, hx.Q(cp.RespBody))
		}
		return fmt.Sprintf(format, a...) + fmt.Sprintf("\n %s.%s mount=%s config=%+v%s\n call=%s", c.Call.Resource, c.Call.Method, c.Mount, c.Config, wire, hx.J(c.Call))
	}
	if sl != nil {
		if msg := viewsAgree(sl); msg != "" {
			return fail("%s", msg)
		}
	}
	if err != nil {
		return fail("the call failed although the resource succeeds: %v", err)
	}
	sl.mu.Lock()
	invs := append([]*dyn.Invocation(nil), sl.invocations...)
	sl.mu.Unlock()
	if n := len(invs); n != 1 {
		return fail("the call reached %d resource methods, want exactly 1", n)
	}
	inv := invs[0]
	if inv.Call.Resource != c.Call.Resource || inv.Call.Method != c.Call.Method {
		return fail("the call reached %s.%s", inv.Call.Resource, inv.Call.Method)
	}
	if d := diffCalls(mi, expectedInvocation(mi, &c.Call), &inv.Call); d != "" {
		return fail("the resource method did not receive what the caller passed: %s\n received=%s", d, hx.J(inv.Call))
	}
	if d := diffOutcomes(mi, expectedOutcome(mi, &c.Outcome), got); d != "" {
		return fail("the caller did not receive what the resource returned: %s\n returned=%s\n received=%s", d, hx.J(c.Outcome), hx.J(got))
	}
	return ""
}

var mounts = []string{"bare", "filtered", "mux", "prefix", "prefix-mux"}

func TestC02Calls(t *testing.T) {
	rec := stats.For("C02")
	g := keyGen()
	if c, ok := hx.Replay[callCase]("C02", "call"); ok {
		if msg, _ := checkCall(rec, c); msg != "" {
			rec.Violation("call", msg, c)
			t.Fatal(msg)
		}
		return
	} else if hx.Replaying() {
		t.Skip()
	}
	rapid.Check(t, func(rt *rapid.T) {
		mi := methods[pick(rt, len(methods), "method")]
		c := callCase{CorpusSeed: corpusSeed}
		c.Mount = mounts[pick(rt, len(mounts), "mount")]
		c.Config.Threshold = rapid.SampledFrom([]int{0, 0, 1, 1, 50, 100000}).Draw(rt, "threshold")
		c.Config.Strict = rapid.Bool().Draw(rt, "strict")
		c.Config.Transport = "inprocess"
		if rapid.IntRange(0, 19).Draw(rt, "real") == 0 {
			c.Config.Transport = "http"
		}
		c.Call = genCall(rt, g, mi)
		c.Outcome = genOutcome(rt, g, mi, &c.Call)
		if rapid.IntRange(0, 5).Draw(rt, "ctx_root") == 0 {
			c.Config.CtxRoot = mi.R.Segments[0].Name // (sub-resources included: the root of /things/1/subs/2/items is "things")
		}
		if rapid.IntRange(0, 7).Draw(rt, "after_failed_response") == 0 {
			c.AfterFailedResponse = 1 + rapid.IntRange(0, 7).Draw(rt, "which_failure")
		}
		msg, known := checkCall(rec, c)
		if known != "" {
			rec.Known(known, kf.What(known), c)
			return
		}
		if msg != "" {
			rec.Violation("call", msg, c)
			rt.Fatalf("property violated (details in the replay file)")
		}
	})
}
