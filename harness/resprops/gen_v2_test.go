//verif:v2only pieces of the resource-level checks that name fields only v2's ErrorResponse has

package resprops

import (
	"github.com/PapaCharlie/go-restli/v2/restli"

	"verif/HARNESS/dyn"
)

// sharedErrM: the error object C17 shares between concurrent requests (status + a marker field, no message).
func sharedErrM() *dyn.ErrM { return &dyn.ErrM{Status: ip(409), Code: sp("SHARED")} }

func sharedMarkIntact(rerr *restli.Error) bool { return rerr.Code != nil && *rerr.Code == "SHARED" }
