package resprops

// C06, last clause: "a lenient client receives the partially filled value with no error" (and a strict client the
// missing-required-fields error). A valid response of the generated server is captured, required fields are removed from
// the entities it carries (at any depth, inside arrays, maps and unions), and the edited response is served to a lenient
// and to a strict client through a canned transport. The expected result is computed from the edited document with the
// reference codec: every field that is present, defaults for omitted defaulted fields, zero values for the removed ones.

import (
	"encoding/json"
	"errors"
	"fmt"
	"net/http"
	"sort"
	"strings"
	"testing"

	"pgregory.net/rapid"

	"github.com/PapaCharlie/go-restli/v2/restli"
	"github.com/PapaCharlie/go-restli/v2/restlicodec"

	"verif/HARNESS/dyn"
	"verif/core/aval"
	"verif/core/hx"
	"verif/core/refcodec"
	"verif/core/schema"
	"verif/core/stats"
)

type lenientCase struct {
	CorpusSeed int64       `json:"corpus_seed"`
	Call       dyn.Call    `json:"call"`
	Outcome    dyn.Outcome `json:"outcome"` // what the resource returned for the captured response
	Header     map[string]string `json:"header"`
	Status     int         `json:"status"`
	Body       string      `json:"body"`  // the captured response body
	Drops      []int       `json:"drops"` // picks among the required-field sites of the entities in the body
}

type reqSite struct {
	obj   *refcodec.Tree
	field string
	depth int
	inCol bool
}

// requiredSites lists the present required record fields of a wire tree of type t.
func requiredSites(t schema.Type, tr *refcodec.Tree, depth int, inCol bool, out *[]reqSite) {
	switch {
	case tr == nil || t.Prim != "":
		return
	case t.Array != nil:
		for _, x := range tr.Arr {
			requiredSites(*t.Array, x, depth+1, true, out)
		}
		return
	case t.Map != nil:
		for _, kv := range tr.Obj {
			requiredSites(*t.Map, kv.V, depth+1, true, out)
		}
		return
	}
	n := S.Lookup(*t.Ref)
	switch n.Kind {
	case "record", "complexkey":
		for _, f := range S.AllFields(n) {
			if x := tr.Get(f.Name); x != nil {
				if f.Required() {
					*out = append(*out, reqSite{tr, f.Name, depth, inCol})
				}
				requiredSites(f.Type, x, depth+1, inCol, out)
			}
		}
	case "union":
		if len(tr.Obj) == 1 {
			for _, m := range n.Members {
				if m.Alias == tr.Obj[0].K {
					requiredSites(m.Type, tr.Obj[0].V, depth+1, inCol, out)
				}
			}
		}
	}
}

// missingPaths: the absent required fields of a wire tree, in the path syntax of the library's error.
func missingPaths(t schema.Type, tr *refcodec.Tree, path string, out *[]string) {
	join := func(seg string) string {
		if path == "" {
			return seg
		}
		return path + "." + seg
	}
	switch {
	case t.Prim != "":
		return
	case t.Array != nil:
		for i, x := range tr.Arr {
			missingPaths(*t.Array, x, fmt.Sprintf("%s[%d]", path, i), out)
		}
		return
	case t.Map != nil:
		for _, kv := range tr.Obj {
			missingPaths(*t.Map, kv.V, join(kv.K), out)
		}
		return
	}
	n := S.Lookup(*t.Ref)
	switch n.Kind {
	case "record", "complexkey":
		for _, f := range S.AllFields(n) {
			x := tr.Get(f.Name)
			if x == nil {
				if f.Required() {
					*out = append(*out, join(f.Name))
				}
				continue
			}
			missingPaths(f.Type, x, join(f.Name), out)
		}
	case "union":
		if len(tr.Obj) == 1 {
			for _, m := range n.Members {
				if m.Alias == tr.Obj[0].K {
					missingPaths(m.Type, tr.Obj[0].V, join(m.Alias), out)
				}
			}
		}
	}
}

// zeroFill puts the zero value into every required record field that is absent (what the Go struct holds).
func zeroFill(t schema.Type, v *aval.V) {
	switch {
	case v == nil || t.Prim != "":
		return
	case t.Array != nil:
		for _, x := range v.Arr {
			zeroFill(*t.Array, x)
		}
		return
	case t.Map != nil:
		for _, x := range v.Ent {
			zeroFill(*t.Map, x)
		}
		return
	}
	n := S.Lookup(*t.Ref)
	switch n.Kind {
	case "record", "complexkey":
		for _, f := range S.AllFields(n) {
			if x, ok := v.Flds[f.Name]; ok {
				zeroFill(f.Type, x)
			} else if f.Required() {
				v.Flds[f.Name] = aval.Zero(S, f.Type)
			}
		}
	case "union":
		if v.Mem != "" {
			for _, m := range n.Members {
				if m.Alias == v.Mem {
					zeroFill(m.Type, v.Val)
				}
			}
		}
	}
}

// entityTrees locates the entities of a successful response body: the trees, their type, and where the value goes in
// the outcome the client is expected to return.
type entitySlot struct {
	tr  *refcodec.Tree
	t   schema.Type
	set func(o *dyn.Outcome, v *aval.V)
	// prefix of the entity inside the response document (for the strict client's error paths; "" = the body is the entity)
	rooted bool
}

func isRecord(t *schema.Type) bool {
	return t != nil && t.Ref != nil && S.Lookup(*t.Ref).Kind == "record"
}

func entitySlots(mi *dyn.MethodInfo, root *refcodec.Tree, out *dyn.Outcome) []entitySlot {
	var es []entitySlot
	switch {
	case mi.M.Kind == "ACTION":
		if isRecord(mi.M.Return) && root.Get("value") != nil {
			es = append(es, entitySlot{tr: root.Get("value"), t: *mi.M.Return, set: func(o *dyn.Outcome, v *aval.V) { o.Action = v }})
		}
	case mi.M.Kind == "FINDER" || mi.Rest() == "get_all":
		if el := root.Get("elements"); el != nil && isRecord(mi.Entity) && len(el.Arr) == len(out.Elements) {
			for i, x := range el.Arr {
				i := i
				es = append(es, entitySlot{tr: x, t: *mi.Entity, set: func(o *dyn.Outcome, v *aval.V) { o.Elements[i] = v }})
			}
		}
	case mi.Rest() == "get":
		if isRecord(mi.Entity) {
			es = append(es, entitySlot{tr: root, t: *mi.Entity, rooted: true, set: func(o *dyn.Outcome, v *aval.V) { o.Entity = v }})
		}
	case mi.Rest() == "create" && mi.M.ReturnEntity:
		if isRecord(mi.Entity) && out.Created != nil && out.Created.Entity != nil {
			es = append(es, entitySlot{tr: root, t: *mi.Entity, rooted: true, set: func(o *dyn.Outcome, v *aval.V) { o.Created.Entity = v }})
		}
	case mi.Rest() == "batch_get":
		if res := root.Get("results"); res != nil && isRecord(mi.Entity) && mi.KeyType != nil {
			for _, kv := range res.Obj {
				id, err := denotedKey(*mi.KeyType, kv.K)
				if err != nil {
					return nil
				}
				for j := range out.Results {
					if keyIdentity(*mi.KeyType, out.Results[j].K) == id {
						j := j
						es = append(es, entitySlot{tr: kv.V, t: *mi.Entity, set: func(o *dyn.Outcome, v *aval.V) { o.Results[j].V = v }})
					}
				}
			}
		}
	}
	return es
}

func checkLenient(rec *stats.Recorder, c lenientCase) string {
	mi := dyn.FindMethod(S, c.Call.Resource, c.Call.Method)
	root, err := refcodec.ParseJSON([]byte(c.Body))
	if err != nil {
		rec.Label("skipped_response_not_strict_json", 1)
		return ""
	}
	// (C02's normalisation of what the resource returned: schema defaults of the envelope records, created status 201)
	var scripted dyn.Outcome
	if b, e := json.Marshal(c.Outcome); e != nil || json.Unmarshal(b, &scripted) != nil {
		panic("harness: outcome does not survive JSON")
	}
	want := *expectedOutcome(mi, &scripted)
	alt := *expectedOutcome(mi, &scripted)
	hasAlt := false
	slots := entitySlots(mi, root, &want)
	if want.Created != nil {
		cr := *want.Created
		alt.Created = &cr
	}
	var sites []reqSite
	for _, s := range slots {
		requiredSites(s.t, s.tr, 0, !s.rooted, &sites)
	}
	if len(sites) == 0 {
		rec.Label("skipped_no_required_field_in_response", 1)
		return ""
	}
	deep := false
	dropped := 0
	for _, d := range c.Drops {
		s := sites[d%len(sites)]
		if s.obj.Del(s.field) {
			dropped++
			deep = deep || s.depth > 0 || s.inCol
		}
	}
	var missing []string
	for _, s := range slots {
		missingPaths(s.t, s.tr, "", &missing)
		v, ferr := refcodec.FromTree(S, s.t, s.tr, refcodec.Opts{Bytes: refcodec.RawUTF8})
		if ferr != nil {
			panic("harness: edited entity does not read back: " + ferr.Error())
		}
		parsed := v
		v = fillDefaults(s.t, v)
		zeroFill(s.t, v)
		s.set(&want, v)
		if s.rooted {
			// the entity is the outermost record of the document: when required fields are missing its own defaults need not
			// have been populated (same two readings as the codec-level check, DESIGN 5.3); nested records are complete
			a := v.Clone()
			for _, f := range S.AllFields(S.Lookup(*s.t.Ref)) {
				if _, set := parsed.Flds[f.Name]; !set && f.Default != nil {
					delete(a.Flds, f.Name)
				}
			}
			s.set(&alt, a)
			hasAlt = true
		}
	}
	if len(missing) == 0 {
		rec.Label("skipped_nothing_missing_after_edit", 1) // (the same site picked twice and re-derived: cannot happen; kept as a guard)
		return ""
	}
	body := refcodec.RenderJSON(root, refcodec.JSONOpts{})
	labels := []string{"lenient_client", "method=" + strings.ToLower(mi.M.Kind+":"+mi.M.Name), fmt.Sprintf("dropped=%d", min3(dropped))}
	if deep {
		labels = append(labels, "dropped_below_top_level")
	}
	rec.Case(labels...)
	rec.NonTrivial("lenient", c.Call.Resource+"."+c.Call.Method+"|"+body, func() any { return c })
	desc := fmt.Sprintf("\n %s.%s missing=%v\n response body=%s", c.Call.Resource, c.Call.Method, missing, hx.Q(body))
	for _, strict := range []bool{false, true} {
		hr := &hostileResp{Status: c.Status, Header: c.Header, Body: body}
		cl := &restli.Client{Client: &http.Client{Transport: cannedTransport{hr}}, HostnameResolver: &restli.SimpleHostnameResolver{Hostname: getWorld("bare").baseURL("verif.test")},
			StrictResponseDeserialization: strict}
		var got *dyn.Outcome
		var cerr error
		call := c.Call
		if p, pv, st := hx.Try(func() { got, cerr, _ = dyn.CallClient(S, contextBackground(), cl, &call, nil) }); p {
			return fmt.Sprintf("client (strict=%v) panicked on a response with missing required fields: %v\n%s", strict, pv, trimStack(st)) + desc
		}
		if !strict {
			if cerr != nil {
				return fmt.Sprintf("a lenient client (StrictResponseDeserialization off) returned an error for a response in which only required fields are missing: %v", cerr) + desc
			}
			if d := diffOutcomes(mi, &want, got); d != "" && !(hasAlt && diffOutcomes(mi, &alt, got) == "") {
				return fmt.Sprintf("a lenient client did not receive the partially filled value: %s\n got =%s\n want=%s", d, hx.J(got), hx.J(&want)) + desc
			}
			continue
		}
		var mfe *restlicodec.MissingRequiredFieldsError
		if cerr == nil {
			return "a strict client accepted a response with missing required fields" + desc
		}
		if !errors.As(cerr, &mfe) {
			return fmt.Sprintf("a strict client failed with another kind of error (%T): %v", cerr, cerr) + desc
		}
		if len(slots) == 1 && slots[0].rooted {
			gotF := append([]string(nil), mfe.Fields...)
			sort.Strings(gotF)
			sort.Strings(missing)
			if strings.Join(gotF, ",") != strings.Join(missing, ",") {
				return fmt.Sprintf("the strict client's error lists %v, want %v", gotF, missing) + desc
			}
		}
	}
	return ""
}

func TestC06Lenient(t *testing.T) {
	rec := stats.For("C06")
	g := keyGen()
	if c, ok := hx.Replay[lenientCase]("C06", "lenient"); ok {
		if msg := checkLenient(rec, c); msg != "" {
			rec.Violation("lenient", msg, c)
			t.Fatal(msg)
		}
		return
	} else if hx.Replaying() {
		t.Skip()
	}
	w := getWorld("bare")
	var cands []*dyn.MethodInfo
	for _, mi := range methods {
		switch {
		case mi.M.Kind == "ACTION" && isRecord(mi.M.Return), mi.M.Kind == "FINDER" && isRecord(mi.Entity):
			cands = append(cands, mi)
		case mi.M.Kind == "REST_METHOD" && isRecord(mi.Entity) && (mi.Rest() == "get" || mi.Rest() == "get_all" || mi.Rest() == "batch_get" || (mi.Rest() == "create" && mi.M.ReturnEntity)):
			cands = append(cands, mi)
		}
	}
	rapid.Check(t, func(rt *rapid.T) {
		mi := cands[pick(rt, len(cands), "method")]
		call := genCall(rt, g, mi)
		out := genOutcome(rt, g, mi, &call)
		_, err, sl, _, _ := w.do(clientConfig{Transport: "inprocess"}, &call, &out, nil)
		if err != nil || sl == nil || len(sl.wire) != 1 || sl.wire[0].Status >= 300 {
			rt.Skip()
		}
		cp := sl.wire[0]
		c := lenientCase{CorpusSeed: corpusSeed, Call: call, Outcome: out, Status: cp.Status, Body: cp.RespBody, Header: map[string]string{}}
		for k, v := range cp.RespHdr {
			if len(v) > 0 && k != "Content-Length" {
				c.Header[k] = v[0]
			}
		}
		c.Drops = rapid.SliceOfN(rapid.IntRange(0, 1<<20), 1, 3).Draw(rt, "drops")
		if msg := checkLenient(rec, c); msg != "" {
			rec.Violation("lenient", msg, c)
			rt.Fatalf("property violated (details in the replay file)")
		}
	})
}
