package resprops

// C04 at HTTP level - coverage-guided part (thorough tier): native fuzzing of (verb, request target, Rest.li method
// header, override header, content type, body) against the generated server with every resource of the corpus
// registered. Oracle = checkHostileRequest: never a 5xx, never a stack trace, no resource code behind a 4xx. The seed
// corpus holds the wire form of one valid generated call per method.

import (
	"strings"
	"testing"

	"pgregory.net/rapid"

	"verif/HARNESS/dyn"
	"verif/core/hx"
	"verif/core/stats"
)

var c04FuzzVerbs = []string{"GET", "POST", "PUT", "DELETE", "PATCH", "OPTIONS", "HEAD"}

func FuzzC04HTTP(f *testing.F) {
	rec := stats.For("C04")
	g := keyGen()
	w := getWorld("bare")
	for _, mi := range methods {
		for _, threshold := range []int{0, 1} {
			var call dyn.Call
			var out dyn.Outcome
			if p, _, _ := hx.Try(func() {
				rapid.Custom(func(rt *rapid.T) int {
					rapid.Bool().Draw(rt, "x")
					call = genCall(rt, g, mi)
					out = genOutcome(rt, g, mi, &call)
					return 0
				}).Example(1 + threshold)
			}); p {
				continue
			}
			_, _, sl, _, _ := w.do(clientConfig{Threshold: threshold, Transport: "inprocess"}, &call, &out, nil)
			if sl == nil || len(sl.wire) == 0 {
				continue
			}
			cp := sl.wire[0]
			verb := 0
			for i, v := range c04FuzzVerbs {
				if v == cp.Method {
					verb = i
				}
			}
			f.Add(uint8(verb), cp.URI, cp.Header.Get("X-RestLi-Method"), cp.Header.Get("X-HTTP-Method-Override"), cp.Header.Get("Content-Type"), []byte(cp.Body))
		}
	}
	f.Fuzz(func(t *testing.T, verb uint8, uri, restliMethod, override, contentType string, body []byte) {
		if len(uri) > 2048 || len(body) > 8192 {
			return
		}
		uri = strings.Map(func(r rune) rune {
			if r <= ' ' || r == 0x7f {
				return -1 // cannot appear in a request line
			}
			return r
		}, uri)
		if !strings.HasPrefix(uri, "/") {
			uri = "/" + uri
		}
		c := hostileReq{CorpusSeed: corpusSeed, Verb: c04FuzzVerbs[int(verb)%len(c04FuzzVerbs)], URI: uri, Body: string(body), Header: map[string]string{"X-RestLi-Protocol-Version": "2.0.0"}, Op: "fuzz"}
		if restliMethod != "" {
			c.Header["X-RestLi-Method"] = restliMethod
		}
		if override != "" {
			c.Header["X-HTTP-Method-Override"] = override
		}
		if contentType != "" {
			c.Header["Content-Type"] = contentType
		}
		if msg := checkHostileRequest(rec, c); msg != "" {
			rec.Violation("http-request-fuzz", msg, c)
			stats.FlushAll()
			t.Fatal(msg)
		}
	})
}
