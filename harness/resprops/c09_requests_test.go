//verif:v2only C09 is stated for the v2 module

package resprops

// C09 at request level: "output does not depend on ... the order in which fields, parameters or batch keys were supplied
// ... and requests are reproducible". The same logical call is made three times through the generated client - as drawn,
// with its batch keys (key list, or the entries of the entity / patch map) supplied in another order, and as drawn again -
// without tunnelling (multipart boundaries are random by design). The three attempts must agree: either none of them
// sends a request (e.g. duplicate keys, rejected on the client), or all send the same verb, request target and body, byte
// for byte. Key multisets come from C16's generator, so keys that are equal under key equality but encode differently
// (complex keys differing only in $params) are in.

import (
	"fmt"
	"testing"

	"pgregory.net/rapid"

	"verif/HARNESS/dyn"
	"verif/core/aval"
	"verif/core/hx"
	"verif/core/stats"
)

type reqCase struct {
	CorpusSeed int64    `json:"corpus_seed"`
	Call       dyn.Call `json:"call"`
	Perm       []int    `json:"perm"`
}

func permuted[T any](xs []T, perm []int) []T {
	out := append([]T(nil), xs...)
	for i := len(out) - 1; i > 0; i-- {
		j := perm[i%len(perm)] % (i + 1)
		out[i], out[j] = out[j], out[i]
	}
	return out
}

func checkReproducible(rec *stats.Recorder, c reqCase) string {
	mi := dyn.FindMethod(S, c.Call.Resource, c.Call.Method)
	w := getWorld("bare")
	cfg := clientConfig{Transport: "inprocess"}
	batch := len(c.Call.Keys) > 1 || len(c.Call.EntityMap) > 1
	labels := []string{"request_reproducible", "method=" + mi.Rest() + mi.M.Kind[:1]}
	if batch {
		labels = append(labels, "batch_keys_permuted")
	}
	rec.Case(labels...)
	if batch {
		rec.NonTrivial("request", "req|"+hx.J(c.Call)+fmt.Sprint(c.Perm), func() any { return c })
	}
	other := c.Call
	other.Keys = permuted(c.Call.Keys, c.Perm)
	other.EntityMap = permuted(c.Call.EntityMap, c.Perm)
	type attempt struct {
		sent bool
		text string
		err  error
	}
	var as []attempt
	for i, call := range []dyn.Call{c.Call, other, c.Call} {
		call := call
		out := benignOutcome(mi)
		var sl *slot
		var err error
		if p, pv, st := hx.Try(func() { _, err, sl, _, _ = w.do(cfg, &call, out, nil) }); p {
			return fmt.Sprintf("client call panicked (attempt %d): %v\n%s", i, pv, st)
		}
		a := attempt{err: err}
		if sl != nil && len(sl.wire) > 0 {
			cp := sl.wire[0]
			a.sent, a.text = true, cp.Method+" "+cp.URI+"\n"+cp.Body
		}
		as = append(as, a)
	}
	names := []string{"as drawn", "batch keys supplied in another order", "as drawn, again"}
	for i := 1; i < len(as); i++ {
		if as[i].sent != as[0].sent {
			return fmt.Sprintf("the same logical call sends a request in one attempt and none in another: %q sent=%v (error %v), %q sent=%v (error %v)\n %s.%s call=%s",
				names[0], as[0].sent, as[0].err, names[i], as[i].sent, as[i].err, c.Call.Resource, c.Call.Method, hx.J(c.Call))
		}
		if as[i].text != as[0].text {
			return fmt.Sprintf("the same logical call produced different requests (%q vs %q):\n %s\n %s\n %s.%s", names[0], names[i], hx.Q(as[0].text), hx.Q(as[i].text), c.Call.Resource, c.Call.Method)
		}
	}
	return ""
}

func TestC09Requests(t *testing.T) {
	rec := stats.For("C09")
	g := keyGen()
	bms := batchMethods()
	if c, ok := hx.Replay[reqCase]("C09", "request"); ok {
		if msg := checkReproducible(rec, c); msg != "" {
			rec.Violation("request", msg, c)
			t.Fatal(msg)
		}
		return
	} else if hx.Replaying() {
		t.Skip()
	}
	rapid.Check(t, func(rt *rapid.T) {
		c := reqCase{CorpusSeed: corpusSeed}
		c.Perm = rapid.SliceOfN(rapid.IntRange(0, 1000), 4, 4).Draw(rt, "perm")
		if rapid.IntRange(0, 3).Draw(rt, "any_method") == 0 {
			mi := methods[pick(rt, len(methods), "method")]
			c.Call = genCall(rt, g, mi)
		} else {
			mi := bms[pick(rt, len(bms), "bmethod")]
			c.Call = dyn.Call{Resource: mi.R.Namespace, Method: mi.Func}
			for _, kt := range mi.PathKeys {
				c.Call.PathKeys = append(c.Call.PathKeys, genKey(rt, g, kt))
			}
			keys := genKeyMultiset(rt, g, mi)
			switch mi.Rest() {
			case "batch_get", "batch_delete":
				c.Call.Keys = keys
			default:
				seen := map[string]bool{}
				for _, k := range keys {
					if !isComplexKey(*mi.KeyType) {
						id := keyIdentity(*mi.KeyType, k)
						if seen[id] {
							continue // a Go map cannot hold two equal non-pointer keys
						}
						seen[id] = true
					}
					kv := dyn.KV{K: k}
					if mi.Rest() == "batch_update" {
						kv.V = g.Value(rt, *mi.Entity, 2)
					} else {
						kv.P = genPatch(rt, g, *mi.Entity, annotatedTop(mi))
					}
					c.Call.EntityMap = append(c.Call.EntityMap, kv)
				}
			}
			if mi.Params != nil {
				c.Call.Params = g.Value(rt, mi.ParamsType(), 1)
			}
		}
		if msg := checkReproducible(rec, c); msg != "" {
			rec.Violation("request", msg, c)
			rt.Fatalf("property violated (details in the replay file)")
		}
	})
}

var _ = aval.Equal
