package resprops

// C04 (HTTP level) - hostile peers: a malformed request is answered with a 4xx and never with a 5xx, a
// recovered panic, a stack trace or an invocation of resource code; a malformed response makes the
// client call return an error rather than panic in the caller's goroutine.

import (
	"time"
	"sync/atomic"
	"os"
	"bytes"
	"fmt"
	"io"
	"net/http"
	"strings"
	"testing"

	"github.com/PapaCharlie/go-restli/v2/restli"
	"pgregory.net/rapid"

	"verif/HARNESS/dyn"
	"verif/core/hx"
	"verif/core/stats"
)

type hostileReq struct {
	CorpusSeed int64             `json:"corpus_seed"`
	Verb       string            `json:"verb"`
	URI        string            `json:"uri"`
	Header     map[string]string `json:"header"`
	Body       string            `json:"body"`
	Op         string            `json:"mutation"`
	Base       string            `json:"base_call"`
}

var hostileBits = []string{"(", ")", ",", ":", "'", "%", "%zz", "%2", "&", "=", "+", "\"", "\\", "{", "}", "[", "]", "List(", "''", "\x00", "null", "$set", "$delete", "$params", "/", "//", "?", "#", " ", "é", "..", "ids=", "q=", "action=", "1e999", "-", "()", "List()"}

func mutateString(rt *rapid.T, s string, label string) (string, string) {
	if len(s) == 0 {
		return rapid.SampledFrom(hostileBits).Draw(rt, label+"ins"), "insert"
	}
	switch rapid.IntRange(0, 4).Draw(rt, label+"op") {
	case 0:
		return s[:rapid.IntRange(0, len(s)-1).Draw(rt, label+"cut")], "truncate"
	case 1:
		i := rapid.IntRange(0, len(s)-1).Draw(rt, label+"del")
		return s[:i] + s[i+1:], "delete"
	case 2:
		i := rapid.IntRange(0, len(s)).Draw(rt, label+"at")
		return s[:i] + rapid.SampledFrom(hostileBits).Draw(rt, label+"bit") + s[i:], "insert"
	case 3:
		i := rapid.IntRange(0, len(s)-1).Draw(rt, label+"at")
		return s[:i] + rapid.SampledFrom(hostileBits).Draw(rt, label+"bit") + s[i+1:], "replace"
	default:
		return rapid.SampledFrom(hostileBits).Draw(rt, label+"all"), "replace_all"
	}
}

// a case that does not finish within 30 s is a hang ("loop forever"): reported with the request / response being processed
var (
	c04Cur      atomic.Value // c04Box: the case in flight
	c04CurCheck atomic.Value // string
	c04Busy     atomic.Bool
	c04Done     atomic.Int64
)

type c04Box struct{ c any }

func startC04Watchdog(rec *stats.Recorder) func() {
	done := make(chan struct{})
	go func() {
		last, stuck := int64(-1), 0
		for {
			select {
			case <-done:
				return
			case <-time.After(5 * time.Second):
			}
			cur := c04Done.Load()
			if cur == last && c04Busy.Load() {
				stuck++
			} else {
				stuck = 0
			}
			last = cur
			if stuck >= 6 {
				name, _ := c04CurCheck.Load().(string)
				box, _ := c04Cur.Load().(c04Box)
				rec.Violation("hang-"+name, "handling one malformed message did not finish within 30 s (process aborted by the watchdog)", box.c)
				stats.FlushAll()
				os.Exit(1)
			}
		}
	}()
	return func() { close(done) }
}

func c04Enter(check string, c any) func() {
	c04Cur.Store(c04Box{c})
	c04CurCheck.Store(check)
	c04Busy.Store(true)
	return func() { c04Busy.Store(false); c04Done.Add(1) }
}

func checkHostileRequest(rec *stats.Recorder, c hostileReq) string {
	defer c04Enter("http-request", c)()
	w := getWorld("bare")
	sl := &slot{}
	sl.hook = benignHook
	w.slots.Store("*", sl)
	defer w.slots.Delete("*")
	rec.Case("hostile_request", "mutation="+c.Op, "verb="+c.Verb)
	rec.NonTrivial("request", c.Verb+" "+c.URI+hx.J(c.Header)+c.Body, func() any { return c })
	var wire bytes.Buffer
	fmt.Fprintf(&wire, "%s %s HTTP/1.1\r\nHost: verif.test\r\n", c.Verb, c.URI)
	for k, v := range c.Header {
		if strings.ContainsAny(v, "\r\n\x00") || strings.ContainsAny(k, "\r\n\x00 :") || k == "" {
			continue
		}
		fmt.Fprintf(&wire, "%s: %s\r\n", k, v)
	}
	fmt.Fprintf(&wire, "Content-Length: %d\r\n\r\n%s", len(c.Body), c.Body)
	req, err := http.ReadRequest(bufioReader(wire.Bytes()))
	if err != nil {
		return "" // net/http itself rejects the request line: never reaches the library
	}
	tunnelled := req.Header.Get("X-HTTP-Method-Override") != "" // (read now: the server de-tunnels the request in place)
	rr := newRecorder()
	if p, pv, st := hx.Try(func() { w.handler.ServeHTTP(rr, req) }); p {
		return fmt.Sprintf("the server crashed on a malformed request (a real connection would be aborted): %v\n%s\n request: %s %s headers=%v body=%s", pv, trimStack(st), c.Verb, hx.Q(c.URI), c.Header, hx.Q(c.Body))
	}
	status := rr.Code
	body := rr.Body.String()
	invoked := len(sl.invocations)
	desc := fmt.Sprintf("\n request: %s %s headers=%v body=%s\n response: %d %s", c.Verb, hx.Q(c.URI), c.Header, hx.Q(c.Body), status, hx.Q(body))
	if status >= 500 {
		return "a request was answered with a 5xx" + desc
	}
	if strings.Contains(body, "goroutine ") || strings.Contains(body, "runtime/debug.Stack") {
		return "a response carries a stack trace" + desc
	}
	if status >= 400 && invoked > 0 {
		return fmt.Sprintf("a request answered %d nevertheless invoked resource code", status) + desc
	}
	if invoked > 1 {
		return fmt.Sprintf("one request invoked %d resource methods", invoked) + desc
	}
	// "a malformed request is answered with a 4xx ... never with an invocation of resource code": asserted where the request
	// is malformed beyond doubt - an untunnelled request that reached a method reading its input from the body, with a body
	// that is structurally not one JSON object (tolerant judgement, see brokenJSONObject)
	if invoked == 1 && !tunnelled {
		imi := dyn.FindMethod(S, sl.invocations[0].Call.Resource, sl.invocations[0].Call.Method)
		if imi != nil && inputInBody(imi) {
			if why := brokenJSONObject(c.Body); why != "" {
				return fmt.Sprintf("a request whose body is not a JSON object (%s) reached %s.%s and was answered %d", why, imi.R.Namespace, imi.Func, status) + desc
			}
			rec.Label("request_body_reached_resource_code", 1)
		}
	} else if invoked == 0 && status >= 400 && brokenJSONObject(c.Body) != "" {
		rec.Label("request_malformed_beyond_doubt_rejected", 1)
	}
	return ""
}

// inputInBody: the server reads the method's input from the request body.
func inputInBody(mi *dyn.MethodInfo) bool {
	if mi.M.Kind == "ACTION" {
		return len(mi.M.Params) > 0
	}
	switch mi.Rest() {
	case "create", "update", "partial_update", "batch_create", "batch_update", "batch_partial_update":
		return true
	}
	return false
}

// benignHook answers whatever method is hit with a well-formed empty outcome.
func benignHook(inv *dyn.Invocation) *dyn.Outcome {
	return benignOutcome(dyn.FindMethod(S, inv.Call.Resource, inv.Call.Method))
}

func TestC04Requests(t *testing.T) {
	rec := stats.For("C04")
	g := keyGen()
	if c, ok := hx.Replay[hostileReq]("C04", "http-request"); ok {
		if msg := checkHostileRequest(rec, c); msg != "" {
			rec.Violation("http-request", msg, c)
			t.Fatal(msg)
		}
		return
	} else if hx.Replaying() {
		t.Skip()
	}
	w := getWorld("bare")
	defer startC04Watchdog(rec)()
	rapid.Check(t, func(rt *rapid.T) {
		// a valid request captured from a real client call ...
		mi := methods[pick(rt, len(methods), "method")]
		call := genCall(rt, g, mi)
		out := genOutcome(rt, g, mi, &call)
		cfg := clientConfig{Threshold: rapid.SampledFrom([]int{0, 0, 1}).Draw(rt, "threshold"), Transport: "inprocess"}
		_, _, sl, _, _ := w.do(cfg, &call, &out, nil)
		if sl == nil || len(sl.wire) == 0 {
			rt.Skip()
		}
		cp := sl.wire[0]
		c := hostileReq{CorpusSeed: corpusSeed, Verb: cp.Method, URI: cp.URI, Body: cp.Body, Header: map[string]string{}, Base: call.Resource + "." + call.Method}
		for k, v := range cp.Header {
			if k != callHeader && k != "Content-Length" && len(v) > 0 {
				c.Header[k] = v[0]
			}
		}
		// ... with 1-2 mutations
		for n := rapid.IntRange(1, 2).Draw(rt, "nmut"); n > 0; n-- {
			switch rapid.IntRange(0, 6).Draw(rt, "where") {
			case 0, 1:
				path, q, hasQ := strings.Cut(c.URI, "?")
				path, c.Op = mutateString(rt, path, "path")
				if !strings.HasPrefix(path, "/") {
					path = "/" + path
				}
				c.URI = path
				if hasQ {
					c.URI += "?" + q
				}
				c.Op = "path_" + c.Op
			case 2, 3:
				path, q, _ := strings.Cut(c.URI, "?")
				q, c.Op = mutateString(rt, q, "query")
				c.URI = path + "?" + q
				c.Op = "query_" + c.Op
			case 4:
				c.Body, c.Op = mutateString(rt, c.Body, "body")
				c.Op = "body_" + c.Op
			case 5:
				h := rapid.SampledFrom([]string{"X-RestLi-Method", "X-HTTP-Method-Override", "Content-Type", "X-RestLi-Protocol-Version"}).Draw(rt, "hdr")
				c.Header[h], _ = mutateString(rt, c.Header[h], "hv")
				if rapid.Bool().Draw(rt, "dropit") {
					delete(c.Header, h)
				}
				c.Op = "header"
			default:
				c.Verb = rapid.SampledFrom([]string{"GET", "POST", "PUT", "DELETE", "PATCH", "OPTIONS", "HEAD"}).Draw(rt, "verb")
				c.Op = "verb"
			}
		}
		c.URI = strings.Map(func(r rune) rune {
			if r <= ' ' || r == 0x7f {
				return -1 // cannot appear in a request line
			}
			return r
		}, c.URI)
		if msg := checkHostileRequest(rec, c); msg != "" {
			rec.Violation("http-request", msg, c)
			rt.Fatalf("property violated (details in the replay file)")
		}
	})
}

// ---------------------------------------------------------------------------------------------
// hostile responses

type hostileResp struct {
	CorpusSeed int64             `json:"corpus_seed"`
	Call       dyn.Call          `json:"call"`
	Status     int               `json:"status"`
	Header     map[string]string `json:"header"`
	Body       string            `json:"body"`
	Op         string            `json:"mutation"`
	Lenient    bool              `json:"lenient_client,omitempty"` // StrictResponseDeserialization off (the default of a client)
}

type cannedTransport struct{ c *hostileResp }

func (t cannedTransport) RoundTrip(req *http.Request) (*http.Response, error) {
	if req.Body != nil {
		io.Copy(io.Discard, req.Body)
		req.Body.Close()
	}
	h := http.Header{}
	for k, v := range t.c.Header {
		h.Set(k, v)
	}
	return &http.Response{StatusCode: t.c.Status, Status: fmt.Sprintf("%d X", t.c.Status), Proto: "HTTP/1.1", ProtoMajor: 1, ProtoMinor: 1,
		Header: h, Body: io.NopCloser(strings.NewReader(t.c.Body)), ContentLength: int64(len(t.c.Body)), Request: req}, nil
}

func checkHostileResponse(rec *stats.Recorder, c hostileResp) string {
	defer c04Enter("http-response", c)()
	rec.Case("hostile_response", "mutation="+c.Op, fmt.Sprintf("lenient_client=%v", c.Lenient))
	rec.NonTrivial("response", hx.J(c), func() any { return c })
	cl := &restli.Client{Client: &http.Client{Transport: cannedTransport{&c}}, HostnameResolver: &restli.SimpleHostnameResolver{Hostname: getWorld("bare").baseURL("verif.test")},
		StrictResponseDeserialization: !c.Lenient}
	var got *dyn.Outcome
	var err error
	if p, pv, st := hx.Try(func() { got, err, _ = dyn.CallClient(S, contextBackground(), cl, &c.Call, nil) }); p {
		return fmt.Sprintf("a malformed response made the client call panic in the caller's goroutine: %v\n%s\n %s.%s\n response: %d %v %s", pv, trimStack(st), c.Call.Resource, c.Call.Method, c.Status, c.Header, hx.Q(c.Body))
	}
	// "a malformed response makes the client call return an error": asserted where the response is malformed beyond doubt -
	// a success status without the error header, on a method whose result is read from the body, and a body that the
	// independent strict parser does not read as a JSON object (not JSON at all, truncated, trailing bytes, null, an array)
	mi := dyn.FindMethod(S, c.Call.Resource, c.Call.Method)
	if (c.Status == 200 || c.Status == 201) && c.Header["X-Restli-Error-Response"] == "" && c.Header["X-RestLi-Error-Response"] == "" && resultInBody(mi) {
		if perr := brokenJSONObject(c.Body); perr != "" {
			rec.Label("response_malformed_beyond_doubt", 1)
			if err == nil {
				return fmt.Sprintf("a response whose body is not a JSON object (%v) was turned into a successful result %s\n %s.%s lenient=%v\n response: %d %v %s", perr, hx.J(got), c.Call.Resource, c.Call.Method, c.Lenient, c.Status, c.Header, hx.Q(c.Body))
			}
		}
	}
	return ""
}

// brokenJSONObject is a deliberately tolerant judgement (lenient number spellings, duplicate keys, text that is not UTF-8
// are NOT its business): it reports a body that is structurally not one JSON object - empty, another kind of value,
// brackets or strings left open (a truncated document), more closing than opening brackets, bytes after the object.
func brokenJSONObject(body string) string {
	i := 0
	for i < len(body) && strings.ContainsRune(" \t\r\n", rune(body[i])) {
		i++
	}
	if i == len(body) {
		return "empty body"
	}
	if body[i] != '{' {
		return "the top-level value is not an object"
	}
	var stack []byte
	inStr := false
	for ; i < len(body); i++ {
		ch := body[i]
		if inStr {
			switch ch {
			case '\\':
				i++
			case '"':
				inStr = false
			}
			continue
		}
		switch ch {
		case '"':
			inStr = true
		case '{', '[':
			stack = append(stack, ch)
		case '}', ']':
			// (a document in which a bracket closes one of the other kind is not judged at all: a decoder that skips the value
			// of an unknown member by counting nesting depth - as the library's lexer does - sees another structure than a
			// strict parser, and where it stops is its own business)
			if len(stack) == 0 {
				return "a closing bracket matches no opening one"
			}
			if (ch == '}') != (stack[len(stack)-1] == '{') {
				return "" // brackets of different kinds close each other: not judged (see above)
			}
			stack = stack[:len(stack)-1]
			if len(stack) == 0 {
				if strings.Trim(body[i+1:], " \t\r\n") != "" {
					return "bytes follow the top-level object"
				}
				return ""
			}
		}
	}
	if inStr {
		return "a string is left open"
	}
	return "an object or array is left open"
}

// resultInBody: the client reads the method's result from the response body.
func resultInBody(mi *dyn.MethodInfo) bool {
	switch {
	case mi.M.Kind == "FINDER":
		return true
	case mi.M.Kind == "ACTION":
		return mi.M.Return != nil
	}
	switch mi.Rest() {
	case "get", "get_all", "batch_get", "batch_create", "batch_update", "batch_partial_update", "batch_delete":
		return true
	case "create", "partial_update":
		return mi.M.ReturnEntity
	}
	return false
}

func TestC04Responses(t *testing.T) {
	rec := stats.For("C04")
	g := keyGen()
	if c, ok := hx.Replay[hostileResp]("C04", "http-response"); ok {
		if msg := checkHostileResponse(rec, c); msg != "" {
			rec.Violation("http-response", msg, c)
			t.Fatal(msg)
		}
		return
	} else if hx.Replaying() {
		t.Skip()
	}
	w := getWorld("bare")
	defer startC04Watchdog(rec)()
	rapid.Check(t, func(rt *rapid.T) {
		mi := methods[pick(rt, len(methods), "method")]
		call := genCall(rt, g, mi)
		out := genOutcome(rt, g, mi, &call)
		_, _, sl, _, _ := w.do(clientConfig{Transport: "inprocess"}, &call, &out, nil)
		if sl == nil || len(sl.wire) == 0 {
			rt.Skip()
		}
		cp := sl.wire[0]
		c := hostileResp{CorpusSeed: corpusSeed, Call: call, Status: cp.Status, Body: cp.RespBody, Header: map[string]string{}, Lenient: rapid.Bool().Draw(rt, "lenient")}
		for k, v := range cp.RespHdr {
			if len(v) > 0 && k != "Content-Length" {
				c.Header[k] = v[0]
			}
		}
		for n := rapid.IntRange(1, 2).Draw(rt, "nmut"); n > 0; n-- {
			switch rapid.IntRange(0, 6).Draw(rt, "where") {
			case 6:
				// the response breaks off right after a string token (a member name, a batch key, a string value): the decoder
				// is then in the middle of a member, possibly with a key in hand that it has already handed to its own reader
				var ends []int
				for i := 0; i < len(c.Body); i++ {
					if c.Body[i] == '"' && i > 0 {
						ends = append(ends, i+1)
					}
				}
				if len(ends) == 0 {
					c.Body, c.Op = "", "body_blank"
					break
				}
				cut := ends[rapid.IntRange(0, len(ends)-1).Draw(rt, "cut_after_string")]
				if cut >= len(c.Body) {
					cut = len(c.Body) - 1
				}
				c.Body, c.Op = c.Body[:cut], "body_cut_after_string"
			case 0, 1, 2:
				c.Body, c.Op = mutateString(rt, c.Body, "body")
				if rapid.IntRange(0, 9).Draw(rt, "blank") == 0 {
					// a 2xx without an entity where one is expected: no body at all, or the JSON null
					c.Body, c.Op = rapid.SampledFrom([]string{"", "null", " ", "{}", "[]"}).Draw(rt, "blankbody"), "blank"
				}
				c.Op = "body_" + c.Op
			case 3:
				h := rapid.SampledFrom([]string{"X-RestLi-Id", "X-RestLi-Protocol-Version", "X-RestLi-Error-Response", "Location", "Content-Type"}).Draw(rt, "hdr")
				v, _ := mutateString(rt, c.Header[h], "hv")
				c.Header[h] = strings.Map(func(r rune) rune {
					if r < ' ' {
						return -1
					}
					return r
				}, v)
				if rapid.Bool().Draw(rt, "dropit") {
					delete(c.Header, h)
				}
				c.Op = "header_" + h
			case 4:
				c.Status = rapid.SampledFrom([]int{200, 201, 204, 301, 400, 404, 500, 503}).Draw(rt, "status")
				c.Op = "status"
			default:
				c.Header["X-RestLi-Error-Response"] = "true"
				c.Op = "error_header_on_success_body"
			}
		}
		if msg := checkHostileResponse(rec, c); msg != "" {
			rec.Violation("http-response", msg, c)
			rt.Fatalf("property violated (details in the replay file)")
		}
	})
}
