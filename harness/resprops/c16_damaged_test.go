package resprops

// C16, last sentence, for keys that are damaged rather than merely unrequested: "a response that mentions a key which was
// never requested produces an error rather than a silently extended result" (and "no entry lost"). A valid batch response
// (for batch_create: the ids of the created elements)
// of a complex-key resource is captured; in one of its maps (results / statuses / errors) one member name is replaced by
// the same key with a required field of its key record removed - a key nobody requested, and one whose own reader
// reports a missing required field. Served through a canned transport, neither a strict nor a lenient client may turn
// that response into a successful result (a lenient client forgives fields missing from the response, not from a key).

import (
	"fmt"
	"net/http"
	"testing"

	"pgregory.net/rapid"

	"github.com/PapaCharlie/go-restli/v2/restli"

	"verif/HARNESS/dyn"
	"verif/core/hx"
	"verif/core/refcodec"
	"verif/core/stats"
)

type damagedKeyCase struct {
	CorpusSeed int64             `json:"corpus_seed"`
	Call       dyn.Call          `json:"call"`
	Status     int               `json:"status"`
	Header     map[string]string `json:"header"`
	Body       string            `json:"body"` // the captured valid response
	Picks      []int             `json:"picks"`
}

func checkDamagedKey(rec *stats.Recorder, c damagedKeyCase) string {
	mi := dyn.FindMethod(S, c.Call.Resource, c.Call.Method)
	root, err := refcodec.ParseJSON([]byte(c.Body))
	if err != nil {
		return ""
	}
	// places where the response spells a key: the member names of the three maps, and the ids of batch_create elements
	type site struct {
		get func() string
		set func(string)
	}
	var sites []site
	for _, name := range []string{"results", "statuses", "errors"} {
		if m := root.Get(name); m != nil && m.Kind == "obj" {
			for i := range m.Obj {
				m, i := m, i
				sites = append(sites, site{func() string { return m.Obj[i].K }, func(k string) { m.Obj[i].K = k }})
			}
		}
	}
	if el := root.Get("elements"); el != nil && mi.Rest() == "batch_create" {
		for _, e := range el.Arr {
			if id := e.Get("id"); id != nil && id.Kind == "str" {
				id := id
				sites = append(sites, site{func() string { return id.Str }, func(k string) { id.Str = k }})
			}
		}
	}
	if len(sites) == 0 {
		rec.Label("skipped_no_key_in_response", 1)
		return ""
	}
	st := sites[c.Picks[0]%len(sites)]
	raw := st.get()
	kt, perr := refcodec.ParseROR2(raw)
	kn := S.Lookup(*mi.KeyType.Ref)
	var required []string
	for _, f := range S.AllFields(S.Lookup(*kn.Key)) {
		if f.Required() && perr == nil && kt.Get(f.Name) != nil {
			required = append(required, f.Name)
		}
	}
	if perr != nil || kt.Kind != "obj" || len(required) == 0 {
		rec.Label("skipped_key_without_required_field", 1)
		return ""
	}
	dropped := required[c.Picks[1]%len(required)]
	kt.Del(dropped)
	damaged := refcodec.RenderROR2(kt, refcodec.ROR2Opts{Flavour: refcodec.Header})
	st.set(damaged)
	body := refcodec.RenderJSON(root, refcodec.JSONOpts{})
	rec.Case("damaged_key", "method="+mi.Rest())
	rec.NonTrivial("damaged-key", c.Call.Resource+"."+c.Call.Method+"|"+body, func() any { return c })
	for _, strict := range []bool{false, true} {
		hr := &hostileResp{Status: c.Status, Header: c.Header, Body: body}
		cl := &restli.Client{Client: &http.Client{Transport: cannedTransport{hr}}, HostnameResolver: &restli.SimpleHostnameResolver{Hostname: getWorld("bare").baseURL("verif.test")},
			StrictResponseDeserialization: strict}
		var got *dyn.Outcome
		var cerr error
		call := c.Call
		if p, pv, stk := hx.Try(func() { got, cerr, _ = dyn.CallClient(S, contextBackground(), cl, &call, nil) }); p {
			return fmt.Sprintf("client (strict=%v) panicked on a batch response with a damaged key: %v\n%s", strict, pv, trimStack(stk))
		}
		if cerr == nil && mi.Rest() == "batch_create" && !strict {
			// (ids of created entities are not requested keys: a lenient client may accept a partially filled id, as it does
			// for the id header of a plain create - but then with every element of the response, none silently dropped)
			if el := root.Get("elements"); el != nil && got != nil && len(got.BatchCreated) == len(el.Arr) {
				continue
			}
		}
		if cerr == nil {
			return fmt.Sprintf("a batch response naming the key %q (the requested key %q without its required field %s) was turned into a successful result by a %s client: %s\n %s.%s\n response body=%s",
				damaged, raw, dropped, map[bool]string{true: "strict", false: "lenient"}[strict], hx.J(got), c.Call.Resource, c.Call.Method, hx.Q(body))
		}
	}
	return ""
}

func TestC16DamagedKeys(t *testing.T) {
	rec := stats.For("C16")
	g := keyGen()
	if c, ok := hx.Replay[damagedKeyCase]("C16", "damaged-key"); ok {
		if msg := checkDamagedKey(rec, c); msg != "" {
			rec.Violation("damaged-key", msg, c)
			t.Fatal(msg)
		}
		return
	} else if hx.Replaying() {
		t.Skip()
	}
	var ms []*dyn.MethodInfo
	for _, mi := range methods {
		switch mi.Rest() {
		case "batch_get", "batch_update", "batch_partial_update", "batch_delete", "batch_create":
			if mi.M.Kind == "REST_METHOD" && mi.KeyType != nil && isComplexKey(*mi.KeyType) {
				ms = append(ms, mi)
			}
		}
	}
	if len(ms) == 0 {
		panic("corpus has no batch method on a complex-key resource")
	}
	w := getWorld("bare")
	rapid.Check(t, func(rt *rapid.T) {
		mi := ms[pick(rt, len(ms), "method")]
		call := genCall(rt, g, mi)
		out := genOutcome(rt, g, mi, &call)
		_, err, sl, _, _ := w.do(clientConfig{Transport: "inprocess"}, &call, &out, nil)
		if err != nil || sl == nil || len(sl.wire) != 1 || sl.wire[0].Status >= 300 {
			rt.Skip()
		}
		cp := sl.wire[0]
		c := damagedKeyCase{CorpusSeed: corpusSeed, Call: call, Status: cp.Status, Body: cp.RespBody, Header: map[string]string{}}
		for k, v := range cp.RespHdr {
			if len(v) > 0 && k != "Content-Length" {
				c.Header[k] = v[0]
			}
		}
		c.Picks = rapid.SliceOfN(rapid.IntRange(0, 1<<20), 2, 2).Draw(rt, "picks")
		if msg := checkDamagedKey(rec, c); msg != "" {
			rec.Violation("damaged-key", msg, c)
			rt.Fatalf("property violated (details in the replay file)")
		}
	})
}
