package resprops

// C16 - batch calls correlate every response entry with the caller's original key.

import (
	"fmt"
	"net/url"
	"reflect"
	"strings"
	"sync"
	"testing"

	"pgregory.net/rapid"

	"verif/HARNESS/dyn"
	"verif/core/aval"
	"verif/core/hx"
	"verif/core/kf"
	"verif/core/refcodec"
	"verif/core/schema"
	"verif/core/stats"
)

type batchCase struct {
	callCase
	Reply   string    `json:"reply"` // exact subset params-changed superset
	Extra   *aval.V   `json:"extra,omitempty"`
	ExtraIn string    `json:"extra_in,omitempty"` // results (default) | errors
	Dropped []int     `json:"dropped,omitempty"`
	NewPars []*aval.V `json:"new_params,omitempty"`
}

var (
	collideOnce sync.Once
	collisions  [][2]string
)

// fnvCollisions searches pairs of distinct strings whose generated ComputeHash (typeref over string) collide.
func fnvCollisions() [][2]string {
	collideOnce.Do(func() {
		t := schema.R("vt", "TString")
		seen := map[uint32]string{}
		for i := 0; i < 300000 && len(collisions) < 12; i++ {
			s := fmt.Sprintf("k%x", i*2654435761%1000003+i)
			h := dyn.Hash(dyn.Build(S, t, aval.Str(s), dyn.BuildOpts{}))
			if o, ok := seen[h]; ok && o != s {
				collisions = append(collisions, [2]string{o, s})
			}
			seen[h] = s
		}
	})
	return collisions
}

func batchMethods() []*dyn.MethodInfo {
	var out []*dyn.MethodInfo
	for _, mi := range methods {
		switch mi.Rest() {
		case "batch_get", "batch_update", "batch_partial_update", "batch_delete":
			out = append(out, mi)
		}
	}
	return out
}

func isComplexKey(t schema.Type) bool {
	return t.Ref != nil && S.Lookup(*t.Ref).Kind == "complexkey"
}

// genKeyMultiset draws keys that may hold duplicates under key equality.
func genKeyMultiset(rt *rapid.T, g *aval.Gen, mi *dyn.MethodInfo) []*aval.V {
	kt := *mi.KeyType
	n := rapid.IntRange(1, 5).Draw(rt, "nkeys")
	if rapid.IntRange(0, 7).Draw(rt, "many_keys") == 0 {
		n = rapid.IntRange(9, 14).Draw(rt, "nkeys_many") // beyond any small-set fast path of a key set
	}
	var keys []*aval.V
	for i := 0; i < n; i++ {
		var k *aval.V
		switch rapid.IntRange(0, 9).Draw(rt, "kkind") {
		case 0:
			if len(keys) > 0 { // an exact duplicate
				k = keys[rapid.IntRange(0, len(keys)-1).Draw(rt, "dup")].Clone()
			}
		case 1:
			if len(keys) > 0 && isComplexKey(kt) { // same key part, other params
				k = keys[rapid.IntRange(0, len(keys)-1).Draw(rt, "dupp")].Clone()
				n := S.Lookup(*kt.Ref)
				if rapid.Bool().Draw(rt, "withp") {
					k.Flds["$params"] = g.Value(rt, schema.RI(*n.Params), 2)
				} else {
					delete(k.Flds, "$params")
				}
			}
		case 2:
			if kt.Ref != nil && kt.Ref.Name == "TString" && len(fnvCollisions()) > 0 { // hash-colliding keys
				pair := fnvCollisions()[rapid.IntRange(0, len(fnvCollisions())-1).Draw(rt, "coll")]
				keys = append(keys, aval.Str(pair[0]))
				k = aval.Str(pair[1])
			}
		case 3:
			if (kt.Prim == "float64" || kt.Prim == "float32") && rapid.Bool().Draw(rt, "zeros") { // +0 and -0 are the same key
				k = g.Prim(rt, kt.Prim, "z")
				k.F = rapid.SampledFrom([]string{"0", "-0"}).Draw(rt, "zsign")
			}
		case 5, 6:
			if isCaseInsensitiveKey(kt) && len(keys) > 0 { // the same id in another spelling: equal under the registered equality
				prev := keys[rapid.IntRange(0, len(keys)-1).Draw(rt, "dupcase")].Str()
				k = aval.Str(strings.Map(func(r rune) rune {
					switch {
					case r >= 'a' && r <= 'z':
						return r - 32
					case r >= 'A' && r <= 'Z':
						return r + 32
					}
					return r
				}, prev))
			} else if isCaseInsensitiveKey(kt) {
				k = aval.Str(rapid.SampledFrom([]string{"Abc", "abc", "ABC", "id-1", "ID-1", "x"}).Draw(rt, "caseid"))
			}
		case 4:
			if kt.Prim == "string" || (kt.Ref != nil && kt.Ref.Name == "TString") { // keys differing only in escaping-relevant characters
				k = aval.Str(rapid.SampledFrom([]string{"a b", "a+b", "a%20b", "a%2Bb", "a,b", "a%2Cb", "(a)", "%28a%29", "'", "''", "", "%27%27", "a:b", "a%3Ab"}).Draw(rt, "esc"))
			}
		}
		if k == nil {
			k = genKey(rt, g, kt)
		}
		keys = append(keys, k)
	}
	return keys
}

func idsFromWire(cp *capture) (string, bool) {
	uri := cp.URI
	q := ""
	if i := strings.Index(uri, "?"); i >= 0 {
		q = uri[i+1:]
	}
	if cp.Header.Get("X-Http-Method-Override") != "" {
		// tunnelled: the query is the form body or the first multipart part
		q = cp.Body
		if ct := cp.Header.Get("Content-Type"); strings.HasPrefix(ct, "multipart/") {
			if i := strings.Index(q, "\r\n\r\n"); i >= 0 {
				q = q[i+4:]
				if j := strings.Index(q, "\r\n--"); j >= 0 {
					q = q[:j]
				}
			}
		}
	}
	for _, part := range strings.Split(q, "&") {
		if strings.HasPrefix(part, "ids=") {
			return part[4:], true
		}
	}
	return "", false
}

func checkBatch(rec *stats.Recorder, c batchCase) (msg string, known string) {
	mi := dyn.FindMethod(S, c.Call.Resource, c.Call.Method)
	kt := *mi.KeyType
	w := getWorld("bare")
	keys := c.Call.Keys
	for _, kv := range c.Call.EntityMap {
		keys = append(keys, kv.K)
	}
	ident := map[string]int{}
	dup := false
	for _, k := range keys {
		id := keyIdentity(kt, k)
		ident[id]++
		if ident[id] > 1 {
			dup = true
		}
	}
	labels := []string{"method=" + mi.M.Name, "reply=" + c.Reply, fmt.Sprintf("keys=%d", min3(len(keys)))}
	if dup {
		labels = append(labels, "duplicate_keys")
	}
	if isComplexKey(kt) {
		labels = append(labels, "complex_key")
	}
	if c.Reply == "superset" && c.Extra != nil && kt.Ref != nil && kt.Ref.Name == "TString" {
		h := dyn.Hash(dyn.Build(S, kt, c.Extra, dyn.BuildOpts{}))
		for _, k := range keys {
			if dyn.Hash(dyn.Build(S, kt, k, dyn.BuildOpts{})) == h && !aval.Equal(k, c.Extra) {
				labels = append(labels, "unrequested_key_collides_with_requested")
				break
			}
		}
	}
	rec.Case(labels...)
	if len(keys) >= 2 {
		rec.NonTrivial(c.Reply, hx.J(c.Call)+c.Reply+hx.J(c.NewPars)+hx.J(c.Dropped), func() any { return c })
	}
	// the scripted reply is derived from the keys the server receives
	hook := func(inv *dyn.Invocation) *dyn.Outcome {
		o := &dyn.Outcome{HasBatch: true}
		rk := inv.Call.Keys
		for _, kv := range inv.Call.EntityMap {
			rk = append(rk, kv.K)
		}
		for i, k := range rk {
			skip := false
			for _, d := range c.Dropped {
				if d%len(rk) == i && c.Reply == "subset" {
					skip = true
				}
			}
			if skip {
				continue
			}
			rkk := k
			if c.Reply == "params-changed" && isComplexKey(kt) {
				rkk = k.Clone()
				if i < len(c.NewPars) && c.NewPars[i] != nil {
					rkk.Flds["$params"] = c.NewPars[i]
				} else {
					delete(rkk.Flds, "$params")
				}
			}
			switch i % 3 {
			case 2:
				st := int32(404)
				o.Errors = append(o.Errors, dyn.KV{K: rkk, Err: &dyn.ErrM{Status: &st, Message: sp(fmt.Sprintf("e%d", i))}})
			default:
				kv := dyn.KV{K: rkk}
				if mi.Rest() == "batch_get" {
					kv.V = markedEntity(*mi.Entity, i)
					o.Statuses = append(o.Statuses, dyn.KV{K: rkk, Status: 200 + i})
				} else {
					kv.Status = 200 + i
				}
				o.Results = append(o.Results, kv)
			}
		}
		if c.Reply == "superset" && c.Extra != nil && ident[keyIdentity(kt, c.Extra)] == 0 && c.ExtraIn == "errors" {
			// the unrequested key is mentioned in the errors map only
			st := int32(500)
			o.Errors = append(o.Errors, dyn.KV{K: c.Extra, Err: &dyn.ErrM{Status: &st, Message: sp("unrequested")}})
		} else if c.Reply == "superset" && c.Extra != nil && ident[keyIdentity(kt, c.Extra)] == 0 {
			kv := dyn.KV{K: c.Extra, Status: 299}
			if mi.Rest() == "batch_get" {
				kv.V = aval.Zero(S, *mi.Entity)
			}
			o.Results = append(o.Results, kv)
		}
		return o
	}
	var got *dyn.Outcome
	var err error
	var sl *slot
	var keep *dyn.KeepKeys
	var ret map[string]reflect.Value
	cfg := c.Config
	cfg.Transport = "inprocess"
	if p, pv, st := hx.Try(func() { got, err, sl, keep, ret = w.do(cfg, &c.Call, nil, hook) }); p {
		return fmt.Sprintf("client call panicked: %v\n%s", pv, st), ""
	}
	fail := func(format string, a ...any) (string, string) {
		wire := ""
		if len(sl.wire) > 0 {
			cp := sl.wire[len(sl.wire)-1]
			wire = fmt.Sprintf("\n wire: %s %s -> %d %s", cp.Method, cp.URI, cp.Status, hx.Q(cp.RespBody))
		}
		return fmt.Sprintf(format, a...) + fmt.Sprintf("\n %s.%s reply=%s keys=%v%s", c.Call.Resource, c.Call.Method, c.Reply, sortedCanonKeep(keys), wire), ""
	}
	if dup {
		if err == nil {
			return fail("duplicate keys (under key equality) were accepted")
		}
		if len(sl.wire) != 0 {
			return fail("duplicate keys were rejected only after %d request(s) had been sent", len(sl.wire))
		}
		return "", ""
	}
	if len(sl.wire) != 1 {
		if err != nil {
			return fail("the call failed before / without exactly one request (%d sent): %v", len(sl.wire), err)
		}
		return fail("%d requests were sent for one batch call", len(sl.wire))
	}
	// each id transmitted exactly once
	if raw, ok := idsFromWire(sl.wire[0]); !ok {
		return fail("no ids parameter on the wire")
	} else {
		tr, perr := refcodec.ParseROR2(raw)
		if perr != nil || tr.Kind != "arr" {
			return fail("ids is not a well-formed ROR2 list (%v): %s", perr, hx.Q(raw))
		}
		if len(tr.Arr) != len(keys) {
			return fail("ids holds %d entries for %d distinct keys: %s", len(tr.Arr), len(keys), hx.Q(raw))
		}
		seen := map[string]bool{}
		for _, item := range tr.Arr {
			kv, kerr := refcodec.FromTree(S, kt, item, refcodec.Opts{Bytes: refcodec.RawUTF8, ROR2: true})
			if kerr != nil {
				return fail("an id on the wire does not denote a key: %v in %s", kerr, hx.Q(raw))
			}
			id := keyIdentity(kt, kv)
			if seen[id] {
				return fail("an id is transmitted twice: %s", hx.Q(raw))
			}
			seen[id] = true
			if ident[id] != 1 {
				return fail("an id on the wire is none of the caller's keys: %s in %s", kv.Canon(), hx.Q(raw))
			}
		}
	}
	if c.Reply == "superset" && c.Extra != nil && ident[keyIdentity(kt, c.Extra)] == 0 {
		if err == nil {
			return fail("the response mentions the key %s that was never requested, and the call succeeded with %s", c.Extra.Canon(), hx.J(got))
		}
		return "", ""
	}
	if err != nil {
		return fail("the batch call failed: %v", err)
	}
	if len(sl.invocations) != 1 {
		return fail("%d resource methods invoked", len(sl.invocations))
	}
	// every response entry is filed under the caller's own key value
	orig := map[string]int{}
	for i, k := range keep.Abs {
		orig[keyIdentity(kt, k)] = i
	}
	total := 0
	for _, part := range []struct {
		name string
		kvs  []dyn.KV
	}{{"results", got.Results}, {"statuses", got.Statuses}, {"errors", got.Errors}} {
		seen := map[string]bool{}
		for _, kv := range part.kvs {
			total++
			id := keyIdentity(kt, kv.K)
			i, ok := orig[id]
			if !ok {
				return fail("%s holds an entry under %s, which is none of the caller's keys", part.name, kv.K.Canon())
			}
			if seen[id] {
				return fail("%s holds two entries for key %s", part.name, kv.K.Canon())
			}
			seen[id] = true
			// the very key value the caller supplied: identical abstract value (params included) ...
			if d := aval.Diff(keep.Abs[i], kv.K, ""); d != "" && !onlyZeroSign(keep.Abs[i], kv.K) {
				return fail("%s: the entry for key %s is filed under a re-decoded / different key value: %s", part.name, keep.Abs[i].Canon(), d)
			}
			// ... and for pointer keys the very same pointer
			if g, ok := ret[part.name+"|"+kv.K.Canon()]; ok && g.Kind() == reflect.Ptr {
				if g.Pointer() != keep.Go[i].Pointer() {
					return fail("%s: the entry for key %s is filed under a copy of the caller's key, not the caller's own key value", part.name, kv.K.Canon())
				}
			}
		}
	}
	// nothing lost, duplicated or moved: compare with what the hook produced from the received keys
	inv := sl.invocations[0]
	want := hook(inv)
	byId := func(kvs []dyn.KV) map[string]dyn.KV {
		m := map[string]dyn.KV{}
		for _, kv := range kvs {
			m[keyIdentity(kt, kv.K)] = kv
		}
		return m
	}
	for _, part := range []struct {
		name      string
		want, got []dyn.KV
	}{{"results", want.Results, got.Results}, {"statuses", want.Statuses, got.Statuses}, {"errors", want.Errors, got.Errors}} {
		if len(part.want) != len(part.got) {
			return fail("%s: the resource returned %d entries, the caller received %d", part.name, len(part.want), len(part.got))
		}
		gm := byId(part.got)
		for id, wkv := range byId(part.want) {
			g, ok := gm[id]
			if !ok {
				return fail("%s: the entry for key %s was lost", part.name, wkv.K.Canon())
			}
			if wkv.V != nil {
				// batch_get: the entity returned for this key carries a marker derived from the key's position
				if d := aval.Diff(fillDefaults(*mi.Entity, wkv.V), g.V, ""); d != "" {
					return fail("%s: the entity filed under key %s is not the one the resource returned for it (%s): got %s want %s", part.name, wkv.K.Canon(), d, g.V.Canon(), wkv.V.Canon())
				}
			}
			if wkv.Status != g.Status && !(wkv.V != nil) {
				return fail("%s: the entry for key %s carries status %d, the resource returned %d (attached to a different key?)", part.name, wkv.K.Canon(), g.Status, wkv.Status)
			}
			if part.name == "statuses" && wkv.Status != g.Status {
				return fail("statuses: key %s has %d, want %d", wkv.K.Canon(), g.Status, wkv.Status)
			}
			if d := diffErr(wkv.Err, g.Err); part.name == "errors" && d != "" {
				return fail("errors: key %s: %s", wkv.K.Canon(), d)
			}
		}
	}
	_ = total
	return "", ""
}

// markedEntity is a valid entity that differs per index in its first integer or string field (when the record has one), so
// that an entity attached to another key is visible.
func markedEntity(t schema.Type, i int) *aval.V {
	v := aval.Valid(S, t)
	if t.Ref == nil || v.Kind != "record" {
		return v
	}
	for _, f := range S.AllFields(S.Lookup(*t.Ref)) {
		switch f.Type.Prim {
		case "int32":
			v.Flds[f.Name] = aval.Int32(int32(1000 + i))
			return v
		case "int64":
			v.Flds[f.Name] = aval.Int64(int64(1000 + i))
			return v
		case "string":
			v.Flds[f.Name] = aval.Str(fmt.Sprintf("entity-%d", i))
			return v
		}
	}
	return v
}

func onlyZeroSign(a, b *aval.V) bool {
	na, nb := a.Clone(), b.Clone()
	f := func(x *aval.V) {
		if (x.Kind == "float32" || x.Kind == "float64") && x.F == "-0" {
			x.F = "0"
		}
	}
	na.Walk(f)
	nb.Walk(f)
	return aval.Equal(na, nb)
}

func sortedCanonKeep(vs []*aval.V) []string {
	out := make([]string, len(vs))
	for i, v := range vs {
		out[i] = v.Canon()
	}
	return out
}

func TestC16Batch(t *testing.T) {
	rec := stats.For("C16")
	g := keyGen()
	bms := batchMethods()
	if c, ok := hx.Replay[batchCase]("C16", "batch"); ok {
		if msg, _ := checkBatch(rec, c); msg != "" {
			rec.Violation("batch", msg, c)
			t.Fatal(msg)
		}
		return
	} else if hx.Replaying() {
		t.Skip()
	}
	rapid.Check(t, func(rt *rapid.T) {
		mi := bms[pick(rt, len(bms), "method")]
		var c batchCase
		c.CorpusSeed = corpusSeed
		c.Mount = "bare"
		c.Config.Threshold = rapid.SampledFrom([]int{0, 0, 1}).Draw(rt, "threshold")
		c.Call = dyn.Call{Resource: mi.R.Namespace, Method: mi.Func}
		for _, kt := range mi.PathKeys {
			c.Call.PathKeys = append(c.Call.PathKeys, genKey(rt, g, kt))
		}
		keys := genKeyMultiset(rt, g, mi)
		// an unrequested key in the reply whose hash collides with a requested key that is alone in its bucket
		var collidingExtra *aval.V
		if kt := *mi.KeyType; kt.Ref != nil && kt.Ref.Name == "TString" && len(fnvCollisions()) > 0 && rapid.IntRange(0, 2).Draw(rt, "extra_collides") == 0 {
			pair := fnvCollisions()[rapid.IntRange(0, len(fnvCollisions())-1).Draw(rt, "extra_coll")]
			var kept []*aval.V
			for _, k := range keys {
				if k.S != aval.Str(pair[0]).S && k.S != aval.Str(pair[1]).S {
					kept = append(kept, k)
				}
			}
			keys = append(kept, aval.Str(pair[0]))
			collidingExtra = aval.Str(pair[1])
		}
		switch mi.Rest() {
		case "batch_get", "batch_delete":
			c.Call.Keys = keys
		default:
			// a Go map cannot hold two equal non-pointer keys: duplicates are only expressible for pointer (complex) keys
			seen := map[string]bool{}
			for _, k := range keys {
				if !isComplexKey(*mi.KeyType) {
					if seen[k.Canon()] || (k.Kind == "float64" || k.Kind == "float32") && seen[strings.Replace(k.Canon(), ":-0", ":0", 1)] {
						continue
					}
					seen[k.Canon()] = true
					seen[strings.Replace(k.Canon(), ":-0", ":0", 1)] = true
				}
				kv := dyn.KV{K: k}
				if mi.Rest() == "batch_update" {
					kv.V = g.Value(rt, *mi.Entity, 2)
				} else {
					kv.P = genPatch(rt, g, *mi.Entity, annotatedTop(mi))
				}
				c.Call.EntityMap = append(c.Call.EntityMap, kv)
			}
		}
		if mi.Params != nil {
			c.Call.Params = g.Value(rt, mi.ParamsType(), 1)
		}
		c.Reply = rapid.SampledFrom([]string{"exact", "subset", "params-changed", "superset"}).Draw(rt, "reply")
		if collidingExtra != nil {
			c.Reply = "superset"
		}
		switch c.Reply {
		case "subset":
			c.Dropped = rapid.SliceOfN(rapid.IntRange(0, 10), 1, 2).Draw(rt, "dropped")
		case "superset":
			c.Extra = genKey(rt, g, *mi.KeyType)
			if collidingExtra != nil {
				c.Extra = collidingExtra
			}
			if rapid.IntRange(0, 2).Draw(rt, "extra_in_errors") == 0 {
				c.ExtraIn = "errors"
			}
		case "params-changed":
			if isComplexKey(*mi.KeyType) {
				n := S.Lookup(*mi.KeyType.Ref)
				for range keys {
					if rapid.Bool().Draw(rt, "np") {
						c.NewPars = append(c.NewPars, g.Value(rt, schema.RI(*n.Params), 2))
					} else {
						c.NewPars = append(c.NewPars, nil)
					}
				}
			}
		}
		msg, known := checkBatch(rec, c)
		if known != "" {
			rec.Known(known, kf.What(known), c)
			return
		}
		if msg != "" {
			rec.Violation("batch", msg, c)
			rt.Fatalf("property violated (details in the replay file)")
		}
	})
}

var _ = url.Parse
