package resprops

// C17 - shared objects are safe for concurrent use and requests do not interfere.
// Built with -race: the race detector is half of the oracle (the driver turns a report into a
// violation); the other half is the serial differential below.

import (
	"sync/atomic"
	"net/http"
	"errors"
	"fmt"
	"math/rand"
	"net/url"
	"runtime"
	"sync"
	"testing"

	"github.com/PapaCharlie/go-restli/v2/d2"
	"github.com/PapaCharlie/go-restli/v2/restli"
	"pgregory.net/rapid"

	"verif/HARNESS/dyn"
	"verif/core/hx"
	"verif/core/schema"
	"verif/core/stats"
)

type concCase struct {
	CorpusSeed int64      `json:"corpus_seed"`
	Procs      int        `json:"gomaxprocs"`
	Transport  string     `json:"transport"`
	Threshold  int        `json:"threshold"`
	ShareErr   bool       `json:"share_error_object"`
	Mount      string     `json:"mount,omitempty"`
	Calls      []callCase `json:"calls"`
}

func checkConcurrent(rec *stats.Recorder, c concCase) string {
	old := runtime.GOMAXPROCS(c.Procs)
	defer runtime.GOMAXPROCS(old)
	if c.Mount == "" {
		c.Mount = "bare"
	}
	w := getWorld(c.Mount)
	cfg := clientConfig{Threshold: c.Threshold, Transport: c.Transport}
	rec.Case("mount="+c.Mount, fmt.Sprintf("gomaxprocs=%d", c.Procs), "transport="+c.Transport, fmt.Sprintf("concurrent_calls=%d", len(c.Calls)/8*8))
	rec.NonTrivial("concurrent", hx.J(c), func() any {
		// samples stay small: the first two calls only
		s := c
		if len(s.Calls) > 2 {
			s.Calls = s.Calls[:2]
		}
		return s
	})
	shared := sharedErrM().ToGo() // no message: the library must default it on a copy
	type res struct {
		got *dyn.Outcome
		err error
		sl  *slot
		pan string
	}
	results := make([]res, len(c.Calls))
	start := make(chan struct{})
	var wg sync.WaitGroup
	for i := range c.Calls {
		wg.Add(1)
		go func(i int) {
			defer wg.Done()
			cc := &c.Calls[i]
			scripted := cc.Outcome
			if c.ShareErr && i%3 == 0 {
				scripted = dyn.Outcome{GoErr: shared}
			}
			<-start
			if p, pv, st := hx.Try(func() {
				results[i].got, results[i].err, results[i].sl, _, _ = w.do(cfg, &cc.Call, &scripted, func(inv *dyn.Invocation) *dyn.Outcome {
					runtime.Gosched() // widen the window between decode and encode
					return &scripted
				})
			}); p {
				results[i].pan = fmt.Sprintf("%v\n%s", pv, st)
			}
		}(i)
	}
	close(start)
	wg.Wait()
	for i := range c.Calls {
		cc := &c.Calls[i]
		r := results[i]
		if r.pan != "" {
			return fmt.Sprintf("call %d panicked: %s", i, r.pan)
		}
		mi := dyn.FindMethod(S, cc.Call.Resource, cc.Call.Method)
		if msg := viewsAgree(r.sl); msg != "" {
			return fmt.Sprintf("call %d of %d concurrent calls: %s", i, len(c.Calls), msg)
		}
		if c.ShareErr && i%3 == 0 {
			var rerr *restli.Error
			if r.err == nil || !errors.As(r.err, &rerr) {
				return fmt.Sprintf("call %d: the shared error response did not arrive as a Rest.li error: %v", i, r.err)
			}
			if rerr.Status == nil || *rerr.Status != 409 || !sharedMarkIntact(rerr) {
				return fmt.Sprintf("call %d: the shared error response arrived altered: %s", i, hx.J(dyn.ErrFromGo(&rerr.ErrorResponse)))
			}
			continue
		}
		if e := cc.Outcome.Err; e != nil {
			// this call's own error response (distinct per call): status and message must be this call's, not a neighbour's
			var rerr *restli.Error
			if r.err == nil || !errors.As(r.err, &rerr) {
				return fmt.Sprintf("call %d: its error response did not arrive as a Rest.li error: %v", i, r.err)
			}
			if d := diffErr(e, dyn.ErrFromGo(&rerr.ErrorResponse)); d != "" {
				return fmt.Sprintf("call %d of %d concurrent calls received an error response that is not its own: %s", i, len(c.Calls), d)
			}
			if r.sl != nil && len(r.sl.wire) > 0 && e.Status != nil && r.sl.wire[len(r.sl.wire)-1].Status != int(*e.Status) {
				return fmt.Sprintf("call %d: HTTP status %d, its error response has %d", i, r.sl.wire[len(r.sl.wire)-1].Status, *e.Status)
			}
			continue
		}
		if msg := judgeCall(mi, cc, r.got, r.err, r.sl); msg != "" {
			return fmt.Sprintf("call %d of %d concurrent calls does not have the outcome of its serial execution: %s", i, len(c.Calls), msg)
		}
		// no leakage of the response status: the protocol's default for the method, or this call's own override
		if r.sl != nil && len(r.sl.wire) > 0 {
			want := defaultStatus(mi)
			if cc.Outcome.StatusOverride != 0 {
				want = cc.Outcome.StatusOverride
			}
			if cr := cc.Outcome.Created; cr != nil && cr.Status != 0 {
				want = cr.Status
			}
			if got := r.sl.wire[len(r.sl.wire)-1].Status; got != want {
				return fmt.Sprintf("call %d of %d concurrent calls (%s.%s) was answered %d, its serial execution answers %d", i, len(c.Calls), cc.Call.Resource, cc.Call.Method, got, want)
			}
		}
	}
	if shared.Message != nil || shared.Status == nil || *shared.Status != 409 {
		return "the error object shared between concurrent requests was modified by the library: " + hx.J(dyn.ErrFromGo(shared))
	}
	return ""
}

var shareSeq int

func TestC17Concurrent(t *testing.T) {
	rec := stats.For("C17")
	g := keyGen()
	if c, ok := hx.Replay[concCase]("C17", "concurrent"); ok {
		for i := 0; i < 50; i++ {
			if msg := checkConcurrent(rec, c); msg != "" {
				rec.Violation("concurrent", msg, c)
				t.Fatal(msg)
			}
		}
		return
	} else if hx.Replaying() {
		t.Skip()
	}
	rapid.Check(t, func(rt *rapid.T) {
		var c concCase
		c.CorpusSeed = corpusSeed
		c.Procs = rapid.SampledFrom([]int{1, 2, 4, 16}).Draw(rt, "procs")
		c.Transport = rapid.SampledFrom([]string{"inprocess", "inprocess", "http"}).Draw(rt, "transport")
		c.Threshold = rapid.SampledFrom([]int{0, 1}).Draw(rt, "threshold")
		c.ShareErr = rapid.Bool().Draw(rt, "share")
		c.Mount = rapid.SampledFrom([]string{"filtered", "bare", "filtered"}).Draw(rt, "mount")
		n := rapid.IntRange(2, 32).Draw(rt, "n")
		for i := 0; i < n; i++ {
			mi := methods[pick(rt, len(methods), "method")]
			cc := callCase{CorpusSeed: corpusSeed, Mount: c.Mount, Config: clientConfig{Threshold: c.Threshold, Transport: c.Transport}}
			cc.Call = genCall(rt, g, mi)
			cc.Outcome = genOutcome(rt, g, mi, &cc.Call)
			switch rapid.IntRange(0, 5).Draw(rt, "own_outcome") {
			case 0:
				// an error response of its own (distinct per call)
				st := int32(400 + i)
				cc.Outcome = dyn.Outcome{Err: (&dyn.ErrM{Status: &st, Message: sp(fmt.Sprintf("error of call %d", i))}).Restrict()}
			case 1:
				// a status override of its own (where the exchange stays well-formed, as in C08)
				if mi.M.Kind == "REST_METHOD" && mi.Rest() != "create" && defaultStatus(mi) != http.StatusNoContent {
					cc.Outcome.StatusOverride = rapid.SampledFrom([]int{200, 201, 202, 206}).Draw(rt, "ostatus")
				}
			}
			c.Calls = append(c.Calls, cc)
			// resource code handing one and the same response object to overlapping requests: the call is repeated 1-3
			// times, all copies scripted to return the very objects the first one builds (the library may read them, not
			// write them - the race detector decides)
			if cc.Outcome.Err == nil && rapid.IntRange(0, 3).Draw(rt, "shared_result") == 0 {
				shareSeq++
				key := fmt.Sprintf("shared-%d-%d", corpusSeed, shareSeq)
				c.Calls[len(c.Calls)-1].Outcome.ShareKey = key
				for k := rapid.IntRange(1, 3).Draw(rt, "copies"); k > 0; k-- {
					c.Calls = append(c.Calls, c.Calls[len(c.Calls)-1])
				}
			}
		}
		if msg := checkConcurrent(rec, c); msg != "" {
			rec.Violation("concurrent", msg, c)
			rt.Fatalf("property violated (details in the replay file)")
		}
	})
}

// ---------------------------------------------------------------------------------------------
// D2 resolver: concurrent resolution while announcements change

func TestC17D2(t *testing.T) {
	rec := stats.For("C17")
	if hx.Replaying() {
		t.Skip()
	}
	d2.Logger.SetOutput(discard{})
	rapid.Check(t, func(rt *rapid.T) {
		procs := rapid.SampledFrom([]int{1, 2, 4, 16}).Draw(rt, "procs")
		old := runtime.GOMAXPROCS(procs)
		defer runtime.GOMAXPROCS(old)
		nres := rapid.IntRange(2, 16).Draw(rt, "resolvers")
		nev := rapid.IntRange(0, 20).Draw(rt, "events")
		rec.Case("d2", fmt.Sprintf("gomaxprocs=%d", procs))
		rec.NonTrivial("d2", fmt.Sprintf("d2|%d|%d|%d", procs, nres, nev), func() any {
			return map[string]any{"gomaxprocs": procs, "resolvers": nres, "uri_events": nev}
		})
		d2.VerifSetRng(rand.New(rand.NewSource(int64(rapid.IntRange(1, 1000).Draw(rt, "seed")))))
		c := &d2.Client{}
		uris := d2.VerifNewServiceUris(d2.UrisPath("cl"))
		announce := func(host string, w float64) []byte {
			return []byte(fmt.Sprintf(`{"weights":{"http://%s:80/ctx":%v},"clusterName":"cl"}`, host, w))
		}
		first := announce("h0", 1)
		uris = c.VerifHandleUriUpdate(uris, d2.TreeCacheEvent{Path: d2.UrisPath("cl") + "/n0", Data: &first})
		c.VerifSeed("svc", &d2.Service{ServiceName: "svc", ClusterName: "cl", PrioritizedSchemes: []string{"http"}}, uris)
		events := make(chan d2.TreeCacheEvent)
		done := make(chan struct{})
		go func() { c.VerifWaitForUriUpdates("cl", events); close(done) }()
		var wg sync.WaitGroup
		errs := make(chan string, nres+2)
		start := make(chan struct{})
		for i := 0; i < nres; i++ {
			wg.Add(1)
			go func() {
				defer wg.Done()
				<-start
				for j := 0; j < 20; j++ {
					u, err := c.ResolveHostnameAndContextForQuery("svc", &url.URL{})
					if err != nil {
						errs <- "resolution failed although a host is announced at all times: " + err.Error()
						return
					}
					if u.Scheme != "http" || u.Path != "/ctx" || !map[string]bool{"h0:80": true, "h1:80": true, "h2:80": true, "h3:80": true}[u.Host] {
						errs <- "resolved a host that was never announced: " + u.String()
						return
					}
				}
			}()
		}
		close(start)
		for j := 0; j < nev; j++ {
			b := announce(fmt.Sprintf("h%d", 1+j%3), float64(1+j%4))
			events <- d2.TreeCacheEvent{Path: d2.UrisPath("cl") + fmt.Sprintf("/n%d", 1+j%3), Data: &b}
		}
		wg.Wait()
		close(events)
		<-done
		// quiescent: every announcement has been applied; resolutions return exactly the hosts announced last per node
		final := map[string]bool{"h0:80": true}
		for j := 0; j < nev; j++ {
			final[fmt.Sprintf("h%d:80", 1+j%3)] = true
		}
		seen := map[string]bool{}
		for j := 0; j < 200; j++ {
			u, err := c.ResolveHostnameAndContextForQuery("svc", &url.URL{})
			if err != nil {
				errs <- "resolution failed after the announcements were applied: " + err.Error()
				break
			}
			if !final[u.Host] {
				errs <- fmt.Sprintf("after %d announcements were applied a host outside the announced set %v was resolved: %s", nev, final, u.String())
				break
			}
			seen[u.Host] = true
		}
		if len(errs) == 0 && len(seen) != len(final) {
			// 200 draws over at most 4 hosts with weights 1-4 of 10: missing one has probability < (9/10)^200
			errs <- fmt.Sprintf("after the announcements were applied only %v of the announced hosts %v are ever resolved (an announcement applied concurrently with resolutions was lost)", seen, final)
		}
		select {
		case m := <-errs:
			rec.Violation("d2", m, map[string]any{"resolvers": nres, "events": nev})
			rt.Fatalf("property violated (details in the replay file)")
		default:
		}
	})
}

type discard struct{}

func (discard) Write(p []byte) (int, error) { return len(p), nil }

// ---------------------------------------------------------------------------------------------
// a handler is a snapshot: resources may be registered on the Server while a handler obtained earlier serves requests

func TestC17RegistrationWhileServing(t *testing.T) {
	rec := stats.For("C17")
	if hx.Replaying() {
		t.Skip()
	}
	rounds := 4
	for round := 0; round < rounds; round++ {
		w := &world{mount: "bare"}
		w.server = restli.NewServer()
		sl := &slot{hook: benignHook}
		w.slots.Store("*", sl)
		// rounds 0/1: the first half (or just one) of the resources is registered before the handler is taken; rounds 2/3:
		// only the sub-resources are - their parents then exist in the routing tree as nodes without any method (all
		// routing maps empty) and are registered, while the earlier handler serves, afterwards
		var first, later []*schema.Resource
		if round < 2 {
			half := len(S.Resources) / 2
			if round%2 == 1 {
				half = 1 // almost every routing map is still empty when the handler is taken
			}
			first, later = S.Resources[:half], S.Resources[half:]
		} else {
			for _, r := range S.Resources {
				if len(r.Segments) > 1 {
					first = append(first, r)
				} else {
					later = append(later, r)
				}
			}
			if round == 3 && len(later) > 1 {
				first, later = append(first, later[:len(later)/2]...), later[len(later)/2:]
			}
		}
		for _, r := range first {
			dyn.Register(w.server, r, dyn.NewMock(S, r, w.script))
		}
		h := w.server.Handler()
		var paths []string
		for _, r := range S.Resources {
			paths = append(paths, "/"+r.Segments[0].Name)
		}
		// three lookups per root path: the finder map, the method map and the action map of the node
		type probe struct{ verb, target string }
		var probes []probe
		for _, p := range paths {
			probes = append(probes, probe{"GET", p + "?q=nosuch"}, probe{"GET", p}, probe{"POST", p + "?action=nosuch"})
		}
		ask := func(pr probe) int {
			rr := newRecorder()
			req, _ := http.NewRequest(pr.verb, "http://verif.test"+pr.target, nil)
			req.Header.Set("X-RestLi-Protocol-Version", "2.0.0")
			h.ServeHTTP(rr, req)
			return rr.Code
		}
		before := map[probe]int{}
		for _, pr := range probes {
			before[pr] = ask(pr)
		}
		var wg sync.WaitGroup
		stop := make(chan struct{})
		var bad atomic.Value
		for g := 0; g < 4; g++ {
			wg.Add(1)
			go func(g int) {
				defer wg.Done()
				for i := 0; ; i++ {
					select {
					case <-stop:
						return
					default:
					}
					pr := probes[(i*7+g)%len(probes)]
					if code := ask(pr); code != before[pr] {
						bad.Store(fmt.Sprintf("%s %s on a handler obtained before was answered %d, then %d after resources were registered on the server (round %d)", pr.verb, pr.target, before[pr], code, round))
					}
				}
			}(g)
		}
		for _, r := range later {
			dyn.Register(w.server, r, dyn.NewMock(S, r, w.script))
			runtime.Gosched()
		}
		close(stop)
		wg.Wait()
		rec.Case("registration_while_serving")
		rec.NonTrivial("registration-while-serving", fmt.Sprintf("reg|%d|%d", round, len(first)), func() any {
			return map[string]any{"round": round, "resources_before_handler": len(first), "registered_while_serving": len(later)}
		})
		if m, _ := bad.Load().(string); m != "" {
			rec.Violation("registration-while-serving", m, map[string]any{"round": round})
			t.Fatal(m)
		}
	}
}
