package resprops

// C15 through the generated clients: "the request URL ... its path is the context path followed by the resource path with
// the root resource segment appearing exactly once" for resolvers whose context path ends with the root resource name, or
// merely shares a prefix with it. urlprops checks the library's URL construction for any root name it is handed; which
// root name a generated client hands it (sub-resources three deep included) is only visible here: the path of the request
// that reaches the wire is compared with the skeleton of the resource path (names of the path segments in order, one key
// segment after every keyed parent), placed after the expected context.

import (
	"fmt"
	"strings"
	"testing"

	"pgregory.net/rapid"

	"verif/HARNESS/dyn"
	"verif/core/hx"
	"verif/core/stats"
)

func checkGeneratedURL(rec *stats.Recorder, c callCase) string {
	mi := dyn.FindMethod(S, c.Call.Resource, c.Call.Method)
	w := getWorld(c.Mount)
	root := mi.R.Segments[0].Name
	labels := []string{fmt.Sprintf("depth=%d", len(mi.R.Segments))}
	switch {
	case c.Config.CtxRoot == "":
		labels = append(labels, "context=plain")
	case c.Config.CtxRoot == root || strings.HasSuffix(c.Config.CtxRoot, "/"+root):
		labels = append(labels, "context=ends_with_root")
	default:
		labels = append(labels, "context=shares_prefix_with_root")
	}
	rec.Case(labels...)
	if len(mi.R.Segments) > 1 || c.Config.CtxRoot != "" {
		rec.NonTrivial("generated-url", "url|"+hx.J(c.Call)+hx.J(c.Config)+c.Mount, func() any { return c })
	}
	var sl *slot
	if p, pv, st := hx.Try(func() { _, _, sl, _, _ = w.do(c.Config, &c.Call, &c.Outcome, nil) }); p {
		return fmt.Sprintf("client call panicked: %v\n%s", pv, st)
	}
	if sl == nil || len(sl.wire) == 0 {
		return "" // nothing was sent (a client-side rejection is C02's and C07's subject)
	}
	cp := sl.wire[0]
	path, _, _ := strings.Cut(cp.URI, "?")
	// expected context: the resolver's path, minus a final segment that is the root resource name
	ctx := strings.TrimSuffix(w.baseURLFor("verif.test", c.Config).Path, "/")
	if ctx == "/"+root || strings.HasSuffix(ctx, "/"+root) {
		ctx = strings.TrimSuffix(ctx, "/"+root)
	}
	fail := func(format string, a ...any) string {
		return fmt.Sprintf(format, a...) + fmt.Sprintf("\n %s.%s resolver path=%q root resource=%q segments=%d\n wire: %s %s", c.Call.Resource, c.Call.Method,
			w.baseURLFor("verif.test", c.Config).Path, root, len(mi.R.Segments), cp.Method, cp.URI)
	}
	if !strings.HasPrefix(path, ctx+"/") {
		return fail("the request path does not start with the context path %q", ctx)
	}
	segs := strings.Split(strings.TrimPrefix(path, ctx+"/"), "/")
	i := 0
	for k, sg := range mi.R.Segments {
		if i >= len(segs) || segs[i] != sg.Name {
			got := "nothing"
			if i < len(segs) {
				got = fmt.Sprintf("%q", segs[i])
			}
			return fail("after the context path %q, path segment %d is %s, want the resource name %q (resource path: context, then every resource name once, a key after each keyed parent)", ctx, i, got, sg.Name)
		}
		i++
		if sg.Key != nil && k < len(mi.R.Segments)-1 {
			if i >= len(segs) {
				return fail("the key of parent %q is missing from the path", sg.Name)
			}
			i++
		}
	}
	rest := len(segs) - i
	if last := mi.R.Last(); rest > 1 || (rest == 1 && last.Key == nil) {
		return fail("%d segment(s) follow the last resource name %q", rest, last.Name)
	}
	return ""
}

func TestC15GeneratedClient(t *testing.T) {
	rec := stats.For("C15")
	g := keyGen()
	if c, ok := hx.Replay[callCase]("C15", "generated-url"); ok {
		if msg := checkGeneratedURL(rec, c); msg != "" {
			rec.Violation("generated-url", msg, c)
			t.Fatal(msg)
		}
		return
	} else if hx.Replaying() {
		t.Skip()
	}
	var nested []*dyn.MethodInfo
	for _, mi := range methods {
		if len(mi.R.Segments) > 1 {
			nested = append(nested, mi)
		}
	}
	rapid.Check(t, func(rt *rapid.T) {
		mi := methods[pick(rt, len(methods), "method")]
		if len(nested) > 0 && rapid.IntRange(0, 2).Draw(rt, "nested") > 0 {
			mi = nested[pick(rt, len(nested), "nested_method")]
		}
		root := mi.R.Segments[0].Name
		c := callCase{CorpusSeed: corpusSeed}
		c.Mount = rapid.SampledFrom([]string{"bare", "prefix"}).Draw(rt, "mount")
		c.Config.Threshold = rapid.SampledFrom([]int{0, 0, 1}).Draw(rt, "threshold")
		c.Config.Transport = "inprocess"
		c.Config.CtxRoot = rapid.SampledFrom([]string{"", root, root, "v1/" + root, root + "x", "x" + root, root[:len(root)-1], mi.R.Last().Name}).Draw(rt, "ctx")
		c.Call = genCall(rt, g, mi)
		c.Outcome = genOutcome(rt, g, mi, &c.Call)
		if msg := checkGeneratedURL(rec, c); msg != "" {
			rec.Violation("generated-url", msg, c)
			rt.Fatalf("property violated (details in the replay file)")
		}
	})
}
