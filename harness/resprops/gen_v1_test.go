//verif:v1only the root module's ErrorResponse has no `code` field: the marker of C17's shared error object travels in exceptionClass

package resprops

import (
	"github.com/PapaCharlie/go-restli/v2/restli"

	"verif/HARNESS/dyn"
)

// sharedErrM: the error object C17 shares between concurrent requests (status + a marker field, no message).
func sharedErrM() *dyn.ErrM { return &dyn.ErrM{Status: ip(409), ExceptionClass: sp("SHARED")} }

func sharedMarkIntact(rerr *restli.Error) bool {
	return rerr.ExceptionClass != nil && *rerr.ExceptionClass == "SHARED"
}
